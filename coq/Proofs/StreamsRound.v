(* The good round on the two-endpoint system of Model/Streams.v (property C01, progress clause):
   lose every frame of the pool; emit on both sides until nothing more is emitted; deliver every
   frame; acknowledge every frame.  The phases are projected on each flow and closed by the
   per-flow lemmas of Proofs/StreamsLive.v. *)
From Coq Require Import List NArith ZArith Bool Lia.
From GQ Require Import Lib.Base Lib.Slice Model.SendBuf Model.RecvBuf Model.Streams.
From GQ Require Import Proofs.Streams Proofs.StreamsSys Proofs.StreamsLive.
From GQ Require Model.StreamCtl.
Import ListNotations.
Local Open Scope N_scope.

Arguments N.add : simpl never.
Arguments N.sub : simpl never.
Arguments N.min : simpl never.
Arguments N.max : simpl never.

Definition seqN (n : nat) : list N := map N.of_nat (seq 0 n).

(* ---- one flow operation inside the system *)
Definition same_rest (s s' : sys) : Prop :=
  sy_w s' = sy_w s /\ sy_dirs s' = sy_dirs s /\ sy_cur0 s' = sy_cur0 s /\ sy_cur1 s' = sy_cur1 s /\
  sy_kbi s' = sy_kbi s /\ sy_kuni s' = sy_kuni s /\ sy_closed s' = sy_closed s.

Lemma on_flow_gen s key o s' fr out :
  on_flow s key o = Some (s', fr, out) ->
  exists fl fl', alookup (sy_flows s) key = Some fl /\ flow_step (cof key) fl o = (fl', fr, out) /\
    sy_flows s' = aupdate (sy_flows s) key fl' /\ sy_pool s' = sy_pool s ++ map (fun f => (key, f)) fr /\ same_rest s s'.
Proof.
  unfold on_flow. destruct (alookup (sy_flows s) key) as [fl|] eqn:El; [|discriminate].
  destruct (flow_step (cof key) fl o) as [[fl' fr0] out0] eqn:Es. intro E. injection E as <- <- <-.
  exists fl, fl'. split; [reflexivity|]. split; [exact Es|]. split; [reflexivity|]. split; [reflexivity|].
  unfold same_rest. cbn. tauto.
Qed.

Lemma on_flow_some s key o fl :
  alookup (sy_flows s) key = Some fl -> exists s' fr out, on_flow s key o = Some (s', fr, out).
Proof.
  intro El. unfold on_flow. rewrite El. destruct (flow_step (cof key) fl o) as [[fl' fr0] out0]. eauto.
Qed.

(* ---- a calm system: open, no reset or stop anywhere, written lengths within the windows *)
Definition flow_quiet (fl : flow) : Prop := ~ is_reset (fl_snd fl) /\ wr (fl_snd fl) <= md (fl_snd fl).
Definition is_frs (f : fframe) : Prop := exists off len fin d, f = FrS off len fin d.

Definition Calm (s : sys) : Prop :=
  sy_closed s = false /\ SysInv s /\
  (forall key fl, alookup (sy_flows s) key = Some fl -> flow_quiet fl) /\
  (forall key f, In (key, f) (sy_pool s) -> is_frs f /\ exists fl, alookup (sy_flows s) key = Some fl).

Lemma calm_round_ok s key fl : Calm s -> alookup (sy_flows s) key = Some fl -> round_ok (cof key) fl (proj key (sy_pool s)).
Proof. intros (_ & HI & HQ & _) El. destruct (HQ _ _ El) as [A B]. split; [apply HI; exact El|split; assumption]. Qed.

(* a flow step that keeps the flow quiet and puts only STREAM frames on the wire keeps the system calm *)
Lemma on_flow_calm s key o s' fr out :
  Calm s -> on_flow s key o = Some (s', fr, out) -> justified (proj key (sy_pool s)) o ->
  (forall fl fl', alookup (sy_flows s) key = Some fl -> flow_step (cof key) fl o = (fl', fr, out) ->
                  flow_quiet fl' /\ Forall is_frs fr) ->
  Calm s'.
Proof.
  intros (Hc & HI & HQ & HP) E Hj Hstep. pose proof (on_flow_inv _ _ _ _ _ _ HI E Hj) as HI'.
  destruct (on_flow_gen _ _ _ _ _ _ E) as (fl & fl' & El & Es & Ef & Ep & Hr).
  destruct (Hstep _ _ El Es) as [Hq Hfr].
  split; [destruct Hr as (_ & _ & _ & _ & _ & _ & R); congruence|]. split; [exact HI'|]. split.
  - intros k2 fl2. rewrite Ef. destruct (N.eq_dec k2 key) as [->|NE].
    + rewrite (alookup_aupdate_same _ _ _ _ El). intro H. injection H as <-. exact Hq.
    + rewrite (alookup_aupdate_other _ _ _ _ NE). apply HQ.
  - intros k2 f Hin. rewrite Ep in Hin. rewrite Ef. apply in_app_or in Hin.
    assert (Look : forall k3, (exists x, alookup (sy_flows s) k3 = Some x) -> exists x, alookup (aupdate (sy_flows s) key fl') k3 = Some x).
    { intros k3 [x Hx]. destruct (N.eq_dec k3 key) as [->|NE]; [rewrite (alookup_aupdate_same _ _ _ _ El); eauto|rewrite (alookup_aupdate_other _ _ _ _ NE); eauto]. }
    destruct Hin as [Hin|Hin].
    + destruct (HP _ _ Hin) as [A B]. split; [exact A|apply Look; exact B].
    + apply in_map_iff in Hin. destruct Hin as (f0 & Hq0 & Hf0). injection Hq0 as <- <-.
      rewrite Forall_forall in Hfr. split; [apply Hfr; exact Hf0|apply Look; eauto].
Qed.

Lemma nth_mid {A} (pre post : list A) x : nthN (pre ++ x :: post) (lenN pre) = Some x.
Proof.
  unfold nthN, lenN. rewrite Nnat.Nat2N.id. rewrite nth_error_app2 by lia. now rewrite PeanoNat.Nat.sub_diag.
Qed.

Lemma run_app c : forall ops1 fl P ops2,
  run c fl P (ops1 ++ ops2) = let '(fl1, P1) := run c fl P ops1 in run c fl1 P1 ops2.
Proof.
  induction ops1 as [|o r IH]; intros fl P ops2; cbn [run app]; [reflexivity|].
  destruct (flow_step c fl o) as [[fl' new] out]. apply IH.
Qed.

(* ------------------------------------------------------------------ *)
(* deliver everything: the phase seen by each flow *)

(* the state of flow [key] after the system has delivered the frames [pre] of the pool *)
Definition delivered_upto (s0 s : sys) (pre : list (N * fframe)) : Prop :=
  sy_pool s = sy_pool s0 /\
  forall key fl0, alookup (sy_flows s0) key = Some fl0 ->
    alookup (sy_flows s) key =
      Some (fst (run (cof key) fl0 (proj key (sy_pool s0)) (flat_map deliver_op (proj key pre)))).

Lemma deliver_noerr c fl P off len fin d fl' new out :
  FI c fl P -> LI fl P -> ~ is_reset (fl_snd fl) -> In (FrS off len fin d) P ->
  flow_step c fl (FDeliverS off d fin) = (fl', new, out) -> fo_err out = false.
Proof.
  intros HFI HLI Hnr Hin E.
  destruct (deliver_step _ _ _ _ _ _ _ _ _ _ HFI HLI Hnr Hin E) as (_ & D2 & _ & D4 & D5).
  unfold flow_step in E. cbv zeta in E.
  destruct (rc_inset (fl_rcv fl)); [|injection E as _ _ <-; reflexivity].
  destruct (rc_recv_data (fl_rcv fl) off d fin) as [[r' fresh]|e] eqn:Er; injection E as Efl _ <-; [reflexivity|].
  (* an error would have left the flow unchanged although the recver was open: impossible *)
  exfalso. destruct (no_reset_rcv _ _ _ HFI Hnr) as [Ho|Hd].
  - destruct (D5 Ho) as (C1 & C2 & C3). subst fl'.
    unfold rc_recv_data in Er.
    pose proof HFI as [(Hok & HF & _) HR]. specialize (HF _ Hin). cbn [frame_ok] in HF. destruct HF as (F1 & F2 & F3 & _).
    pose proof HLI as ((L1 & _) & HLR & HM). specialize (L1 _ _ _ _ Hin).
    assert (Hl : lenN d = len) by (rewrite F1; apply lenN_slice).
    destruct (sent_spec _ Hok) as (S1 & _). pose proof Hok as [[_ Hsz _] _].
    assert (Hmd : off + len <= rc_maxsd (fl_rcv fl)) by (unfold md in HM; lia).
    pose proof HR as (R1 & R2 & _ & R4 & _). rewrite Hl in Er.
    destruct Ho as [Ho|[f Ho]]; rewrite Ho in Er, R4.
    + destruct fin.
      * destruct (F3 eq_refl) as (G1 & _). cbn [rc_wake] in Er.
        destruct (N.ltb_spec (rc_maxsd (fl_rcv fl)) (off + len)); [lia|].
        destruct (N.ltb_spec (off + len) (largest (rc_buf (fl_rcv fl)))); [unfold wr in *; lia|].
        destruct (recv _ _ _). destruct (all_rcvd _ _); discriminate.
      * destruct (N.ltb_spec (rc_maxsd (fl_rcv fl)) (off + len)); [lia|].
        destruct (recv _ _ _). destruct (is_readable _); cbn [rc_wake] in Er; discriminate.
    + destruct R4 as (A1 & _). unfold wr in *.
      destruct (N.ltb_spec f (off + len)); [lia|].
      assert (Hfe : fin && negb (off + len =? f) = false).
      { destruct fin; [|reflexivity]. destruct (F3 eq_refl) as (G1 & _). cbn [andb]. apply negb_false_iff. apply N.eqb_eq. lia. }
      rewrite Hfe in Er. destruct (recv _ _ _). destruct (is_readable _); cbn [rc_wake] in Er; destruct (all_rcvd _ _); discriminate.
  - pose proof (D4 Hd) as Q. subst fl'. unfold rc_recv_data in Er.
    destruct Hd as [[f Hd]|Hd]; rewrite Hd in Er; discriminate.
Qed.

Lemma Calm_same s s' :
  sy_flows s' = sy_flows s -> sy_pool s' = sy_pool s -> sy_closed s' = sy_closed s -> Calm s -> Calm s'.
Proof.
  intros E1 E2 E3 (Hc & HI & HQ & HP). split; [congruence|]. split; [apply (SysInv_same s s'); [split; assumption|exact HI]|].
  rewrite E1, E2. split; assumption.
Qed.

Lemma run_snoc_fst c fl P ops o :
  fst (run c fl P (ops ++ [o])) = fst (fst (flow_step c (fst (run c fl P ops)) o)).
Proof.
  rewrite run_app. destruct (run c fl P ops) as [fl1 P1]. cbn [run fst].
  destruct (flow_step c fl1 o) as [[fl' new] out]. reflexivity.
Qed.

(* ---- a phase that walks the whole pool, one pool-indexed operation per frame *)
Section Phase.
  Variable mk : N -> op.
  Variable opf : fframe -> list fop.
  Hypothesis opf_ctl : forall f, ~ is_frs f -> opf f = [].
  Hypothesis Hstep : forall s i key off len fin d s' obs,
    Calm s -> nthN (sy_pool s) i = Some (key, FrS off len fin d) -> sys_step s (mk i) = (s', obs) ->
    Calm s' /\ sy_pool s' = sy_pool s /\
    (forall k2, k2 <> key -> alookup (sy_flows s') k2 = alookup (sy_flows s) k2) /\
    (forall fl, alookup (sy_flows s) key = Some fl ->
       exists o, opf (FrS off len fin d) = [o] /\ alookup (sy_flows s') key = Some (fst (fst (flow_step (cof key) fl o)))).

  Definition walked (s0 s : sys) (pre : list (N * fframe)) : Prop :=
    sy_pool s = sy_pool s0 /\
    forall key fl0, alookup (sy_flows s0) key = Some fl0 ->
      alookup (sy_flows s) key =
        Some (fst (run (cof key) fl0 (proj key (sy_pool s0)) (flat_map opf (proj key pre)))).

  Lemma phase_walk s0 : forall post pre s,
    sy_pool s0 = pre ++ post -> Calm s -> walked s0 s pre ->
    let s' := sys_exec s (map mk (map N.of_nat (seq (length pre) (length post)))) in
    Calm s' /\ walked s0 s' (pre ++ post).
  Proof.
    induction post as [|[key f] post IH]; intros pre s Hp Hc Hw; cbn [length seq map sys_exec].
    - rewrite app_nil_r. split; assumption.
    - destruct Hw as [Wp Wf]. pose proof Hc as (_ & _ & _ & HP).
      assert (Hin : In (key, f) (sy_pool s)) by (rewrite Wp, Hp; apply in_or_app; right; now left).
      destruct (HP _ _ Hin) as [(off & len & fin & d & ->) [flk Hflk]].
      assert (Hn : nthN (sy_pool s) (N.of_nat (length pre)) = Some (key, FrS off len fin d)).
      { rewrite Wp, Hp. apply (nth_mid pre post (key, FrS off len fin d)). }
      destruct (sys_step s (mk (N.of_nat (length pre)))) as [s1 obs] eqn:Es. cbn [fst].
      destruct (Hstep _ _ _ _ _ _ _ _ _ Hc Hn Es) as (Hc1 & Hp1 & Ho1 & Hk1).
      assert (Hw1 : walked s0 s1 (pre ++ [(key, FrS off len fin d)])).
      { split; [congruence|]. intros k2 fl0 H0. rewrite proj_app.
        destruct (N.eq_dec k2 key) as [->|NE].
        - change [(key, FrS off len fin d)] with (map (fun f => (key, f)) [FrS off len fin d]). rewrite proj_tag_same.
          rewrite flat_map_app. cbn [flat_map]. rewrite app_nil_r.
          destruct (Hk1 _ (Wf _ _ H0)) as (o & Eo & El). rewrite Eo, El. rewrite run_snoc_fst. reflexivity.
        - change [(key, FrS off len fin d)] with (map (fun f => (key, f)) [FrS off len fin d]).
          rewrite (proj_tag_other _ _ _ NE), app_nil_r. rewrite (Ho1 _ NE). apply Wf. exact H0. }
      specialize (IH (pre ++ [(key, FrS off len fin d)]) s1).
      rewrite app_length in IH. cbn [length] in IH. replace (length pre + 1)%nat with (S (length pre)) in IH by lia.
      rewrite <- app_assoc in IH. cbn [app] in IH. apply IH; [exact Hp|exact Hc1|exact Hw1].
  Qed.

  Lemma phase_all s : Calm s ->
    let s' := sys_exec s (map mk (seqN (length (sy_pool s)))) in
    Calm s' /\ sy_pool s' = sy_pool s /\
    forall key fl0, alookup (sy_flows s) key = Some fl0 ->
      alookup (sy_flows s') key =
        Some (fst (run (cof key) fl0 (proj key (sy_pool s)) (flat_map opf (proj key (sy_pool s))))).
  Proof.
    intro Hc. pose proof (phase_walk s (sy_pool s) [] s eq_refl Hc) as H. cbn [length app] in H.
    assert (W0 : walked s s []) by (split; [reflexivity|intros key fl0 H0; cbn; exact H0]).
    destruct (H W0) as [A [B C]]. split; [exact A|split; [exact B|exact C]].
  Qed.
End Phase.

Lemma app_call_ok s key o extra s' obs fl :
  alookup (sy_flows s) key = Some fl -> app_call s key o extra = (s', obs) ->
  exists s2 fr out, on_flow s key o = Some (s2, fr, out) /\ s' = (if fo_err out then set_closed s2 else s2).
Proof.
  intros El E. unfold app_call in E. destruct (on_flow_some s key o fl El) as (s2 & fr & out & Eo). rewrite Eo in E.
  injection E as <- _. eauto.
Qed.

Lemma learn_calm s j : Calm s -> Calm (learn s j).
Proof.
  intro H. apply (Calm_same s); [| | |exact H]; unfold learn; destruct (nthN (sy_dirs s) j); try destruct (n =? 0); reflexivity.
Qed.

Lemma sys_deliver_step s i key off len fin d s' obs :
  Calm s -> nthN (sy_pool s) i = Some (key, FrS off len fin d) -> sys_step s (ODeliver i) = (s', obs) ->
  Calm s' /\ sy_pool s' = sy_pool s /\
  (forall k2, k2 <> key -> alookup (sy_flows s') k2 = alookup (sy_flows s) k2) /\
  (forall fl, alookup (sy_flows s) key = Some fl ->
     exists o, deliver_op (FrS off len fin d) = [o] /\ alookup (sy_flows s') key = Some (fst (fst (flow_step (cof key) fl o)))).
Proof.
  intros Hc Hn E. pose proof Hc as (Hcl & HI & HQ & HP). unfold sys_step in E. rewrite Hcl, Hn in E. cbv zeta in E.
  set (s1 := if key_side key =? 0 then learn s (key_stream key) else s) in E.
  assert (Hc1 : Calm s1) by (unfold s1; destruct (key_side key =? 0); [apply learn_calm|]; exact Hc).
  assert (Hf1 : sy_flows s1 = sy_flows s /\ sy_pool s1 = sy_pool s).
  { unfold s1. destruct (key_side key =? 0); [|auto]. destruct (same_fp_learn s (key_stream key)); auto. }
  destruct Hf1 as [Ef1 Ep1].
  assert (Hin : In (key, FrS off len fin d) (sy_pool s)) by (unfold nthN in Hn; eapply nth_error_In; eauto).
  destruct (HP _ _ Hin) as [_ [fl El]].
  assert (El1 : alookup (sy_flows s1) key = Some fl) by (rewrite Ef1; exact El).
  destruct (app_call_ok _ _ _ _ _ _ _ El1 E) as (s2 & fr & out & Eo & Es').
  destruct (on_flow_gen _ _ _ _ _ _ Eo) as (fl0 & fl' & El0 & Est & Ef & Epl & Hr).
  rewrite El1 in El0. injection El0 as <-.
  destruct (calm_round_ok _ _ _ Hc1 El1) as (Hre & Hnr & Hw).
  pose proof (reach_FI _ _ _ Hre) as HFI. pose proof (reach_LI _ _ _ Hre) as HLI.
  assert (HinP : In (FrS off len fin d) (proj key (sy_pool s1))) by (rewrite Ep1; eapply nth_proj; eauto).
  destruct (deliver_step _ _ _ _ _ _ _ _ _ _ HFI HLI Hnr HinP Est) as (D1 & D2 & _).
  pose proof (deliver_noerr _ _ _ _ _ _ _ _ _ _ HFI HLI Hnr HinP Est) as Herr.
  rewrite Herr in Es'. subst s' fr.
  assert (Hc2 : Calm s2).
  { eapply on_flow_calm; [exact Hc1|exact Eo|cbn [justified]; eauto|].
    intros a b Ha Hb. rewrite El1 in Ha. injection Ha as <-. rewrite Est in Hb. injection Hb as <-.
    split; [unfold flow_quiet; rewrite D2; split; assumption|constructor]. }
  split; [exact Hc2|]. split; [rewrite Epl; cbn [map]; rewrite app_nil_r; exact Ep1|]. split.
  - intros k2 NE. rewrite Ef, Ef1. apply alookup_aupdate_other; exact NE.
  - intros fl2 El2. rewrite El in El2. injection El2 as <-. exists (FDeliverS off d fin). split; [reflexivity|].
    rewrite Ef, Est. cbn [fst]. rewrite Ef1. eapply alookup_aupdate_same; eauto.
Qed.

Lemma sys_ack_step s i key off len fin d s' obs :
  Calm s -> nthN (sy_pool s) i = Some (key, FrS off len fin d) -> sys_step s (OAck i) = (s', obs) ->
  Calm s' /\ sy_pool s' = sy_pool s /\
  (forall k2, k2 <> key -> alookup (sy_flows s') k2 = alookup (sy_flows s) k2) /\
  (forall fl, alookup (sy_flows s) key = Some fl ->
     exists o, ack_op (FrS off len fin d) = [o] /\ alookup (sy_flows s') key = Some (fst (fst (flow_step (cof key) fl o)))).
Proof.
  intros Hc Hn E. pose proof Hc as (Hcl & HI & HQ & HP). unfold sys_step in E. rewrite Hcl, Hn in E.
  assert (Hin : In (key, FrS off len fin d) (sy_pool s)) by (unfold nthN in Hn; eapply nth_error_In; eauto).
  destruct (HP _ _ Hin) as [_ [fl El]].
  destruct (app_call_ok _ _ _ _ _ _ _ El E) as (s2 & fr & out & Eo & Es').
  destruct (on_flow_gen _ _ _ _ _ _ Eo) as (fl0 & fl' & El0 & Est & Ef & Epl & Hr).
  rewrite El in El0. injection El0 as <-.
  destruct (calm_round_ok _ _ _ Hc El) as (Hre & Hnr & Hw).
  pose proof (reach_FI _ _ _ Hre) as HFI. pose proof (reach_LI _ _ _ Hre) as HLI. pose proof HFI as [(Hok & _) _].
  assert (HinP : In (FrS off len fin d) (proj key (sy_pool s))) by (eapply nth_proj; eauto).
  destruct (ack_step _ _ _ _ _ _ _ _ _ _ HFI HLI Hnr HinP Est) as (D1 & D2 & D3 & _).
  assert (Hk : fo_err out = false /\ wr (fl_snd fl') = wr (fl_snd fl) /\ md (fl_snd fl') = md (fl_snd fl)).
  { unfold flow_step in Est. cbv zeta in Est. destruct (sn_inset (fl_snd fl)).
    - destruct (snd_on_acked (fl_snd fl) off len fin) as [sx ok] eqn:Ea. injection Est as <- _ <-. cbn [fl_snd fo_err out_code].
      split; [reflexivity|]. split; [eapply acked_keeps; eauto|eapply md_acked; eauto].
    - injection Est as <- _ <-. auto. }
  destruct Hk as (Herr & K1 & K2). rewrite Herr in Es'. subst s' fr.
  assert (Hc2 : Calm s2).
  { eapply on_flow_calm; [exact Hc|exact Eo|cbn [justified]; eauto|].
    intros a b Ha Hb. rewrite El in Ha. injection Ha as <-. rewrite Est in Hb. injection Hb as <-.
    split; [unfold flow_quiet; rewrite K1, K2; split; assumption|constructor]. }
  split; [exact Hc2|]. split; [rewrite Epl; cbn [map]; apply app_nil_r|]. split.
  - intros k2 NE. rewrite Ef. apply alookup_aupdate_other; exact NE.
  - intros fl2 El2. rewrite El in El2. injection El2 as <-. exists (FAck off len fin). split; [reflexivity|].
    rewrite Ef, Est. cbn [fst]. eapply alookup_aupdate_same; eauto.
Qed.

Lemma deliver_op_ctl f : ~ is_frs f -> deliver_op f = [].
Proof. destruct f; [intro H; exfalso; apply H; unfold is_frs; eauto|reflexivity|reflexivity]. Qed.
Lemma ack_op_ctl f : ~ is_frs f -> ack_op f = [].
Proof. destruct f; [intro H; exfalso; apply H; unfold is_frs; eauto|reflexivity|reflexivity]. Qed.

Definition deliver_all (s : sys) : sys := sys_exec s (map ODeliver (seqN (length (sy_pool s)))).
Definition ack_all (s : sys) : sys := sys_exec s (map OAck (seqN (length (sy_pool s)))).

Lemma deliver_all_spec s : Calm s ->
  Calm (deliver_all s) /\ sy_pool (deliver_all s) = sy_pool s /\
  forall key fl0, alookup (sy_flows s) key = Some fl0 ->
    alookup (sy_flows (deliver_all s)) key =
      Some (fst (run (cof key) fl0 (proj key (sy_pool s)) (flat_map deliver_op (proj key (sy_pool s))))).
Proof. intro Hc. exact (phase_all ODeliver deliver_op sys_deliver_step s Hc). Qed.

Lemma ack_all_spec s : Calm s ->
  Calm (ack_all s) /\ sy_pool (ack_all s) = sy_pool s /\
  forall key fl0, alookup (sy_flows s) key = Some fl0 ->
    alookup (sy_flows (ack_all s)) key =
      Some (fst (run (cof key) fl0 (proj key (sy_pool s)) (flat_map ack_op (proj key (sy_pool s))))).
Proof. intro Hc. exact (phase_all OAck ack_op sys_ack_step s Hc). Qed.

(* ------------------------------------------------------------------ *)
(* the end of the round: drained flows, everything delivered, everything acknowledged *)
Lemma sys_finish s : Calm s ->
  forall key fl, alookup (sy_flows s) key = Some fl -> snd_drained (fl_snd fl) ->
  exists fl4, alookup (sy_flows (ack_all (deliver_all s))) key = Some fl4 /\ flow_done fl4.
Proof.
  intros Hc key fl El Hd.
  destruct (finish _ _ _ (calm_round_ok _ _ _ Hc El) Hd) as (fl3 & fl4 & R1 & R2 & Hdone & _).
  destruct (deliver_all_spec s Hc) as (Hc3 & Hp3 & Hf3).
  destruct (ack_all_spec _ Hc3) as (_ & _ & Hf4).
  specialize (Hf3 _ _ El). rewrite R1 in Hf3. cbn [fst] in Hf3.
  specialize (Hf4 _ _ Hf3). rewrite Hp3, R2 in Hf4. cbn [fst] in Hf4. eauto.
Qed.

(* ---- the emission that ends the emit phase *)
Lemma vsz_le v : StreamCtl.vsz v <= 8.
Proof. unfold StreamCtl.vsz. destruct (v <? 64); [lia|]. destruct (v <? 16384); [lia|]. destruct (v <? 1073741824); lia. Qed.

Lemma good_pred_packet cap sid tok : 26 <= cap -> cap < two62 -> 1 <= tok -> good_pred (pred_of_packet cap sid tok).
Proof.
  intros Hc Hc2 Ht o. unfold pred_of_packet, StreamCtl.est_cap, StreamCtl.frame_least.
  pose proof (vsz_le sid). pose proof (vsz_le o).
  set (least := 1 + StreamCtl.vsz sid + (if o =? 0 then 0 else StreamCtl.vsz o)).
  assert (least <= 17) by (unfold least; destruct (o =? 0); lia).
  destruct (N.leb_spec cap least); [lia|]. eexists. split; [reflexivity|]. lia.
Qed.

Lemma try_streams_none_drained skeys cap credit :
  26 <= cap -> cap < two62 -> credit <> 0 -> forall order s s',
  Forall (fun st : N * N => 1 <= snd st) order -> Calm s ->
  try_streams s skeys order cap credit = (s', None) ->
  Calm s' /\
  forall key fl, alookup (sy_flows s) key = Some fl ->
    exists fl', alookup (sy_flows s') key = Some fl' /\
      (snd_drained (fl_snd fl) -> snd_drained (fl_snd fl')) /\
      ((exists sid tok, In (sid, tok) order /\ alookup skeys sid = Some key) -> snd_drained (fl_snd fl')).
Proof.
  intros Hcap Hcap2 Hcr. induction order as [|[sid0 tok0] rest IH]; intros s s' Hf Hc E; cbn [try_streams] in E.
  - injection E as <-. split; [exact Hc|]. intros key fl El. exists fl. split; [exact El|]. split; [auto|].
    intros (sid & tok & [] & _).
  - inversion Hf as [|x l Hx Hl]; subst. cbn [snd] in Hx.
    assert (Skip : forall s1, s1 = s -> try_streams s1 skeys rest cap credit = (s', None) ->
                   alookup skeys sid0 = None \/ (exists key0, alookup skeys sid0 = Some key0 /\ alookup (sy_flows s) key0 = None) ->
                   Calm s' /\ forall key fl, alookup (sy_flows s) key = Some fl ->
                     exists fl', alookup (sy_flows s') key = Some fl' /\ (snd_drained (fl_snd fl) -> snd_drained (fl_snd fl')) /\
                       ((exists sid tok, In (sid, tok) ((sid0, tok0) :: rest) /\ alookup skeys sid = Some key) -> snd_drained (fl_snd fl'))).
    { intros s1 -> E1 Hno. destruct (IH _ _ Hl Hc E1) as [A B]. split; [exact A|]. intros key fl El.
      destruct (B _ _ El) as (fl' & B1 & B2 & B3). exists fl'. split; [exact B1|]. split; [exact B2|].
      intros (sid & tok & [Hq|Hin] & Hk); [|apply B3; eauto].
      injection Hq as <- <-. exfalso. destruct Hno as [Hno|(k0 & Hk0 & Hn0)]; congruence. }
    destruct (alookup skeys sid0) as [key0|] eqn:Ek; [|apply (Skip s eq_refl E); now left].
    destruct (on_flow s key0 (FTry (pred_of_packet cap sid0 tok0) credit)) as [[[s1 fr] out]|] eqn:Eo.
    2:{ apply (Skip s eq_refl E). right. exists key0. split; [reflexivity|].
        unfold on_flow in Eo. destruct (alookup (sy_flows s) key0) as [flx|]; [|reflexivity].
        destruct (flow_step (cof key0) flx _) as [[a b] c0]. discriminate. }
    destruct (fo_pick out) eqn:Ep; [discriminate|].
    destruct (on_flow_gen _ _ _ _ _ _ Eo) as (fl0 & fl0' & El0 & Est & Ef & Epl & Hr).
    pose proof (good_pred_packet cap sid0 tok0 Hcap Hcap2 Hx) as Hg.
    destruct (calm_round_ok _ _ _ Hc El0) as (Hre & Hnr & Hw).
    pose proof (reach_FI _ _ _ Hre) as HFI. pose proof (reach_LI _ _ _ Hre) as HLI. pose proof HFI as [(Hok & _) _].
    destruct (try_none_drained _ _ _ _ _ _ _ _ HFI HLI Hnr Hg Hcr Hw Est Ep) as (D1 & D2 & D3 & D4 & D5). subst fr.
    assert (Hmd : md (fl_snd fl0') = md (fl_snd fl0)).
    { unfold flow_step in Est. cbv zeta in Est. destruct (snd_try_load (cof key0) (fl_snd fl0) _ credit) as [sx p] eqn:Et.
      injection Est as <- _ _. cbn [fl_snd]. eapply md_try; [exact Hok|apply good_pred_pos; exact Hg|exact Et]. }
    assert (Hc1 : Calm s1).
    { eapply on_flow_calm; [exact Hc|exact Eo|cbn [justified]; apply good_pred_pos; exact Hg|].
      intros a b Ha Hb. rewrite El0 in Ha. injection Ha as <-. rewrite Est in Hb. injection Hb as <-.
      split; [unfold flow_quiet; rewrite D5, Hmd; split; assumption|constructor]. }
    destruct (IH _ _ Hl Hc1 E) as [A B]. split; [exact A|]. intros key fl El.
    destruct (N.eq_dec key key0) as [->|NE].
    + rewrite El0 in El. injection El as <-.
      assert (El1 : alookup (sy_flows s1) key0 = Some fl0') by (rewrite Ef; eapply alookup_aupdate_same; eauto).
      destruct (B _ _ El1) as (fl' & B1 & B2 & B3). exists fl'. split; [exact B1|]. split; [intros _; apply B2; exact D3|intros _; apply B2; exact D3].
    + assert (El1 : alookup (sy_flows s1) key = Some fl) by (rewrite Ef, (alookup_aupdate_other _ _ _ _ NE); exact El).
      destruct (B _ _ El1) as (fl' & B1 & B2 & B3). exists fl'. split; [exact B1|]. split; [exact B2|].
      intros (sid & tok & [Hq|Hin] & Hk); [|apply B3; eauto].
      injection Hq as <- <-. congruence.
Qed.

Lemma alookup_in {A} (l : list (N * A)) k v : alookup l k = Some v -> In k (map fst l).
Proof.
  induction l as [|[k' v'] t IH]; cbn [StreamCtl.alookup map fst]; [discriminate|].
  destruct (N.eqb_spec k' k); [intros _; now left|intro H; right; auto].
Qed.

(* the stream of flow [key] is a member of the output set of [side] *)
Definition listed (s : sys) (side key : N) : Prop := exists sid, alookup (outgoing_keys s side) sid = Some key.

Lemma emit_none_drained s side cap flowlim s' :
  26 <= cap -> cap < two62 -> flowlim <> 0 -> Calm s -> emit s side cap flowlim = (s', None) ->
  Calm s' /\
  forall key fl, alookup (sy_flows s) key = Some fl ->
    exists fl', alookup (sy_flows s') key = Some fl' /\
      (snd_drained (fl_snd fl) -> snd_drained (fl_snd fl')) /\ (listed s side key -> snd_drained (fl_snd fl')).
Proof.
  intros Hcap Hcap2 Hfl Hc E. unfold emit in E.
  destruct (N.ltb_spec cap StreamCtl.STREAM_FRAME_MAX) as [Hlt|_]; [unfold StreamCtl.STREAM_FRAME_MAX in Hlt; lia|].
  destruct (try_streams s (outgoing_keys s side) _ cap (N.min flowlim cap)) as [s1 [[[[k0 sid0] tok0] p0]|]] eqn:Et; [discriminate|].
  injection E as <-.
  assert (Hcr : N.min flowlim cap <> 0) by lia.
  destruct (try_streams_none_drained _ cap _ Hcap Hcap2 Hcr _ _ _ (load_order_tokens _ _ _) Hc Et) as [A B].
  split; [exact A|]. intros key fl El. destruct (B _ _ El) as (fl' & B1 & B2 & B3). exists fl'. split; [exact B1|]. split; [exact B2|].
  intros [sid Hs]. apply B3. pose proof (alookup_in _ _ _ Hs) as Hin.
  destruct (load_order_visits (sy_rot s) (if side =? 0 then sy_cur0 s else sy_cur1 s) _ _ Hin) as (tok & Ht & _). eauto.
Qed.

Lemma datarcvd_drained c fl P : FI c fl P -> LI fl P -> sn_st (fl_snd fl) = SDataRcvd -> snd_drained (fl_snd fl).
Proof.
  intros [(Hok & _) _] ((_ & _ & _ & _ & _ & L6 & _) & _) Est. unfold snd_drained. rewrite Est. split; [|exact I].
  destruct (L6 Est) as (_ & B1 & B2 & _). destruct Hok as [[_ Hsz _] (T1 & T2 & T3)].
  intros i Hi. right. apply T2. unfold written in *. lia.
Qed.

Lemma not_inset_drained c fl P : FI c fl P -> LI fl P -> ~ is_reset (fl_snd fl) -> sn_inset (fl_snd fl) = false ->
  snd_drained (fl_snd fl).
Proof.
  intros HFI HLI Hnr Hin. apply (datarcvd_drained c fl P HFI HLI).
  destruct HLI as ((_ & _ & _ & _ & _ & _ & L7) & _). unfold live_st in L7.
  destruct (sn_st (fl_snd fl)) eqn:Est; try reflexivity.
  - rewrite L7 in Hin by tauto. discriminate.
  - rewrite L7 in Hin by tauto. discriminate.
  - rewrite L7 in Hin by tauto. discriminate.
  - exfalso. apply Hnr. left. exact Est.
  - exfalso. apply Hnr. right. exact Est.
Qed.

(* the core of the system-level progress: once one emission on each side has found nothing to send,
   delivering and acknowledging the whole pool completes every flow that is a member of its output set
   (or has already left it) *)
Lemma p_c01_progress_system_core : forall s cap s1 s2,
  Calm s -> 26 <= cap -> cap < two62 ->
  emit s 0 cap cap = (s1, None) -> emit s1 1 cap cap = (s2, None) ->
  forall key fl, alookup (sy_flows s) key = Some fl ->
    (sn_inset (fl_snd fl) = false \/ listed s 0 key \/ listed s1 1 key) ->
    exists fl4, alookup (sy_flows (ack_all (deliver_all s2))) key = Some fl4 /\ flow_done fl4.
Proof.
  intros s cap s1 s2 Hc Hcap Hcap2 E0 E1 key fl El Hl.
  assert (Hnz : cap <> 0) by lia.
  destruct (emit_none_drained _ _ _ _ _ Hcap Hcap2 Hnz Hc E0) as [Hc1 B0].
  destruct (emit_none_drained _ _ _ _ _ Hcap Hcap2 Hnz Hc1 E1) as [Hc2 B1].
  destruct (B0 _ _ El) as (fl1 & F1 & M1 & D1). destruct (B1 _ _ F1) as (fl2 & F2 & M2 & D2).
  apply (sys_finish s2 Hc2 key fl2 F2).
  destruct Hl as [Hl|[Hl|Hl]].
  - apply M2, M1. destruct (calm_round_ok _ _ _ Hc El) as (Hre & Hnr & _).
    exact (not_inset_drained _ _ _ (reach_FI _ _ _ Hre) (reach_LI _ _ _ Hre) Hnr Hl).
  - apply M2, D1. exact Hl.
  - apply D2. exact Hl.
Qed.

(* ------------------------------------------------------------------ *)
(* what the output sets depend on, and the phases that leave it alone *)
Definition osig (s : sys) : list (N * bool) * list N * N * N :=
  (map (fun kf : N * flow => (fst kf, sn_inset (fl_snd (snd kf)))) (sy_flows s), sy_dirs s, sy_kbi s, sy_kuni s).

Lemma outgoing_keys_osig s s' side : osig s = osig s' -> outgoing_keys s side = outgoing_keys s' side.
Proof.
  unfold osig. intro H. injection H as H1 H2 H3 H4. unfold outgoing_keys, known. rewrite H2, H3, H4.
  set (g := fun (p : N * bool) acc =>
              if (key_side (fst p) =? side) && snd p &&
                 ((side =? 0) || match nthN (sy_dirs s') (key_stream (fst p)) with
                                 | Some d => idx_of (sy_dirs s') (key_stream (fst p)) <? (if d =? 0 then sy_kbi s' else sy_kuni s')
                                 | None => false end)
              then StreamCtl.ainsert acc (sid_of_stream (sy_dirs s') (key_stream (fst p))) (fst p) else acc).
  assert (G : forall l, fold_right (fun (kf : N * flow) acc =>
                 if (key_side (fst kf) =? side) && sn_inset (fl_snd (snd kf)) &&
                    ((side =? 0) || match nthN (sy_dirs s') (key_stream (fst kf)) with
                                    | Some d => idx_of (sy_dirs s') (key_stream (fst kf)) <? (if d =? 0 then sy_kbi s' else sy_kuni s')
                                    | None => false end)
                 then StreamCtl.ainsert acc (sid_of_stream (sy_dirs s') (key_stream (fst kf))) (fst kf) else acc) [] l
               = fold_right g [] (map (fun kf : N * flow => (fst kf, sn_inset (fl_snd (snd kf)))) l)).
  { induction l as [|kf t IH]; [reflexivity|]. cbn [fold_right map]. rewrite IH. reflexivity. }
  rewrite !G, H1. reflexivity.
Qed.

Lemma map_aupdate_keep {A B} (f : N * A -> B) (l : list (N * A)) k v v0 :
  alookup l k = Some v0 -> f (k, v) = f (k, v0) -> map f (aupdate l k v) = map f l.
Proof.
  induction l as [|[k' v'] t IH]; cbn [StreamCtl.alookup StreamCtl.aupdate map]; [reflexivity|].
  destruct (N.eqb_spec k' k) as [->|NE]; intros H Hf.
  - injection H as ->. cbn [map]. now rewrite Hf.
  - cbn [map]. f_equal. apply IH; assumption.
Qed.

Lemma on_flow_osig s key o s' fr out :
  on_flow s key o = Some (s', fr, out) ->
  (forall fl fl', alookup (sy_flows s) key = Some fl -> flow_step (cof key) fl o = (fl', fr, out) ->
                  sn_inset (fl_snd fl') = sn_inset (fl_snd fl)) ->
  osig s' = osig s.
Proof.
  intros E Hk. destruct (on_flow_gen _ _ _ _ _ _ E) as (fl & fl' & El & Es & Ef & _ & (R1 & R2 & R3 & R4 & R5 & R6 & R7)).
  unfold osig. rewrite Ef, R2, R5, R6. f_equal. f_equal. f_equal.
  eapply map_aupdate_keep; [exact El|]. cbn [fst snd]. f_equal. apply (Hk _ _ El Es).
Qed.

Lemma try_inset c s pred credit s' p : snd_try_load c s pred credit = (s', p) -> sn_inset s' = sn_inset s.
Proof.
  unfold snd_try_load. destruct (sn_st s); try (intro E; injection E as <- _; reflexivity).
  - destruct (pick_up c (sn_buf s) pred credit) as [b' st e fr d|w f g|].
    + destruct (sn_shutw s && (e =? written (sn_buf s))); intro E; injection E as <- _; reflexivity.
    + destruct (sn_shutw s && (written (sn_buf s) =? sent (sn_buf s))); [destruct (pred (sent (sn_buf s)))|]; intro E; injection E as <- _; reflexivity.
    + intro E; injection E as <- _; reflexivity.
  - destruct (pick_up c (sn_buf s) pred credit) as [b' st e fr d|w f g|].
    + destruct (sn_shutw s && (e =? written (sn_buf s))); intro E; injection E as <- _; reflexivity.
    + destruct (sn_shutw s && (written (sn_buf s) =? sent (sn_buf s))); [destruct (pred (sent (sn_buf s)))|]; intro E; injection E as <- _; reflexivity.
    + intro E; injection E as <- _; reflexivity.
  - destruct (pick_up c (sn_buf s) pred credit) as [b' st e fr d|w f g|].
    + intro E; injection E as <- _; reflexivity.
    + destruct (sn_fin s); intro E; injection E as <- _; reflexivity.
    + intro E; injection E as <- _; reflexivity.
Qed.

Lemma lost_inset s off len fin s' ok : snd_may_loss s off len fin = (s', ok) -> sn_inset s' = sn_inset s.
Proof.
  unfold snd_may_loss. destruct (sn_st s); try (intro E; injection E as <- _; reflexivity);
    destruct (may_loss_data (sn_buf s) off (off + len)); intro E; injection E as <- _; reflexivity.
Qed.

(* a drained sender declines the packet and stays drained *)
Lemma try_on_drained c fl P pred credit s' p :
  FI c fl P -> LI fl P -> pred_pos pred -> snd_drained (fl_snd fl) ->
  snd_try_load c (fl_snd fl) pred credit = (s', p) -> p = None /\ snd_drained s'.
Proof.
  intros [(Hok & _) _] ((_ & _ & L3 & _) & _) Hp [Hfr Hst] E. pose proof Hok as [HI _].
  assert (NoOk : forall b' st0 e fr d, pick_up c (sn_buf (fl_snd fl)) pred credit = UpOk b' st0 e fr d -> False).
  { intros b' st0 e fr d Ep.
    destruct (SB.pick_up_facts _ _ _ _ _ _ _ _ _ HI Hp Ep) as (a & _ & Hpost & _).
    destruct Hpost as (_ & _ & Q3 & Q4 & _ & col & Hcol & _ & Q6 & _).
    assert (Hq : SB.colr (st (sn_buf (fl_snd fl))) st0 = col) by (apply Q6; lia).
    destruct (Hfr st0 ltac:(lia)) as [Hf|Hf]; rewrite Hf in Hq; destruct Hcol as [->|(-> & _)]; discriminate. }
  unfold snd_try_load in E. unfold snd_drained in *.
  destruct (sn_st (fl_snd fl)) eqn:Est; try contradiction.
  - assert (Hsw : sn_shutw (fl_snd fl) = false) by (rewrite (L3 (or_intror eq_refl)); exact Hst).
    rewrite Hsw in E. cbn [andb] in E.
    destruct (pick_up c (sn_buf (fl_snd fl)) pred credit) as [b' st0 e fr d|w f g|] eqn:Ep; [exfalso; eapply NoOk; eauto| |];
      injection E as <- <-; sn_simpl; (split; [reflexivity|split; [exact Hfr|exact Hst]]).
  - destruct (pick_up c (sn_buf (fl_snd fl)) pred credit) as [b' st0 e fr d|w f g|] eqn:Ep; [exfalso; eapply NoOk; eauto| |].
    + destruct (sn_fin (fl_snd fl)) eqn:Ef; try congruence; injection E as <- <-; rewrite Est, Ef; (split; [reflexivity|split; [exact Hfr|discriminate]]).
    + injection E as <- <-. rewrite Est. auto.
  - injection E as <- <-. rewrite Est. auto.
Qed.

Definition keeps_drained (s s' : sys) : Prop :=
  forall key fl, alookup (sy_flows s) key = Some fl ->
    exists fl', alookup (sy_flows s') key = Some fl' /\ (snd_drained (fl_snd fl) -> snd_drained (fl_snd fl')).

Lemma keeps_refl s : keeps_drained s s.
Proof. intros key fl El. eauto. Qed.
Lemma keeps_trans s1 s2 s3 : keeps_drained s1 s2 -> keeps_drained s2 s3 -> keeps_drained s1 s3.
Proof. intros H1 H2 key fl El. destruct (H1 _ _ El) as (f2 & E2 & M2). destruct (H2 _ _ E2) as (f3 & E3 & M3). eauto. Qed.


(* ---- any emission keeps the system calm and the output sets as they are *)
Lemma try_streams_calm skeys cap credit :
  forall order s s' r, Forall (fun st : N * N => 1 <= snd st) order -> Calm s ->
  try_streams s skeys order cap credit = (s', r) -> Calm s' /\ osig s' = osig s /\ keeps_drained s s'.
Proof.
  induction order as [|[sid0 tok0] rest IH]; intros s s' r Hf Hc E; cbn [try_streams] in E.
  - injection E as <- _. split; [exact Hc|split; [reflexivity|apply keeps_refl]].
  - inversion Hf as [|x l Hx Hl]; subst. cbn [snd] in Hx.
    destruct (alookup skeys sid0) as [key0|]; [|eapply IH; eauto].
    destruct (on_flow s key0 (FTry (pred_of_packet cap sid0 tok0) credit)) as [[[s1 fr] out]|] eqn:Eo; [|eapply IH; eauto].
    pose proof (pred_of_packet_pos cap sid0 tok0 Hx) as Hp.
    assert (H1 : Calm s1 /\ osig s1 = osig s).
    { split.
      - eapply on_flow_calm; [exact Hc|exact Eo|exact Hp|].
        intros fl fl' El Es. destruct (calm_round_ok _ _ _ Hc El) as (Hre & Hnr & Hw).
        pose proof (reach_FI _ _ _ Hre) as [(Hok & _) _].
        unfold flow_step in Es. cbv zeta in Es. destruct (snd_try_load (cof key0) (fl_snd fl) _ credit) as [sx p] eqn:Et.
        injection Es as <- <- _. unfold flow_quiet. cbn [fl_snd].
        destruct (try_keeps _ _ _ _ _ _ Hok Hp Et) as [K1 K2]. split.
        + split; [auto|]. rewrite K1, (md_try _ _ _ _ _ _ Hok Hp Et). exact Hw.
        + destruct p; constructor; [unfold is_frs; eauto|constructor].
      - eapply on_flow_osig; [exact Eo|]. intros fl fl' El Es.
        unfold flow_step in Es. cbv zeta in Es. destruct (snd_try_load (cof key0) (fl_snd fl) _ credit) as [sx p] eqn:Et.
        injection Es as <- _ _. cbn [fl_snd]. eapply try_inset; eauto. }
    destruct H1 as [Hc1 Ho1].
    assert (K1 : keeps_drained s s1).
    { destruct (on_flow_gen _ _ _ _ _ _ Eo) as (fl0 & fl0' & El0 & Est & Ef & _).
      intros key fl El. rewrite Ef. destruct (N.eq_dec key key0) as [->|NE].
      - rewrite (alookup_aupdate_same _ _ _ _ El0). exists fl0'. split; [reflexivity|].
        rewrite El0 in El. injection El as <-. intro Hd.
        destruct (calm_round_ok _ _ _ Hc El0) as (Hre & _).
        unfold flow_step in Est. cbv zeta in Est. destruct (snd_try_load (cof key0) (fl_snd fl0) _ credit) as [sx p] eqn:Et.
        injection Est as <- _ _. cbn [fl_snd].
        exact (proj2 (try_on_drained _ _ _ _ _ _ _ (reach_FI _ _ _ Hre) (reach_LI _ _ _ Hre) Hp Hd Et)).
      - rewrite (alookup_aupdate_other _ _ _ _ NE). eauto. }
    destruct (fo_pick out); [injection E as <- _; auto|].
    destruct (IH _ _ _ Hl Hc1 E) as (A & B & C). split; [exact A|split; [congruence|eapply keeps_trans; eauto]].
Qed.

Lemma emit_calm s side cap flowlim s' r :
  Calm s -> emit s side cap flowlim = (s', r) -> Calm s' /\ osig s' = osig s /\ keeps_drained s s'.
Proof.
  intros Hc E. unfold emit in E.
  destruct (cap <? StreamCtl.STREAM_FRAME_MAX); [injection E as <- _; split; [exact Hc|split; [reflexivity|apply keeps_refl]]|].
  destruct (try_streams s (outgoing_keys s side) _ cap (N.min flowlim cap)) as [s1 r1] eqn:Et.
  destruct (try_streams_calm _ _ _ _ _ _ _ (load_order_tokens _ _ _) Hc Et) as (A & B & C).
  destruct r1 as [[[[k0 sid0] tok0] p0]|]; injection E as <- _; [|auto].
  split; [|split].
  - apply (Calm_same s1); [| | |exact A]; unfold set_cursor; destruct (side =? 0); reflexivity.
  - rewrite <- B. unfold osig, set_cursor. destruct (side =? 0); reflexivity.
  - intros key fl El. destruct (C _ _ El) as (fl' & E1 & M1). exists fl'. split; [|exact M1].
    unfold set_cursor. destruct (side =? 0); exact E1.
Qed.

(* emit on one side until an emission finds nothing; the boolean excludes fuel exhaustion *)
Fixpoint sys_emit_loop (fuel : nat) (s : sys) (side cap : N) : sys * bool :=
  match fuel with
  | O => (s, false)
  | S k => match emit s side cap cap with
           | (s', Some _) => sys_emit_loop k s' side cap
           | (s', None) => (s', true)
           end
  end.

Lemma sys_emit_loop_last side cap : forall fuel s s',
  Calm s -> sys_emit_loop fuel s side cap = (s', true) ->
  exists s0, Calm s0 /\ osig s0 = osig s /\ keeps_drained s s0 /\ emit s0 side cap cap = (s', None).
Proof.
  induction fuel as [|k IH]; intros s s' Hc E; cbn [sys_emit_loop] in E; [discriminate|].
  destruct (emit s side cap cap) as [s1 [r|]] eqn:Ee.
  - destruct (emit_calm _ _ _ _ _ _ Hc Ee) as (Hc1 & Ho1 & Hk1). destruct (IH _ _ Hc1 E) as (s0 & A & B & C & D).
    exists s0. split; [exact A|]. split; [congruence|]. split; [eapply keeps_trans; eauto|exact D].
  - injection E as <-. exists s. split; [exact Hc|split; [reflexivity|split; [apply keeps_refl|exact Ee]]].
Qed.

(* ---- reporting every frame lost *)
Lemma sys_lose_step s i s' obs : Calm s -> sys_step s (OLose i) = (s', obs) -> Calm s' /\ osig s' = osig s.
Proof.
  intros Hc E. pose proof Hc as (Hcl & HI & HQ & HP). unfold sys_step in E. rewrite Hcl in E.
  destruct (nthN (sy_pool s) i) as [[key f]|] eqn:Hn; [|injection E as <- _; auto].
  assert (Hin : In (key, f) (sy_pool s)) by (unfold nthN in Hn; eapply nth_error_In; eauto).
  destruct (HP _ _ Hin) as [(off & len & fin & d & ->) [fl El]].
  destruct (app_call_ok _ _ _ _ _ _ _ El E) as (s2 & fr & out & Eo & Es').
  destruct (on_flow_gen _ _ _ _ _ _ Eo) as (fl0 & fl' & El0 & Est & Ef & Epl & Hr).
  rewrite El in El0. injection El0 as <-.
  destruct (calm_round_ok _ _ _ Hc El) as (Hre & Hnr & Hw). pose proof (reach_FI _ _ _ Hre) as [(Hok & _) _].
  assert (Hk : fr = [] /\ fo_err out = false /\ flow_quiet fl' /\ sn_inset (fl_snd fl') = sn_inset (fl_snd fl)).
  { unfold flow_step in Est. cbv zeta in Est. destruct (sn_inset (fl_snd fl)) eqn:Ein.
    - destruct (snd_may_loss (fl_snd fl) off len fin) as [sx ok] eqn:Ea. injection Est as <- <- <-. unfold flow_quiet. cbn [fl_snd fo_err out_code].
      destruct (lost_keeps _ _ _ _ _ _ Hok Ea) as [K1 K2].
      split; [reflexivity|]. split; [reflexivity|]. split; [|rewrite (lost_inset _ _ _ _ _ _ Ea); exact Ein].
      split; [auto|]. rewrite K1, (md_lost _ _ _ _ _ _ Hok Ea). exact Hw.
    - injection Est as <- <- <-. cbn. split; [reflexivity|]. split; [reflexivity|]. split; [split; assumption|exact Ein]. }
  destruct Hk as (-> & Herr & Hq & Hi). rewrite Herr in Es'. subst s'.
  split.
  - eapply on_flow_calm; [exact Hc|exact Eo|cbn [justified]; exists d; eapply nth_proj; eauto|].
    intros a b Ha Hb. rewrite El in Ha. injection Ha as <-. rewrite Est in Hb. injection Hb as <-. split; [exact Hq|constructor].
  - eapply on_flow_osig; [exact Eo|]. intros a b Ha Hb. rewrite El in Ha. injection Ha as <-. rewrite Est in Hb. injection Hb as <-. exact Hi.
Qed.

Definition lose_all (s : sys) : sys := sys_exec s (map OLose (seqN (length (sy_pool s)))).

Lemma lose_list_calm : forall l s, Calm s -> Calm (sys_exec s (map OLose l)) /\ osig (sys_exec s (map OLose l)) = osig s.
Proof.
  induction l as [|i t IH]; intros s Hc; cbn [map sys_exec]; [auto|].
  destruct (sys_step s (OLose i)) as [s1 obs] eqn:E. cbn [fst].
  destruct (sys_lose_step _ _ _ _ Hc E) as [A B]. destruct (IH _ A) as [C D]. split; [exact C|congruence].
Qed.

(* ---- the round *)
Definition sys_round (fuel : nat) (cap : N) (s : sys) : sys * bool :=
  let s1 := lose_all s in
  let '(s2, ok0) := sys_emit_loop fuel s1 0 cap in
  let '(s3, ok1) := sys_emit_loop fuel s2 1 cap in
  (ack_all (deliver_all s3), ok0 && ok1).

Lemma listed_osig s s' side key : osig s = osig s' -> listed s side key -> listed s' side key.
Proof. intros H [sid Hs]. exists sid. rewrite <- (outgoing_keys_osig _ _ side H). exact Hs. Qed.


Lemma alookup_map {A B} (g : A -> B) (l : list (N * A)) k :
  alookup (map (fun kf : N * A => (fst kf, g (snd kf))) l) k = option_map g (alookup l k).
Proof.
  induction l as [|[k' v] t IH]; cbn [map StreamCtl.alookup fst snd]; [reflexivity|].
  destruct (k' =? k); [reflexivity|exact IH].
Qed.

Lemma osig_lookup s s' key fl :
  osig s = osig s' -> alookup (sy_flows s) key = Some fl ->
  exists fl', alookup (sy_flows s') key = Some fl' /\ sn_inset (fl_snd fl') = sn_inset (fl_snd fl).
Proof.
  unfold osig. intros H El. injection H as H1 _ _ _.
  pose proof (alookup_map (fun f => sn_inset (fl_snd f)) (sy_flows s) key) as A.
  pose proof (alookup_map (fun f => sn_inset (fl_snd f)) (sy_flows s') key) as B.
  cbv beta in A, B. rewrite H1, B, El in A. destruct (alookup (sy_flows s') key) as [fl'|]; [|discriminate].
  cbn [option_map] in A. injection A as A. eauto.
Qed.

(* The good round on the two endpoints.  From every calm state, for every fuel that suffices (the
   boolean), every flow that is a member of the output set of its side at the start of the round,
   or that has already left it, ends [flow_done]. *)
Lemma p_c01_progress_system : forall fuel cap s s',
  Calm s -> 26 <= cap -> cap < two62 -> sys_round fuel cap s = (s', true) ->
  forall key fl, alookup (sy_flows s) key = Some fl ->
    (sn_inset (fl_snd fl) = false \/ listed s 0 key \/ listed s 1 key) ->
    exists fl', alookup (sy_flows s') key = Some fl' /\ flow_done fl'.
Proof.
  intros fuel cap s s' Hc Hcap Hcap2 E key fl El Hl. unfold sys_round in E.
  destruct (lose_list_calm (seqN (length (sy_pool s))) s Hc) as [Hc1 Ho1]. fold (lose_all s) in Hc1, Ho1.
  destruct (sys_emit_loop fuel (lose_all s) 0 cap) as [s2 ok0] eqn:E0.
  destruct (sys_emit_loop fuel s2 1 cap) as [s3 ok1] eqn:E1. injection E as <- Hok.
  apply andb_true_iff in Hok. destruct Hok as [-> ->].
  destruct (sys_emit_loop_last _ _ _ _ _ Hc1 E0) as (a0 & Ca0 & Oa0 & _ & Ea0).
  destruct (emit_calm _ _ _ _ _ _ Ca0 Ea0) as (Hc2 & Ho2 & _).
  destruct (sys_emit_loop_last _ _ _ _ _ Hc2 E1) as (a1 & Ca1 & Oa1 & Ka1 & Ea1).
  destruct (emit_calm _ _ _ _ _ _ Ca1 Ea1) as (Hc3 & _).
  assert (Hnz : cap <> 0) by lia.
  destruct (emit_none_drained _ _ _ _ _ Hcap Hcap2 Hnz Ca0 Ea0) as [_ B0].
  destruct (emit_none_drained _ _ _ _ _ Hcap Hcap2 Hnz Ca1 Ea1) as [_ B1].
  assert (Osa0 : osig s = osig a0) by congruence.
  assert (Osa1 : osig s = osig a1) by congruence.
  destruct (osig_lookup _ _ _ _ Osa0 El) as (fa0 & Fa0 & Ia0).
  destruct (B0 _ _ Fa0) as (f2 & F2 & M2 & D2).
  destruct (Ka1 _ _ F2) as (fa1 & Fa1 & Ma1).
  destruct (B1 _ _ Fa1) as (f3 & F3 & M3 & D3).
  apply (sys_finish s3 Hc3 key f3 F3).
  destruct Hl as [Hl|[Hl|Hl]].
  - apply M3, Ma1, M2. destruct (calm_round_ok _ _ _ Ca0 Fa0) as (Hre & Hnr & _).
    apply (not_inset_drained _ _ _ (reach_FI _ _ _ Hre) (reach_LI _ _ _ Hre) Hnr). congruence.
  - apply M3, Ma1, D2. eapply listed_osig; eauto.
  - apply D3. eapply listed_osig; eauto.
Qed.

(* ------------------------------------------------------------------ *)
(* every flow the application can write on is a member of the output set of its side *)
Lemma alookup_ainsert_same {A} (l : list (N * A)) k v : alookup (StreamCtl.ainsert l k v) k = Some v.
Proof.
  induction l as [|[k' v'] t IH]; cbn [StreamCtl.ainsert StreamCtl.alookup]; [now rewrite N.eqb_refl|].
  destruct (N.ltb_spec k k'); [cbn [StreamCtl.alookup]; now rewrite N.eqb_refl|].
  destruct (N.eqb_spec k' k) as [->|NE]; cbn [StreamCtl.alookup]; [now rewrite N.eqb_refl|].
  destruct (N.eqb_spec k' k); [contradiction|exact IH].
Qed.

Lemma alookup_ainsert_other {A} (l : list (N * A)) k k2 v : k2 <> k -> alookup (StreamCtl.ainsert l k v) k2 = alookup l k2.
Proof.
  intro NE. induction l as [|[k' v'] t IH]; cbn [StreamCtl.ainsert StreamCtl.alookup].
  - destruct (N.eqb_spec k k2); [congruence|reflexivity].
  - destruct (N.ltb_spec k k').
    + cbn [StreamCtl.alookup]. destruct (N.eqb_spec k k2); [congruence|reflexivity].
    + destruct (N.eqb_spec k' k) as [->|NE'].
      * cbn [StreamCtl.alookup]. destruct (N.eqb_spec k k2); [congruence|reflexivity].
      * cbn [StreamCtl.alookup]. destruct (N.eqb_spec k' k2); [reflexivity|exact IH].
Qed.

Lemma alookup_In {A} (l : list (N * A)) k v : alookup l k = Some v -> In (k, v) l.
Proof.
  induction l as [|[k' v'] t IH]; cbn [StreamCtl.alookup]; [discriminate|].
  destruct (N.eqb_spec k' k) as [->|NE]; [intro H; injection H as ->; now left|intro H; right; auto].
Qed.

Lemma in_alookup {A} (l : list (N * A)) k : In k (map fst l) -> exists v, alookup l k = Some v.
Proof.
  induction l as [|[k' v'] t IH]; cbn [map fst StreamCtl.alookup]; [intros []|].
  destruct (N.eqb_spec k' k); [eauto|]. intros [H|H]; [contradiction|auto].
Qed.

(* the streams have distinct ids *)
Lemma count_dir_lt d : forall dirs j1 j2, (j1 < j2)%nat -> nth_error dirs j1 = Some d -> (j2 <= length dirs)%nat ->
  count_dir dirs d j1 < count_dir dirs d j2.
Proof.
  induction dirs as [|x t IH]; intros j1 j2 Hlt Hn Hlen; [destruct j1; discriminate|].
  destruct j2 as [|j2]; [lia|]. destruct j1 as [|j1]; cbn [nth_error count_dir] in *.
  - injection Hn as ->. rewrite N.eqb_refl. lia.
  - cbn [length] in Hlen. specialize (IH j1 j2 ltac:(lia) Hn ltac:(lia)). lia.
Qed.

Lemma sid_of_stream_inj dirs j1 j2 :
  Forall (fun d => d = 0 \/ d = 1) dirs -> j1 < lenN dirs -> j2 < lenN dirs ->
  sid_of_stream dirs j1 = sid_of_stream dirs j2 -> j1 = j2.
Proof.
  intros Hd H1 H2 E. unfold sid_of_stream, idx_of, nthN, lenN in *.
  destruct (nth_error dirs (N.to_nat j1)) as [d1|] eqn:E1; [|apply nth_error_None in E1; lia].
  destruct (nth_error dirs (N.to_nat j2)) as [d2|] eqn:E2; [|apply nth_error_None in E2; lia].
  rewrite Forall_forall in Hd. pose proof (Hd _ (nth_error_In _ _ E1)) as D1. pose proof (Hd _ (nth_error_In _ _ E2)) as D2.
  unfold Sid.sid_of, Sid.dir_bit, Sid.role_bit in E.
  assert (Hdd : d1 = d2).
  { destruct D1 as [->| ->]; destruct D2 as [->| ->]; cbn in E; try reflexivity; lia. }
  subst d2.
  assert (Hc : count_dir dirs d1 (N.to_nat j1) = count_dir dirs d1 (N.to_nat j2)).
  { destruct D1 as [->| ->]; cbn in E; lia. }
  destruct (PeanoNat.Nat.lt_trichotomy (N.to_nat j1) (N.to_nat j2)) as [H|[H|H]]; [|lia|].
  - pose proof (count_dir_lt d1 dirs _ _ H E1 ltac:(lia)). lia.
  - pose proof (count_dir_lt d1 dirs _ _ H E2 ltac:(lia)). lia.
Qed.

(* ---- the keys of the flows never change; pool entries belong to existing flows *)
Definition PK (s : sys) : Prop := forall k f, In (k, f) (sy_pool s) -> In k (map fst (sy_flows s)).
Definition kinv (s s' : sys) : Prop :=
  map fst (sy_flows s') = map fst (sy_flows s) /\ sy_dirs s' = sy_dirs s /\ (PK s -> PK s').

Lemma kinv_refl s : kinv s s.
Proof. split; [reflexivity|split; [reflexivity|auto]]. Qed.
Lemma kinv_trans a b c : kinv a b -> kinv b c -> kinv a c.
Proof. intros (A1 & A2 & A3) (B1 & B2 & B3). split; [congruence|split; [congruence|auto]]. Qed.

Lemma map_fst_aupdate {A} (l : list (N * A)) k v : map fst (aupdate l k v) = map fst l.
Proof.
  induction l as [|[k' v'] t IH]; cbn [StreamCtl.aupdate map fst]; [reflexivity|].
  destruct (N.eqb_spec k' k) as [->|NE]; cbn [map fst]; [reflexivity|now rewrite IH].
Qed.

Lemma kinv_same s s' : sy_flows s' = sy_flows s -> sy_pool s' = sy_pool s -> sy_dirs s' = sy_dirs s -> kinv s s'.
Proof. intros E1 E2 E3. unfold kinv, PK. rewrite E1, E2. auto. Qed.

Lemma on_flow_kinv s key o s' fr out : on_flow s key o = Some (s', fr, out) -> kinv s s'.
Proof.
  intro E. destruct (on_flow_gen _ _ _ _ _ _ E) as (fl & fl' & El & _ & Ef & Ep & (_ & R2 & _)).
  split; [rewrite Ef; apply map_fst_aupdate|]. split; [exact R2|].
  intros HP k f Hin. rewrite Ef, map_fst_aupdate. rewrite Ep in Hin. apply in_app_or in Hin. destruct Hin as [Hin|Hin]; [eauto|].
  apply in_map_iff in Hin. destruct Hin as (f0 & Hq & _). injection Hq as <- _. eapply alookup_in; eauto.
Qed.

Lemma app_call_kinv s key o extra s' obs : app_call s key o extra = (s', obs) -> kinv s s'.
Proof.
  unfold app_call. destruct (on_flow s key o) as [[[s1 fr] out]|] eqn:Eo; intro E; injection E as <- _; [|apply kinv_refl].
  pose proof (on_flow_kinv _ _ _ _ _ _ Eo) as K. destruct (fo_err out); [|exact K].
  eapply kinv_trans; [exact K|apply kinv_same; reflexivity].
Qed.

Lemma try_streams_kinv skeys cap credit : forall order s s' r, try_streams s skeys order cap credit = (s', r) -> kinv s s'.
Proof.
  induction order as [|[sid0 tok0] rest IH]; intros s s' r E; cbn [try_streams] in E; [injection E as <- _; apply kinv_refl|].
  destruct (alookup skeys sid0) as [key0|]; [|eapply IH; eauto].
  destruct (on_flow s key0 _) as [[[s1 fr] out]|] eqn:Eo; [|eapply IH; eauto].
  pose proof (on_flow_kinv _ _ _ _ _ _ Eo) as K.
  destruct (fo_pick out); [injection E as <- _; exact K|eapply kinv_trans; [exact K|eapply IH; eauto]].
Qed.

Lemma sys_step_kinv s o s' obs : sys_step s o = (s', obs) -> kinv s s'.
Proof.
  intro E. unfold sys_step in E. destruct (sy_closed s); [injection E as <- _; apply kinv_refl|].
  assert (Miss : forall a b c d, missing s a b c d = (s', obs) -> kinv s s') by (intros a b c d Em; injection Em as <- _; apply kinv_refl).
  assert (Lrn : forall j, kinv s (learn s j)).
  { intro j. apply kinv_same; unfold learn; destruct (nthN (sy_dirs s) j); try destruct (n =? 0); reflexivity. }
  destruct o as [side j n|side j|side j|side j n|side j err|side j err|side cap fl|i|i|i].
  1-3,5: (destruct ((side <? 2) && has_writer s side j); [eapply app_call_kinv; eauto|eapply Miss; eauto]).
  1,2: (destruct ((side <? 2) && has_reader s side j); [eapply app_call_kinv; eauto|eapply Miss; eauto]).
  - destruct (side <? 2); [|injection E as <- _; apply kinv_refl].
    destruct (emit s side cap fl) as [s1 r] eqn:Ee.
    assert (K : kinv s s1).
    { unfold emit in Ee. destruct (cap <? StreamCtl.STREAM_FRAME_MAX); [injection Ee as <- _; apply kinv_refl|].
      destruct (try_streams s _ _ cap _) as [s2 r2] eqn:Et. pose proof (try_streams_kinv _ _ _ _ _ _ _ Et) as K2.
      destruct r2 as [[[[k0 sid0] tok0] p0]|]; injection Ee as <- _; [|exact K2].
      eapply kinv_trans; [exact K2|apply kinv_same; unfold set_cursor; destruct (side =? 0); reflexivity]. }
    destruct r as [[[key sid] p]|]; injection E as <- _; exact K.
  - destruct (nthN (sy_pool s) i) as [[key f]|]; [|injection E as <- _; apply kinv_refl]. cbv zeta in E.
    assert (K1 : forall b : bool, kinv s (if b then learn s (key_stream key) else s)) by (intros [|]; [apply Lrn|apply kinv_refl]).
    destruct f; (eapply kinv_trans; [apply K1|eapply app_call_kinv; exact E]).
  - destruct (nthN (sy_pool s) i) as [[key f]|]; [|injection E as <- _; apply kinv_refl].
    destruct f; try (eapply app_call_kinv; exact E). injection E as <- _; apply kinv_refl.
  - destruct (nthN (sy_pool s) i) as [[key f]|]; [|injection E as <- _; apply kinv_refl].
    destruct f; try (eapply app_call_kinv; exact E); injection E as <- _; apply kinv_refl.
Qed.

Lemma sys_exec_kinv ops : forall s, kinv s (sys_exec s ops).
Proof.
  induction ops as [|o rest IH]; intro s; cbn [sys_exec]; [apply kinv_refl|].
  destruct (sys_step s o) as [s1 obs] eqn:E. cbn [fst]. eapply kinv_trans; [eapply sys_step_kinv; eauto|apply IH].
Qed.

Lemma init_flows_keys w : forall dirs j0 k, In k (map fst (init_flows w dirs j0)) -> j0 <= k / 2 /\ k / 2 < j0 + lenN dirs.
Proof.
  induction dirs as [|d t IH]; intros j0 k; cbn [init_flows map fst]; [intros []|].
  rewrite lenN_cons. intros [H|H].
  - subst k. replace (2 * j0 / 2) with j0 by (symmetry; rewrite N.mul_comm; apply N.div_mul; lia). lia.
  - destruct (d =? 0); cbn [app map fst] in H.
    + destruct H as [H|H].
      * subst k. replace ((2 * j0 + 1) / 2) with j0; [lia|]. symmetry. rewrite N.mul_comm. rewrite N.div_add_l by lia. cbn. lia.
      * destruct (IH _ _ H). lia.
    + destruct (IH _ _ H). lia.
Qed.

Definition ocond (s : sys) (side : N) (kf : N * flow) : bool :=
  (key_side (fst kf) =? side) && sn_inset (fl_snd (snd kf)) && ((side =? 0) || known s (key_stream (fst kf))).

Lemma outgoing_fold s side : forall l key fl,
  (forall kf1 kf2, In kf1 l -> In kf2 l -> ocond s side kf1 = true -> ocond s side kf2 = true ->
     sid_of_stream (sy_dirs s) (key_stream (fst kf1)) = sid_of_stream (sy_dirs s) (key_stream (fst kf2)) -> fst kf1 = fst kf2) ->
  In (key, fl) l -> ocond s side (key, fl) = true ->
  alookup (fold_right (fun (kf : N * flow) acc =>
             let k := fst kf in
             if (key_side k =? side) && sn_inset (fl_snd (snd kf)) && ((side =? 0) || known s (key_stream k))
             then StreamCtl.ainsert acc (sid_of_stream (sy_dirs s) (key_stream k)) k else acc) [] l)
          (sid_of_stream (sy_dirs s) (key_stream key)) = Some key.
Proof.
  induction l as [|kf t IH]; intros key fl Hinj Hin Hc; [destruct Hin|].
  cbn [fold_right]. cbv zeta. fold (ocond s side kf).
  destruct Hin as [->|Hin].
  - rewrite Hc. cbn [fst]. apply alookup_ainsert_same.
  - assert (IHt : alookup (fold_right (fun (kf : N * flow) acc =>
             let k := fst kf in
             if (key_side k =? side) && sn_inset (fl_snd (snd kf)) && ((side =? 0) || known s (key_stream k))
             then StreamCtl.ainsert acc (sid_of_stream (sy_dirs s) (key_stream k)) k else acc) [] t)
          (sid_of_stream (sy_dirs s) (key_stream key)) = Some key).
    { apply (IH key fl); [|exact Hin|exact Hc]. intros a b Ha Hb. apply Hinj; now right. }
    destruct (ocond s side kf) eqn:Ek; [|exact IHt].
    destruct (N.eq_dec (sid_of_stream (sy_dirs s) (key_stream (fst kf))) (sid_of_stream (sy_dirs s) (key_stream key))) as [Es|NE].
    + assert (fst kf = key) by (apply (Hinj kf (key, fl)); [now left|now right|exact Ek|exact Hc|exact Es]).
      rewrite Es, H. apply alookup_ainsert_same.
    + rewrite alookup_ainsert_other by congruence. exact IHt.
Qed.

Lemma listed_of_flow s side key fl :
  Forall (fun d => d = 0 \/ d = 1) (sy_dirs s) ->
  (forall k, In k (map fst (sy_flows s)) -> key_stream k < lenN (sy_dirs s)) ->
  alookup (sy_flows s) key = Some fl -> key_side key = side -> sn_inset (fl_snd fl) = true ->
  (side = 0 \/ known s (key_stream key) = true) -> listed s side key.
Proof.
  intros Hd Hk El Hs Hi Hkn. exists (sid_of_stream (sy_dirs s) (key_stream key)). unfold outgoing_keys.
  apply (outgoing_fold s side (sy_flows s) key fl).
  - intros [k1 f1] [k2 f2] H1 H2 C1 C2 Es. cbn [fst] in *. unfold ocond in C1, C2. cbn [fst snd] in C1, C2.
    apply andb_true_iff in C1. destruct C1 as [C1 _]. apply andb_true_iff in C1. destruct C1 as [C1 _]. apply N.eqb_eq in C1.
    apply andb_true_iff in C2. destruct C2 as [C2 _]. apply andb_true_iff in C2. destruct C2 as [C2 _]. apply N.eqb_eq in C2.
    assert (J : key_stream k1 = key_stream k2).
    { apply (sid_of_stream_inj (sy_dirs s)); [exact Hd| | |exact Es]; apply Hk; apply in_map_iff; [exists (k1, f1)|exists (k2, f2)]; auto. }
    unfold key_side, key_stream in *.
    assert (Q1 : k1 = 2 * (k1 / 2) + k1 mod 2) by (apply N.div_mod; discriminate).
    assert (Q2 : k2 = 2 * (k2 / 2) + k2 mod 2) by (apply N.div_mod; discriminate).
    rewrite Q1, Q2, J, C1, C2. reflexivity.
  - apply alookup_In. exact El.
  - unfold ocond. cbn [fst snd]. rewrite Hs, N.eqb_refl, Hi. cbn [andb]. destruct Hkn as [->| ->]; [reflexivity|apply orb_true_r].
Qed.

(* ---- the round from any state the two endpoints can reach *)
Lemma p_c01_progress_reachable : forall rot w dirs ops fuel cap s',
  Forall (fun d => d = 0 \/ d = 1) dirs ->
  let s := sys_exec (sys_init rot w dirs) ops in
  sy_closed s = false ->
  (forall key fl, alookup (sy_flows s) key = Some fl -> ~ is_reset (fl_snd fl) /\ wr (fl_snd fl) <= md (fl_snd fl)) ->
  (forall key f, In (key, f) (sy_pool s) -> is_frs f) ->
  26 <= cap -> cap < two62 -> sys_round fuel cap s = (s', true) ->
  forall key fl, alookup (sy_flows s) key = Some fl ->
    (key_side key = 0 \/ known s (key_stream key) = true \/ sn_inset (fl_snd fl) = false) ->
    exists fl', alookup (sy_flows s') key = Some fl' /\ flow_done fl'.
Proof.
  intros rot w dirs ops fuel cap s' Hd s Hcl Hq Hp Hcap Hcap2 E key fl El Hact.
  destruct (sys_exec_kinv ops (sys_init rot w dirs)) as (K1 & K2 & K3). fold s in K1, K2, K3.
  assert (HPK : PK s) by (apply K3; intros k f []).
  assert (Hc : Calm s).
  { split; [exact Hcl|]. split; [exact (sys_exec_inv ops _ (SysInv_init rot w dirs))|]. split; [exact Hq|].
    intros k f Hin. split; [eapply Hp; eauto|apply in_alookup; eapply HPK; eauto]. }
  apply (p_c01_progress_system fuel cap s s' Hc Hcap Hcap2 E key fl El).
  destruct (sn_inset (fl_snd fl)) eqn:Ei; [|now left]. right.
  assert (Hks : forall k, In k (map fst (sy_flows s)) -> key_stream k < lenN (sy_dirs s)).
  { intros k Hin. rewrite K1, K2 in *. cbn [sys_init sy_flows sy_dirs] in *.
    destruct (init_flows_keys _ _ _ _ Hin). unfold key_stream. lia. }
  assert (Hd' : Forall (fun d => d = 0 \/ d = 1) (sy_dirs s)) by (rewrite K2; exact Hd).
  assert (Hside : key_side key = 0 \/ key_side key = 1).
  { unfold key_side. assert (Hm : key mod 2 < 2) by (apply N.mod_upper_bound; discriminate).
    remember (key mod 2) as m. clear Heqm. lia. }
  destruct Hact as [H0|[Hkn|Hni]]; [| |congruence].
  - left. apply (listed_of_flow s 0 key fl Hd' Hks El H0 Ei). now left.
  - destruct Hside as [H0|H1].
    + left. apply (listed_of_flow s 0 key fl Hd' Hks El H0 Ei). now left.
    + right. apply (listed_of_flow s 1 key fl Hd' Hks El H1 Ei). now right.
Qed.

(* the state after a round is calm again, so every flow of it is a reachable flow *)
Lemma sys_emit_loop_calm side cap : forall fuel s, Calm s -> Calm (fst (sys_emit_loop fuel s side cap)).
Proof.
  induction fuel as [|k IH]; intros s Hc; cbn [sys_emit_loop]; [exact Hc|].
  destruct (emit s side cap cap) as [s1 [r|]] eqn:Ee; destruct (emit_calm _ _ _ _ _ _ Hc Ee) as (A & _); [apply IH; exact A|exact A].
Qed.

Lemma sys_round_calm fuel cap s : Calm s -> Calm (fst (sys_round fuel cap s)).
Proof.
  intro Hc. unfold sys_round.
  destruct (lose_list_calm (seqN (length (sy_pool s))) s Hc) as [Hc1 _]. fold (lose_all s) in Hc1.
  pose proof (sys_emit_loop_calm 0 cap fuel _ Hc1) as Hc2. destruct (sys_emit_loop fuel (lose_all s) 0 cap) as [s2 ok0]. cbn [fst] in Hc2.
  pose proof (sys_emit_loop_calm 1 cap fuel _ Hc2) as Hc3. destruct (sys_emit_loop fuel s2 1 cap) as [s3 ok1]. cbn [fst] in *.
  destruct (deliver_all_spec _ Hc3) as (Hc4 & _). exact (proj1 (ack_all_spec _ Hc4)).
Qed.

Lemma p_c01_done_reads : forall c fl P room fl' P',
  flow_reach c fl P -> ~ is_reset (fl_snd fl) -> flow_done fl -> wr (fl_snd fl) < room ->
  run c fl P [FRead room; FRead room] = (fl', P') ->
  rc_got (fl_rcv fl') = written_bytes c fl' /\ (sn_shutcalled (fl_snd fl') = true -> rc_eos (fl_rcv fl') = true).
Proof. intros c fl P room fl' P' Hre. apply reads_finish. apply reach_FI. exact Hre. Qed.
