(* C10 — acknowledgement bookkeeping is truthful in both directions.
   Only the property theorems live here: each is closed by a lemma of Proofs/RcvdJournal.v or
   Proofs/SentJournal.v, and its assumptions are printed for the audit.

   Received side: a history is a list of [rev_] events (on_rcvd_pn, gen_ack_frame_util,
   on_rcvd_ack — each holds the write lock for its whole duration) from an empty journal with any
   max_ack_delay; [rreach h j reg] : after history h the journal is j and reg is the log of the
   numbers passed to on_rcvd_pn.  Sent side: a history is a list of [sev] events (whole
   NewPacketGuard lives, and the calls of SentRotateGuards incl. the resize of their Drop);
   [sreach h j all] : after h the journal is j and all!k is the list of frames recorded by the
   guard that consumed packet number k; [ev_ok] is the guard discipline of tx.rs. *)
From Coq Require Import List ZArith Bool.
From GQ Require Import Model.RcvdJournal Model.SentJournal Proofs.RcvdJournal Proofs.SentJournal.
Import ListNotations.
Local Open Scope Z_scope.

(* ---- ACK frames generated ---- *)

(* every number enumerated by a generated frame was registered as received (if `largest` is
   already rotated out of the window the frame lists `largest` alone, which was registered) *)
Theorem c10_ack_sound : forall h j reg now pn largest rt cap j' f,
  rreach h j reg -> In largest reg ->
  gen_ack j now pn largest rt cap = GaOk j' f ->
  exists rs, ack_iter f = Some rs /\ forall x, in_ranges x rs = true -> In x reg.
Proof. exact p_c10_ack_sound. Qed.

(* the hypothesis `In largest reg` cannot be dropped *)
Theorem c10_ack_sound_needs_registered_largest :
  let h := [RvRcvd 0 1 true 10; RvRcvd 0 4 true 10; RvRcvd 0 6 true 10] in
  match rv_run (rj_new None) [] h with
  | Some (j, reg) =>
      match gen_ack j 0 1 5 0 100 with
      | GaOk _ f => ack_iter f = Some [(5, 5); (3, 3); (0, 0)] /\ ~ In 3 reg /\ ~ In 5 reg /\ ~ In 0 reg
      | _ => False
      end
  | None => False
  end.
Proof. exact p_c10_ack_sound_needs_pre. Qed.

(* no u32 underflow in `gap - 1`, `ack - 1`, `first_range` *)
Theorem c10_ack_fields : forall h j reg now pn largest rt cap j' f,
  rreach h j reg -> In largest reg ->
  gen_ack j now pn largest rt cap = GaOk j' f ->
  0 <= a_first f /\ forall g a, In (g, a) (a_ranges f) -> 0 <= g /\ 0 <= a.
Proof. exact p_c10_ack_fields. Qed.

(* holds in every state, for every argument: size within capacity, largest as requested *)
Theorem c10_ack_fits : forall j now pn largest rt cap j' f,
  gen_ack j now pn largest rt cap = GaOk j' f -> ack_encoding_size f <= cap /\ a_largest f = largest.
Proof. exact p_c10_ack_fits. Qed.

Theorem c10_ack_largest : forall j now pn largest rt cap j' f,
  gen_ack j now pn largest rt cap = GaOk j' f -> a_largest f = largest.
Proof. intros. eapply p_c10_ack_fits; eauto. Qed.

(* capacity at least the size of the frame that lists everything => every tracked received
   number <= largest is listed (full strength since the fix of F30, `capacity >= size`) *)
Theorem c10_ack_complete : forall h j reg now pn largest rt cap j' f,
  rreach h j reg -> In largest reg ->
  gen_ack j now pn largest rt cap = GaOk j' f -> full_size j now largest rt <= cap ->
  exists rs, ack_iter f = Some rs /\
    forall x, x <= largest -> has j x = true -> in_ranges x rs = true.
Proof. exact p_c10_ack_complete. Qed.

(* regression witness of F30: capacity == full size (7 bytes) returns the complete frame; with 6
   bytes the last range is cut and the frame uses 5 *)
Theorem c10_ack_exact_fit :
  let h := [RvRcvd 0 0 true 10; RvRcvd 0 2 true 10] in
  match rv_run (rj_new None) [] h with
  | Some (j, reg) =>
      full_size j 0 2 0 = 7 /\
      match gen_ack j 0 1 2 0 7, gen_ack j 0 1 2 0 6 with
      | GaOk _ f, GaOk _ f6 =>
          ack_iter f = Some [(2, 2); (0, 0)] /\ ack_encoding_size f = 7 /\
          ack_iter f6 = Some [(2, 2)] /\ ack_encoding_size f6 = 5
      | _, _ => False
      end
  | None => False
  end.
Proof. exact p_c10_ack_exact_fit. Qed.

(* generating a frame — with any capacity, also when it is refused with CONGESTION — marks the
   visited records AckSent but never removes a number from the tracked set: what was cut for
   capacity is listed by the next frame that has room (c10_ack_complete applies to j') *)
Theorem c10_genack_keeps_tracked : forall j now pn largest rt cap,
  match gen_ack j now pn largest rt cap with
  | GaOk j' _ | GaErr j' => r_off j' = r_off j /\ forall q, has j' q = has j q
  | GaPanic => True
  end.
Proof. exact p_c10_genack_keeps_tracked. Qed.

(* ---- a packet number is accepted at most once ---- *)
Theorem c10_accept_once : forall h j reg pn p,
  rreach h j reg -> In pn reg -> decode_pn j p <> DpnOk pn.
Proof. exact p_c10_accept_once. Qed.

Theorem c10_accept_once_forever : forall h1 h2 j reg now pn el pto p,
  rreach (h1 ++ RvRcvd now pn el pto :: h2) j reg -> decode_pn j p <> DpnOk pn.
Proof. exact p_c10_accept_once_forever. Qed.

(* ---- frames fed back from the sent journal ---- *)
Theorem c10_sent_inv : forall h j all, sreach h j all ->
  SInv j all /\ length (s_queue j) = sumn (s_recs j).
Proof. exact p_c10_sent_inv. Qed.

(* in every reachable state (indeed in every state satisfying the invariant, so also between the
   calls of one guard) on_packet_acked cannot panic and yields exactly the frames carried by pn
   if pn is in flight (Flighting / Retransmitted), nothing otherwise (skipped = trivial packets,
   acknowledged, dropped, not sent); afterwards pn is not in flight *)
Theorem c10_sent_exact : forall h j all pn, sreach h j all ->
  exists j', on_packet_acked j pn = Some (j', if in_flight j pn then carried all pn else [])
    /\ in_flight j' pn = false
    /\ (forall q, q <> pn -> s_get j' q = s_get j q) /\ s_next j' = s_next j.
Proof. intros h j all pn R. apply p_c10_sent_exact_acked. apply (p_c10_sent_inv _ _ _ R). Qed.

Theorem c10_sent_exact_step : forall j all pn, SInv j all ->
  exists j', on_packet_acked j pn = Some (j', if in_flight j pn then carried all pn else [])
    /\ in_flight j' pn = false
    /\ (forall q, q <> pn -> s_get j' q = s_get j q) /\ s_next j' = s_next j.
Proof. exact p_c10_sent_exact_acked. Qed.

Theorem c10_sent_lost : forall j all pn, SInv j all ->
  exists j', may_loss_packet j pn = Some (j', if in_flight j pn then carried all pn else [])
    /\ in_flight j' pn = in_flight j pn
    /\ (forall q, q <> pn -> s_get j' q = s_get j q) /\ s_next j' = s_next j.
Proof. exact p_c10_sent_exact_lost. Qed.

(* reported as delivered once: after an acknowledgement of an already sent pn, every later
   acknowledgement or loss declaration of pn yields nothing *)
Theorem c10_sent_once : forall h1 h2 pn ja alla j all,
  sreach h1 ja alla -> pn < s_next ja ->
  sreach (h1 ++ EvAcked pn :: h2) j all ->
  exists j1 j2, on_packet_acked j pn = Some (j1, []) /\ may_loss_packet j pn = Some (j2, []).
Proof. exact p_c10_sent_once. Qed.

(* the invariant is preserved by every step, and no step of a SentRotateGuard can panic *)
Theorem c10_sent_step : forall j all e j' all' out, SInv j all -> ev_ok e ->
  ev_step j all e = Some (j', all', out) -> SInv j' all'.
Proof. exact ev_step_inv. Qed.

Theorem c10_sent_no_panic : forall j all e, SInv j all ->
  match e with EvNew _ _ => True | _ => ev_step j all e <> None end.
Proof. exact ev_step_total. Qed.

(* a SentRotateGuard life as executed by the stream is such an event sequence *)
Theorem c10_rotate_is_events : forall ops j now j' outs all,
  rotate j now ops = (Some j', outs) ->
  ev_run j all (map (ev_of now) ops ++ [EvResize now]) = Some (j', all).
Proof. exact rotate_events. Qed.

(* the discipline is needed: a guard dropped after record_frame shifts the attribution *)
Theorem c10_sent_needs_discipline :
  let h := [EvNew 0 (mknp [7] false NpAbandon 10 10); EvNew 0 (mknp [8] false NpBuildTime 10 10)] in
  match ev_run sj_new [] h with
  | Some (j, all) => on_packet_acked j 0 = Some (mksj [7; 8] 0 [SAcked 1 0 10] 0, [7]) /\ carried all 0 = [8]
  | None => False
  end.
Proof. exact p_c10_sent_needs_discipline. Qed.

(* ---- non-vacuity ---- *)
Example c10_nonvacuous_rcvd :
  let h := [RvRcvd 0 1 true 10; RvRcvd 0 3 true 10; RvRcvd 1 4 false 10; RvRcvd 1 3 true 10; RvRcvd 2 8 true 10;
            RvGenAck 3 5 8 2 9; RvPeerAck 4 (mkack 5 0 0 []); RvRcvd 5 9 true 10; RvGenAck 50 6 9 5 100] in
  Forall rv_ok h /\
  match rv_run (rj_new (Some 25)) [] h with
  | Some (j, reg) =>
      In 9 reg /\ r_off j = 1 /\
      match gen_ack j 50 7 9 5 12, gen_ack j 50 7 9 5 11 with
      | GaOk _ f, GaOk _ f' =>
          f = mkack 9 45000 1 [(2, 1); (0, 0)] /\ ack_encoding_size f = 12 /\ full_size j 50 9 5 = 12 /\
          f' = mkack 9 45000 1 [(2, 1)] /\ ack_encoding_size f' = 10
      | _, _ => False
      end
  | None => False
  end.
Proof. cbv zeta. split; [repeat constructor; cbn; try discriminate; auto|]. vm_compute. repeat split; auto. Qed.

Example c10_nonvacuous_sent :
  let h := [EvNew 0 (mknp [11; 12] false NpBuildTime 5 50);
            EvNew 0 (mknp [] false NpAbandon 5 50);
            EvNew 1 (mknp [] true NpBuildTrivial 5 50);
            EvNew 2 (mknp [13] true NpBuildTime 5 50);
            EvLargest 2; EvLost 0; EvAcked 2] in
  Forall ev_ok h /\
  match ev_run sj_new [] h with
  | Some (j, all) =>
      all = [[11; 12]; []; [13]] /\ in_flight j 0 = true /\ in_flight j 2 = false /\
      on_packet_acked j 0 = Some (mksj [11; 12; 13] 0 [SAcked 2 0 50; SSkipped; SAcked 1 2 52] 2, [11; 12])
  | None => False
  end.
Proof.
  cbv zeta. split; [|vm_compute; repeat split; reflexivity].
  repeat match goal with |- Forall _ (_ :: _) => apply Forall_cons | |- Forall _ [] => apply Forall_nil end;
    unfold ev_ok, disciplined; cbn;
    first [left; reflexivity | right; discriminate | exact I | reflexivity].
Qed.

Print Assumptions c10_ack_sound.
Print Assumptions c10_ack_sound_needs_registered_largest.
Print Assumptions c10_ack_fields.
Print Assumptions c10_ack_fits.
Print Assumptions c10_ack_largest.
Print Assumptions c10_ack_complete.
Print Assumptions c10_ack_exact_fit.
Print Assumptions c10_genack_keeps_tracked.
Print Assumptions c10_accept_once.
Print Assumptions c10_accept_once_forever.
Print Assumptions c10_sent_inv.
Print Assumptions c10_sent_exact.
Print Assumptions c10_sent_exact_step.
Print Assumptions c10_sent_lost.
Print Assumptions c10_sent_once.
Print Assumptions c10_sent_step.
Print Assumptions c10_sent_no_panic.
Print Assumptions c10_rotate_is_events.
Print Assumptions c10_sent_needs_discipline.
Print Assumptions c10_nonvacuous_rcvd.
Print Assumptions c10_nonvacuous_sent.
