//! Correspondence stream `rcvbuf` (C08): drives the real `qrecovery::recv::RecvBuf`.
//! ops: 0 off len = recv(off, content[off..off+len]); 1 room = try_read into `room` bytes; 2 = try_next
use bytes::Bytes;
use hproto::{Obs, Op, content_slice};
use qrecovery::recv::RecvBuf;

fn state(b: &RecvBuf, o: &mut Obs) {
    o.push(b.nread()).push(b.largest_offset()).push(b.available()).push_bool(b.is_readable());
}

fn step(b: &mut RecvBuf, op: &Op, _i: usize) -> Obs {
    let mut o = Obs::new();
    match op.tag {
        0 => {
            let r = b.recv(op.u(0), Bytes::from(content_slice(op.u(0), op.u(1))));
            o.push(r);
        }
        1 => {
            let mut dst = vec![0u8; op.u(0) as usize];
            let n = {
                let mut slice: &mut [u8] = &mut dst[..];
                b.try_read(&mut slice)
            };
            o.push_usize(n);
            o.push_bytes(&dst[..n]);
        }
        2 => match b.try_next() {
            Some(d) => {
                o.push(1u8).push_usize(d.len());
                o.push_bytes(&d);
            }
            None => {
                o.push(0u8);
            }
        },
        _ => {
            o.push(-99i32);
            return o;
        }
    }
    state(b, &mut o);
    o
}

fn main() {
    hproto::run(|_| RecvBuf::default(), step);
}
