#!/usr/bin/env python3
"""seed_eval.py <seeded dir> [--props C05,C03] [--tier quick]
Applies seeded/<id>/patch.diff to /repo, runs the named checks, records what they report in
seeded/<id>/result.json, and always restores /repo (git checkout -- . ; untracked files removed)."""
import json, os, subprocess, sys, time
ROOT = os.path.dirname(os.path.dirname(os.path.abspath(__file__)))
# the repository the checks of this tree build against (the symlink rp; /repo for /verif, the private worktree in an agent workspace)
REPO = os.path.realpath(os.path.join(ROOT, "rp"))


def sh(cmd, **kw):
    return subprocess.run(cmd, shell=True, stdout=subprocess.PIPE, stderr=subprocess.STDOUT, text=True, **kw)


def main():
    d = os.path.abspath(sys.argv[1].rstrip("/"))
    args = sys.argv[2:]
    meta = json.load(open(os.path.join(d, "meta.json")))
    props = meta.get("checks") or [meta["property"]]
    tier = "quick"
    for i, a in enumerate(args):
        if a == "--props":
            props = args[i + 1].split(",")
        if a == "--tier":
            tier = args[i + 1]
    st = sh("git -C %s status --porcelain" % REPO).stdout.strip()
    if st:
        sys.exit("%s is not clean:\n" % REPO + st)
    r = sh("git -C %s apply %s" % (REPO, os.path.join(d, "patch.diff")))
    if r.returncode != 0:
        sys.exit("patch does not apply: " + r.stdout)
    results = {}
    try:
        for p in props:
            t0 = time.time()
            rr = sh("./check %s --tier %s" % (p, tier), cwd=ROOT)
            lines = [l for l in rr.stdout.split("\n") if l.startswith("VIOLATION") or l.startswith("KNOWN-FINDING")]
            replays = []
            for l in lines:
                if l.startswith("VIOLATION"):
                    path = l.split("replay=")[1].split()[0]
                    try:
                        replays.append(open(path).read()[:1500])
                    except OSError:
                        pass
            results[p] = {"exit": rr.returncode, "lines": lines, "wall_s": round(time.time() - t0, 1),
                          "first_replay": replays[:1], "tail": rr.stdout.strip().split("\n")[-3:]}
            print(p, "exit", rr.returncode, *lines[:3], sep="\n  ")
    finally:
        sh("git -C %s checkout -- ." % REPO)
        sh("git -C %s clean -fdq -e target" % REPO)
    # evidence files must describe the unchanged tree: re-run the same checks on the restored repo
    for p in props:
        rr = sh("./check %s --tier quick" % p, cwd=ROOT)
        if rr.returncode != 0:
            print("WARNING: check %s does not pass on the restored tree" % p)
    out = {"tier": tier, "at": time.strftime("%Y-%m-%d %H:%M:%S"), "results": results,
           "detected": any(v["exit"] == 1 and any(l.startswith("VIOLATION") for l in v["lines"]) for v in results.values()),
           "with_failing_input": any(any(l.startswith("VIOLATION") and "no-failing-input-found" not in l for l in v["lines"]) for v in results.values())}
    json.dump(out, open(os.path.join(d, "result.json"), "w"), indent=1)
    print("detected:", out["detected"], "with failing input:", out["with_failing_input"])


if __name__ == "__main__":
    main()
