"""C04 — hostile but well-formed frames cost bounded work and get the RFC's error."""
import os
import re

import pycodec as pc
import vlib
from vlib import Case

PROP_FILE = "Properties/C04.v"
K = 1 << 16                      # threshold of the finding classes (DESIGN appendix B)
V62 = (1 << 62) - 1

RULE = ("cases = a short legitimate history (packets sent, packets received with gaps, an ACK of ours, a peer ACK, NEW_/RETIRE_CONNECTION_ID, "
        "a path applying for a connection ID, set_limit, a STREAM frame) followed by several hostile probes, each ONE frame (as bytes, through "
        "the real parser), packet number or active_connection_id_limit value whose fields are drawn from {0,1,small,2^16,2^31-1,2^31,2^62-1} and "
        "random, run in a forked child under RLIMIT_AS/RLIMIT_CPU; non-trivial = the case has a history of >= 3 operations and >= 2 probes of "
        "different kinds of which at least one carries a field >= 2^16; distinct by hash of the op list")
TRUSTED_BASE = [
    "cost models coq/Model/{C04Handlers,C04Cid}.v count loop iterations / cells / frames by arithmetic on the field values; the handlers' "
    "effects are the existing models (RcvdJournal, SentJournal, AckFrame, Frames, StreamCtl, Sid, and for NEW_CONNECTION_ID the shared "
    "RemoteCid model of C14 in the variant of the repaired code: active IDs counted after the frame is processed); equality with the Rust is checked by "
    "stream `handlers` (error kinds, frames emitted, controller loop iterations through a cfg(gmquic_verif) counter, cells added, "
    "collected numbers: exactly; allocated bytes/blocks measured by a counting global allocator: inside the band the cost predicts)",
    "the glue of qconnection/src/space.rs + space/{initial,handshake,data}.rs (Frame::Ack arm, Ack*Space::recv_frame) is replicated in "
    "the harness; the ORDER of the three ACK consumers, the presence of the F7/F8 checks, the error kind of RETIRE_CONNECTION_ID for an "
    "unissued number (F55) and the shape of RemoteCids::recv_new_cid_frame (insert, retire_prior_to, arrange, count) are extracted from the "
    "Rust source on every run (tools/props/C04.py source_config, fail closed) and passed to harness and model as configuration",
    "the congestion controller's own state is not modelled here (C13): the number of packets it tracks is read from the implementation "
    "before every operation and given to the model as an input; theorems quantify over it",
    "probes run in a forked child with RLIMIT_AS = 320 MiB (what ends an unbounded handler, deterministically) and, as backstops below the "
    "per-operation watchdog (raised to 60 s for this stream), RLIMIT_CPU = 15 s and a wall-clock alarm at 48 s; a child killed by a limit "
    "(or a `capacity overflow`) is the observation `-5`, which the model must predict (value-driven cost > 2^21); the generator leaves the "
    "band 2^17..2^27 empty (values up to 10^5 are expected to complete, values from 2^27 on to hit the limit)",
]
MODELLED = ("qbase/src/frame/ack.rs iter + is_valid; qbase/src/frame/io.rs be_frame (Model.Frames); qcongestion/src/packets.rs on_ack_rcvd "
            "(loop count only); qrecovery/src/journal/rcvd.rs decode_pn/on_rcvd_pn/on_rcvd_ack/gen_ack_frame_util; sent.rs update_largest/"
            "on_packet_acked/resize; qconnection/src/space.rs Ack*Space::recv_frame + dispatcher order; qbase/src/util/index_deque.rs "
            "insert/drain_to/advance/reset_offset; qbase/src/cid/remote_cid.rs recv_new_cid_frame/retire_prior_to/arrange_idle_cid/"
            "CidCell::assign (Model/RemoteCid.v, shared with C14; no path of the harness borrows or retires its ID); local_cid.rs set_limit/recv_retire_cid_frame/issue_new_cid; qbase/src/sid/* and "
            "qrecovery/src/streams (whole DataStreams model of C11/C12) for stream frames. Not modelled: Initial/Handshake spaces "
            "(same code, other epoch index), CRYPTO frames, ECN counts, paths that borrow/renew connection IDs")
ASSUMPTIONS = ["history is legitimate traffic (the generator's); probes leave the state untouched (they run in a child)",
               "cost unit = one loop iteration, one allocated cell or one queued frame; allocation is compared within a factor "
               "(1024 bytes and 32 blocks per unit + 64 KiB / 512 blocks), never exactly",
               "level partial: the congestion controller's packet count is an input; Initial/Handshake dispatchers are covered by the "
               "source-order extraction only"]

MANIFEST = {
    "text": "Machine-checked Coq theorems (Properties/C04.v) over cost models of every handler of peer-controlled numbers: AckFrame::iter with "
            "checked subtraction, the three ACK consumers in the dispatcher's real order, RcvdJournal::decode_pn/on_rcvd_pn over "
            "IndexDeque::insert, RemoteCids::recv_new_cid_frame/retire_prior_to, LocalCids::set_limit/recv_retire_cid_frame, MAX_STREAMS and "
            "the implicit open of lower-numbered streams. Proved for the fixed code: an ACK computing a negative packet number is a "
            "FRAME_ENCODING_ERROR and reaches no handler; an ACK whose largest >= next unsent number is a PROTOCOL_VIOLATION and reaches no "
            "handler; every accepted ACK costs at most a linear function of the packets ever sent times the tracked window; limit violations "
            "(MAX_STREAMS > 2^60, stream beyond the limit, RETIRE of an unissued number = PROTOCOL_VIOLATION) give the prescribed error "
            "with constant cost; NEW_CONNECTION_ID gets CONNECTION_ID_LIMIT_ERROR exactly when more than active_connection_id_limit IDs "
            "are active after the frame is processed (shared RemoteCid model of the repaired code). REFUTED with witnesses that replay on "
            "the real code: cost linear in a field VALUE for a packet number jump (F9), NEW_CONNECTION_ID sequence number / retire_prior_to "
            "(F10: sequence - highest seen cells are gap-filled and retire_prior_to - highest used RETIRE frames queued before any limit is "
            "looked at, even for frames that are then rejected), active_connection_id_limit (F11); each with the exact count, the bound "
            "that does hold and a conditional theorem outside the class. Models are run against the real handlers on the same inputs "
            "every check; allocation is measured.",
    "note": "Level partial: the controller's tracked-packet count is an input, the qconnection glue is replicated in the harness and tied "
            "by source-order extraction. Trusted: Coq kernel, extraction, OCaml driver, Rust harness (fork/rlimits, counting allocator, "
            "one cfg counter hook), Python generators/oracle.",
    "technique": "Coq proof (cost functions sharing the handlers' arithmetic, refinement to the list models, refuted-witness theorems) + "
                 "differential correspondence with measured allocation",
}

# ---------------------------------------------------------------------------------------------
# configuration read from the Rust source (fail closed)
# ---------------------------------------------------------------------------------------------
_CFG = {}


def _arm(src, start_pat):
    i = src.find(start_pat)
    if i < 0:
        raise RuntimeError("pattern %r not found" % start_pat)
    j = src.index("{", i)
    depth = 0
    k = j
    while True:
        if src[k] == "{":
            depth += 1
        elif src[k] == "}":
            depth -= 1
            if depth == 0:
                return src[j:k + 1]
        k += 1


def source_config():
    """-> (ord, f7, f8, f55): order of the ACK consumers in the three dispatchers, presence of the parser check and of
    `>=`, error kind of RETIRE_CONNECTION_ID for an unissued number; also checks (fail closed) that RemoteCids still
    has the shape the shared model describes: insert, retire_prior_to, arrange_idle_cid, then the count of active IDs"""
    if "v" in _CFG:
        return _CFG["v"]
    repo = vlib.REPO
    ords = []
    for fn in ("initial", "handshake", "data"):
        src = open(os.path.join(repo, "qconnection/src/space/%s.rs" % fn)).read()
        arm = _arm(src, "Frame::Ack(f) =>")
        pos = {k: arm.find(k) for k in ("update_largest", "cc().on_ack_rcvd", "rcvd_joural.on_rcvd_ack", "ack_frames_entry.send")}
        if min(pos["cc().on_ack_rcvd"], pos["rcvd_joural.on_rcvd_ack"], pos["ack_frames_entry.send"]) < 0:
            raise RuntimeError("space/%s.rs: the Frame::Ack arm no longer calls the three consumers" % fn)
        if not (pos["cc().on_ack_rcvd"] < pos["rcvd_joural.on_rcvd_ack"] < pos["ack_frames_entry.send"]):
            raise RuntimeError("space/%s.rs: unexpected order of the ACK consumers" % fn)
        if 0 <= pos["update_largest"] < pos["cc().on_ack_rcvd"] and re.search(r"update_largest\(&f\)\s*\{[^}]*return;", arm, re.S):
            ords.append(1)
        else:
            ords.append(0)
    if len(set(ords)) != 1:
        # one dispatcher without the guard is enough for a peer: the weakest order is what gets checked
        vlib.log("[C04] the three dispatchers disagree on validating the ACK first: %s -> checking the unguarded order" % ords)
        ords = [0]
    space = open(os.path.join(repo, "qconnection/src/space.rs")).read()
    for name in ("AckInitialSpace", "AckHandshakeSpace", "AckDataSpace"):
        body = _arm(space, "impl ReceiveFrame<AckFrame> for %s" % name)
        a, b, c = body.find("update_largest(&ack_frame)?"), body.find("ack_frame.iter()"), body.find("on_packet_acked(pn)")
        if not (0 <= a < b < c):
            raise RuntimeError("space.rs %s::recv_frame: update_largest / iter / on_packet_acked not in the modelled order" % name)
    io = open(os.path.join(repo, "qbase/src/frame/io.rs")).read()
    ack = open(os.path.join(repo, "qbase/src/frame/ack.rs")).read()
    f7 = 1 if re.search(r"verify\(\s*ack_frame_with_ecn\(ecn\)\s*,\s*AckFrame::is_valid\s*\)", io) and "checked_sub" in ack else 0
    sent = open(os.path.join(repo, "qrecovery/src/journal/sent.rs")).read()
    ul = _arm(sent, "pub fn update_largest")
    if "ack_frame.largest() >= self.inner.sent_packets.largest()" in ul:
        f8 = 1
    elif "ack_frame.largest() > self.inner.sent_packets.largest()" in ul:
        f8 = 0
    else:
        vlib.log("[C04] sent.rs update_largest: comparison not recognised -> model uses the weaker `>`")
        f8 = 0
    local = open(os.path.join(repo, "qbase/src/cid/local_cid.rs")).read()
    rr = _arm(local, "fn recv_retire_cid_frame")
    guard = rr.find("seq >= self.cid_deque.largest()")
    mk = re.search(r"ErrorKind::(\w+)", rr[guard:]) if guard >= 0 else None
    if mk is None:
        raise RuntimeError("local_cid.rs recv_retire_cid_frame: the test `seq >= largest()` and its error kind were not found")
    if mk.group(1) == "ProtocolViolation":
        f55 = 1
    else:
        if mk.group(1) != "ConnectionIdLimit":
            vlib.log("[C04] local_cid.rs recv_retire_cid_frame: error kind %s not recognised -> model uses CONNECTION_ID_LIMIT_ERROR" % mk.group(1))
        f55 = 0
    remote = open(os.path.join(repo, "qbase/src/cid/remote_cid.rs")).read()
    rn = _arm(remote, "fn recv_new_cid_frame")
    order = [rn.find(x) for x in ("seq < self.cid_deque.offset()", "self.cid_deque.insert(seq", "self.retire_prior_to(retire_prior_to)",
                                  "self.arrange_idle_cid()", "self.active_cid_limit")]
    # only the ORDER of the steps is required here (the comparison itself is checked by running it against the model)
    if min(order) < 0 or order != sorted(order) or rn.count("ErrorKind::") != 1:
        raise RuntimeError("remote_cid.rs recv_new_cid_frame is no longer `discard test, insert, retire_prior_to, arrange_idle_cid, "
                           "count of the active IDs` (the variant no_pre/post_count of Model/RemoteCid.v): %s" % order)
    _CFG["v"] = (ords[0], f7, f8, f55)
    return _CFG["v"]


def regen():
    o, f7, f8, f55 = source_config()
    vlib.log("[C04] source configuration: ACK validated before its consumers=%d  parser rejects negative pn=%d  update_largest uses >= : %d  "
             "RETIRE of an unissued number is PROTOCOL_VIOLATION=%d  NEW_CONNECTION_ID limit = count of active IDs after processing" % (o, f7, f8, f55))


# ---------------------------------------------------------------------------------------------
# frames
# ---------------------------------------------------------------------------------------------
def ack(largest, first, ranges=(), delay=0):
    f = [largest, delay, first, len(ranges)]
    for g, a in ranges:
        f += [g, a]
    return pc.encode_frame(pc.ACK, f + [0])


def newcid(seq, rpt, k=1):
    return pc.encode_frame(pc.NEW_CONNECTION_ID, [seq, rpt] + pc.pb(bytes([k % 251 + 1]) * 8) + pc.pb(bytes([k % 256]) * 16))


def retire(seq):
    return pc.encode_frame(pc.RETIRE_CONNECTION_ID, [seq])


def stream(sid, off, n=2, fin=0):
    code = pc.STREAM + (4 if off else 0) + 2 + (1 if fin else 0)
    return pc.encode_frame(code, [sid, off, 1, 1 if fin else 0] + pc.pb(bytes(range(n))))


def maxstreams(uni, v):
    return pc.varint(0x13 if uni else 0x12) + pc.varint(v)


def reset(sid, err, final):
    return pc.encode_frame(pc.RESET_STREAM, [sid, err, final])


def stop(sid, err):
    return pc.encode_frame(pc.STOP_SENDING, [sid, err])


def maxsd(sid, v):
    return pc.encode_frame(pc.MAX_STREAM_DATA, [sid, v])


def rd_varint(b, i):
    w = 1 << (b[i] >> 6)
    v = int.from_bytes(b[i:i + w], "big") & ((1 << (8 * w - 2)) - 1)
    return v, i + w


def decode(b):
    """-> (kind, fields) for the frame kinds the generator uses"""
    t, i = rd_varint(b, 0)
    vs = []

    def take(n):
        nonlocal i
        for _ in range(n):
            v, i2 = rd_varint(b, i)
            i = i2
            vs.append(v)
    if t in (2, 3):
        take(4)
        for _ in range(vs[2]):
            take(2)
        return "ack", {"largest": vs[0], "first": vs[3], "ranges": list(zip(vs[4::2], vs[5::2]))}
    if t == 0x18:
        take(2)
        return "newcid", {"seq": vs[0], "rpt": vs[1]}
    if t == 0x19:
        take(1)
        return "retire", {"seq": vs[0]}
    if 8 <= t <= 15:
        take(1)
        if t & 4:
            take(1)
        else:
            vs.append(0)
        return "stream", {"sid": vs[0], "off": vs[1]}
    if t in (0x12, 0x13):
        take(1)
        return "maxstreams", {"uni": t & 1, "v": vs[0]}
    if t == 4:
        take(3)
        return "reset", {"sid": vs[0], "final": vs[2]}
    if t == 5:
        take(2)
        return "stop", {"sid": vs[0]}
    if t == 0x11:
        take(2)
        return "maxsd", {"sid": vs[0], "v": vs[1]}
    return "other", {}


def ack_pns(f):
    """list of (lo, hi) computed like RFC 9000 19.3.1; None if a computed number is negative"""
    hi = f["largest"]
    lo = hi - f["first"]
    if lo < 0:
        return None
    out = [(lo, hi)]
    for g, a in f["ranges"]:
        hi = lo - g - 2
        lo = hi - a
        if lo < 0:
            return None
        out.append((lo, hi))
    return out


# ---------------------------------------------------------------------------------------------
# generator
# ---------------------------------------------------------------------------------------------
T_ADV, T_SENT, T_RCVD, T_SENDACK, T_CELL, T_LSET, T_FRAME, T_DUMP = 0, 1, 2, 3, 5, 7, 10, 20
P_FRAME, P_PN, P_SETLIMIT = 100, 101, 104
PAL = [0, 1, 2, 3, 7, 1 << 16, (1 << 16) - 1, (1 << 16) + 1, (1 << 31) - 1, 1 << 31, V62, V62 - 1, V62 - 2]


def pal(rng, extra=()):
    r = rng.random()
    if r < 0.45:
        return rng.choice(PAL)
    if r < 0.6 and extra:
        return max(0, min(V62, rng.choice(list(extra))))
    if r < 0.85:
        return rng.randint(0, 40)
    return rng.choice([rng.getrandbits(62), (1 << 31) + rng.getrandbits(30), (1 << 40) + rng.getrandbits(20)])


def small(rng, extra=()):
    r = rng.random()
    if r < 0.3 and extra:
        return max(0, rng.choice(list(extra)))
    return rng.choice([0, 0, 1, 1, 2, 3, 5, 9, rng.randint(0, 30)])


def gen_history(rng, cfg):
    """-> (ops, ref) ; ref = what the generator knows about the state (used to aim the probes)"""
    limit, msb, msu = cfg[1], cfg[2], cfg[3]
    ops = []
    nsent = rng.choice([0, 1, 2, 5, 8, 20, 40])
    if nsent:
        ops.append((T_SENT, [nsent]))
    rcvd = []
    if rng.random() < 0.8:
        pn = 0
        for _ in range(rng.choice([1, 3, 6, 12])):
            pn += rng.choice([0, 1, 1, 1, 2, 3]) if rcvd else 0
            if pn not in rcvd:
                rcvd.append(pn)
                ops.append((T_RCVD, [pn]))
            pn += 1
        if rng.random() < 0.15:
            j = max(rcvd) + rng.choice([50, 300])
            rcvd.append(j)
            ops.append((T_RCVD, [j]))
    if rcvd and rng.random() < 0.6:
        ops.append((T_SENDACK, []))
        nsent += 1
    if rng.random() < 0.3:
        ops.append((T_ADV, [rng.choice([1, 30, 150, 400, 2000])]))
    if nsent and rng.random() < 0.6:
        hi = rng.randint(0, nsent - 1)
        lo = rng.randint(0, hi)
        rs = []
        if lo >= 3 and rng.random() < 0.4:
            hi2 = rng.randint(0, lo - 2)
            lo2 = rng.randint(0, hi2)
            rs = [(lo - hi2 - 2, hi2 - lo2)]
        ops.append((T_FRAME, [ack(hi, hi - lo, rs)]))
    if rng.random() < 0.3:
        more = rng.choice([1, 3, 10])
        ops.append((T_SENT, [more]))
        nsent += more
    ncells = 0
    if rng.random() < 0.4:
        ops.append((T_CELL, []))
        ncells += 1
    seen = 0
    if rng.random() < 0.5 and limit >= 2:
        # a legitimate peer: the initial connection ID (sequence 0) is active, so at most limit - 1 more
        for s in range(1, min(limit - 1, 3) + 1):
            if rng.random() < 0.8:
                ops.append((T_FRAME, [newcid(s, 0, s)]))
                seen = s
    if rng.random() < 0.2:
        ops.append((T_CELL, []))
    issued = 2
    lset = False
    if rng.random() < 0.4:
        n = rng.choice([2, 3, 4, 8])
        ops.append((T_LSET, [n]))
        issued = max(issued, n)
        lset = True
    if rng.random() < 0.3:
        ops.append((T_FRAME, [retire(rng.randint(0, issued - 1))]))
        issued += 1
    nstreams = [0, 0]
    if rng.random() < 0.4 and msb > 0:
        idx = rng.randint(0, min(msb - 1, 4))
        ops.append((T_FRAME, [stream(4 * idx, 0, rng.choice([0, 1, 5]))]))
        nstreams[0] = idx + 1
    if rng.random() < 0.1:
        ops.append((T_DUMP, []))
    ref = {"next": nsent, "rcvd_next": (max(rcvd) + 1) if rcvd else 0, "seen": seen, "issued": issued, "lset": lset,
           "limit": limit, "msb": msb, "msu": msu, "nstreams": nstreams}
    return ops, ref


def gen_probe(rng, ref, kind=None):
    kind = kind or rng.choice(["ack", "ack", "ack", "pn", "pn", "newcid", "newcid", "retire", "setlimit", "maxstreams", "stream", "stream", "ctl"])
    nx = ref["next"]
    if kind == "ack":
        largest = pal(rng, (nx - 1, nx, nx + 1, nx - 2, nx // 2))
        first = pal(rng, (largest, largest + 1, largest - 1, 0, 1, largest // 2)) if rng.random() < 0.6 else small(rng, (largest,))
        rs = []
        for _ in range(rng.choice([0, 0, 0, 1, 1, 2, 3])):
            rs.append((small(rng) if rng.random() < 0.7 else pal(rng), small(rng) if rng.random() < 0.7 else pal(rng)))
        return (P_FRAME, [ack(largest, first, rs, rng.choice([0, 0, 25, V62]))])
    if kind == "pn":
        # the jump ahead of the next expected number is either at most 2^16 + 1 or at least 2^27 (only a 4-byte number can
        # say that): a jump in between would fit the child's address space only sometimes
        w = rng.choice([1, 2, 3, 4, 4, 4])
        exp = ref["rcvd_next"]
        jumps = [0, 1, 2, 3, rng.randint(0, 40), (1 << 16) - 1, 1 << 16, (1 << 16) + 1, -1, -2, -rng.randint(0, 40)]
        if w == 4:
            jumps += [(1 << 31) - 1 - exp, (1 << 31) - 2, 1 << 30, (1 << 27) + rng.getrandbits(26), (1 << 31) - 1 - exp] * 2
        j = rng.choice(jumps)
        if j >= 1 << (8 * w - 1):
            j = rng.randint(0, 40)
        x = max(0, exp + j) % (1 << (8 * w))
        return (P_PN, [w, x])
    if kind == "newcid":
        lim, seen = ref["limit"], ref["seen"]
        # the band 2^17 .. 2^31 stays empty (see TRUSTED_BASE): 100000 is the largest value expected to complete
        seq = pal(rng, (seen + 1, seen + 2, seen, seen + lim, seen + lim - 1, seen + lim + 1, 100000))
        rpt = rng.choice([0, 0, seq, seq, max(0, seq - 1), max(0, seq - lim), max(0, seq - lim + 1), max(0, seq - lim - 1), min(seq, pal(rng))])
        return (P_FRAME, [newcid(seq, min(rpt, seq), rng.randint(0, 200))])
    if kind == "retire":
        return (P_FRAME, [retire(pal(rng, (ref["issued"] - 1, ref["issued"], ref["issued"] + 1)))])
    if kind == "setlimit":
        # a huge limit keeps the real loop busy until the child's address-space limit: few of them
        return (P_SETLIMIT, [pal(rng, (2, 3, 8, 100000, 100)) if rng.random() < 0.3 else rng.choice([0, 1, 2, 3, 4, 8, 100, 1 << 16])])
    if kind == "maxstreams":
        return (P_FRAME, [maxstreams(rng.randint(0, 1), pal(rng, ((1 << 60) - 1, 1 << 60, (1 << 60) + 1, 100)))])
    d = rng.randint(0, 1)
    mx = ref["msu"] if d else ref["msb"]
    idx = rng.choice([0, 1, max(0, mx - 1), mx + 1, mx + 2, mx + 1, min(pal(rng), (1 << 60) - 1), ref["nstreams"][d]])
    if idx == mx:
        idx = mx + 1            # index == limit is C12's F14 (accepted); not this property's subject
    sid = 4 * idx + 2 * d + rng.choice([0, 0, 0, 1])
    if kind == "stream":
        n = rng.choice([0, 1, 3])
        off = min(pal(rng), V62 - n) if rng.random() < 0.5 else 0
        return (P_FRAME, [stream(sid, off, n, rng.randint(0, 1))])
    k = rng.choice(["reset", "stop", "maxsd"])
    if k == "reset":
        return (P_FRAME, [reset(sid, rng.randint(0, 9), pal(rng))])
    if k == "stop":
        return (P_FRAME, [stop(sid, rng.randint(0, 9))])
    return (P_FRAME, [maxsd(sid, pal(rng))])


def cfg_words(rng):
    o, f7, f8, f55 = source_config()
    return [o, rng.choice([2, 2, 3, 4, 8]), rng.choice([0, 1, 3, 3, 100, 1000]), rng.choice([0, 1, 3, 100]), f7, f8, f55]


def gen(rng, tier):
    n = int(os.environ.get("C04_N", "0")) or (90 if tier == "quick" else 1500)
    cases = []
    o, f7, f8, f55 = source_config()
    # exhaustive small scope: every ACK (largest, first) in 0..4 x 0..5 against 0..3 packets sent
    k = 0
    for nsent in range(0, 4):
        ops = [(T_SENT, [nsent])] if nsent else []
        for largest in range(0, 5):
            for first in range(0, 6):
                ops.append((P_FRAME, [ack(largest, first)]))
        cases.append(Case("small-ack-%d" % nsent, ops, [o, 2, 3, 3, f7, f8, f55]))
    for lim in (2, 3):
        ops = [(T_FRAME, [newcid(1, 0)])]
        for seq in range(0, 7):
            for rpt in range(0, seq + 1):
                ops.append((P_FRAME, [newcid(seq, rpt)]))
        cases.append(Case("small-newcid-%d" % lim, ops, [o, lim, 3, 3, f7, f8, f55]))
    ops = [(T_LSET, [3])]
    for seq in range(0, 6):
        ops.append((P_FRAME, [retire(seq)]))
    for nn in range(0, 6):
        ops.append((P_SETLIMIT, [nn]))
    cases.append(Case("small-local", ops, [o, 2, 3, 3, f7, f8, f55]))
    for i in range(n):
        cfg = cfg_words(rng)
        ops, ref = gen_history(rng, cfg)
        for _ in range(rng.choice([2, 3, 4, 6])):
            ops.append(gen_probe(rng, ref))
        cases.append(Case("h%d" % i, ops, cfg))
        k += 1
    # the heavy witnesses (also in the corpus); kept few: each one allocates tens of megabytes in a child
    heavy = [
        Case("heavy-newcid", [(T_FRAME, [newcid(1, 0)]), (P_FRAME, [newcid(100000, 100000)]), (P_FRAME, [newcid(100000, 0)]),
                              (P_FRAME, [newcid(V62, V62 - 2)]), (P_FRAME, [newcid(V62, 0)])], [o, 2, 3, 3, f7, f8, f55]),
        Case("heavy-setlimit", [(P_SETLIMIT, [100000]), (P_SETLIMIT, [V62])], [o, 2, 3, 3, f7, f8, f55]),
        Case("heavy-pn", [(T_RCVD, [0]), (T_RCVD, [1]), (P_PN, [4, 65536]), (P_PN, [4, (1 << 31) - 1])], [o, 2, 3, 3, f7, f8, f55]),
        Case("heavy-ack", [(T_SENT, [5]), (P_FRAME, [ack(V62, V62)]), (P_FRAME, [ack(1 << 16, 1 << 16)]), (P_FRAME, [ack(4, 4)])], [o, 2, 3, 3, f7, f8, f55]),
        Case("heavy-open", [(P_FRAME, [stream(4 * 999, 0)]), (P_FRAME, [stream(4 * 1001, 0)])], [o, 2, 1000, 3, f7, f8, f55]),
    ]
    return cases + heavy


# ---------------------------------------------------------------------------------------------
# model inputs: measured allocation and the controller's packet count
# ---------------------------------------------------------------------------------------------
_OBS = {}
_PRE_PROBLEMS = []
MEASURED = (T_LSET, T_FRAME, P_FRAME, P_PN, P_SETLIMIT)

# every probe is a fork(): on a loaded machine a child that needs 0.3 s of CPU can take several seconds of wall time. The
# per-operation watchdog of the harness protocol is therefore raised for this stream (never lowered); the child's own CPU
# budget (a quarter of it) and wall-clock alarm (80 %) stay below it, so a genuinely expensive handler is reported as `-5`
# by the harness itself instead of tripping the watchdog.
vlib.ENV["VERIF_CASE_TIMEOUT_MS"] = str(max(int(vlib.ENV.get("VERIF_CASE_TIMEOUT_MS", "5000") or 5000), 60000))


def impl_obs(cases):
    need = [c for c in cases if c.key() not in _OBS]
    if need:
        binp = vlib.build_harness("h4", "impl_handlers", "debug")
        uniq = {}
        for c in need:
            uniq.setdefault(c.key(), c)
        batch = [Case("k%d" % i, c.ops, c.cfg) for i, c in enumerate(uniq.values())]
        out, pr = vlib.run_binary([binp], batch, tag="c04-impl")
        _PRE_PROBLEMS.extend(pr)
        for b, k in zip(batch, uniq.keys()):
            _OBS[k] = out.get(b.name, ["! missing"])
        if len(_OBS) > 200000:
            for k in list(_OBS.keys())[:100000]:
                del _OBS[k]
    return [_OBS.get(c.key(), ["! missing"]) for c in cases]


def feed(cases):
    res = []
    for c, obs in zip(cases, impl_obs(cases)):
        ops = []
        for k, (t, a) in enumerate(c.ops):
            ins = [0, 0, 0]
            if k < len(obs) and not obs[k].startswith("!"):
                v = [int(x) for x in obs[k].split()]
                if t in MEASURED and len(v) >= 3:
                    ins = v[-3:]
                elif len(v) >= 2:
                    ins = [0, 0, v[-1]]
            flat = []
            for x in a:
                flat.append(x)
            ops.append((t, ins + flat))
        res.append(Case(c.name, ops, c.cfg))
    return res


vlib.MODEL_INPUT_HOOKS["handlers"] = feed


def impl_run(binp, cases, prof):
    """the implementation is run ONCE per distinct case: the same observations are compared with the model and supply its
    inputs (measured allocation, controller packet count)"""
    return {c.name: o for c, o in zip(cases, impl_obs(cases))}, list(_PRE_PROBLEMS)

# ---------------------------------------------------------------------------------------------
# oracle: the property stated directly on the implementation's observations
# ---------------------------------------------------------------------------------------------
E_FRAME, E_TP, E_CIDLIMIT, E_PV, E_STREAMLIMIT = 7, 8, 9, 10, 4
KIND_NAME = {0: "no error", 7: "FRAME_ENCODING_ERROR", 8: "TRANSPORT_PARAMETER_ERROR", 9: "CONNECTION_ID_LIMIT_ERROR",
             10: "PROTOCOL_VIOLATION", 4: "STREAM_LIMIT_ERROR"}


def bound_bytes(fb, state):
    return 2048 * (fb + state) + (1 << 17)


def parse_obs(line):
    """-> list of ints, or None when the line is not a list of integers"""
    try:
        return [int(x) for x in line.split()]
    except ValueError:
        return None


def split_measured(v):
    """observation of a measured operation = words… alloc_bytes alloc_blocks cc_len  -> (words, bytes, blocks) or None"""
    if len(v) < 4:
        return None
    return v[:-3], v[-3], v[-2]


# how many words each class of frame observation carries at least (class word included)
FRAME_WORDS = {0: 2, 1: 5, 2: 3, 3: 3, 4: 4, 5: 4, 9: 1}


def shape_problem(t, w):
    """None, or why the words of a measured operation cannot be read (never index beyond what this accepted)"""
    if not w:
        return "empty observation"
    if w[0] in (-5, -77):
        return None
    if t in (T_FRAME, P_FRAME):
        need = FRAME_WORDS.get(w[0])
        if need is None:
            return "unknown frame class %d" % w[0]
        if len(w) < need:
            return "frame class %d with %d words, %d expected" % (w[0], len(w), need)
        return None
    if t == P_PN:
        return None if len(w) >= 3 else "packet-number probe with %d words" % len(w)
    return None if len(w) >= 2 else "set_limit with %d words" % len(w)


def failed(t, w):
    """did the implementation end the connection on this (in-process) operation?"""
    if w[0] == -77:
        return True
    if w[0] == -5:
        return False
    if t in (T_FRAME, P_FRAME):
        if w[0] == 0:
            return True
        if w[0] in (1, 2, 3, 4, 5):
            return w[1] != 0
        return False
    if t in (T_LSET, P_SETLIMIT):
        return w[0] not in (0, -3)
    return False


def oracle(case, obs):
    """None, or a message `Fxx: …` / `new: …`"""
    cfg = [int(x) for x in case.cfg]
    if len(cfg) < 4:
        return "new: case configuration %s too short" % cfg
    limit, msb, msu = cfg[1], cfg[2], cfg[3]
    nxt = 0            # next packet number we would send
    rcvd = set()
    have = {0}         # sequence numbers of the peer's connection IDs we store (the initial one is 0)
    tomb = 0           # highest retire_prior_to honoured: everything below is retired
    cells = 1
    issued = 2
    lset = False
    created = [0, 0]
    closed = False
    if len(obs) < len(case.ops):
        return "new: %d observations for %d operations" % (len(obs), len(case.ops))
    for k, ((t, a), line) in enumerate(zip(case.ops, obs)):
        if line.startswith("!"):
            return "new: op %d: harness reported %s" % (k, line)
        v = parse_obs(line)
        if not v:
            return "new: op %d: unreadable observation %r" % (k, line[:60])
        if closed:
            if v != [-1]:
                return "new: op %d answered %s after the connection failed" % (k, v[:6])
            continue
        if v == [-1]:
            return "new: op %d (%s) found the connection closed although no earlier operation failed" % (k, describe(t, a))
        if t == T_SENT:
            nxt = v[0]
            continue
        if t == T_RCVD:
            if v[0] == 1 and a:
                rcvd.add(a[0])
            continue
        if t == T_SENDACK:
            if v[0] == 1:
                nxt += 1
            continue
        if t == T_CELL:
            cells += 1
            continue
        if t not in MEASURED:
            continue
        m = split_measured(v)
        if m is None:
            return "new: op %d (%s): observation %s too short" % (k, describe(t, a), v)
        w, mb, _mk = m
        why = shape_problem(t, w)
        if why:
            return "new: op %d (%s): %s" % (k, describe(t, a), why)
        probe = t >= 100
        state = nxt + (max(rcvd) + 1 if rcvd else 0) + cells + issued + (max(have) - tomb + 1) + created[0] + created[1] + 8
        if w[0] == -77:
            return "F7: op %d (%s) panicked" % (k, describe(t, a)) if is_negative_ack(t, a) else "new: op %d (%s) panicked" % (k, describe(t, a))
        fb = len(a[0]) if t in (T_FRAME, P_FRAME) else 8
        killed = w[0] == -5
        # ---- what the operation is
        if t in (T_FRAME, P_FRAME):
            kind, f = decode(a[0])
        elif t == P_PN:
            kind, f = "pn", {"w": a[0], "x": a[1]}
        else:
            kind, f = "setlimit", {"n": a[0]}
        # ---- the prescribed errors, then the cost
        msg = judge(k, kind, f, w, killed, mb, fb, state, probe, limit, msb, msu, nxt, rcvd, have, tomb, issued, lset)
        if msg:
            return msg
        # ---- follow the state (in-process operations only; a probe runs in a child)
        if probe or killed:
            continue
        if failed(t, w):
            closed = True
            continue
        if kind == "newcid" and f["seq"] >= tomb:
            tomb = max(tomb, f["rpt"])
            have = {x for x in have | {f["seq"]} if x >= tomb}
        elif kind == "retire":
            issued += w[2]
        elif kind == "setlimit" and not lset:
            lset = True
            issued = max(issued, f["n"])
        elif kind in ("stream", "reset", "stop", "maxsd"):
            sid = f["sid"]
            d = (sid >> 1) & 1
            if sid % 2 == 0 and (sid >> 2) < (msu if d else msb) + 1:
                created[d] = max(created[d], (sid >> 2) + 1)
    return None


def judge(k, kind, f, w, killed, mb, fb, state, probe, limit, msb, msu, nxt, rcvd, have, tomb, issued, lset):
    """the property for ONE operation whose observation has the shape `shape_problem` accepted"""
    if kind == "ack":
        pns = ack_pns(f)
        if pns is None:
            if killed or w[:2] != [0, E_FRAME]:
                return "F7: op %d ACK largest=%d first=%d ranges=%s computes a negative packet number: got %s, required FRAME_ENCODING_ERROR" % (k, f["largest"], f["first"], f["ranges"][:3], w[:5])
            return None
        cov = sum(hi - lo + 1 for lo, hi in pns)
        if f["largest"] >= nxt:
            if killed:
                return "F22: op %d ACK largest=%d >= next unsent %d covering %d numbers was iterated until the resource limit" % (k, f["largest"], nxt, cov)
            if w[0] != 1 or w[1] != E_PV:
                return "F8: op %d ACK largest=%d >= next unsent %d: got %s, required PROTOCOL_VIOLATION" % (k, f["largest"], nxt, w[:5])
            if w[2] != 0 or w[3] != 0:
                return "F22: op %d ACK largest=%d >= next unsent %d was acted on before it was rejected (controller iterations %d)" % (k, f["largest"], nxt, w[2])
            return None
        if killed or w[0] != 1 or w[1] != 0:
            return "new: op %d valid ACK %s rejected: %s" % (k, pns[:3], w[:5])
        if w[2] > cov or w[3] != cov:
            return "new: op %d valid ACK covering %d numbers: controller iterations %d collected %d" % (k, cov, w[2], w[3])
    elif kind == "pn":
        if killed or (w[0] == 0 and mb > bound_bytes(fb, state)):
            exp = (max(rcvd) + 1) if rcvd else 0
            return "F9: op %d packet number (width %d, %d) after %d received: %s bytes allocated for %s new records" % (k, f["w"], f["x"], exp, "limit hit," if killed else mb, "?" if killed else w[2])
        return None
    elif kind == "newcid":
        seq, rpt = f["seq"], f["rpt"]
        where = "NEW_CONNECTION_ID seq=%d rpt=%d (stored %s, retired below %d, limit %d)" % (seq, rpt, sorted(have)[-4:], tomb, limit)
        if rpt > seq:
            if killed or w[:2] != [0, E_FRAME]:
                return "new: op %d %s with retire_prior_to > sequence: got %s, required FRAME_ENCODING_ERROR" % (k, where, w[:3])
            return None
        if killed:
            return "F10: op %d %s: resource limit hit" % (k, where)
        if w[0] != 2:
            return "new: op %d %s answered as class %d" % (k, where, w[0])
        if seq < tomb:
            # already retired: the frame is a late duplicate and must be ignored
            if w[1] != 0 or w[2] != 0:
                return "new: op %d %s names a retired sequence number: got %s, required to be ignored" % (k, where, w[:3])
        else:
            # RFC 9000 5.1.1: add the ID, retire everything below retire_prior_to, then count the active IDs
            t2 = max(tomb, rpt)
            active = len({x for x in have | {seq} if x >= t2})
            want = E_CIDLIMIT if active > limit else 0
            if w[1] != want:
                return "new: op %d %s leaves %d active connection IDs: got %s, required %s" % (k, where, active, KIND_NAME.get(w[1], w[1]), KIND_NAME[want])
        if mb > bound_bytes(fb, state) or w[2] > state + limit:
            return "F10: op %d %s: %d RETIRE_CONNECTION_ID frames, %d bytes allocated (answer: %s)" % (k, where, w[2], mb, KIND_NAME.get(w[1], w[1]))
        return None
    elif kind == "retire":
        if killed or w[0] != 3:
            return "new: op %d RETIRE_CONNECTION_ID %d: %s" % (k, f["seq"], "resource limit hit" if killed else "answered as class %d" % w[0])
        if f["seq"] >= issued:
            if w[1] == 0:
                return "new: op %d RETIRE_CONNECTION_ID of unissued %d (issued %d) accepted: %s" % (k, f["seq"], issued, w[:3])
            if w[1] != E_PV:
                return "F55: op %d RETIRE_CONNECTION_ID of unissued %d: error kind %d, RFC 9000 19.16 requires PROTOCOL_VIOLATION" % (k, f["seq"], w[1])
            return None
        if w[1] != 0:
            return "new: op %d RETIRE_CONNECTION_ID %d (issued %d) failed: %s" % (k, f["seq"], issued, w[:3])
    elif kind == "setlimit":
        if lset:
            return None
        n = f["n"]
        if n < 2:
            if killed or w[0] != E_TP:
                return "new: op %d active_connection_id_limit %d: got %s, required TRANSPORT_PARAMETER_ERROR" % (k, n, w[:2])
            return None
        if killed or mb > bound_bytes(fb, state) or w[1] > state + 8:
            return "F11: op %d peer active_connection_id_limit %d: %s" % (k, n, "resource limit hit" if killed else "%d NEW_CONNECTION_ID frames, %d bytes" % (w[1], mb))
        if w[0] != 0:
            return "new: op %d active_connection_id_limit %d rejected: %s" % (k, n, w[:2])
        return None
    elif kind == "maxstreams":
        if f["v"] > (1 << 60):
            if killed or w[:2] != [0, E_FRAME]:
                return "new: op %d MAX_STREAMS %d: got %s, required FRAME_ENCODING_ERROR" % (k, f["v"], w[:3])
            return None
        if killed or (w[0] == 4 and w[1] != 0):
            return "new: op %d MAX_STREAMS %d failed: %s" % (k, f["v"], w[:3])
    elif kind in ("stream", "reset", "stop", "maxsd"):
        sid = f["sid"]
        peer = sid % 2 == 0
        d = (sid >> 1) & 1
        idx = sid >> 2
        mx = msu if d else msb
        if killed:
            return "new: op %d %s on stream %d: resource limit hit (limits %d/%d)" % (k, kind, sid, msb, msu)
        if w[0] not in (4, 5):
            return "new: op %d %s on stream %d answered as class %d" % (k, kind, sid, w[0])
        if peer and idx > mx and not (kind in ("stop", "maxsd") and d == 1):
            if w[1] != E_STREAMLIMIT:
                return "new: op %d %s on stream %d (index %d, limit %d): got %s, required STREAM_LIMIT_ERROR" % (k, kind, sid, idx, mx, w[:3])
            return None
        if mb > bound_bytes(fb, state + msb + msu):
            return "new: op %d %s on stream %d: %d bytes allocated (limits %d/%d)" % (k, kind, sid, mb, msb, msu)
        return None
    # ---- generic cost statement for whatever was accepted
    if killed:
        return "new: op %d (%s %s) hit the resource limit" % (k, kind, f)
    if mb > bound_bytes(fb, state):
        return "new: op %d (%s %s): %d bytes allocated, bound %d" % (k, kind, f, mb, bound_bytes(fb, state))
    return None


def is_negative_ack(t, a):
    if t not in (T_FRAME, P_FRAME):
        return False
    kind, f = decode(a[0])
    return kind == "ack" and ack_pns(f) is None


def describe(t, a):
    if t in (T_FRAME, P_FRAME):
        kind, f = decode(a[0])
        return "%s %s" % (kind, f)
    return "%s %s" % ({P_PN: "pn", P_SETLIMIT: "setlimit", T_LSET: "setlimit"}.get(t, t), a)


def classify(case, msg, obs):
    m = re.match(r"(F\d+):", msg)
    if not m:
        return None
    fid = m.group(1)
    known = {e["id"] for e in vlib.load_known("C04")}
    if fid not in known:
        return None
    # class predicates (appendix B): the oracle only emits F9/F10/F11 when the work or allocation of a value-carrying
    # probe (packet number, sequence number / retire_prior_to, active_connection_id_limit) exceeds what frame bytes +
    # tracked state allow, i.e. the value jumped beyond the state; F22 additionally needs a range beyond K numbers
    if fid == "F22":
        big = False
        for t, a in case.ops:
            if t in (T_FRAME, P_FRAME):
                kind, f = decode(a[0])
                big |= kind == "ack" and any(isinstance(x, int) and x >= K - 1 for x in f.values())
        if not big:
            return None
    return fid


# ---------------------------------------------------------------------------------------------
def nontrivial(case):
    hist_ops = [t for t, a in case.ops if t < 100]
    probes = [(t, a) for t, a in case.ops if t >= 100]
    kinds = set()
    big = False
    for t, a in probes:
        if t == P_FRAME:
            kind, f = decode(a[0])
            kinds.add(kind)
            big |= any(isinstance(x, int) and x >= K for x in f.values())
        else:
            kinds.add(t)
            big |= any(x >= K for x in a)
    return len(hist_ops) >= 3 and len(kinds) >= 2 and big


def hist(case):
    lab = []
    for t, a in case.ops:
        if t in (T_FRAME, P_FRAME):
            kind, f = decode(a[0])
            mag = max([x for x in f.values() if isinstance(x, int)] + [0])
            lab.append("%s:%s:%s" % ("probe" if t == P_FRAME else "hist", kind, "2^62" if mag >= 1 << 61 else "2^31" if mag >= 1 << 31 else "2^16" if mag >= K else "small"))
        else:
            lab.append({T_ADV: "adv", T_SENT: "sent", T_RCVD: "rcvd", T_SENDACK: "sendack", T_CELL: "cell", T_LSET: "lsetlimit", T_DUMP: "dump",
                        P_PN: "probe:pn", P_SETLIMIT: "probe:setlimit"}.get(t, "?"))
    return lab


def mutate(rng, case, j):
    ops = list(case.ops)
    cfg = [int(x) for x in case.cfg]
    ref = {"next": sum(a[0] for t, a in ops if t == T_SENT), "rcvd_next": 1 + max([a[0] for t, a in ops if t == T_RCVD] + [-1]),
           "seen": 1, "issued": 2, "lset": False, "limit": cfg[1], "msb": cfg[2], "msu": cfg[3], "nstreams": [0, 0]}
    kinds = [decode(a[0])[0] for t, a in ops if t == P_FRAME]
    kind = rng.choice(kinds) if kinds and rng.random() < 0.7 else None
    if kind in ("reset", "stop", "maxsd"):
        kind = "ctl"
    if kind == "other":
        kind = None
    ops = [o for o in ops if o[0] < 100] + [gen_probe(rng, ref, kind) for _ in range(rng.choice([1, 2, 3]))]
    return Case("m%d" % j, ops, case.cfg)


STREAMS = [{
    "name": "handlers", "pkg": "h4", "bin": "impl_handlers",
    "gen": gen, "oracle": oracle, "nontrivial": nontrivial, "hist": hist, "mutate": mutate, "classify": classify, "impl_run": impl_run,
    "profiles": ("debug",), "profiles_thorough": ("debug",),
    "rule": RULE,
}]
