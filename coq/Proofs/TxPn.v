(* Proofs about the packet writers of qconnection/src/tx.rs (Model/TxPn.v): the guard discipline
   that c07_unique assumes is DERIVED for both writers, and with it the uniqueness of packet
   numbers over every interleaving of tx::PacketWriter lives, tx::TrivialPacketWriter lives and
   SentRotateGuard calls on one journal. *)
From Coq Require Import List ZArith Bool Lia Sorted.
From GQ Require Import Model.SentJournal Model.TxPn Proofs.SentJournal.
Import ListNotations.
Local Open Scope Z_scope.

(* what the frame walk keeps true of (recorded frames, trivial flag, something written) *)
Definition walk_inv (trivw : bool) (rec : list Z) (triv wr : bool) : Prop :=
  (wr = false -> rec = [] /\ triv = false) /\
  (wr = true -> triv = true \/ rec <> []) /\
  (trivw = true -> rec = [] /\ (wr = true -> triv = true)).

Lemma tx_walk_inv : forall trivw ty fr rem rec triv wr rec' triv' wr',
  walk_inv trivw rec triv wr ->
  tx_walk trivw ty fr rem rec triv wr = WDone rec' triv' wr' ->
  walk_inv trivw rec' triv' wr'.
Proof.
  intros trivw ty fr. induction fr as [|[k v] r IH]; cbn [tx_walk]; intros rem rec triv wr rec' triv' wr' I H.
  - inversion H; subst. exact I.
  - destruct (rem <? fsize k v); [eapply IH; eauto|].
    destruct (trivw && negb (nonacke k)) eqn:E1; [discriminate|].
    destruct (negb (belongs ty k)); [discriminate|].
    destruct trivw eqn:ET.
    + eapply IH; [|exact H]. destruct I as (I1 & I2 & I3). destruct (I3 eq_refl) as [R _].
      unfold walk_inv. split; [discriminate|]. split; [intros _; left; reflexivity|]. intros _. split; [exact R|reflexivity].
    + destruct (reliable ty k).
      * eapply IH; [|exact H]. unfold walk_inv. split; [discriminate|]. split; [|discriminate].
        intros _. right. destruct rec; discriminate.
      * eapply IH; [|exact H]. unfold walk_inv. split; [discriminate|]. split; [|discriminate].
        intros _. left. reflexivity.
Qed.

Lemma walk_inv_init : forall trivw, walk_inv trivw [] false false.
Proof. intros. unfold walk_inv. split; [auto|]. split; [discriminate|]. intros _. split; [reflexivity|discriminate]. Qed.

(* the guard discipline of tx.rs, for both writers and every buffer size / frame list *)
Lemma p_c07_tx_discipline : forall trivw ty bufsz retran expire fr w sc,
  tx_script trivw ty bufsz retran expire fr w = Some sc ->
  disciplined sc /\
  (np_mode_ sc = NpBuildTrivial -> trivw = true /\ np_frames sc = [] /\ np_trivial sc = true) /\
  (trivw = true -> np_mode_ sc <> NpBuildTime).
Proof.
  intros trivw ty bufsz retran expire fr w sc. unfold tx_script.
  destruct (bufsz <? hdr_len ty + 20).
  - intros H; inversion H; subst. unfold disciplined; cbn. split; [reflexivity|]. split; [discriminate|]. intros _; discriminate.
  - destruct (tx_walk trivw ty fr (bufsz - 16 - hdr_len ty - w) [] false false) as [|rec triv wr] eqn:E; [discriminate|].
    pose proof (tx_walk_inv _ _ _ _ _ _ _ _ _ _ (walk_inv_init trivw) E) as (I1 & I2 & I3).
    intros H; inversion H; subst. unfold disciplined; cbn [np_mode_ np_frames np_trivial].
    destruct wr.
    + destruct trivw.
      * destruct (I3 eq_refl) as [R T]. split; [exact I|]. split; [intros _; auto|]. intros _; discriminate.
      * split; [exact (I2 eq_refl)|]. split; [discriminate|]. discriminate.
    + destruct (I1 eq_refl) as [R T]. split; [exact R|]. split; [discriminate|]. intros _; discriminate.
Qed.

(* consequence: the assertions of NewPacketGuard::build_trivial never fire under TrivialPacketWriter, the
   only outcomes of a writer life that poison the journal are the debug assertions on the frames
   and the exhaustion of the packet-number space *)
Lemma p_c07_tx_trivial_safe : forall ty bufsz retran expire fr w sc j now,
  tx_script true ty bufsz retran expire fr w = Some sc ->
  s_next j <= SLIMIT -> encode (s_next j) (s_la j) <> EncPanic -> encode (s_next j) (s_la j) <> EncOverflow ->
  exists j' pe c, new_packet j now sc = (Some j', pe, c).
Proof.
  intros ty bufsz retran expire fr w sc j now H L E1 E2.
  destruct (p_c07_tx_discipline _ _ _ _ _ _ _ _ H) as (D & T & NB).
  unfold new_packet, push_rec. destruct (encode (s_next j) (s_la j)) eqn:E; try congruence.
  assert (SLIMIT <? s_next j = false) as -> by (apply Z.ltb_ge; lia).
  destruct (np_mode_ sc) eqn:M.
  - exfalso. exact (NB eq_refl eq_refl).
  - destruct (T eq_refl) as (_ & F & Tr). rewrite F, Tr. cbn. eauto.
  - eauto.
Qed.

(* ---- histories at the level of tx.rs ---- *)
Inductive txev :=
| TxWriter (now : Z) (trivw : bool) (ty bufsz retran expire : Z) (fr : list (Z * Z))
| TxRotate (e : sev).

(* the guard-level step a tx-level step performs in journal state [j]; None = the writer panicked
   (journal poisoned: the history ends) *)
Definition tx_sev (j : sjournal) (e : txev) : option sev :=
  match e with
  | TxWriter now trivw ty bufsz retran expire fr =>
      match encode (s_next j) (s_la j) with
      | EncOk en =>
          match tx_script trivw ty bufsz retran expire fr (width en) with
          | Some sc => Some (EvNew now sc)
          | None => None
          end
      | _ => None
      end
  | TxRotate (EvNew _ _) => None
  | TxRotate e' => Some e'
  end.

Fixpoint tx_lower (j : sjournal) (all : list (list Z)) (h : list txev) : list sev :=
  match h with
  | [] => []
  | e :: r =>
      match tx_sev j e with
      | None => []
      | Some se =>
          se :: match ev_step j all se with
                | Some (j', all', _) => tx_lower j' all' r
                | None => []
                end
      end
  end.

(* packet numbers of the packets that left encrypt_and_protect_packet of either writer *)
Definition tx_emitted (j : sjournal) (all : list (list Z)) (h : list txev) : list Z :=
  emitted_pns j all (tx_lower j all h).

Lemma tx_sev_ok : forall j e se, tx_sev j e = Some se -> ev_built_ok se /\ ev_ok se.
Proof.
  intros j e se. destruct e as [now trivw ty bufsz retran expire fr|e']; cbn [tx_sev].
  - destruct (encode (s_next j) (s_la j)); try discriminate.
    destruct (tx_script trivw ty bufsz retran expire fr (width p)) as [sc|] eqn:E; [|discriminate].
    intros H; inversion H; subst. cbn [ev_built_ok ev_ok].
    destruct (p_c07_tx_discipline _ _ _ _ _ _ _ _ E) as (D & _).
    split; [apply disciplined_built_ok; exact D|exact D].
  - destruct e'; try discriminate; intros H; inversion H; subst; cbn; auto.
Qed.

Lemma tx_lower_ok : forall h j all, Forall ev_built_ok (tx_lower j all h) /\ Forall ev_ok (tx_lower j all h).
Proof.
  induction h as [|e r IH]; intros j all; cbn [tx_lower].
  - split; constructor.
  - destruct (tx_sev j e) as [se|] eqn:E; [|split; constructor].
    destruct (tx_sev_ok _ _ _ E) as [B O].
    destruct (ev_step j all se) as [[[j' all'] out]|].
    + destruct (IH j' all') as [A1 A2]. split; constructor; assumption.
    + split; constructor; auto.
Qed.

Lemma p_c07_tx_unique : forall h, StronglySorted Z.lt (tx_emitted sj_new [] h).
Proof. intros h. unfold tx_emitted. apply p_c07_unique. apply tx_lower_ok. Qed.

(* the observation of the stream is the event of the theorem: a writer life that reports "sent pn"
   is a built guard of the lowered history, its number is the journal's next one and it is consumed *)
Lemma p_c07_tx_life_sent : forall trivw pad j now ty bufsz retran expire fr j' pn rest,
  tx_life trivw pad j now ty bufsz retran expire fr = (Some j', 0 :: pn :: rest) ->
  exists sc, tx_sev j (TxWriter now trivw ty bufsz retran expire fr) = Some (EvNew now sc) /\
    is_built sc = true /\ pn = s_next j /\ s_next j' = pn + 1.
Proof.
  intros trivw pad j now ty bufsz retran expire fr j' pn rest. unfold tx_life. cbn [tx_sev].
  destruct (encode (s_next j) (s_la j)) as [en| |] eqn:E; try discriminate.
  destruct (tx_script trivw ty bufsz retran expire fr (width en)) as [sc|] eqn:S; [|discriminate].
  destruct (new_packet j now sc) as [[[jn|] [pe|]] c] eqn:N; try discriminate.
  destruct (p_c07_tx_discipline _ _ _ _ _ _ _ _ S) as (D & _).
  pose proof (new_packet_consumed _ _ _ _ _ _ (disciplined_built_ok _ D) N) as Hc.
  pose proof (ev_step_next j [] (EvNew now sc) jn (if c then [] ++ [np_frames sc] else []) []
                (disciplined_built_ok _ D)) as Hn.
  cbn [ev_step] in Hn. rewrite N in Hn. specialize (Hn eq_refl).
  intros H. exists sc. split; [reflexivity|].
  unfold is_built in *. destruct (np_mode_ sc) eqn:M.
  - destruct (tx_too_short pad ty bufsz fr (width en)); inversion H; subst. repeat split; auto.
  - destruct (tx_too_short pad ty bufsz fr (width en)); inversion H; subst. repeat split; auto.
  - destruct (tx_created ty bufsz); inversion H.
Qed.
