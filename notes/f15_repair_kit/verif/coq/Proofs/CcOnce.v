(* Per-operation form of "the window shrinks at most once per recovery period": in every reachable
   state, an operation whose detection pass does not raise the `persistent` flag (the class of the
   open finding F25) takes at most one datagram off the window, even when the same ACK frame
   carries a new ECN-CE mark and triggers losses.  Needs the invariant that every Inflight packet
   was sent no later than the current time. *)
From Coq Require Import List ZArith Bool Lia.
From GQ Require Import Model.NewReno Model.LossDetect Model.Pto Proofs.NewReno Proofs.LossDetect Proofs.Pto
  Proofs.CcSteps.
Import ListNotations.
Local Open Scope Z_scope.

Section Fx.
Context {fx : bool}.
Local Notation on_packet_sent_core := (@GQ.Proofs.Pto.on_packet_sent_core fx).
Local Notation InvA_step := (@GQ.Proofs.Pto.InvA_step fx).
Local Notation InvA_ack := (@GQ.Proofs.Pto.InvA_ack fx).
Local Notation InvA_timeout := (@GQ.Proofs.Pto.InvA_timeout fx).
Local Notation sent_step_bif := (@GQ.Proofs.CcSteps.sent_step_bif fx).

(* Invariant D: Inflight packets were sent in the past *)
Definition InvD (c : cc) : Prop :=
  forall e p, In p (s_sent (c_sp c e)) -> is_inflight p = true -> p_time p <= c_now c.

Lemma space_on_ack_inflight s r rs s1 r1 res :
  space_on_ack s r rs = (s1, r1, res) ->
  forall q, In q (s_sent s1) -> is_inflight q = true -> In q (s_sent s).
Proof.
  unfold space_on_ack. intro Hd.
  destruct (s_sent s) as [|p0 ps0] eqn:Es.
  - inversion Hd; subst. rewrite Es. intros q [].
  - rewrite <- Es in *. clear Es p0 ps0.
    destruct (ack_walk r (s_sent s) rs) as [[[r0 ps] el] lg] eqn:Ew.
    destruct (ack_walk_states rs _ _ _ _ _ _ Ew) as (_ & _ & A3 & _).
    assert (G : forall q, In q (pop_front ps) -> is_inflight q = true -> In q (s_sent s))
      by (intros q Hq Hi; apply A3; [now apply pop_front_incl|exact Hi]).
    destruct lg; inversion Hd; subst; ccbn; exact G.
Qed.

Lemma detect_lost_inflight s r ld now s' r' lost pers :
  detect_lost fx s r ld now = (s', r', lost, pers) ->
  forall q, In q (s_sent s') -> is_inflight q = true -> In q (s_sent s).
Proof.
  intros Hd.
  destruct (detect_lost_cases (fx:=fx) s r ld now) as [(la & E & Hla)|(_ & _ & E)]; rewrite E in Hd;
    [|inversion Hd; subst; ccbn; auto].
  unfold detect_pass in Hd.
  destruct (detect_walk fx la (s_sent s) 0 (now - ld - s_mad s) ld _) as [[ps lost0] lt] eqn:Hw.
  inversion Hd; subst; clear Hd. ccbn.
  destruct (detect_walk_rule _ _ _ _ _ _ _ _ _ _ Hw) as (_ & _ & _ & A4 & _). exact A4.
Qed.

(* without the persistent flag a detection pass takes at most one datagram off, and nothing when
   the recovery period was opened at or after the send time of every Inflight packet *)
Lemma detect_lost_single m s r ld now s' r' lost :
  detect_lost fx s r ld now = (s', r', lost, false) -> reno_ok m r ->
  Z.max (cwnd r - m) (2 * m) <= cwnd r' /\
  (forall t, rstart r = Some t -> (forall p, In p (s_sent s) -> is_inflight p = true -> p_time p <= t) ->
             cwnd r' = cwnd r).
Proof.
  intros Hd Hok.
  destruct (detect_lost_cases (fx:=fx) s r ld now) as [(la & E & Hla)|(_ & _ & E)]; rewrite E in Hd;
    [|inversion Hd; subst; destruct Hok as (_ & B & C & _); split; [lia|auto]].
  unfold detect_pass in Hd.
  destruct (detect_walk fx la (s_sent s) 0 (now - ld - s_mad s) ld _) as [[ps lost0] lt] eqn:Hw.
  destruct (detect_walk_rule _ _ _ _ _ _ _ _ _ _ Hw) as (A1 & _).
  destruct lost0 as [|x rest].
  - inversion Hd; subst. destruct Hok as (_ & B & C & _). split; [lia|auto].
  - remember (x :: rest) as l eqn:El.
    assert (Hp : persistent_fold (map fst l) None 0 = false) by (rewrite El in Hd |- *; inversion Hd; reflexivity).
    assert (Hr : r' = on_packets_lost r (map snd l) false now).
    { rewrite <- Hp. rewrite El in Hd |- *. inversion Hd; reflexivity. }
    destruct (on_packets_lost_single m r (map snd l) now Hok) as (S1 & S2 & _).
    rewrite Hr. split; [exact S1|].
    intros t Ht Hall. apply S2; [|congruence].
    intros s0 Hs0 p Hin. rewrite Ht in Hs0. inversion Hs0; subst s0.
    apply in_map_iff in Hin. destruct Hin as ((i, q) & Hq & Hin). cbn [snd] in Hq. subst q.
    destruct (A1 i p Hin) as (p0 & N & _ & I & Q & _). subst p. cbn [p_time set_st].
    apply Hall; [now apply nth_error_In in N|exact I].
Qed.

(* ---- InvD over histories ---- *)
Lemma cc_on_ack_inflight c ri e largest cev rs :
  let c1 := fst (fst (cc_on_ack fx c ri e largest cev rs)) in
  c_now c1 = c_now c /\
  forall x q, In q (s_sent (c_sp c1 x)) -> is_inflight q = true -> In q (s_sent (c_sp c x)).
Proof.
  cbn zeta. unfold cc_on_ack.
  assert (Hu : s_sent (update_la (c_sp c e) largest) = s_sent (c_sp c e)) by reflexivity.
  destruct (space_on_ack (update_la (c_sp c e) largest) (c_reno c) rs) as [[s1 r1] res] eqn:Ea.
  pose proof (space_on_ack_inflight _ _ _ _ _ _ Ea) as N. rewrite Hu in N.
  destruct res as [[el [ln lt]]|].
  - destruct (detect_lost fx s1 _ (i_ld ri) (c_now c)) as [[[s2 r3] lost] pers] eqn:Ed. cbn [fst].
    match goal with |- context [set_loss_detection_timer ?x ri] =>
      destruct (sldt_same x ri) as (A & B & C & D & _) end.
    rewrite D.
    assert (B' : c_sp (set_loss_detection_timer
                  (if peer_completed (with_reno_sp c r3 e s2) then with_pto_count (with_reno_sp c r3 e s2) 0
                   else with_reno_sp c r3 e s2) ri) = fset (c_sp c) e s2)
      by (rewrite B; destruct (peer_completed _); reflexivity).
    rewrite B'. split; [destruct (peer_completed _); reflexivity|].
    intros x q. unfold fset. destruct (x =? e) eqn:Ex; [|auto]. apply Z.eqb_eq in Ex; subst x.
    intros Hq Hi. apply N; [|exact Hi]. now apply (detect_lost_inflight _ _ _ _ _ _ _ _ Ed).
  - cbn [fst]. ccbn. split; [reflexivity|]. intros x q. unfold fset.
    destruct (x =? e) eqn:Ex; [|auto]. apply Z.eqb_eq in Ex; subst x. apply N.
Qed.

Lemma timeout_inflight c ri :
  let c1 := fst (fst (on_loss_detection_timeout fx c ri)) in
  c_now c1 = c_now c /\
  forall x q, In q (s_sent (c_sp c1 x)) -> is_inflight q = true -> In q (s_sent (c_sp c x)).
Proof.
  cbn zeta. unfold on_loss_detection_timeout.
  destruct (get_loss_time_and_epoch c) as [[t e]|].
  - destruct (detect_lost fx (c_sp c e) (c_reno c) (i_ld ri) (c_now c)) as [[[s r] lost] pers] eqn:Ed. cbn [fst].
    match goal with |- context [set_loss_detection_timer ?x ri] =>
      destruct (sldt_same x ri) as (A & B & C & D & _) end.
    rewrite B, D. ccbn. split; [reflexivity|]. intros x q. unfold fset.
    destruct (x =? e) eqn:Ex; [|auto]. apply Z.eqb_eq in Ex; subst x.
    apply (detect_lost_inflight _ _ _ _ _ _ _ _ Ed).
  - cbn [fst].
    match goal with |- context [set_loss_detection_timer ?x ri] =>
      destruct (sldt_same x ri) as (A & B & C & D & _) end.
    rewrite B, D. destruct (all_no_elic c); [ccbn; split; [reflexivity|auto]|].
    destruct (get_pto_time_and_epoch c ri) as (r, p). destruct r as [[t e]|]; ccbn; split; auto.
Qed.

Lemma InvD_discard c ri e : InvD c -> InvD (discard_epoch c ri e).
Proof.
  intros H x p. destruct (discard_epoch_core c ri e) as (_ & B & _ & D & _). rewrite B, D.
  unfold fset. destruct (x =? e); [intros []|apply H].
Qed.

Lemma InvD_step c ri o : op_ok o -> InvD c -> InvD (fst (cc_step fx c ri o)).
Proof.
  intros Ho H. destruct o; cbn [cc_step op_ok] in *.
  - destruct (sent_ok c e pn elic infl bytes); [|exact H]. cbn [fst].
    destruct (on_packet_sent_core (with_lastpn c e pn) ri e pn elic infl bytes) as (_ & B & C & _ & _ & N & _).
    set (c1 := on_packet_sent fx (with_lastpn c e pn) ri e pn elic infl bytes) in *.
    assert (H1 : InvD c1).
    { intros x p. rewrite N. ccbn. destruct (x =? e) eqn:Ex.
      - apply Z.eqb_eq in Ex; subst x. rewrite C. ccbn. intros Hp Hi.
        apply in_app_or in Hp. destruct Hp as [Hp|[<-|[]]]; [now apply (H e)|cbn; lia].
      - rewrite (B x Ex). ccbn. apply H. }
    destruct ((e =? 1) && negb (c_server c1)); [now apply InvD_discard|exact H1].
  - destruct (ack_ok rs); [|exact H].
    destruct (cc_on_ack_inflight c ri e (fst (hd (0, 0) rs)) cev rs) as (N & P).
    destruct (cc_on_ack fx c ri e (fst (hd (0, 0) rs)) cev rs) as [[c1 lost] pers]. cbn [fst] in *.
    assert (H1 : InvD c1) by (intros x p Hp Hi; rewrite N; apply (H x); [now apply P|exact Hi]).
    destruct ((e =? 1) && c_server c1); [now apply InvD_discard|exact H1].
  - intros x p Hp Hi. ccbn. ccbn in Hp. specialize (H x p Hp Hi). lia.
  - destruct (timeout_inflight c ri) as (N & P).
    destruct (match c_timer c with Some t => t <=? c_now c | None => false end).
    + destruct (on_loss_detection_timeout fx c ri) as [[c1 lost] pers]. cbn [fst] in *.
      assert (H1 : InvD c1) by (intros x p Hp Hi; rewrite N; apply (H x); [now apply P|exact Hi]).
      cbn [andb]. destruct (6 <? c_pto_count c1); [exact H1|].
      destruct (c_pending_burst c1); [|exact H1].
      unfold cc_send_quota. destruct (pacer_schedule _ _ _ _ _) as (p, q). cbn [fst].
      destruct (c_mtu _ <=? _); exact H1.
    + cbn [andb]. destruct (c_pending_burst c); [|exact H].
      unfold cc_send_quota. destruct (pacer_schedule _ _ _ _ _) as (p, q). cbn [fst].
      destruct (c_mtu _ <=? _); exact H.
  - destruct (which =? 0); [|destruct (which =? 1)]; exact H.
  - destruct ((0 <=? e) && (e <=? 1)); [|exact H]. cbn [fst]. now apply InvD_discard.
  - unfold cc_send_quota. destruct (pacer_schedule _ _ _ _ _) as (p, q).
    destruct (c_mtu _ <=? _); exact H.
  - exact H.
  - exact H.
Qed.

Theorem reach_InvD c : reach fx c -> InvD c.
Proof.
  induction 1; [|now apply InvD_step].
  intros e p. unfold cc_new. ccbn. destruct (e =? 2); intros [].
Qed.

(* ---- the per-operation statement ---- *)
Lemma p_c13_once_per_rtt_step c ri o : reach fx c -> op_ok o ->
  o_pers (snd (cc_step fx c ri o)) = false ->
  Z.max (cwnd (c_reno c) - c_mtu c) (2 * c_mtu c) <= cwnd (c_reno (fst (cc_step fx c ri o))).
Proof.
  intros Hr Ho. pose proof (reach_InvA c Hr) as H. pose proof (reach_InvD c Hr) as HD.
  assert (Hmin : Z.max (cwnd (c_reno c) - c_mtu c) (2 * c_mtu c) <= cwnd (c_reno c)).
  { destruct H as ((_ & B & C & _) & _). lia. }
  destruct (Z_le_gt_dec (cwnd (c_reno c)) (cwnd (c_reno (fst (cc_step fx c ri o))))) as [Hge|Hlt]; [lia|].
  (* the window went down: only the ACK and TICK operations can do that *)
  destruct o; cbn [cc_step op_ok] in *.
  - exfalso. destruct (sent_ok c e pn elic infl bytes) eqn:Es; [|cbn [fst] in Hlt; lia]. cbn [fst] in Hlt.
    destruct (sent_step_bif c ri e pn elic infl bytes Hr Ho) as (_ & B). cbn [cc_step] in B. rewrite Es in B.
    cbn [fst] in B. lia.
  - destruct (ack_ok rs) eqn:Ek; [|cbn [fst] in Hlt; lia].
    unfold cc_on_ack in *.
    pose proof (flight_le_total c e Ho H) as Hle. pose proof H as (H1 & H2 & H3 & H4).
    assert (Hu : s_sent (update_la (c_sp c e) (fst (hd (0, 0) rs))) = s_sent (c_sp c e)) by reflexivity.
    destruct (space_on_ack (update_la (c_sp c e) (fst (hd (0, 0) rs))) (c_reno c) rs) as [[s1 r1] res] eqn:Ea.
    destruct (space_on_ack_A (c_mtu c) _ _ _ _ _ _ Ea) as (G1 & G2 & G3 & G4 & G5 & G6 & _);
      try rewrite Hu; auto.
    pose proof (space_on_ack_inflight _ _ _ _ _ _ Ea) as N. rewrite Hu in N.
    destruct res as [[el [ln lt]]|].
    + set (r2 := process_ecn r1 cev lt e (c_now c)) in *.
      destruct (detect_lost fx s1 r2 (i_ld ri) (c_now c)) as [[[s2 r3] lost] pers] eqn:Ed.
      cbn [fst snd o_pers] in *. intro Hp.
      assert (Hp' : pers = false) by (destruct ((e =? 1) && c_server _); exact Hp). subst pers.
      assert (Hok2 : reno_ok (c_mtu c) r2) by (subst r2; now apply process_ecn_ok).
      destruct (detect_lost_single (c_mtu c) _ _ _ _ _ _ _ Ed Hok2) as (S1 & S2).
      assert (Hfin : Z.max (cwnd (c_reno c) - c_mtu c) (2 * c_mtu c) <= cwnd r3).
      { destruct (process_ecn_effect (c_mtu c) r1 cev lt e (c_now c) G1) as [(E1 & E2)|(E1 & E2 & E3)];
          fold r2 in E1, E2.
        - rewrite E1 in S1. lia.
        - fold r2 in E3.
          assert (cwnd r3 = cwnd r2).
          { apply (S2 (c_now c) E3). intros p Hp0 Hi. apply (HD e); [now apply N|exact Hi]. }
          lia. }
      match goal with |- context [set_loss_detection_timer ?x ri] =>
        destruct (sldt_same x ri) as (A & B & _); set (c1 := set_loss_detection_timer x ri) in * end.
      assert (Hc1 : cwnd (c_reno c1) = cwnd r3 /\ c_mtu c1 = c_mtu c).
      { rewrite A. destruct (sldt_same (if peer_completed (with_reno_sp c r3 e s2)
                                          then with_pto_count (with_reno_sp c r3 e s2) 0
                                          else with_reno_sp c r3 e s2) ri) as (_ & _ & C & _).
        fold c1 in C. rewrite C. destruct (peer_completed _); ccbn; auto. }
      destruct Hc1 as (Hc1 & Hm1).
      destruct ((e =? 1) && c_server c1); [|rewrite Hc1; exact Hfin].
      assert (HI : InvA c1).
      { pose proof (InvA_ack c ri e (fst (hd (0, 0) rs)) cev rs Ho H) as X. unfold cc_on_ack in X.
        rewrite Ea in X. fold r2 in X. rewrite Ed in X. exact X. }
      destruct (cwnd_discard c1 ri 0 ltac:(cbn; auto) HI) as (Bd & _). rewrite Bd, Hc1. exact Hfin.
    + cbn [fst snd o_pers] in *. intros _. exfalso.
      assert (HI : InvA (with_reno_sp c r1 e s1)) by (apply InvA_update; auto; rewrite Hu in G4; exact G4).
      destruct ((e =? 1) && c_server _).
      * destruct (cwnd_discard _ ri 0 ltac:(cbn; auto) HI) as (Bd & _). rewrite Bd in Hlt. ccbn in Hlt. lia.
      * ccbn in Hlt. lia.
  - cbn [fst] in Hlt. ccbn in Hlt. lia.
  - (* TICK *)
    unfold on_loss_detection_timeout in *.
    destruct (match c_timer c with Some t => t <=? c_now c | None => false end).
    + destruct (get_loss_time_and_epoch c) as [[t e]|] eqn:Eg.
      * destruct (get_loss_epoch c t e Eg) as (He & _).
        destruct (detect_lost fx (c_sp c e) (c_reno c) (i_ld ri) (c_now c)) as [[[s r] lost] pers] eqn:Ed.
        match goal with |- context [set_loss_detection_timer ?x ri] =>
          destruct (sldt_same x ri) as (A & B & C & _); set (c1 := set_loss_detection_timer x ri) in * end.
        cbn [andb].
        assert (Hc1 : cwnd (c_reno c1) = cwnd r) by (rewrite A; reflexivity).
        assert (Hstep : forall cc' out, cwnd (c_reno cc') = cwnd r -> o_pers out = pers ->
                  o_pers out = false -> Z.max (cwnd (c_reno c) - c_mtu c) (2 * c_mtu c) <= cwnd (c_reno cc')).
        { intros cc' out E1 E2 E3. assert (Hpf : pers = false) by congruence. clear E2 E3. rewrite Hpf in Ed.
          destruct H as (H1 & _). destruct (detect_lost_single (c_mtu c) _ _ _ _ _ _ _ Ed H1) as (S1 & _).
          rewrite E1. exact S1. }
        destruct (6 <? c_pto_count c1); [apply (Hstep _ _ Hc1); reflexivity|].
        destruct (c_pending_burst c1); [|apply (Hstep _ _ Hc1); reflexivity].
        unfold cc_send_quota. destruct (pacer_schedule _ _ _ _ _) as (p, q). cbn [fst snd].
        destruct (c_mtu _ <=? _); cbn [fst snd]; apply Hstep; ccbn; auto.
      * exfalso. revert Hlt.
        match goal with |- context [set_loss_detection_timer ?x ri] =>
          destruct (sldt_same x ri) as (A & B & C & _); set (c1 := set_loss_detection_timer x ri) in * end.
        assert (Hc1 : cwnd (c_reno c1) = cwnd (c_reno c)).
        { rewrite A. destruct (all_no_elic c); [reflexivity|].
          destruct (get_pto_time_and_epoch c ri) as (r, p). destruct r as [[t e]|]; reflexivity. }
        cbn [andb]. destruct (6 <? c_pto_count c1); cbn [fst]; ccbn; [lia|].
        destruct (c_pending_burst c1); [|cbn [fst]; lia].
        unfold cc_send_quota. destruct (pacer_schedule _ _ _ _ _) as (p, q). cbn [fst].
        destruct (c_mtu _ <=? _); ccbn; lia.
    + exfalso. revert Hlt. cbn [andb]. destruct (c_pending_burst c); [|cbn [fst]; lia].
      unfold cc_send_quota. destruct (pacer_schedule _ _ _ _ _) as (p, q). cbn [fst].
      destruct (c_mtu _ <=? _); ccbn; lia.
  - exfalso. revert Hlt. destruct (which =? 0); [|destruct (which =? 1)]; cbn [fst]; ccbn; lia.
  - exfalso. revert Hlt. destruct ((0 <=? e) && (e <=? 1)) eqn:Ee; [|cbn [fst]; lia]. cbn [fst].
    apply andb_true_iff in Ee. destruct Ee as (E1 & E2). apply Z.leb_le in E1, E2.
    assert (He : In e epochs) by (assert (e = 0 \/ e = 1) by lia; cbn; intuition).
    destruct (cwnd_discard c ri e He H) as (B & _). rewrite B. lia.
  - exfalso. revert Hlt. unfold cc_send_quota. destruct (pacer_schedule _ _ _ _ _) as (p, q).
    destruct (c_mtu _ <=? _); cbn [fst]; ccbn; lia.
  - cbn [fst] in Hlt. ccbn in Hlt. lia.
  - cbn [fst] in Hlt. lia.
Qed.

End Fx.
