(* Wire round trip: the bytes of every successful load re-parse (FrameReader model) to npad PADDING frames
   followed by exactly ONE DATAGRAM frame carrying the datagram, in either form. *)
From Coq Require Import List NArith ZArith Bool Lia.
From GQ Require Import Lib.Base Lib.Slice Lib.VarintN Model.Datagram Proofs.Datagram Proofs.VarintRT.
Import ListNotations.
Local Open Scope N_scope.

Arguments N.add : simpl never.
Arguments N.sub : simpl never.

Lemma parse_frames_pad : forall k fuel tail n0 acc,
  parse_frames (k + fuel) (repeat 0%Z k ++ tail) n0 acc = parse_frames fuel tail (n0 + N.of_nat k) acc.
Proof.
  induction k as [| k IH]; intros fuel tail n0 acc.
  - cbn [repeat app Nat.add]. f_equal. cbn. lia.
  - cbn [repeat app Nat.add parse_frames]. cbn [Z.eqb]. rewrite IH. f_equal. lia.
Qed.

Lemma parse_frame_bytes fuel wl d n0 :
  lenN d < VARINT_MAX -> (2 <= fuel)%nat ->
  parse_frames fuel (frame_bytes wl d) n0 [] = (true, n0, [PDatagram wl d]).
Proof.
  intros Hl Hf. destruct fuel as [| [| f]]; try lia. unfold frame_bytes. destruct wl.
  - cbn [app parse_frames]. cbn [Z.eqb Pos.eqb].
    rewrite (varint_rt (lenN d) d Hl).
    destruct (N.ltb_spec (lenN d) (lenN d)) as [H | _]; [lia |].
    rewrite (dropN_all (lenN d) d) by lia. rewrite (takeN_all (lenN d) d) by lia.
    destruct f; reflexivity.
  - cbn [app parse_frames]. cbn [Z.eqb Pos.eqb]. reflexivity.
Qed.

Lemma p_c19_roundtrip : forall wl npad d,
  lenN d < VARINT_MAX ->
  parse (wire_bytes (LFrame wl npad d)) = (true, npad, [PDatagram wl d]).
Proof.
  intros wl npad d Hl. unfold parse. cbn [wire_bytes].
  set (k := N.to_nat npad).
  assert (Hlen : (S (length (repeat 0%Z k ++ frame_bytes wl d)) = k + S (length (frame_bytes wl d)))%nat)
    by (rewrite app_length, repeat_length; lia).
  rewrite Hlen, parse_frames_pad.
  rewrite parse_frame_bytes; [| exact Hl |].
  - f_equal. f_equal. unfold k. lia.
  - unfold frame_bytes. destruct wl; cbn [app length]; lia.
Qed.

(* delivering the bytes of a load hands exactly that one frame to the incoming side *)
Lemma p_c19_deliver_one : forall s wl npad d,
  lenN d < VARINT_MAX ->
  deliver_bytes s (wire_bytes (LFrame wl npad d)) =
    (fst (recv_datagram s wl d), (true, npad, [snd (recv_datagram s wl d)])).
Proof.
  intros s wl npad d Hl. unfold deliver_bytes. rewrite (p_c19_roundtrip wl npad d Hl).
  cbn [recv_all]. destruct (recv_datagram s wl d) as [s1 r]. reflexivity.
Qed.
