#!/bin/sh
# merge_ws.sh <name>: copy NEW files from an agent workspace /tmp/wa_<name>/verif into /verif and show shared-file diffs
W=/tmp/wa_$1/verif
cd $W || exit 1
for d in coq/Lib coq/Model coq/Proofs coq/Properties corpus streams harness tools; do
  [ -d $d ] || continue
  find $d -type f \( -name '*.v' -o -name '*.json' -o -name '*.rs' -o -name '*.py' -o -name '*.case' -o -name '*.asis' -o -name '*.toml' -o -name '*.md' \) | grep -v "/target/" | grep -v "__pycache__" | while read f; do
    if [ ! -e /verif/$f ]; then mkdir -p /verif/$(dirname $f); cp $f /verif/$f; echo "NEW $f"; fi
  done
done
echo "---- shared file diffs"
for f in tools/vlib.py check harness/hproto/src/lib.rs harness/Cargo.toml harness/hb/Cargo.toml harness/hr/Cargo.toml harness/hc/Cargo.toml harness/hd/Cargo.toml harness/hq/Cargo.toml harness/he/Cargo.toml coq/Lib/Base.v coq/Lib/Slice.v ocaml/driver.ml tools/gen_manifest.py; do
  if ! diff -q /verif/$f $W/$f >/dev/null 2>&1; then echo "DIFF $f"; fi
done
