(* C04 — hostile but well-formed frames cost bounded work and get the RFC's error.
   Statements only; proofs are in Proofs/C04.v and Proofs/C04Cid.v.

   Cost unit: one loop iteration, one allocated cell or one frame queued for sending.
   [deliver] is the dispatcher + Ack*Space::recv_frame of the FIXED code (ACK validated against the
   sent journal before any consumer sees it, `>=`, parser check); the three theorems `…_f7/f8/f22
   _refuted` show what the same model yields with one fix switched off.
   K = 2^16 in the finding classes; the conditional theorems are stated for every K. *)
From Coq Require Import List ZArith NArith Bool.
From GQ Require Import Model.RcvdJournal Model.SentJournal Model.C04Cid Model.C04Handlers Proofs.C04Cid Proofs.C04.
From GQ Require Lib.Base Model.RemoteCid.
From GQ Require Lib.Wire Lib.FrameTypes Model.Varint Model.Frames Model.StreamCtl Model.Sid.
Import ListNotations.
Local Open Scope Z_scope.

(* ---------------------------------------------------------------- ACK *)
(* every ACK the parser lets through costs at most (packets ever sent) x (tracked window + 4) plus
   the tracked state — whatever its field values; it is either processed or, if it names an
   unsent packet, rejected before anything iterated over it *)
Theorem c04_ack_cost : forall cc_len now rj sj f rs,
  0 <= cc_len -> 0 <= a_first f -> ranges_nonneg (a_ranges f) -> 0 <= s_off sj ->
  ack_iter f = Some rs ->
  let o := deliver cc_len now rj sj f in
  ao_panic o = false /\
  (ao_err o = 0 \/ ao_err o = E_PROTOCOL_VIOLATION /\ ao_ticks o = 0 /\ ao_collected o = 0) /\
  ao_cost o <= s_next sj * (sj_len sj + 4) + 2 * (sj_len sj + cc_len + r_len rj) + zlen (r_incl rj) + 6.
Proof. exact p_c04_ack_cost. Qed.

(* largest acknowledged >= next unsent packet number: PROTOCOL_VIOLATION, one unit of work, no
   consumer iterates, no journal changes *)
Theorem c04_ack_unsent_rejected : forall cc_len now rj sj f,
  s_next sj <= a_largest f ->
  deliver cc_len now rj sj f = mkao false E_PROTOCOL_VIOLATION 0 0 0 1 0 0 /\
  apply_ack true true now rj sj f = (rj, sj).
Proof. exact p_c04_ack_unsent_rejected. Qed.

(* an ACK-typed frame one of whose computed packet numbers is negative is a parse error
   (FRAME_ENCODING_ERROR by C03's mapping) … *)
Theorem c04_ack_negative_rejected : forall p code ecn bs rest l d fr rs e r,
  Varint.be_varint bs = Wire.Ok code rest ->
  Frames.ft_of_code code = Some (FrameTypes.TAck ecn) ->
  Frames.belongs (FrameTypes.TAck ecn) p = true ->
  Frames.be_ack ecn rest = Wire.Ok (Frames.Ack l d fr rs e) r ->
  ack_iter (mkack l d fr rs) = None ->
  Frames.be_frame p bs = Frames.FErr FrameTypes.EParseError.
Proof. exact p_c04_ack_negative_rejected. Qed.

(* … a parse error costs one unit and no handler acts on it … *)
Theorem c04_parse_error_inert : forall s cc_len bs e,
  parse_frame (h_f7 s) bs = Frames.FErr e ->
  frame_outcome s cc_len bs = mko [0; E_FRAME_ENCODING] 1 0 0 true 0 /\ frame_apply s bs = s.
Proof. exact p_c04_parse_error. Qed.

(* … and every ACK frame that does reach the consumers iterates without underflow *)
Theorem c04_ack_delivered_nonnegative : forall bs c l d fr rs e t,
  parse_frame true bs = Frames.FOk c (Frames.Ack l d fr rs e) t ->
  (match t with FrameTypes.TAck _ => True | _ => False end) ->
  ack_iter (mkack l d fr rs) <> None.
Proof. exact p_c04_ack_negative_no_panic. Qed.

Theorem c04_ack_iter_in_range : forall f rs, 0 <= a_first f -> ranges_nonneg (a_ranges f) ->
  ack_iter f = Some rs ->
  0 <= covered rs <= a_largest f + 1 /\ Forall (range_ok (a_largest f)) rs.
Proof. exact ack_iter_covered. Qed.

(* [covered], the driver of every ACK cost term, is the number of packet numbers the Rust
   `iter().flat_map(|r| r.rev())` yields *)
Theorem c04_covered_counts_numbers : forall rs top, Forall (range_ok top) rs ->
  Z.of_nat (length (expand rs)) = covered rs.
Proof. exact p_c04_covered_is_expansion. Qed.

(* the code before the fixes, same model with one switch off (witnesses replayed on the real code) *)
Theorem c04_f7_refuted :
  exists bs, parse_frame false bs <> parse_frame true bs /\
    o_words (frame_outcome (after_5_sent [1; 2; 3; 3; 0; 1]) 1 bs) = [PANIC_W] /\
    o_words (frame_outcome (after_5_sent [1; 2; 3; 3; 1; 1]) 1 bs) = [0; E_FRAME_ENCODING].
Proof. exact p_c04_f7_refuted. Qed.

Theorem c04_f8_refuted :
  exists sj f, s_next sj <= a_largest f /\ ao_err (deliver_ack true false 1 0 (rj_new None) sj f) = 0.
Proof. exact p_c04_f8_refuted. Qed.

Theorem c04_f22_refuted :
  exists sj f, s_next sj <= a_largest f /\
    let o := deliver_ack false true 1 0 (rj_new None) sj f in
    ao_err o = E_PROTOCOL_VIOLATION /\ ao_ticks o = 2^62 /\ 2^62 < ao_cost o.
Proof. exact p_c04_f22_refuted. Qed.

(* ---------------------------------------------------------------- packet-number jump (F9) *)
Theorem c04_pn_jump_cost_refuted : forall c c', 0 <= c -> 0 <= c' ->
  exists pn, 0 <= pn /\ c * (4 + r_len (rj_new None)) + c' < pn_cost (rj_new None) pn.
Proof. exact p_c04_pn_jump_cost_refuted. Qed.

Theorem c04_pn_jump_value_bound : forall j pn, pn_cost j pn <= Z.max 0 (pn - r_next j + 1) + 2.
Proof. exact p_c04_pn_jump_value_bound. Qed.

(* outside the class (jump of more than K numbers) *)
Theorem c04_pn_jump_cost : forall K j pn, 0 <= K -> pn - r_next j <= K -> pn_cost j pn <= K + 3.
Proof. exact p_c04_pn_jump_cost. Qed.

(* the cost counts exactly the records the journal model appends *)
Theorem c04_pn_cells : forall j now pn el pto j',
  0 <= r_off j -> on_rcvd_pn j now pn el pto = Some j' ->
  r_len j' = r_len j + pn_cells j pn /\ r_off j' = r_off j.
Proof. exact p_c04_pn_cells. Qed.

(* ---------------------------------------------------------------- NEW_CONNECTION_ID (F10) *)
(* The handler is the shared model of the repaired code, [rc_recv] = Model.RemoteCid.recv_new_cid
   no_pre post_count (C14): insert, retire_prior_to, arrange_idle_cid, THEN count the active IDs.
   Nothing bounds the sequence number before `IndexDeque::insert` gap-fills up to it. *)

(* REFUTED, and for frames the count-based limit ACCEPTS (one active ID is left): cells allocated,
   RETIRE_CONNECTION_ID frames queued and work all exceed any linear function of the 54 frame bytes
   and the 3 cells of state *)
Theorem c04_new_cid_cost_refuted : forall c c' : N, exists seq rpt : N,
  (rpt <= seq)%N /\
  (let '(s', fr, res) := rc_recv (rc_init 2) seq rpt in
   res = RemoteCid.NAccepted /\ (RemoteCid.active s' <= 1)%N /\
   (c * (54 + rc_size (rc_init 2)) + c' < Base.lenN fr)%N) /\
  (c * (54 + rc_size (rc_init 2)) + c' < rc_new_cells (rc_init 2) seq)%N /\
  (c * (54 + rc_size (rc_init 2)) + c' < rc_new_cost (rc_init 2) seq rpt)%N.
Proof. exact p_c04_new_cid_cost_refuted. Qed.

(* what one frame CAN cause, exactly: [rc_gap] = seq - cid_deque.largest() default cells … *)
Theorem c04_new_cid_cells : forall s seq rpt s' fr res,
  rc_discards s seq = false -> rc_recv s seq rpt = (s', fr, res) ->
  (Base.lenN (RemoteCid.r_cids s') + rc_drained s seq rpt =
     Base.lenN (RemoteCid.r_cids s) + rc_new_cells s seq + (if rc_end s <=? seq then 1 else 0))%N /\
  RemoteCid.r_coff s' = rc_coff_after s seq rpt.
Proof. exact p_c04_new_cid_cells. Qed.

(* … and [rc_gap_frames] = retire_prior_to - ready_cells.largest() RETIRE_CONNECTION_ID frames (one per
   sequence NUMBER no path ever used), plus at most one per connection ID the paths' cells held *)
Theorem c04_new_cid_frames : forall s seq rpt s' fr res,
  rc_discards s seq = false -> rc_recv s seq rpt = (s', fr, res) ->
  (rc_gap_frames s rpt <= Base.lenN fr)%N /\
  (Base.lenN fr <= rc_gap_frames s rpt + allocs (RemoteCid.r_cells s) + Base.lenN (RemoteCid.r_pending s)
                   + Base.lenN (RemoteCid.r_ready s))%N.
Proof. exact p_c04_new_cid_frames. Qed.

(* the bound that does hold: linear in the two jumps and in the state *)
Theorem c04_new_cid_value_bound : forall s seq rpt,
  (rc_new_cost s seq rpt <= 2 * rc_gap s seq + rc_gap_frames s rpt + 4 * rc_size s + 6)%N.
Proof. exact p_c04_new_cid_value_bound. Qed.

Theorem c04_new_cid_cost_lower : forall s seq rpt, rc_discards s seq = false ->
  (rc_gap s seq + rc_gap_frames s rpt <= rc_new_cost s seq rpt)%N.
Proof. exact p_c04_new_cid_cost_lower. Qed.

(* outside the class of F10 (sequence number more than K beyond the highest seen, or retire_prior_to
   more than K beyond the highest number a path used) *)
Theorem c04_new_cid_cost : forall K s seq rpt,
  (seq - rc_end s <= K)%N -> (rpt - rc_applied s <= K)%N ->
  (rc_new_cost s seq rpt <= 3 * K + 4 * rc_size s + 6)%N.
Proof. exact p_c04_new_cid_cost. Qed.

Theorem c04_retire_prior_cost : forall K s seq rpt,
  (rpt - RemoteCid.r_coff s <= K)%N -> (rpt - rc_applied s <= K)%N ->
  (rc_retire_cost s seq rpt <= 2 * K + Base.lenN (RemoteCid.r_ready s) + 1)%N.
Proof. exact p_c04_retire_prior_cost. Qed.

(* ---------------------------------------------------------------- active_connection_id_limit (F11) *)
Theorem c04_set_limit_cost_refuted : forall c c', 0 <= c -> 0 <= c' ->
  exists n, c * (8 + lc_len lc_init) + c' < lc_set_cost lc_init n /\
            c * (8 + lc_len lc_init) + c' < lc_set_frames lc_init n.
Proof. exact p_c04_set_limit_cost_refuted. Qed.

Theorem c04_set_limit_value_bound : forall s n, lc_wf s -> lc_set_cost s n <= Z.max 0 n + 1.
Proof. exact p_c04_set_limit_value_bound. Qed.

Theorem c04_set_limit_cost : forall K s n, lc_wf s -> 0 <= K -> n <= K -> lc_set_cost s n <= K + 1.
Proof. exact p_c04_set_limit_cost. Qed.

Theorem c04_set_limit_cells : forall s n, 2 <= n -> lc_len (lc_set_apply s n) = lc_len s + lc_set_frames s n.
Proof. exact p_c04_set_limit_cells. Qed.

Theorem c04_retire_cid_cost : forall s seq, lc_retire_cost s seq <= lc_len s + 2.
Proof. exact p_c04_retire_cid_cost. Qed.

(* ---------------------------------------------------------------- streams *)
Theorem c04_implicit_open_cost : forall d f,
  streams_created d f <=
    Z.of_N (N.max (fst (Sid.r_max (StreamCtl.d_r d))) (snd (Sid.r_max (StreamCtl.d_r d)))) + 1.
Proof. exact p_c04_implicit_open_cost. Qed.

(* ---------------------------------------------------------------- the prescribed errors *)
Theorem c04_limits :
  (* MAX_STREAMS above 2^60 - 1 is refused by the parser *)
  (forall u bs f rest, Frames.be_body (FrameTypes.TMaxStreams u) bs = Wire.Ok f rest ->
     match f with Frames.MaxStreams _ v => v <= Frames.MAX_STREAMS_LIMIT | _ => True end) /\
  (* a peer stream whose index is above the limit: STREAM_LIMIT_ERROR, connection failed *)
  (forall d sid off len fin,
     StreamCtl.d_closed d = false -> Sid.role_eqb (Sid.sid_role sid) (StreamCtl.d_role d) = false ->
     (Sid.pget (Sid.r_max (StreamCtl.d_r d)) (Sid.sid_dir sid) < Sid.sid_idx sid)%N ->
     hd 0 (snd (StreamCtl.ds_step StreamCtl.fixed d (StreamCtl.OStream sid off len fin))) = E_STREAM_LIMIT /\
     StreamCtl.d_closed (fst (StreamCtl.ds_step StreamCtl.fixed d (StreamCtl.OStream sid off len fin))) = true) /\
  (* RETIRE_CONNECTION_ID of a sequence number never issued: PROTOCOL_VIOLATION (RFC 9000 19.16), one
     unit, nothing changes *)
  (forall s seq, lc_next s <= seq ->
     lc_retire_err true s seq = E_PROTOCOL_VIOLATION /\ lc_retire_cost s seq = 1 /\ lc_retire_apply s seq = s) /\
  (* NEW_CONNECTION_ID: CONNECTION_ID_LIMIT_ERROR exactly when more than active_connection_id_limit
     connection IDs are active once the frame is processed (RFC 9000 5.1.1); a sequence number below
     the retired prefix is dropped at the first test *)
  (forall s seq rpt s' fr res, rc_discards s seq = false -> rc_recv s seq rpt = (s', fr, res) ->
     ((RemoteCid.r_limit s < RemoteCid.active s')%N ->
        res = RemoteCid.NErrLimit /\ rc_res_err res = E_CONNECTION_ID_LIMIT) /\
     ((RemoteCid.active s' <= RemoteCid.r_limit s)%N -> res = RemoteCid.NAccepted /\ rc_res_err res = E_NONE)) /\
  (forall s seq rpt, (seq < RemoteCid.r_coff s)%N ->
     rc_recv s seq rpt = (s, [], RemoteCid.NDiscarded) /\ rc_new_cost s seq rpt = 1%N /\ rc_new_drv s seq rpt = 0%N) /\
  (* active_connection_id_limit below 2 *)
  (forall s n, n < 2 -> lc_set_err s n = E_TRANSPORT_PARAMETER /\ lc_set_cost s n = 1 /\ lc_set_apply s n = s).
Proof.
  split; [exact p_c04_max_streams_limit|]. split; [exact p_c04_stream_limit|].
  split; [intros s seq H; destruct (p_c04_retire_unissued s seq H) as (A & _ & _ & B & C); auto|].
  split; [exact p_c04_new_cid_limit|]. split; [exact p_c04_new_cid_discarded|exact p_c04_set_limit_small].
Qed.

(* F55 (fixed): the code before `fix: RETIRE_CONNECTION_ID for a sequence number never issued is a
   PROTOCOL_VIOLATION` answered with a KIND other than the one RFC 9000 19.16 prescribes *)
Theorem c04_retire_kind_refuted :
  exists s seq, lc_next s <= seq /\ lc_retire_err false s seq <> E_PROTOCOL_VIOLATION.
Proof. exact p_c04_retire_kind_refuted. Qed.

(* ---------------------------------------------------------------- non-vacuity / the replayed witnesses *)
Example c04_ack_nonvacuous :
  let o := deliver 5 0 (rj_new None) sj5 (mkack 4 0 1 [(0, 1)]) in
  ack_iter (mkack 4 0 1 [(0, 1)]) = Some [(3, 4); (0, 1)] /\ ao_err o = 0 /\ ao_ticks o = 4 /\
  ao_collected o = 4 /\ ao_fed o = 4 /\ ao_cost o = 48.
Proof. vm_compute. repeat split; reflexivity. Qed.

(* the bound of c04_ack_cost really depends on the packets ever sent, not on the tracked window: with
   an empty window at offset 10^6 an ACK of [0, 10^6 - 1] is stepped through number by number
   (replayed on the real code: 640 packets sent, acknowledged and expired, then ACK [0,639]:
   640 controller iterations, 640 numbers collected, window length 1) *)
Example c04_ack_cost_tracks_packets_sent :
  let sj := mksj [] 1000000 [] 0 in
  let o := deliver 1 0 (rj_new None) sj (mkack 999999 0 999999 []) in
  sj_len sj = 0 /\ ao_err o = 0 /\ ao_ticks o = 1000000 /\ ao_collected o = 1000000 /\ 3000000 < ao_cost o.
Proof. vm_compute. repeat split; reflexivity. Qed.

Example c04_f9_witness :
  decode_pn rj01 (U32 65536) = DpnOk 65536 /\ pn_cells rj01 65536 = 65535 /\
  decode_pn rj01 (U32 (2^31 - 1)) = DpnOk (2^31 - 1) /\ pn_cells rj01 (2^31 - 1) = 2^31 - 2.
Proof. exact p_c04_f9_witness. Qed.

(* limit 2, after NEW_CONNECTION_ID(1, 0):
   - (seq 3000, rpt 3000): accepted, 2998 cells appended, 2999 + 1 RETIRE_CONNECTION_ID frames, 1 active ID;
   - (seq 3000, rpt 0): CONNECTION_ID_LIMIT_ERROR (3 active IDs), but only after 2998 cells were
     appended and the limit check walked all 3001 of them;
   - (seq 2^62-1, rpt 2^62-1): 2^62-3 cells and 2^62-2 frames are asked for (arithmetic only) *)
Example c04_f10_witness :
  let s1 := fst (fst (rc_recv (rc_init 2) 1 0)) in
  (let '(s', fr, res) := rc_recv s1 3000 3000 in
   res = RemoteCid.NAccepted /\ RemoteCid.active s' = 1%N /\ Base.lenN fr = 3000%N /\
   rc_new_cells s1 3000 = 2998%N /\ rc_gap_frames s1 3000 = 2999%N) /\
  (let '(s', fr, res) := rc_recv s1 3000 0 in
   res = RemoteCid.NErrLimit /\ RemoteCid.active s' = 3%N /\ Base.lenN (RemoteCid.r_cids s') = 3001%N /\
   (5998 < rc_new_cost s1 3000 0)%N) /\
  rc_new_drv s1 (2^62 - 1) (2^62 - 1) = (2^62 - 3 + (2^62 - 2))%N.
Proof. vm_compute. repeat split; reflexivity. Qed.

Example c04_f11_witness : lc_set_err lc_init 200000 = 0 /\ lc_set_frames lc_init 200000 = 199998.
Proof. vm_compute. split; reflexivity. Qed.

Print Assumptions c04_ack_cost.
Print Assumptions c04_ack_unsent_rejected.
Print Assumptions c04_ack_negative_rejected.
Print Assumptions c04_parse_error_inert.
Print Assumptions c04_ack_delivered_nonnegative.
Print Assumptions c04_ack_iter_in_range.
Print Assumptions c04_covered_counts_numbers.
Print Assumptions c04_f7_refuted.
Print Assumptions c04_f8_refuted.
Print Assumptions c04_f22_refuted.
Print Assumptions c04_pn_jump_cost_refuted.
Print Assumptions c04_pn_jump_value_bound.
Print Assumptions c04_pn_jump_cost.
Print Assumptions c04_pn_cells.
Print Assumptions c04_new_cid_cost_refuted.
Print Assumptions c04_new_cid_cells.
Print Assumptions c04_new_cid_frames.
Print Assumptions c04_new_cid_value_bound.
Print Assumptions c04_new_cid_cost_lower.
Print Assumptions c04_new_cid_cost.
Print Assumptions c04_retire_prior_cost.
Print Assumptions c04_set_limit_cost_refuted.
Print Assumptions c04_set_limit_value_bound.
Print Assumptions c04_set_limit_cost.
Print Assumptions c04_set_limit_cells.
Print Assumptions c04_retire_cid_cost.
Print Assumptions c04_implicit_open_cost.
Print Assumptions c04_limits.
Print Assumptions c04_retire_kind_refuted.
Print Assumptions c04_ack_nonvacuous.
Print Assumptions c04_ack_cost_tracks_packets_sent.
Print Assumptions c04_f9_witness.
Print Assumptions c04_f10_witness.
Print Assumptions c04_f11_witness.
