//! Correspondence stream `cid` (C14): drives the real `qbase::cid::{ArcLocalCids, ArcRemoteCids,
//! ArcCidCell}` and the real `qinterface::component::route::QuicRouter` (one shared router, every
//! connection's ArcLocalCids issues through its own QuicRouterRegistry, exactly as
//! qconnection/src/builder.rs wires them).
//!
//! CASE cfg: limit npre hs id0   (our active_connection_id_limit; paths applied before the first
//!                                Initial; which of them is the handshake path; initial DCID value)
//! ops (tag args) -> observation
//!  0 seq rpt id   NEW_CONNECTION_ID from the peer (encoded, parsed back by the real frame parser,
//!                 then recv_frame)        -> 0 accepted | 1 discarded | 2 CONNECTION_ID_LIMIT_ERROR
//!                                            | 3 frame parser refused | 4 other error ; RETIRE seqs…
//!  1 c seq        RETIRE_CONNECTION_ID from the peer of connection c -> 0 | 2 PROTOCOL_VIOLATION (unissued number,
//!                 RFC 9000 19.16) | 4 other error ; (seq rpt)…
//!  2 c n          set_limit(n) on connection c                        -> 0 | 5 | -98 ; (seq rpt)…
//!  3              apply_dcid (new path)                               -> path index ; RETIRE seqs…
//!  4 p            borrow_cid on path p      -> 0 retired | 1 pending | 2 id
//!  5 p            drop the BorrowedCid of p -> 0 ; RETIRE seqs…
//!  6 p            ArcCidCell::retire        -> 0 ; RETIRE seqs…
//!  7 m x y        new connection: m=0 client; m=1 an Initial packet with DCID od(x) is delivered by
//!                 the router (routed: `1 target`; unrouted: server connection created with that
//!                 origin DCID); m=2 server connection with origin DCID od(x) unconditionally;
//!                 m=3 the same with the ID that connection x issued under sequence y
//!                                            -> 0 index (seq rpt)… | 1 target
//!  8 c            drop connection c         -> 0
//!  9 c seq        a 1-RTT packet whose DCID is the ID connection c issued under seq is delivered
//!                                            -> 1 target (-1 = nobody)
//! 10 x            the same for the origin DCID od(x)
//! 11 c            ArcLocalCids::clear       -> 0
//! 12              latest_dcid               -> 1 id | 0
//! -97 = operation refused by the driver (unknown index, double borrow, …); nothing was called.
//! IDs are never printed raw: peer IDs are the numbers the case chose, our IDs are (conn, seq).
use std::collections::HashMap;
use std::sync::{Arc, Mutex};

use bytes::{BufMut, Bytes, BytesMut};
use hproto::{Obs, Op};
use qbase::cid::{ArcCidCell, ArcLocalCids, ArcRemoteCids, BorrowedCid, ConnectionId, GenUniqueCid};
use qbase::error::ErrorKind;
use qbase::frame::io::{ReceiveFrame, SendFrame, WriteFrame, be_frame};
use qbase::frame::{Frame, NewConnectionIdFrame, RetireConnectionIdFrame};
use qbase::net::addr::EndpointAddr;
use qbase::net::route::{Link, Pathway};
use qbase::net::tx::ArcSendWaker;
use qbase::packet::r#type::io::be_packet_type;
use qbase::packet::{Packet, PacketReader};
use qbase::varint::VarInt;
use qinterface::bind_uri::BindUri;
use qinterface::component::route::{QuicRouter, QuicRouterEntry, QuicRouterRegistry, RcvdPacketQueue, Way};

#[derive(Clone, Default)]
struct RetSink(Arc<Mutex<Vec<u64>>>);
impl SendFrame<RetireConnectionIdFrame> for RetSink {
    fn send_frame<I: IntoIterator<Item = RetireConnectionIdFrame>>(&self, iter: I) {
        self.0.lock().unwrap().extend(iter.into_iter().map(|f| f.sequence()));
    }
}
impl RetSink {
    fn take(&self) -> Vec<u64> {
        std::mem::take(&mut *self.0.lock().unwrap())
    }
}

#[derive(Clone, Default)]
struct NewSink(Arc<Mutex<Vec<NewConnectionIdFrame>>>);
impl SendFrame<NewConnectionIdFrame> for NewSink {
    fn send_frame<I: IntoIterator<Item = NewConnectionIdFrame>>(&self, iter: I) {
        self.0.lock().unwrap().extend(iter);
    }
}

struct Conn {
    queue: Arc<RcvdPacketQueue>,
    local: Option<ArcLocalCids<QuicRouterRegistry<NewSink>>>,
    entry: Option<QuicRouterEntry>,
    sink: NewSink,
    hist: HashMap<u64, ConnectionId>,
    limit_set: bool,
}

struct St {
    router: Arc<QuicRouter>,
    unrouted: Arc<Mutex<usize>>,
    conns: Vec<Conn>,
    remote: ArcRemoteCids<RetSink>,
    ret: RetSink,
    paths: Vec<&'static ArcCidCell<RetSink>>,
    held: Vec<Option<BorrowedCid<'static, RetSink>>>,
}

fn peer_cid(v: u64) -> ConnectionId {
    ConnectionId::from_slice(&v.to_be_bytes())
}
fn peer_val(c: &ConnectionId) -> i128 {
    let b: &[u8] = c;
    if b.len() != 8 {
        return -5;
    }
    u64::from_be_bytes(b.try_into().unwrap()) as i128
}
/// peer-chosen origin DCID number x: first byte < 0x80, so it can never equal an ID produced by
/// `random_gen_with_mark(8, 0x80, 0x7F)`
fn od_cid(x: u64) -> ConnectionId {
    let mut b = x.to_be_bytes();
    b[0] = 0x01;
    ConnectionId::from_slice(&b)
}

fn way() -> Way {
    let a: std::net::SocketAddr = "127.0.0.1:4000".parse().unwrap();
    let b: std::net::SocketAddr = "127.0.0.1:5000".parse().unwrap();
    (
        BindUri::from(a),
        Pathway::new(EndpointAddr::direct(a), EndpointAddr::direct(b)),
        Link::new(b, a),
    )
}

fn short_packet(dcid: &ConnectionId) -> Packet {
    let mut raw = BytesMut::new();
    raw.put_u8(0x40);
    raw.put_slice(dcid);
    raw.put_slice(&[0u8; 24]);
    let n = dcid.len();
    PacketReader::new(raw, n).next().unwrap().unwrap()
}

fn initial_packet(dcid: &ConnectionId) -> Packet {
    let mut raw = BytesMut::new();
    raw.put_u8(0xC0);
    raw.put_slice(&[0, 0, 0, 1]);
    raw.put_u8(dcid.len() as u8);
    raw.put_slice(dcid);
    raw.put_u8(0); // scid len
    raw.put_u8(0); // token len
    raw.put_u8(24); // length
    raw.put_slice(&[0u8; 24]);
    PacketReader::new(raw, 8).next().unwrap().unwrap()
}

impl St {
    fn new(cfg: &[&str]) -> St {
        let num = |i: usize, d: u64| cfg.get(i).and_then(|s| s.parse::<u64>().ok()).unwrap_or(d);
        let (limit, npre, hs, id0) = (num(0, 2), num(1, 1).max(1), num(2, 0), num(3, 1000));
        let router = Arc::new(QuicRouter::new());
        let unrouted = Arc::new(Mutex::new(0usize));
        {
            let u = unrouted.clone();
            router.on_connectless_packets(move |_p, _w| {
                *u.lock().unwrap() += 1;
            });
        }
        let ret = RetSink::default();
        let remote = ArcRemoteCids::new(limit, ret.clone());
        let mut st = St { router, unrouted, conns: Vec::new(), remote, ret, paths: Vec::new(), held: Vec::new() };
        for _ in 0..npre {
            st.apply();
        }
        let hs = (hs as usize).min(st.paths.len() - 1);
        st.remote.apply_initial_dcid(peer_cid(id0), st.paths[hs]);
        st.ret.take();
        st
    }

    fn apply(&mut self) -> usize {
        let cell: &'static ArcCidCell<RetSink> = Box::leak(Box::new(self.remote.apply_dcid()));
        self.paths.push(cell);
        self.held.push(None);
        self.paths.len() - 1
    }

    fn push_ret(&self, o: &mut Obs) {
        for s in self.ret.take() {
            o.push(s);
        }
    }

    /// records the frames a connection's ArcLocalCids handed to its sender since the last call
    fn push_new(&mut self, c: usize, o: &mut Obs) {
        let frames = std::mem::take(&mut *self.conns[c].sink.0.lock().unwrap());
        for f in frames {
            o.push(f.sequence()).push(f.retire_prior_to());
            self.conns[c].hist.insert(f.sequence(), *f.connection_id());
        }
    }

    /// which connection's queue received the packet just delivered
    fn landed(&self) -> i128 {
        let mut hit: i128 = -1;
        for (i, c) in self.conns.iter().enumerate() {
            let mut got = false;
            while let Some(Some(_)) = futures::FutureExt::now_or_never(c.queue.one_rtt().recv()) {
                got = true;
            }
            while let Some(Some(_)) = futures::FutureExt::now_or_never(c.queue.initial().recv()) {
                got = true;
            }
            if got {
                hit = if hit == -1 { i as i128 } else { -4 };
            }
        }
        hit
    }

    fn deliver(&self, p: Packet) -> (bool, i128) {
        let before = *self.unrouted.lock().unwrap();
        futures::executor::block_on(self.router.deliver(p, way()));
        let unrouted = *self.unrouted.lock().unwrap() != before;
        (unrouted, self.landed())
    }

    fn conn_new(&mut self, od: Option<ConnectionId>, o: &mut Obs) {
        // qconnection/src/builder.rs: with_cids
        let queue = Arc::new(RcvdPacketQueue::new());
        let sink = NewSink::default();
        let registry = self.router.registry_on_issuing_scid(queue.clone(), sink.clone());
        let initial_scid = registry.gen_unique_cid();
        let entry = od.map(|x| self.router.insert(x.into(), queue.clone()));
        let local = ArcLocalCids::new(initial_scid, registry);
        let mut hist = HashMap::new();
        hist.insert(0u64, initial_scid);
        self.conns.push(Conn { queue, local: Some(local), entry, sink, hist, limit_set: false });
        let i = self.conns.len() - 1;
        o.push(0u8).push_usize(i);
        self.push_new(i, o);
    }

    fn live(&self, c: u64) -> Option<usize> {
        let c = c as usize;
        if c < self.conns.len() && self.conns[c].local.is_some() { Some(c) } else { None }
    }
}

fn kind_code(k: ErrorKind) -> u8 {
    match k {
        ErrorKind::ConnectionIdLimit => 2,
        ErrorKind::TransportParameter => 5,
        _ => 4,
    }
}

/// RETIRE_CONNECTION_ID of a never-issued number: class 2 is the error RFC 9000 19.16 prescribes
/// (PROTOCOL_VIOLATION, the code since the fix of F55); anything else is class 4
fn retire_kind_code(k: ErrorKind) -> u8 {
    match k {
        ErrorKind::ProtocolViolation => 2,
        _ => 4,
    }
}

fn step(st: &mut St, op: &Op, _i: usize) -> Obs {
    let mut o = Obs::new();
    let refused = |o: &mut Obs| {
        o.push(-97i32);
    };
    match (op.tag, op.args.len()) {
        (0, 3) => {
            let (seq, rpt, id) = (op.u(0), op.u(1), op.u(2));
            let (Ok(seq), Ok(rpt)) = (VarInt::from_u64(seq), VarInt::from_u64(rpt)) else {
                refused(&mut o);
                return o;
            };
            // through the real codec: what reaches recv_frame is what the parser lets through
            let frame = NewConnectionIdFrame::new(peer_cid(id), seq, rpt);
            let mut buf = BytesMut::new();
            buf.put_frame(&frame);
            let raw: Bytes = buf.freeze();
            let (_, ty) = be_packet_type(&[0x40u8]).unwrap();
            match be_frame(&raw, ty) {
                Ok((_, Frame::NewConnectionId(f), _)) => match st.remote.recv_frame(f) {
                    Ok(Some(_)) => {
                        o.push(0u8);
                    }
                    Ok(None) => {
                        o.push(1u8);
                    }
                    Err(e) => {
                        o.push(kind_code(e.kind()));
                    }
                },
                _ => {
                    o.push(3u8);
                }
            }
            st.push_ret(&mut o);
        }
        (1, 2) => match st.live(op.u(0)) {
            Some(c) => {
                let Ok(seq) = VarInt::from_u64(op.u(1)) else {
                    refused(&mut o);
                    return o;
                };
                let r = st.conns[c].local.as_ref().unwrap().recv_frame(RetireConnectionIdFrame::new(seq));
                match r {
                    Ok(()) => o.push(0u8),
                    Err(e) => o.push(retire_kind_code(e.kind())),
                };
                st.push_new(c, &mut o);
            }
            None => refused(&mut o),
        },
        (2, 2) => match st.live(op.u(0)) {
            Some(c) => {
                if st.conns[c].limit_set {
                    // set_limit debug-asserts that the limit is still unset
                    o.push(-98i32);
                } else {
                    let r = st.conns[c].local.as_ref().unwrap().set_limit(op.u(1));
                    match r {
                        Ok(()) => {
                            st.conns[c].limit_set = true;
                            o.push(0u8)
                        }
                        Err(e) => o.push(kind_code(e.kind())),
                    };
                    st.push_new(c, &mut o);
                }
            }
            None => refused(&mut o),
        },
        (3, 0) => {
            let p = st.apply();
            o.push_usize(p);
            st.push_ret(&mut o);
        }
        (4, 1) => {
            let p = op.u(0) as usize;
            if p >= st.paths.len() || st.held[p].is_some() {
                refused(&mut o);
            } else {
                match st.paths[p].borrow_cid(ArcSendWaker::new()) {
                    Ok(None) => {
                        o.push(0u8);
                    }
                    Err(_) => {
                        o.push(1u8);
                    }
                    Ok(Some(b)) => {
                        o.push(2u8).push(peer_val(&b));
                        st.held[p] = Some(b);
                    }
                }
            }
        }
        (5, 1) => {
            let p = op.u(0) as usize;
            if p >= st.paths.len() || st.held[p].is_none() {
                refused(&mut o);
            } else {
                st.held[p] = None;
                o.push(0u8);
                st.push_ret(&mut o);
            }
        }
        (6, 1) => {
            let p = op.u(0) as usize;
            if p >= st.paths.len() {
                refused(&mut o);
            } else {
                st.paths[p].retire();
                o.push(0u8);
                st.push_ret(&mut o);
            }
        }
        (7, 3) => match op.u(0) {
            0 => st.conn_new(None, &mut o),
            1 => {
                let x = od_cid(op.u(1));
                let (unrouted, target) = st.deliver(initial_packet(&x));
                if unrouted {
                    // the listener's reaction to a connectionless Initial packet
                    st.conn_new(Some(x), &mut o);
                } else {
                    o.push(1u8).push(target);
                }
            }
            2 => st.conn_new(Some(od_cid(op.u(1))), &mut o),
            3 => {
                let c = op.u(1) as usize;
                match st.conns.get(c).and_then(|cn| cn.hist.get(&op.u(2)).copied()) {
                    Some(x) => st.conn_new(Some(x), &mut o),
                    None => refused(&mut o),
                }
            }
            _ => refused(&mut o),
        },
        (8, 1) => match st.live(op.u(0)) {
            Some(c) => {
                st.conns[c].local = None; // Drop for LocalCids = clear()
                st.conns[c].entry = None; // Drop for QuicRouterEntry = guarded remove
                o.push(0u8);
            }
            None => refused(&mut o),
        },
        (9, 2) => {
            let c = op.u(0) as usize;
            match st.conns.get(c).and_then(|cn| cn.hist.get(&op.u(1)).copied()) {
                Some(x) => {
                    let (unrouted, target) = st.deliver(short_packet(&x));
                    o.push(1u8).push(if unrouted { -1 } else { target });
                }
                None => refused(&mut o),
            }
        }
        (10, 1) => {
            let (unrouted, target) = st.deliver(short_packet(&od_cid(op.u(0))));
            o.push(1u8).push(if unrouted { -1 } else { target });
        }
        (11, 1) => match st.live(op.u(0)) {
            Some(c) => {
                st.conns[c].local.as_ref().unwrap().clear();
                o.push(0u8);
            }
            None => refused(&mut o),
        },
        (12, 0) => match st.remote.latest_dcid() {
            Some(c) => {
                o.push(1u8).push(peer_val(&c));
            }
            None => {
                o.push(0u8);
            }
        },
        _ => refused(&mut o),
    }
    o
}

fn main() {
    hproto::run(St::new, step);
}
