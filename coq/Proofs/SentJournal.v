(* Proofs about the sent-packet journal (Model/SentJournal.v): C07 uniqueness of packet
   numbers and the C10 clauses about delivered / lost frames. *)
From Coq Require Import List ZArith Bool Lia Sorted.
From GQ Require Import Model.SentJournal.
Import ListNotations.
Local Open Scope Z_scope.

(* ------------------------------------------------------------------ *)
(* histories: one event per mutex-protected step.  A NewPacketGuard life is one event; a
   SentRotateGuard life is the sequence of its calls followed by EvResize (its Drop). *)
Inductive sev :=
| EvNew (now : Z) (sc : np_script)
| EvAcked (pn : Z)
| EvLost (pn : Z)
| EvFast (now : Z)
| EvLargest (v : Z)
| EvResize (now : Z).

(* guard discipline of qconnection/src/tx.rs: Packages::dump returns Err (guard dropped) only
   when nothing was written, and Ok (packet built) only when something was written, and every
   written frame went through record_frame or record_trivial *)
Definition disciplined (sc : np_script) : Prop :=
  match np_mode_ sc with
  | NpAbandon => np_frames sc = []
  | NpBuildTime => np_trivial sc = true \/ np_frames sc <> []
  | NpBuildTrivial => True
  end.

Definition ev_ok (e : sev) : Prop := match e with EvNew _ sc => disciplined sc | _ => True end.

(* [all] is the ghost log: element k is the list of frames recorded by the guard that consumed
   packet number k *)
Definition ev_step (j : sjournal) (all : list (list Z)) (e : sev)
  : option (sjournal * list (list Z) * list Z) :=
  match e with
  | EvNew now sc =>
      match new_packet j now sc with
      | (Some j', _, consumed) => Some (j', if consumed then all ++ [np_frames sc] else all, [])
      | _ => None
      end
  | EvAcked pn => match on_packet_acked j pn with Some (j', out) => Some (j', all, out) | None => None end
  | EvLost pn => match may_loss_packet j pn with Some (j', out) => Some (j', all, out) | None => None end
  | EvFast now => match fast_retransmit j now with Some (j', out) => Some (j', all, out) | None => None end
  | EvLargest v => Some (fst (update_largest j v), all, [])
  | EvResize now => match resize j now with Some j' => Some (j', all, []) | None => None end
  end.

Fixpoint ev_run (j : sjournal) (all : list (list Z)) (h : list sev) : option (sjournal * list (list Z)) :=
  match h with
  | [] => Some (j, all)
  | e :: r => match ev_step j all e with Some (j', all', _) => ev_run j' all' r | None => None end
  end.

Definition sreach (h : list sev) (j : sjournal) (all : list (list Z)) : Prop :=
  Forall ev_ok h /\ ev_run sj_new [] h = Some (j, all).

Definition carried (all : list (list Z)) (pn : Z) : list Z := nth (Z.to_nat pn) all [].

Definition in_flight (j : sjournal) (pn : Z) : bool :=
  match s_get j pn with
  | Some (SFlight _ _ _ _) | Some (SRetrans _ _ _) => true
  | _ => false
  end.

(* packet numbers of the packets that left: the guard was built and did not panic *)
Definition is_built (sc : np_script) : bool :=
  match np_mode_ sc with NpAbandon => false | _ => true end.

Fixpoint emitted_pns (j : sjournal) (all : list (list Z)) (h : list sev) : list Z :=
  match h with
  | [] => []
  | e :: r =>
      match ev_step j all e with
      | Some (j', all', _) =>
          match e with
          | EvNew _ sc => if is_built sc then s_next j :: emitted_pns j' all' r else emitted_pns j' all' r
          | _ => emitted_pns j' all' r
          end
      | None => []
      end
  end.

(* ------------------------------------------------------------------ *)
(* list lemmas *)

Lemma upd_nth_length : forall A n (x : A) l, length (upd_nth n x l) = length l.
Proof. induction n; destruct l; cbn; auto. Qed.

Lemma nth_error_upd_nth_eq : forall A n (x : A) l, (n < length l)%nat -> nth_error (upd_nth n x l) n = Some x.
Proof. induction n; destruct l; cbn; intros; try lia; auto. apply IHn. lia. Qed.

Lemma nth_error_upd_nth_neq : forall A n m (x : A) l, n <> m -> nth_error (upd_nth n x l) m = nth_error l m.
Proof. induction n; destruct l, m; cbn; intros; try congruence; auto. Qed.

Lemma firstn_upd_nth : forall A n (x : A) l, firstn n (upd_nth n x l) = firstn n l.
Proof. induction n; destruct l; cbn; intros; auto. f_equal. auto. Qed.

Lemma sumn_app : forall a b, sumn (a ++ b) = (sumn a + sumn b)%nat.
Proof. induction a; cbn; intros; auto. rewrite IHa. lia. Qed.

Lemma sumn_firstn_le : forall k l, (sumn (firstn k l) <= sumn l)%nat.
Proof. induction k; destruct l; cbn; try lia. specialize (IHk l). lia. Qed.

Lemma sumn_firstn_nth : forall k l s, nth_error l k = Some s ->
  (sumn (firstn k l) + nframes s <= sumn l)%nat.
Proof.
  induction k; intros [|a l] s H; cbn in *; try discriminate.
  - inversion H; subst. lia.
  - specialize (IHk l s H). lia.
Qed.

Definition frames_match (recs : list sstate) (g : list (list Z)) : Prop :=
  Forall2 (fun s f => nframes s = length f) recs g.

Lemma fm_sumn : forall recs g, frames_match recs g -> sumn recs = length (concat g).
Proof. induction 1; cbn; auto. rewrite app_length. lia. Qed.

Lemma fm_firstn : forall k recs g, frames_match recs g -> frames_match (firstn k recs) (firstn k g).
Proof. induction k; intros; cbn; [constructor|]. destruct H; cbn; constructor; auto. apply IHk; auto. Qed.

Lemma fm_skipn : forall k recs g, frames_match recs g -> frames_match (skipn k recs) (skipn k g).
Proof. induction k; intros; cbn; auto. destruct H; cbn; [constructor|]. apply IHk; auto. Qed.

Lemma fm_length : forall recs g, frames_match recs g -> length recs = length g.
Proof. induction 1; cbn; auto. Qed.

Lemma fm_nth : forall k recs g s, frames_match recs g -> nth_error recs k = Some s ->
  exists f, nth_error g k = Some f /\ nframes s = length f.
Proof.
  induction k; intros recs g s H; destruct H; cbn; intros; try discriminate.
  - inversion H1; subst. eauto.
  - eapply IHk; eauto.
Qed.

Lemma fm_upd : forall k recs g s s', frames_match recs g -> nth_error recs k = Some s ->
  nframes s' = nframes s -> frames_match (upd_nth k s' recs) g.
Proof.
  induction k; intros recs g s s' H; destruct H; cbn; intros; try discriminate.
  - inversion H1; subst. constructor; auto. congruence.
  - constructor; auto. eapply IHk; eauto.
Qed.

Lemma concat_slice : forall k (g : list (list Z)) f, nth_error g k = Some f ->
  firstn (length f) (skipn (length (concat (firstn k g))) (concat g)) = f.
Proof.
  induction k; destruct g; cbn; intros; try discriminate.
  - inversion H; subst. rewrite firstn_app, Nat.sub_diag, firstn_all. cbn. apply app_nil_r.
  - rewrite app_length, skipn_app.
    rewrite skipn_all2 by lia. cbn.
    replace (length l + length (concat (firstn k g)) - length l)%nat with (length (concat (firstn k g))) by lia.
    auto.
Qed.

Lemma concat_skipn : forall k (g : list (list Z)),
  skipn (length (concat (firstn k g))) (concat g) = concat (skipn k g).
Proof.
  induction k; destruct g; cbn; auto.
  rewrite app_length, skipn_app, skipn_all2 by lia. cbn.
  replace (length l + length (concat (firstn k g)) - length l)%nat with (length (concat (firstn k g))) by lia.
  auto.
Qed.

Lemma nth_error_skipn : forall A a k (l : list A), nth_error (skipn a l) k = nth_error l (a + k).
Proof. induction a; destruct l; cbn; intros; auto. destruct k; auto. Qed.

(* ------------------------------------------------------------------ *)
(* the invariant *)

Record SInv (j : sjournal) (all : list (list Z)) : Prop := {
  si_off : 0 <= s_off j;
  si_len : Z.of_nat (length all) = s_next j;
  si_match : frames_match (s_recs j) (skipn (Z.to_nat (s_off j)) all);
  si_queue : s_queue j = concat (skipn (Z.to_nat (s_off j)) all) }.

Lemma SInv_init : SInv sj_new [].
Proof. constructor; cbn; auto; try lia. constructor. Qed.

Lemma s_get_some : forall j pn s, s_get j pn = Some s ->
  s_off j <= pn < s_next j /\ nth_error (s_recs j) (Z.to_nat (pn - s_off j)) = Some s.
Proof.
  unfold s_get. intros j pn s H.
  destruct ((s_off j <=? pn) && (pn <? s_next j)) eqn:E; [|discriminate].
  apply andb_true_iff in E. destruct E as [E1 E2]. apply Z.leb_le in E1. apply Z.ltb_lt in E2. auto.
Qed.

Lemma s_get_none : forall j pn, s_get j pn = None -> pn < s_off j \/ s_next j <= pn.
Proof.
  unfold s_get, s_next. intros j pn H.
  destruct ((s_off j <=? pn) && (pn <? s_off j + Z.of_nat (length (s_recs j)))) eqn:E.
  - apply andb_true_iff in E. destruct E as [E1 E2]. apply Z.leb_le in E1. apply Z.ltb_lt in E2.
    apply nth_error_None in H. lia.
  - apply andb_false_iff in E. destruct E as [E|E]; [apply Z.leb_gt in E | apply Z.ltb_ge in E]; lia.
Qed.

Lemma carried_get : forall j all pn s, SInv j all -> s_get j pn = Some s ->
  nth_error (skipn (Z.to_nat (s_off j)) all) (Z.to_nat (pn - s_off j)) = Some (carried all pn)
  /\ nframes s = length (carried all pn).
Proof.
  intros j all pn s I H. apply s_get_some in H. destruct H as [Hr Hn].
  destruct (fm_nth _ _ _ _ (si_match _ _ I) Hn) as (f & Hf & Hl).
  assert (f = carried all pn).
  { unfold carried. rewrite nth_error_skipn in Hf.
    replace (Z.to_nat (s_off j) + Z.to_nat (pn - s_off j))%nat with (Z.to_nat pn) in Hf by (pose proof (si_off _ _ I); lia).
    symmetry. apply nth_error_nth. exact Hf. }
  subst f. auto.
Qed.

(* shared behaviour of on_packet_acked / may_loss_packet *)
Lemma feed_spec : forall f j all pn,
  (forall s, nframes (fst (f s)) = nframes s) ->
  (forall s, snd (f s) = nframes s \/ snd (f s) = O) ->
  SInv j all ->
  exists j',
    feed f j pn = Some (j', match s_get j pn with
                            | Some s => if (snd (f s) =? 0)%nat then [] else carried all pn
                            | None => []
                            end)
    /\ SInv j' all
    /\ s_off j' = s_off j /\ s_la j' = s_la j /\ s_queue j' = s_queue j
    /\ s_recs j' = match s_get j pn with
                   | Some s => upd_nth (Z.to_nat (pn - s_off j)) (fst (f s)) (s_recs j)
                   | None => s_recs j
                   end.
Proof.
  intros f j all pn Hn Hlen I. unfold feed.
  set (k := Z.to_nat (pn - s_off j)).
  pose proof (fm_sumn _ _ (si_match _ _ I)) as Hq. rewrite <- (si_queue _ _ I) in Hq.
  destruct (s_get j pn) as [s|] eqn:G.
  - destruct (carried_get _ _ _ _ I G) as [Hc Hl].
    apply s_get_some in G. destruct G as [Hr Hk]. fold k in Hk, Hc.
    specialize (Hn s). specialize (Hlen s).
    destruct (f s) as [s' n] eqn:F. cbn [fst snd] in *.
    pose proof (sumn_firstn_nth _ _ _ Hk) as Hb.
    destruct (length (s_queue j) <? sumn (firstn k (s_recs j)) + n)%nat eqn:E.
    { apply Nat.ltb_lt in E. lia. }
    exists (mksj (s_queue j) (s_off j) (upd_nth k s' (s_recs j)) (s_la j)).
    split; [|split; [|repeat split]].
    + f_equal. f_equal.
      destruct (n =? 0)%nat eqn:En.
      * apply Nat.eqb_eq in En. subst n. reflexivity.
      * apply Nat.eqb_neq in En. destruct Hlen as [Hlen|Hlen]; [|lia]. subst n.
        rewrite Hl, (si_queue _ _ I).
        rewrite (fm_sumn _ _ (fm_firstn k _ _ (si_match _ _ I))).
        apply concat_slice. exact Hc.
    + constructor; cbn [s_off s_recs s_queue s_la]; try apply I.
      * unfold s_next. cbn [s_off s_recs]. rewrite upd_nth_length. apply (si_len _ _ I).
      * eapply fm_upd; [apply I | exact Hk | exact Hn].
  - destruct (length (s_queue j) <? sumn (firstn k (s_recs j)) + 0)%nat eqn:E.
    { apply Nat.ltb_lt in E. pose proof (sumn_firstn_le k (s_recs j)). lia. }
    exists (mksj (s_queue j) (s_off j) (s_recs j) (s_la j)).
    split; [reflexivity|]. split; [|repeat split].
    constructor; apply I.
Qed.

Lemma be_acked_nf : forall s, nframes (fst (be_acked s)) = nframes s.
Proof. destruct s; reflexivity. Qed.
Lemma be_acked_len : forall s, snd (be_acked s) = nframes s \/ snd (be_acked s) = O.
Proof. destruct s; cbn; auto. Qed.
Lemma maybe_lost_nf : forall s, nframes (fst (maybe_lost s)) = nframes s.
Proof. destruct s; reflexivity. Qed.
Lemma maybe_lost_len : forall s, snd (maybe_lost s) = nframes s \/ snd (maybe_lost s) = O.
Proof. destruct s; cbn; auto. Qed.

(* ---- resize ---- *)
Lemma resize_count_spec : forall now l n f, resize_count now l = (n, f) ->
  (n <= length l)%nat /\ f = sumn (firstn n l).
Proof.
  induction l as [|s l IH]; cbn; intros n f H.
  - inversion H; subst. cbn. auto.
  - destruct (should_remain_after now s).
    + inversion H; subst. cbn. split; [lia|reflexivity].
    + destruct (resize_count now l) as [n' f'] eqn:E. inversion H; subst.
      destruct (IH _ _ eq_refl) as [Hn Hf]. subst f'. cbn. split; [lia|reflexivity].
Qed.

Lemma skipn_skipn_nat : forall A a b (l : list A), skipn a (skipn b l) = skipn (b + a) l.
Proof. induction b; destruct l; cbn; intros; auto. destruct a; auto. Qed.

Lemma resize_spec : forall j all now, SInv j all ->
  exists j' n, resize j now = Some j' /\ SInv j' all /\ s_next j' = s_next j /\ s_la j' = s_la j
    /\ s_off j' = s_off j + Z.of_nat n /\ (n <= length (s_recs j))%nat /\ s_recs j' = skipn n (s_recs j).
Proof.
  intros j all now I. unfold resize.
  destruct (resize_count now (s_recs j)) as [n f] eqn:E.
  destruct (resize_count_spec _ _ _ _ E) as [Hn Hf].
  pose proof (fm_sumn _ _ (si_match _ _ I)) as Hq. rewrite <- (si_queue _ _ I) in Hq.
  pose proof (sumn_firstn_le n (s_recs j)).
  destruct (length (s_queue j) <? f)%nat eqn:E2; [apply Nat.ltb_lt in E2; lia|].
  exists (mksj (skipn f (s_queue j)) (s_off j + Z.of_nat n) (skipn n (s_recs j)) (s_la j)), n.
  pose proof (si_off _ _ I) as Hoff.
  assert (Hsk : skipn (Z.to_nat (s_off j + Z.of_nat n)) all = skipn n (skipn (Z.to_nat (s_off j)) all)).
  { rewrite skipn_skipn_nat. f_equal. lia. }
  split; [reflexivity|]. split; [|repeat split; auto].
  - constructor; cbn [s_off s_recs s_queue s_la].
    + lia.
    + unfold s_next; cbn [s_off s_recs]. rewrite skipn_length. pose proof (si_len _ _ I) as L. unfold s_next in L. lia.
    + rewrite Hsk. apply fm_skipn. apply I.
    + rewrite Hsk, Hf, (si_queue _ _ I).
      rewrite (fm_sumn _ _ (fm_firstn n _ _ (si_match _ _ I))). apply concat_skipn.
  - unfold s_next; cbn [s_off s_recs]. rewrite skipn_length. lia.
Qed.

Lemma s_get_resize : forall j j' n q s, s_off j' = s_off j + Z.of_nat n -> (n <= length (s_recs j))%nat ->
  s_recs j' = skipn n (s_recs j) -> s_get j' q = Some s -> s_get j q = Some s.
Proof.
  intros j j' n q s Ho Hn Hr H. apply s_get_some in H. destruct H as [Hq Hk].
  unfold s_next in Hq. rewrite Hr, Ho in *. rewrite skipn_length in Hq. rewrite nth_error_skipn in Hk.
  unfold s_get, s_next.
  destruct ((s_off j <=? q) && (q <? s_off j + Z.of_nat (length (s_recs j)))) eqn:E.
  - rewrite <- Hk. f_equal. lia.
  - apply andb_false_iff in E. destruct E as [E|E]; [apply Z.leb_gt in E | apply Z.ltb_ge in E]; lia.
Qed.

(* ---- fast_retransmit's walk ---- *)
Lemma sra_nf : forall now s, nframes (fst (should_retransmit_after now s)) = nframes s.
Proof. destruct s; cbn; auto. destruct (retran <? now); reflexivity. Qed.

Definition evolve (s s' : sstate) : Prop :=
  nframes s' = nframes s /\ (s' = s \/ exists n a b c, s = SFlight n a b c /\ s' = SRetrans n a b).

Lemma evolve_refl_list : forall l, Forall2 evolve l l.
Proof. induction l; constructor; auto. split; auto. Qed.

Lemma sra_evolve : forall now s, evolve s (fst (should_retransmit_after now s)).
Proof.
  intros now s. split; [apply sra_nf|]. destruct s; cbn; auto.
  destruct (retran <? now); cbn; auto. right. do 4 eexists. split; reflexivity.
Qed.

Lemma fr_walk_spec : forall now k l q, Forall2 evolve l (fst (fr_walk now k l q)).
Proof.
  induction k; intros l q; cbn.
  - destruct l; apply evolve_refl_list.
  - destruct l as [|s r]; [constructor|].
    pose proof (sra_evolve now s) as Hs.
    destruct (should_retransmit_after now s) as [s' b].
    specialize (IHk r (skipn (nframes s) q)).
    destruct (fr_walk now k r (skipn (nframes s) q)) as [r' out]. cbn [fst] in *.
    constructor; auto.
Qed.

Lemma evolve_match : forall l l' g, Forall2 evolve l l' -> frames_match l g -> frames_match l' g.
Proof.
  intros l l' g H. revert g. induction H as [|x y l l' Hxy Hl IH]; intros g M; inversion M; subst; constructor.
  - destruct Hxy as [Hxy _]. congruence.
  - apply IH. assumption.
Qed.

Lemma Forall2_length' : forall A B (R : A -> B -> Prop) l l', Forall2 R l l' -> length l = length l'.
Proof. induction 1; cbn; auto. Qed.

Lemma Forall2_nth : forall A B (R : A -> B -> Prop) l l' k y, Forall2 R l l' -> nth_error l' k = Some y ->
  exists x, nth_error l k = Some x /\ R x y.
Proof.
  intros A B R l l' k y H. revert k. induction H; intros [|k] Hk; cbn in *; try discriminate.
  - inversion Hk; subst. eauto.
  - auto.
Qed.

Lemma fast_spec : forall j all now, SInv j all ->
  exists j' out j1 n, fast_retransmit j now = Some (j', out) /\ SInv j' all /\ s_next j' = s_next j /\ s_la j' = s_la j
    /\ s_off j1 = s_off j + Z.of_nat n /\ (n <= length (s_recs j))%nat /\ s_recs j1 = skipn n (s_recs j)
    /\ s_off j' = s_off j1 /\ Forall2 evolve (s_recs j1) (s_recs j').
Proof.
  intros j all now I. unfold fast_retransmit.
  destruct (resize_spec j all now I) as (j1 & n & Hr & I1 & Hnext & Hla & Hoff & Hn & Hrecs).
  rewrite Hr.
  pose proof (fm_sumn _ _ (si_match _ _ I1)) as Hq. rewrite <- (si_queue _ _ I1) in Hq.
  pose proof (sumn_firstn_le (Z.to_nat (s_la j1 - s_off j1)) (s_recs j1)).
  destruct (length (s_queue j1) <? sumn (firstn (Z.to_nat (s_la j1 - s_off j1)) (s_recs j1)))%nat eqn:E;
    [apply Nat.ltb_lt in E; lia|].
  pose proof (fr_walk_spec now (Z.to_nat (s_la j1 - s_off j1)) (s_recs j1) (s_queue j1)) as W.
  destruct (fr_walk now (Z.to_nat (s_la j1 - s_off j1)) (s_recs j1) (s_queue j1)) as [recs' out]. cbn [fst] in W.
  exists (mksj (s_queue j1) (s_off j1) recs' (s_la j1)), out, j1, n.
  split; [reflexivity|]. split; [|repeat split; auto].
  - constructor; cbn [s_off s_recs s_queue s_la]; try apply I1.
    + unfold s_next; cbn [s_off s_recs]. rewrite <- (Forall2_length' _ _ _ _ _ W). apply (si_len _ _ I1).
    + eapply evolve_match; [exact W | apply I1].
  - unfold s_next in *; cbn [s_off s_recs]. rewrite <- (Forall2_length' _ _ _ _ _ W). exact Hnext.
Qed.

(* ---- new_packet ---- *)
Lemma new_packet_next : forall j now sc j' pe c, new_packet j now sc = (Some j', pe, c) ->
  s_next j' = (if c then s_next j + 1 else s_next j) /\ s_off j' = s_off j /\ s_la j' = s_la j
  /\ pe = match encode (s_next j) (s_la j) with EncOk e => Some (s_next j, e) | _ => None end
  /\ exists s, s_recs j' = (if c then s_recs j ++ [s] else s_recs j)
       /\ s_queue j' = s_queue j ++ np_frames sc
       /\ (c = true -> nframes s = length (np_frames sc)).
Proof.
  intros j now sc j' pe c. unfold new_packet, push_rec.
  destruct (encode (s_next j) (s_la j)) as [e| |]; try discriminate.
  assert (Hpush : forall st, s_next (mksj (s_queue j ++ np_frames sc) (s_off j) (s_recs j ++ [st]) (s_la j)) = s_next j + 1).
  { intros st. unfold s_next; cbn [s_off s_recs]. rewrite app_length. cbn. lia. }
  destruct (np_mode_ sc).
  - destruct (np_trivial sc && (length (np_frames sc) =? 0)%nat) eqn:E1.
    + destruct (SLIMIT <? s_next j); [discriminate|]. intros H; inversion H; subst.
      rewrite Hpush. cbn [s_off s_la s_recs s_queue]. repeat split; auto. exists SSkipped. repeat split; auto.
      intros _. apply andb_true_iff in E1. destruct E1 as [_ E1]. apply Nat.eqb_eq in E1. cbn. lia.
    + destruct (0 <? length (np_frames sc))%nat eqn:E2.
      * destruct (SLIMIT <? s_next j); [discriminate|]. intros H; inversion H; subst.
        rewrite Hpush. cbn [s_off s_la s_recs s_queue]. repeat split; auto. eexists. repeat split; auto.
      * intros H; inversion H; subst. cbn [s_off s_la s_recs s_queue]. unfold s_next; cbn [s_off s_recs].
        repeat split; auto. exists SSkipped. repeat split; auto. discriminate.
  - destruct (negb (length (np_frames sc) =? 0)%nat) eqn:E1; [discriminate|].
    destruct (negb (np_trivial sc)); [discriminate|].
    destruct (SLIMIT <? s_next j); [discriminate|]. intros H; inversion H; subst.
    rewrite Hpush. cbn [s_off s_la s_recs s_queue]. repeat split; auto. exists SSkipped. repeat split; auto.
    intros _. apply negb_false_iff in E1. apply Nat.eqb_eq in E1. cbn. lia.
  - intros H; inversion H; subst. cbn [s_off s_la s_recs s_queue]. unfold s_next; cbn [s_off s_recs].
    repeat split; auto. exists SSkipped. repeat split; auto. discriminate.
Qed.

(* the half of the discipline that C07 needs: a packet that is built recorded something *)
Definition built_ok (sc : np_script) : Prop :=
  np_mode_ sc = NpBuildTime -> np_trivial sc = true \/ np_frames sc <> [].

Lemma disciplined_built_ok : forall sc, disciplined sc -> built_ok sc.
Proof. unfold disciplined, built_ok. intros sc H E. rewrite E in H. exact H. Qed.

Ltac dlimit := match goal with |- context [if ?c then None else _] => destruct c end.

Lemma new_packet_consumed : forall j now sc j' pe c, built_ok sc ->
  new_packet j now sc = (Some j', pe, c) -> c = is_built sc.
Proof.
  intros j now sc j' pe c B. unfold new_packet, push_rec, is_built, built_ok in *.
  destruct (encode (s_next j) (s_la j)); try discriminate.
  destruct (np_mode_ sc).
  - destruct (np_trivial sc) eqn:T; cbn [andb].
    + destruct (np_frames sc) as [|x r]; cbn.
      * dlimit; intros H; inversion H; auto.
      * dlimit; intros H; inversion H; auto.
    + destruct (B eq_refl) as [B1|B1]; [discriminate|].
      destruct (np_frames sc) as [|x r]; [congruence|]. cbn.
      dlimit; intros H; inversion H; auto.
  - destruct (negb (length (np_frames sc) =? 0)%nat); [discriminate|].
    destruct (negb (np_trivial sc)); [discriminate|].
    dlimit; intros H; inversion H; auto.
  - intros H; inversion H; auto.
Qed.

Lemma new_packet_inv : forall j all now sc j' pe c, SInv j all -> disciplined sc ->
  new_packet j now sc = (Some j', pe, c) -> SInv j' (if c then all ++ [np_frames sc] else all).
Proof.
  intros j all now sc j' pe c I D H.
  pose proof (new_packet_consumed _ _ _ _ _ _ (disciplined_built_ok _ D) H) as Hc.
  destruct (new_packet_next _ _ _ _ _ _ H) as (Hn & Ho & Hl & _ & s & Hr & Hq & Hs).
  pose proof (si_off _ _ I) as Hoff. pose proof (si_len _ _ I) as Hlen.
  assert (Hle : (Z.to_nat (s_off j) <= length all)%nat) by (unfold s_next in Hlen; lia).
  destruct c.
  - specialize (Hs eq_refl).
    constructor.
    + rewrite Ho. exact Hoff.
    + rewrite Hn, app_length. cbn. lia.
    + rewrite Ho, Hr, skipn_app.
      replace (Z.to_nat (s_off j) - length all)%nat with O by lia. cbn [skipn].
      apply Forall2_app; [apply I|]. constructor; [exact Hs|constructor].
    + rewrite Ho, Hq, skipn_app.
      replace (Z.to_nat (s_off j) - length all)%nat with O by lia. cbn [skipn].
      rewrite concat_app. cbn. rewrite app_nil_r. f_equal. apply I.
  - assert (np_frames sc = []) as Hf.
    { unfold is_built, disciplined in *. destruct (np_mode_ sc); try discriminate. exact D. }
    constructor.
    + rewrite Ho. exact Hoff.
    + rewrite Hn. exact Hlen.
    + rewrite Ho, Hr. apply I.
    + rewrite Ho, Hq, Hf, app_nil_r. apply I.
Qed.

(* ------------------------------------------------------------------ *)
(* the invariant over histories *)

Lemma update_largest_inv : forall j all v, SInv j all -> SInv (fst (update_largest j v)) all.
Proof.
  intros j all v I. unfold update_largest. destruct (s_next j <=? v); cbn [fst]; [exact I|].
  constructor; cbn [s_off s_recs s_queue s_la]; apply I.
Qed.

Lemma ev_step_inv : forall j all e j' all' out, SInv j all -> ev_ok e ->
  ev_step j all e = Some (j', all', out) -> SInv j' all'.
Proof.
  intros j all e j' all' out I Ok H. destruct e; cbn [ev_step ev_ok] in *.
  - destruct (new_packet j now sc) as [[[jn|] pe] c] eqn:E; [|discriminate].
    inversion H; subst. eapply new_packet_inv; eauto.
  - destruct (feed_spec be_acked j all pn be_acked_nf be_acked_len I) as (jn & Hf & In & _).
    unfold on_packet_acked in H. rewrite Hf in H. inversion H; subst. exact In.
  - destruct (feed_spec maybe_lost j all pn maybe_lost_nf maybe_lost_len I) as (jn & Hf & In & _).
    unfold may_loss_packet in H. rewrite Hf in H. inversion H; subst. exact In.
  - destruct (fast_spec j all now I) as (jn & o & j1 & n & Hf & In & _).
    rewrite Hf in H. inversion H; subst. exact In.
  - inversion H; subst. apply update_largest_inv. exact I.
  - destruct (resize_spec j all now I) as (jn & n & Hf & In & _).
    rewrite Hf in H. inversion H; subst. exact In.
Qed.

(* no operation of a SentRotateGuard can panic (range_mut / drain / range never out of bounds) *)
Lemma ev_step_total : forall j all e, SInv j all ->
  match e with EvNew _ _ => True | _ => ev_step j all e <> None end.
Proof.
  intros j all e I. destruct e; cbn [ev_step]; auto.
  - destruct (feed_spec be_acked j all pn be_acked_nf be_acked_len I) as (jn & Hf & _).
    unfold on_packet_acked. rewrite Hf. discriminate.
  - destruct (feed_spec maybe_lost j all pn maybe_lost_nf maybe_lost_len I) as (jn & Hf & _).
    unfold may_loss_packet. rewrite Hf. discriminate.
  - destruct (fast_spec j all now I) as (jn & o & j1 & n & Hf & _). rewrite Hf. discriminate.
  - discriminate.
  - destruct (resize_spec j all now I) as (jn & n & Hf & _). rewrite Hf. discriminate.
Qed.

Lemma ev_run_inv : forall h j all j' all', SInv j all -> Forall ev_ok h ->
  ev_run j all h = Some (j', all') -> SInv j' all'.
Proof.
  induction h as [|e r IH]; cbn; intros j all j' all' I Ok H.
  - inversion H; subst. exact I.
  - inversion Ok; subst.
    destruct (ev_step j all e) as [[[j1 all1] out]|] eqn:E; [|discriminate].
    eapply IH; [eapply ev_step_inv; eauto | assumption | exact H].
Qed.

Lemma p_c10_sent_inv : forall h j all, sreach h j all ->
  SInv j all /\ length (s_queue j) = sumn (s_recs j).
Proof.
  intros h j all [Ok H]. pose proof (ev_run_inv _ _ _ _ _ SInv_init Ok H) as I. split; [exact I|].
  rewrite (si_queue _ _ I). symmetry. apply fm_sumn. apply I.
Qed.

(* ---- exactness of the feedback ---- *)
Lemma in_flight_carried_nil : forall j all pn s, SInv j all -> s_get j pn = Some s -> nframes s = O ->
  carried all pn = [].
Proof.
  intros j all pn s I G H. destruct (carried_get _ _ _ _ I G) as [_ Hl]. rewrite H in Hl.
  destruct (carried all pn); [reflexivity|discriminate].
Qed.

Lemma s_get_upd : forall j j' pn s', s_off j' = s_off j ->
  (Z.to_nat (pn - s_off j) < length (s_recs j))%nat -> s_off j <= pn ->
  s_recs j' = upd_nth (Z.to_nat (pn - s_off j)) s' (s_recs j) ->
  forall q, s_get j' q = if q =? pn then Some s' else s_get j q.
Proof.
  intros j j' pn s' Ho Hk Hle Hr q. unfold s_get, s_next. rewrite Ho, Hr, upd_nth_length.
  destruct ((s_off j <=? q) && (q <? s_off j + Z.of_nat (length (s_recs j)))) eqn:E.
  - apply andb_true_iff in E. destruct E as [E1 E2]. apply Z.leb_le in E1. apply Z.ltb_lt in E2.
    destruct (q =? pn) eqn:Q.
    + apply Z.eqb_eq in Q. subst q. apply nth_error_upd_nth_eq. exact Hk.
    + apply Z.eqb_neq in Q. apply nth_error_upd_nth_neq. lia.
  - destruct (q =? pn) eqn:Q; [|reflexivity].
    apply Z.eqb_eq in Q. subst q.
    apply andb_false_iff in E. destruct E as [E|E]; [apply Z.leb_gt in E | apply Z.ltb_ge in E]; lia.
Qed.

Lemma p_c10_sent_exact_acked : forall j all pn, SInv j all ->
  exists j', on_packet_acked j pn = Some (j', if in_flight j pn then carried all pn else [])
    /\ in_flight j' pn = false
    /\ (forall q, q <> pn -> s_get j' q = s_get j q) /\ s_next j' = s_next j.
Proof.
  intros j all pn I.
  destruct (feed_spec be_acked j all pn be_acked_nf be_acked_len I) as (j' & Hf & I' & Ho & Hla & Hq & Hr).
  exists j'. unfold on_packet_acked. rewrite Hf. unfold in_flight.
  destruct (s_get j pn) as [s|] eqn:G.
  - pose proof G as G0. apply s_get_some in G. destruct G as [Hrange Hk].
    assert (Hlt : (Z.to_nat (pn - s_off j) < length (s_recs j))%nat) by (apply nth_error_Some; congruence).
    pose proof (s_get_upd j j' pn _ Ho Hlt (proj1 Hrange) Hr) as Hget.
    split; [|split; [|split]].
    + f_equal. f_equal. destruct s; cbn; auto;
        destruct (n =? 0)%nat eqn:En; auto; apply Nat.eqb_eq in En; subst n;
        symmetry; apply (in_flight_carried_nil j all pn _ I G0); reflexivity.
    + rewrite Hget, Z.eqb_refl. destruct s; reflexivity.
    + intros q Hne. rewrite Hget. apply Z.eqb_neq in Hne. rewrite Hne. reflexivity.
    + unfold s_next. rewrite Ho, Hr, upd_nth_length. reflexivity.
  - split; [reflexivity|]. unfold s_get, s_next in *. rewrite Ho, Hr. rewrite G. repeat split; auto.
Qed.

Lemma p_c10_sent_exact_lost : forall j all pn, SInv j all ->
  exists j', may_loss_packet j pn = Some (j', if in_flight j pn then carried all pn else [])
    /\ in_flight j' pn = in_flight j pn
    /\ (forall q, q <> pn -> s_get j' q = s_get j q) /\ s_next j' = s_next j.
Proof.
  intros j all pn I.
  destruct (feed_spec maybe_lost j all pn maybe_lost_nf maybe_lost_len I) as (j' & Hf & I' & Ho & Hla & Hq & Hr).
  exists j'. unfold may_loss_packet. rewrite Hf. unfold in_flight.
  destruct (s_get j pn) as [s|] eqn:G.
  - pose proof G as G0. apply s_get_some in G. destruct G as [Hrange Hk].
    assert (Hlt : (Z.to_nat (pn - s_off j) < length (s_recs j))%nat) by (apply nth_error_Some; congruence).
    pose proof (s_get_upd j j' pn _ Ho Hlt (proj1 Hrange) Hr) as Hget.
    split; [|split; [|split]].
    + f_equal. f_equal. destruct s; cbn; auto;
        destruct (n =? 0)%nat eqn:En; auto; apply Nat.eqb_eq in En; subst n;
        symmetry; apply (in_flight_carried_nil j all pn _ I G0); reflexivity.
    + rewrite Hget, Z.eqb_refl. destruct s; reflexivity.
    + intros q Hne. rewrite Hget. apply Z.eqb_neq in Hne. rewrite Hne. reflexivity.
    + unfold s_next. rewrite Ho, Hr, upd_nth_length. reflexivity.
  - split; [reflexivity|]. unfold s_get, s_next in *. rewrite Ho, Hr. rewrite G. repeat split; auto.
Qed.

(* ---- once acknowledged (or dropped), never in flight again ---- *)
Definition settled (j : sjournal) (pn : Z) : Prop := pn < s_next j /\ in_flight j pn = false.

Lemma in_flight_back : forall j j' pn,
  (forall s', s_get j' pn = Some s' -> exists s, s_get j pn = Some s /\ evolve s s') ->
  in_flight j pn = false -> in_flight j' pn = false.
Proof.
  unfold in_flight. intros j j' pn H F.
  destruct (s_get j' pn) as [s'|] eqn:G; [|reflexivity].
  destruct (H _ eq_refl) as (s & Gs & _ & [E | (n & a & b & c & E1 & E2)]).
  - subst s'. rewrite Gs in F. exact F.
  - subst. rewrite Gs in F. discriminate.
Qed.

Lemma evolve_refl : forall s, evolve s s.
Proof. split; auto. Qed.

Lemma s_get_same : forall j j', s_off j' = s_off j -> s_recs j' = s_recs j -> forall q, s_get j' q = s_get j q.
Proof. intros j j' Ho Hr q. unfold s_get, s_next. rewrite Ho, Hr. reflexivity. Qed.

Lemma ev_step_settled : forall j all e j' all' out pn, SInv j all ->
  ev_step j all e = Some (j', all', out) -> settled j pn -> settled j' pn.
Proof.
  intros j all e j' all' out pn I H [Hlt Hf]. destruct e; cbn [ev_step] in H.
  - destruct (new_packet j now sc) as [[[jn|] pe] c] eqn:E; [|discriminate].
    inversion H; subst.
    destruct (new_packet_next _ _ _ _ _ _ E) as (Hn & Ho & _ & _ & s & Hr & _).
    split; [destruct c; lia|].
    apply (in_flight_back j); [|exact Hf].
    intros s' G. exists s'. split; [|apply evolve_refl].
    apply s_get_some in G. destruct G as [Hrg Hk]. rewrite Ho in *.
    unfold s_get. unfold s_next in Hlt.
    replace ((s_off j <=? pn) && (pn <? s_next j)) with true
      by (symmetry; apply andb_true_iff; unfold s_next; split; [apply Z.leb_le | apply Z.ltb_lt]; lia).
    rewrite <- Hk, Hr. destruct c; [|reflexivity].
    symmetry. apply nth_error_app1. lia.
  - destruct (p_c10_sent_exact_acked j all pn0 I) as (jn & Ha & Hfl & Hother & Hnx).
    rewrite Ha in H. inversion H; subst.
    split; [lia|]. destruct (Z.eq_dec pn pn0) as [->|Hne]; [exact Hfl|].
    unfold in_flight in *. rewrite (Hother pn Hne). exact Hf.
  - destruct (p_c10_sent_exact_lost j all pn0 I) as (jn & Ha & Hfl & Hother & Hnx).
    rewrite Ha in H. inversion H; subst.
    split; [lia|]. destruct (Z.eq_dec pn pn0) as [->|Hne]; [congruence|].
    unfold in_flight in *. rewrite (Hother pn Hne). exact Hf.
  - destruct (fast_spec j all now I) as (jn & o & j1 & n & Hfr & _ & Hnx & _ & Ho1 & Hn & Hr1 & Ho' & W).
    rewrite Hfr in H. inversion H; subst.
    split; [lia|]. apply (in_flight_back j); [|exact Hf].
    intros s' G.
    assert (exists s, s_get j1 pn = Some s /\ evolve s s') as (s & G1 & Ev).
    { apply s_get_some in G. destruct G as [Hrg Hk].
      destruct (Forall2_nth _ _ _ _ _ _ _ W Hk) as (s & Hs & Ev). exists s. split; [|exact Ev].
      unfold s_get, s_next in *. rewrite Ho' in *. rewrite <- (Forall2_length' _ _ _ _ _ W) in Hrg.
      replace ((s_off j1 <=? pn) && (pn <? s_off j1 + Z.of_nat (length (s_recs j1)))) with true
        by (symmetry; apply andb_true_iff; split; [apply Z.leb_le | apply Z.ltb_lt]; lia).
      exact Hs. }
    exists s. split; [|exact Ev]. eapply s_get_resize; eauto.
  - inversion H; subst. unfold update_largest. destruct (s_next j <=? v); cbn [fst]; [split; assumption|].
    split; [exact Hlt|]. unfold in_flight in *. rewrite (s_get_same j); auto.
  - destruct (resize_spec j all now I) as (jn & n & Hfr & _ & Hnx & _ & Ho & Hn & Hr).
    rewrite Hfr in H. inversion H; subst.
    split; [lia|]. apply (in_flight_back j); [|exact Hf].
    intros s' G. exists s'. split; [|apply evolve_refl]. eapply s_get_resize; eauto.
Qed.

Lemma ev_run_settled : forall h j all j' all' pn, SInv j all -> Forall ev_ok h ->
  ev_run j all h = Some (j', all') -> settled j pn -> settled j' pn.
Proof.
  induction h as [|e r IH]; cbn; intros j all j' all' pn I Ok H S.
  - inversion H; subst. exact S.
  - inversion Ok; subst.
    destruct (ev_step j all e) as [[[j1 all1] out]|] eqn:E; [|discriminate].
    eapply IH; [eapply ev_step_inv; eauto | assumption | exact H | eapply ev_step_settled; eauto].
Qed.

Lemma ev_run_app : forall h1 h2 j all,
  ev_run j all (h1 ++ h2) =
  match ev_run j all h1 with Some (j1, all1) => ev_run j1 all1 h2 | None => None end.
Proof.
  induction h1 as [|e r IH]; cbn; intros; auto.
  destruct (ev_step j all e) as [[[j1 all1] out]|]; auto.
Qed.

(* delivered once: after an acknowledgement of an already sent pn was processed, every later
   acknowledgement and every later loss declaration of pn yields nothing, whatever happens in
   between *)
Lemma p_c10_sent_once : forall h1 h2 pn ja alla j all,
  sreach h1 ja alla -> pn < s_next ja ->
  sreach (h1 ++ EvAcked pn :: h2) j all ->
  exists j1 j2, on_packet_acked j pn = Some (j1, []) /\ may_loss_packet j pn = Some (j2, []).
Proof.
  intros h1 h2 pn ja alla j all [Ok1 E1] Hlt [Ok H].
  rewrite ev_run_app, E1 in H.
  apply Forall_app in Ok. destruct Ok as [_ Ok2]. inversion Ok2 as [|x l Hx Ok3]; subst.
  pose proof (ev_run_inv _ _ _ _ _ SInv_init Ok1 E1) as Ia.
  cbn [ev_run ev_step] in H.
  destruct (p_c10_sent_exact_acked ja alla pn Ia) as (jb & Ha & Hfl & Hother & Hnx).
  rewrite Ha in H.
  assert (Ib : SInv jb alla).
  { eapply (ev_step_inv ja alla (EvAcked pn)); [exact Ia | exact Hx | cbn [ev_step]; rewrite Ha; reflexivity]. }
  pose proof (ev_run_inv _ _ _ _ _ Ib Ok3 H) as I'.
  assert (Hfin : settled j pn).
  { apply (ev_run_settled h2 jb alla j all pn Ib Ok3 H). split; [lia|exact Hfl]. }
  destruct Hfin as [_ Hfin].
  destruct (p_c10_sent_exact_acked j all pn I') as (j1 & H1 & _).
  destruct (p_c10_sent_exact_lost j all pn I') as (j2 & H2 & _).
  rewrite Hfin in H1, H2. eauto.
Qed.

(* ------------------------------------------------------------------ *)
(* C07: packet numbers of emitted packets are strictly increasing *)

Definition ev_built_ok (e : sev) : Prop := match e with EvNew _ sc => built_ok sc | _ => True end.

Lemma resize_next : forall j now j', resize j now = Some j' -> s_next j' = s_next j.
Proof.
  unfold resize. intros j now j'. destruct (resize_count now (s_recs j)) as [n f] eqn:E.
  destruct (resize_count_spec _ _ _ _ E) as [Hn _].
  destruct (length (s_queue j) <? f)%nat; [discriminate|]. intros H; inversion H; subst.
  unfold s_next; cbn [s_off s_recs]. rewrite skipn_length. lia.
Qed.

Lemma feed_next : forall f j pn j' out, feed f j pn = Some (j', out) -> s_next j' = s_next j.
Proof.
  unfold feed. intros f j pn j' out.
  destruct (s_get j pn) as [s|].
  - destruct (f s) as [s' n].
    match goal with |- context [if ?c then _ else _] => destruct c end; [discriminate|].
    intros H; inversion H; subst. unfold s_next; cbn [s_off s_recs]. rewrite upd_nth_length. reflexivity.
  - match goal with |- context [if ?c then _ else _] => destruct c end; [discriminate|].
    intros H; inversion H; subst. reflexivity.
Qed.

Lemma fast_next : forall j now j' out, fast_retransmit j now = Some (j', out) -> s_next j' = s_next j.
Proof.
  unfold fast_retransmit. intros j now j' out.
  destruct (resize j now) as [j1|] eqn:E; [|discriminate]. apply resize_next in E.
  match goal with |- context [if ?c then _ else _] => destruct c end; [discriminate|].
  pose proof (fr_walk_spec now (Z.to_nat (s_la j1 - s_off j1)) (s_recs j1) (s_queue j1)) as W.
  destruct (fr_walk now (Z.to_nat (s_la j1 - s_off j1)) (s_recs j1) (s_queue j1)) as [r o]. cbn [fst] in W.
  intros H; inversion H; subst. unfold s_next in *; cbn [s_off s_recs].
  rewrite <- (Forall2_length' _ _ _ _ _ W). exact E.
Qed.

Lemma ev_step_next : forall j all e j' all' out, ev_built_ok e -> ev_step j all e = Some (j', all', out) ->
  s_next j' = match e with EvNew _ sc => if is_built sc then s_next j + 1 else s_next j | _ => s_next j end.
Proof.
  intros j all e j' all' out B H. destruct e; cbn [ev_step ev_built_ok] in *.
  - destruct (new_packet j now sc) as [[[jn|] pe] c] eqn:E; [|discriminate]. inversion H; subst.
    rewrite <- (new_packet_consumed _ _ _ _ _ _ B E).
    apply (new_packet_next _ _ _ _ _ _ E).
  - destruct (on_packet_acked j pn) as [[jn o]|] eqn:E; [|discriminate]. inversion H; subst. eapply feed_next; eauto.
  - destruct (may_loss_packet j pn) as [[jn o]|] eqn:E; [|discriminate]. inversion H; subst. eapply feed_next; eauto.
  - destruct (fast_retransmit j now) as [[jn o]|] eqn:E; [|discriminate]. inversion H; subst. eapply fast_next; eauto.
  - inversion H; subst. unfold update_largest. destruct (s_next j <=? v); reflexivity.
  - destruct (resize j now) as [jn|] eqn:E; [|discriminate]. inversion H; subst. eapply resize_next; eauto.
Qed.

Lemma emitted_ge : forall h j all, Forall ev_built_ok h ->
  Forall (fun p => s_next j <= p) (emitted_pns j all h) /\ StronglySorted Z.lt (emitted_pns j all h).
Proof.
  induction h as [|e r IH]; cbn [emitted_pns]; intros j all Ok.
  - split; constructor.
  - inversion Ok as [|x l Hx Okr]; subst.
    destruct (ev_step j all e) as [[[j1 all1] out]|] eqn:E; [|split; constructor].
    pose proof (ev_step_next _ _ _ _ _ _ Hx E) as Hn.
    destruct (IH j1 all1 Okr) as [Hge Hs].
    assert (Hmono : Forall (fun p => s_next j <= p) (emitted_pns j1 all1 r)).
    { eapply Forall_impl; [|exact Hge]. cbn. intros p Hp. destruct e; try lia. destruct (is_built sc); lia. }
    destruct e; try (split; assumption).
    destruct (is_built sc); [|split; assumption].
    split.
    + constructor; [lia|exact Hmono].
    + constructor; [exact Hs|]. eapply Forall_impl; [|exact Hge]. cbn. intros p Hp. lia.
Qed.

Lemma p_c07_unique : forall h, Forall ev_built_ok h -> StronglySorted Z.lt (emitted_pns sj_new [] h).
Proof. intros h Ok. apply (emitted_ge h sj_new [] Ok). Qed.

(* the packet number handed to the packet writer is the one recorded: pn() = next, and its
   encoding is PacketNumber::encode(next, largest_acked) *)
Lemma p_c07_pn_is_next : forall j now sc j' pn e c, new_packet j now sc = (j', Some (pn, e), c) ->
  pn = s_next j /\ encode pn (s_la j) = EncOk e.
Proof.
  intros j now sc j' pn e c. unfold new_packet.
  destruct (encode (s_next j) (s_la j)) as [e0| |] eqn:E; try discriminate.
  destruct (np_mode_ sc);
    repeat match goal with |- context [if ?c then _ else _] => destruct c end;
    unfold push_rec; repeat match goal with |- context [if ?c then _ else _] => destruct c end;
    intros H; inversion H; subst; auto.
Qed.

(* without the discipline the same number can leave twice: build_with_time on a guard that
   recorded neither a frame nor record_trivial does not consume the number *)
Lemma p_c07_unique_needs_discipline :
  let sc := mknp [] false NpBuildTime 10 10 in
  emitted_pns sj_new [] [EvNew 0 sc; EvNew 0 sc] = [0; 0].
Proof. vm_compute. reflexivity. Qed.

(* without the other half of the discipline (a guard dropped after record_frame) the frames of
   later packets are attributed to the wrong packet number *)
Lemma p_c10_sent_needs_discipline :
  let h := [EvNew 0 (mknp [7] false NpAbandon 10 10); EvNew 0 (mknp [8] false NpBuildTime 10 10)] in
  match ev_run sj_new [] h with
  | Some (j, all) => on_packet_acked j 0 = Some (mksj [7; 8] 0 [SAcked 1 0 10] 0, [7]) /\ carried all 0 = [8]
  | None => False
  end.
Proof. vm_compute. split; reflexivity. Qed.

(* ------------------------------------------------------------------ *)
(* a SentRotateGuard life (Model.SentJournal.rotate, as run by the `journal` stream) is the
   event sequence of its calls followed by EvResize *)
Definition ev_of (now : Z) (o : rot_op) : sev :=
  match o with RoAcked pn => EvAcked pn | RoLost pn => EvLost pn | RoFast => EvFast now | RoLargest v => EvLargest v end.

Lemma rot_run_events : forall ops j now j' outs all,
  rot_run j now ops = (Some j', outs) -> ev_run j all (map (ev_of now) ops) = Some (j', all).
Proof.
  induction ops as [|o r IH]; cbn [rot_run map ev_run]; intros j now j' outs all H.
  - inversion H; subst. reflexivity.
  - destruct o; cbn [ev_of ev_step].
    + destruct (on_packet_acked j pn) as [[j1 o1]|]; [|discriminate].
      destruct (rot_run j1 now r) as [jr os] eqn:E. inversion H; subst. eapply IH; eauto.
    + destruct (may_loss_packet j pn) as [[j1 o1]|]; [|discriminate].
      destruct (rot_run j1 now r) as [jr os] eqn:E. inversion H; subst. eapply IH; eauto.
    + destruct (fast_retransmit j now) as [[j1 o1]|]; [|discriminate].
      destruct (rot_run j1 now r) as [jr os] eqn:E. inversion H; subst. eapply IH; eauto.
    + destruct (update_largest j v) as [j1 ok] eqn:U. cbn [fst].
      destruct (rot_run j1 now r) as [jr os] eqn:E. inversion H; subst. eapply IH; eauto.
Qed.

Lemma rotate_events : forall ops j now j' outs all,
  rotate j now ops = (Some j', outs) ->
  ev_run j all (map (ev_of now) ops ++ [EvResize now]) = Some (j', all).
Proof.
  intros ops j now j' outs all H. unfold rotate in H.
  destruct (rot_run j now ops) as [[j1|] os] eqn:E; [|discriminate].
  rewrite ev_run_app, (rot_run_events _ _ _ _ _ all E). cbn [ev_run ev_step].
  destruct (resize j1 now) as [j2|]; inversion H; subst. reflexivity.
Qed.
