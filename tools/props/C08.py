"""C08 — the receive buffer reassembles any fragment sequence into the original bytes."""
import itertools
from vlib import Case

PROP_FILE = "Properties/C08.v"
RULE = ("cases = op lists over RECV off len (data = position-derived content), READ room, NEXT; "
        "non-trivial = at least 3 fragments, at least one overlapping or duplicate fragment and a read before the last fragment; "
        "distinct by hash of the op list")
TRUSTED_BASE = ["model coq/Model/RecvBuf.v is a structural-recursion re-statement of RecvBuf::recv's loop (same cuts, same segments); "
                "equality with the Rust is checked by stream `rcvbuf`, not proved"]
MODELLED = "qrecovery/src/recv/rcvbuf.rs: recv, available, is_readable, try_read, try_next (Bytes/VecDeque internals not modelled)"
ASSUMPTIONS = ["fragments are slices of one content function (the property's own premise)",
               "Bytes::advance/split_to/split_off and VecDeque behave as documented"]


MANIFEST = {
    "text": "Machine-checked Coq theorems (Properties/C08.v) over an executable model of RecvBuf: for every content function and every operation list (fragments that are slices of the content, reads of any size, try_next) the invariant holds, every read returns exactly the arrived contiguous prefix cut to the room, the concatenation of all reads is the content prefix, coverage is exactly the union of the fragments, and the fresh-byte reports add up to the highest offset seen. The model is tied to the Rust by running the extracted model and the real RecvBuf on the same op lists every run (exhaustive small scope + random), and the property is also evaluated directly on the implementation's observations.",
    "note": "Trusted: Coq kernel, extraction (ExtrOcamlBasic only), OCaml driver, Rust harness, Python generators/oracle. The model restates recv's binary-search loop as structural recursion over the sorted segment list; their equality is checked by correspondence, not proved. Bytes/VecDeque internals are not modelled.",
    "technique": "Coq proof (induction over operation lists, refinement to a covered-set abstraction) + differential correspondence model/implementation",
}


def content(i):
    return (i * 131 + (i // 256) * 17 + 7) % 256


def oracle(case, obs):
    """direct statement of the property on the implementation's observations (independent of the model)"""
    arrived = set()
    nread = 0
    maxend = 0
    fresh_sum = 0
    if len(obs) != len(case.ops):
        return "length: %d observations for %d ops (%s)" % (len(obs), len(case.ops), obs[-1] if obs else "")
    for k, ((tag, args), line) in enumerate(zip(case.ops, obs)):
        if line.startswith("!"):
            return "abnormal: op %d -> %s" % (k, line)
        v = [int(x) for x in line.split()]
        if tag == 0:
            off, ln = args
            new_max = max(maxend, off + ln) if ln > 0 else maxend
            if v[0] != new_max - maxend:
                return "fresh: op %d recv(%d,%d) reported %d new bytes, highest offset moved %d -> %d" % (k, off, ln, v[0], maxend, new_max)
            fresh_sum += v[0]
            maxend = new_max
            if ln <= 100000:
                arrived.update(range(max(off, nread), off + ln))
            st = v[1:]
        elif tag == 1:
            room = args[0]
            avail = 0
            while (nread + avail) in arrived:
                avail += 1
            kk = min(room, avail)
            if v[0] != kk:
                return "readlen: op %d read(%d) returned %d bytes, contiguous arrived prefix is %d" % (k, room, v[0], avail)
            data = v[1:1 + kk]
            if data != [content(nread + j) for j in range(kk)]:
                return "readbytes: op %d read returned bytes that are not content[%d..%d)" % (k, nread, nread + kk)
            nread += kk
            st = v[1 + kk:]
        elif tag == 2:
            avail = 0
            while (nread + avail) in arrived:
                avail += 1
            if v[0] == 0:
                if avail != 0:
                    return "next: op %d try_next returned nothing although %d contiguous bytes arrived" % (k, avail)
                st = v[1:]
            else:
                kk = v[1]
                if not (0 < kk <= avail):
                    return "next: op %d try_next returned %d bytes, contiguous arrived prefix is %d" % (k, kk, avail)
                if v[2:2 + kk] != [content(nread + j) for j in range(kk)]:
                    return "nextbytes: op %d try_next returned bytes that are not content[%d..%d)" % (k, nread, nread + kk)
                nread += kk
                st = v[2 + kk:]
        else:
            continue
        avail = 0
        while (nread + avail) in arrived:
            avail += 1
        exp = [nread, maxend, avail, 1 if avail > 0 else 0]
        if st != exp:
            return "state: op %d (nread,largest,available,readable)=%s expected %s" % (k, st, exp)
    if fresh_sum != maxend:
        return "freshsum: reported new bytes add up to %d, highest offset seen %d" % (fresh_sum, maxend)
    return None


def nontrivial(case):
    frags = [(a[0], a[1]) for t, a in case.ops if t == 0 and a[1] > 0]
    if len(frags) < 3:
        return False
    overlap = False
    for i in range(len(frags)):
        for j in range(i):
            a, b = frags[i], frags[j]
            if a[0] < b[0] + b[1] and b[0] < a[0] + a[1]:
                overlap = True
    last_frag = max(i for i, (t, a) in enumerate(case.ops) if t == 0)
    read_before = any(t in (1, 2) for t, a in case.ops[:last_frag])
    return overlap and read_before


def hist(case):
    n = sum(1 for t, a in case.ops if t == 0)
    total = max([a[0] + a[1] for t, a in case.ops if t == 0] or [0])
    lab = ["frags:%s" % ("1-3" if n <= 3 else "4-8" if n <= 8 else "9+"),
           "extent:%s" % ("<=16" if total <= 16 else "<=512" if total <= 512 else "<=65536" if total <= 65536 else "huge")]
    for t, a in case.ops:
        lab.append("op:%s" % ("recv", "read", "next")[t] if t < 3 else "op:?")
        if t == 0 and a[1] == 0:
            lab.append("op:recv-empty")
    return lab


def gen_random(rng, n, prefix):
    cases = []
    for i in range(n):
        mode = rng.random()
        if mode < 0.5:
            L = rng.randint(1, 16)
        elif mode < 0.9:
            L = rng.randint(17, 400)
        else:
            L = rng.randint(401, 6000)
        base = 0
        ops = []
        nfr = rng.randint(1, 14)
        cuts = sorted(set([0, L] + [rng.randint(0, L) for _ in range(rng.randint(0, 6))]))
        pieces = [(cuts[j], cuts[j + 1] - cuts[j]) for j in range(len(cuts) - 1)]
        frs = []
        for _ in range(nfr):
            r = rng.random()
            if r < 0.35 and pieces:
                frs.append(rng.choice(pieces))
            elif r < 0.45:
                frs.append((rng.randint(0, L), 0))
            elif r < 0.55 and frs:
                frs.append(rng.choice(frs))
            else:
                a = rng.randint(0, L)
                b = rng.randint(a, min(L, a + max(1, L // 2)))
                frs.append((a, b - a))
        if rng.random() < 0.6:
            tail = pieces[:]
            rng.shuffle(tail)
            frs += tail
        if rng.random() < 0.08:
            hi = rng.choice([2**32 - 3, 2**40, 2**61, 2**62 - 40])
            frs.insert(rng.randint(0, len(frs)), (hi, rng.randint(0, 30)))
        for (o, l) in frs:
            ops.append((0, [base + o, l]))
            r = rng.random()
            if r < 0.3:
                ops.append((1, [rng.choice([0, 1, 2, 3, rng.randint(0, L + 2), L + 5])]))
            elif r < 0.4:
                ops.append((2, []))
        ops.append((1, [rng.randint(0, L + 3)]))
        if rng.random() < 0.5:
            ops.append((1, [L + 10]))
        cases.append(Case("%s%d" % (prefix, i), ops))
    return cases


def gen_exhaustive(L, nfrag, reads, prefix):
    """every sequence of nfrag fragments inside [0,L], each followed by each of the read choices"""
    frs = [(o, l) for o in range(L + 1) for l in range(L - o + 1)]
    cases = []
    n = 0
    for seq in itertools.product(frs, repeat=nfrag):
        for rd in itertools.product(reads, repeat=nfrag):
            ops = []
            for (o, l), r in zip(seq, rd):
                ops.append((0, [o, l]))
                if r == "n":
                    ops.append((2, []))
                elif r is not None:
                    ops.append((1, [r]))
            ops.append((1, [L + 1]))
            cases.append(Case("%s%d" % (prefix, n), ops))
            n += 1
    return cases


def gen(rng, tier):
    if tier == "quick":
        return gen_exhaustive(3, 3, [None, 1], "ex3-") + gen_random(rng, 3000, "r")
    return (gen_exhaustive(4, 3, [None, 1, 2, "n"], "ex4-") + gen_exhaustive(3, 4, [None, 2], "ex3x4-")
            + gen_random(rng, 60000, "r"))


def mutate(rng, case, j):
    ops = [(t, list(a)) for t, a in case.ops]
    for _ in range(rng.randint(1, 3)):
        r = rng.random()
        if r < 0.4 and ops:
            k = rng.randrange(len(ops))
            t, a = ops[k]
            if t == 0:
                a[0] = max(0, a[0] + rng.randint(-2, 2))
                a[1] = max(0, a[1] + rng.randint(-2, 2))
            elif t == 1:
                a[0] = max(0, a[0] + rng.randint(-2, 2))
        elif r < 0.7:
            ops.insert(rng.randint(0, len(ops)), (1, [rng.randint(0, 8)]))
        else:
            ops.insert(rng.randint(0, len(ops)), (0, [rng.randint(0, 12), rng.randint(0, 6)]))
    ops.append((1, [64]))
    return Case("m%d" % j, ops)


STREAMS = [{
    "name": "rcvbuf", "pkg": "hr", "bin": "impl_rcvbuf",
    "gen": gen, "oracle": oracle, "nontrivial": nontrivial, "hist": hist, "mutate": mutate,
    "profiles": ("debug",), "profiles_thorough": ("debug", "release"),
    "rule": RULE,
}]
