(* c19_offered: stated over the regenerated source table. *)
From Coq Require Import List NArith ZArith Bool Lia.
From GQ Require Import Lib.Base Lib.Slice Lib.VarintN Model.Datagram Model.DatagramSources Proofs.Datagram.
Import ListNotations.
Local Open Scope N_scope.

Lemma load_head s d q rem :
  wq s = Some (d :: q) -> lenN d < VARINT_MAX -> lenN d < rem ->
  exists wl npad, load s rem = (mkdg (peer_max s) (local_max s) (Some q) (rq s), LFrame wl npad d).
Proof.
  intros Hq Hd Hr. unfold load. rewrite Hq.
  pose proof (load_choice_spec rem d Hd) as Hs.
  destruct (load_choice rem d) as [ | | | wl npad d' | site] eqn:Ec; cbn [choice_spec] in Hs; try contradiction.
  - lia.
  - assert (d' = d) as -> by (destruct wl; destruct Hs as [Hs _]; exact Hs). eauto.
Qed.

(* if the datagram source is among the sources of the space, an accepted datagram is put on the wire as
   soon as the packet has room for it *)
Lemma p_c19_offered : forall srcs s d q rem,
  In SrcDatagram srcs ->
  wq s = Some (d :: q) -> lenN d < VARINT_MAX -> lenN d < rem ->
  exists rest, emitted (snd (assemble_sources srcs s rem)) = d :: rest.
Proof.
  induction srcs as [| x tl IH]; intros s d q rem Hin Hq Hd Hr; [destruct Hin |].
  destruct x; cbn [assemble_sources];
    try (apply (IH s d q rem); [destruct Hin as [E | Hin]; [discriminate | exact Hin] | assumption ..]).
  destruct (load_head s d q rem Hq Hd Hr) as (wl & npad & El). rewrite El.
  destruct (assemble_sources tl _ _) as [s2 rs]. cbn [snd emitted flat_map app]. eauto.
Qed.

Lemma not_offered_nothing : forall srcs s rem,
  ~ In SrcDatagram srcs -> assemble_sources srcs s rem = (s, []).
Proof.
  induction srcs as [| x tl IH]; intros s rem Hn; [reflexivity |].
  destruct x; cbn [assemble_sources]; try (apply IH; intro H; apply Hn; right; exact H).
  exfalso; apply Hn; left; reflexivity.
Qed.

Lemma offered_In : datagram_offered = true <-> In SrcDatagram (sources SpOneRtt).
Proof.
  unfold datagram_offered. rewrite existsb_exists. split.
  - intros (x & Hin & Hx). destruct x; try discriminate. exact Hin.
  - intro H. exists SrcDatagram. split; [exact H | reflexivity].
Qed.
