(* Packet headers and transport parameters: round trips (C05) and totality (C03). *)
From Coq Require Import List ZArith NArith Bool Lia.
From GQ Require Import Lib.Wire Model.Varint Model.Frames Model.Packets Model.Params
                       Proofs.Wire Proofs.Frames Proofs.FramesTotal.
Import ListNotations.
Local Open Scope Z_scope.

Ltac Zify.zify_post_hook ::= Z.div_mod_to_equations.

(* ------------------------------------------------------------------ packet type *)

Lemma p_c05_packet_type_rt t rest : be_packet_type (put_packet_type t ++ rest) = TOk t rest.
Proof.
  destruct t as [|v|spin].
  - reflexivity.
  - destruct v; reflexivity.
  - destruct spin; reflexivity.
Qed.

(* ------------------------------------------------------------------ headers *)

Definition cid_ok (c : list Z) : Prop := zlen c <= MAX_CID_SIZE.

Definition wf_header (h : header) : Prop :=
  match h with
  | HVN d s vs => cid_ok d /\ cid_ok s /\ Forall (fun v => 0 <= v < 2 ^ 32) vs
  | HRetry d s _ integ => cid_ok d /\ cid_ok s /\ zlen integ = 16
  | HInitial d s tok => cid_ok d /\ cid_ok s /\ varint_ok (zlen tok)
  | HZeroRtt d s | HHandshake d s => cid_ok d /\ cid_ok s
  | HOneRtt _ d => True
  end.

(* version negotiation and retry headers extend to the end of the datagram *)
Definition htail_ok (h : header) (rest : list Z) : Prop :=
  match h with HVN _ _ _ | HRetry _ _ _ _ => rest = [] | _ => True end.

Definition dcid_len_of (h : header) (n : Z) : Prop :=
  match h with HOneRtt _ d => n = zlen d | _ => True end.

Lemma be_versions_rt vs : forall fuel, Forall (fun v => 0 <= v < 2 ^ 32) vs -> (length vs <= fuel)%nat ->
  be_versions fuel (put_versions vs) = Ok vs [].
Proof.
  induction vs as [|v r IH]; intros fuel H Hf.
  - destruct fuel; reflexivity.
  - inversion H as [|? ? Hv Hr]; subst. cbn [put_versions].
    destruct fuel as [|fuel]; [cbn [length] in Hf; lia|].
    assert (Hne : put_be 4 v ++ put_versions r <> []).
    { intro E. apply (f_equal (@length Z)) in E. rewrite app_length, put_be_length in E. cbn in E. lia. }
    destruct (put_be 4 v ++ put_versions r) as [|b t] eqn:Eb; [contradiction|].
    cbn [be_versions]. rewrite <- Eb.
    rewrite get_be_put_be_exact by (change (256 ^ Z.of_nat 4) with (2^32); lia).
    rewrite IH by (assumption || (cbn [length] in Hf; lia)). reflexivity.
Qed.

Lemma put_versions_len vs : length (put_versions vs) = (4 * length vs)%nat.
Proof. induction vs as [|v r IH]; cbn [put_versions length]; [reflexivity|]. rewrite app_length, put_be_length, IH. lia. Qed.

Lemma header_body h :
  put_header h = put_packet_type (header_type h) ++ skipn (length (put_packet_type (header_type h))) (put_header h).
Proof. unfold put_header. rewrite skipn_app, skipn_all, Nat.sub_diag. reflexivity. Qed.

Lemma p_c05_header_body_rt h n rest : wf_header h -> htail_ok h rest -> dcid_len_of h n ->
  be_header (header_type h) n (skipn (length (put_packet_type (header_type h))) (put_header h) ++ rest) = Ok h rest.
Proof.
  intros Hwf Ht Hn. unfold put_header. rewrite skipn_app, skipn_all, Nat.sub_diag. cbn [app skipn].
  destruct h as [d s vs|d s tok integ|d s tok|d s|d s|spin d]; cbn [header_type be_header wf_header htail_ok dcid_len_of] in *.
  - destruct Hwf as (H1 & H2 & H3). subst rest. rewrite app_nil_r. rewrite <- ?app_assoc.
    unfold bind at 1. rewrite be_cid_rt by (unfold cid_ok in *; pose proof (zlen_nonneg d); lia).
    unfold bind at 1. rewrite be_cid_rt by (unfold cid_ok in *; pose proof (zlen_nonneg s); lia).
    rewrite be_versions_rt; [reflexivity|assumption|]. rewrite put_versions_len. lia.
  - destruct Hwf as (H1 & H2 & H3). subst rest. rewrite app_nil_r. rewrite <- ?app_assoc.
    unfold bind at 1. rewrite be_cid_rt by (unfold cid_ok in *; pose proof (zlen_nonneg d); lia).
    unfold bind at 1. rewrite be_cid_rt by (unfold cid_ok in *; pose proof (zlen_nonneg s); lia).
    rewrite zlen_app, H3. destruct (Z.ltb_spec (zlen tok + 16) 16); [pose proof (zlen_nonneg tok); lia|].
    replace (zlen tok + 16 - 16) with (zlen tok) by lia.
    now rewrite firstn_zlen_app, skipn_zlen_app.
  - destruct Hwf as (H1 & H2 & H3). rewrite <- ?app_assoc.
    unfold bind at 1. rewrite be_cid_rt by (unfold cid_ok in *; pose proof (zlen_nonneg d); lia).
    unfold bind at 1. rewrite be_cid_rt by (unfold cid_ok in *; pose proof (zlen_nonneg s); lia).
    unfold bind at 1. unfold length_data. unfold bind at 1. rewrite be_varint_put_varint by assumption.
    rewrite take_s_app by reflexivity. reflexivity.
  - destruct Hwf as (H1 & H2). rewrite <- ?app_assoc.
    unfold bind at 1. rewrite be_cid_rt by (unfold cid_ok in *; pose proof (zlen_nonneg d); lia).
    unfold bind at 1. rewrite be_cid_rt by (unfold cid_ok in *; pose proof (zlen_nonneg s); lia). reflexivity.
  - destruct Hwf as (H1 & H2). rewrite <- ?app_assoc.
    unfold bind at 1. rewrite be_cid_rt by (unfold cid_ok in *; pose proof (zlen_nonneg d); lia).
    unfold bind at 1. rewrite be_cid_rt by (unfold cid_ok in *; pose proof (zlen_nonneg s); lia). reflexivity.
  - subst n. unfold bind at 1. rewrite take_s_app by reflexivity. reflexivity.
Qed.

Lemma p_c05_header_size h : wf_header h ->
  match h with HVN _ _ _ | HRetry _ _ _ _ => True | _ => zlen (put_header h) = header_size h end.
Proof.
  intro Hwf. destruct h as [d s vs|d s tok integ|d s tok|d s|d s|spin d]; [exact I|exact I| | | |];
    unfold put_header, header_size; cbn [header_type put_packet_type v1_bits];
    rewrite ?zlen_app, ?zlen_cons, ?put_be_zlen; unfold put_cid; rewrite ?zlen_cons, ?zlen_app, ?put_varint_length, ?zlen_nil; try lia.
  all: try (destruct spin; rewrite ?zlen_cons, ?zlen_nil; lia).
Qed.

(* ------------------------------------------------------------------ totality of be_packet *)

Lemma safe_length_data : safe length_data.
Proof. unfold length_data. safe_auto. Qed.

Lemma be_versions_safe : forall fuel bs, (forall s, be_versions fuel bs <> Panic s) /\
  (forall v r, be_versions fuel bs = Ok v r -> zlen r <= zlen bs).
Proof.
  induction fuel as [|fuel IH]; intro bs; destruct bs as [|b t]; cbn [be_versions].
  - split; [discriminate|]. intros v r H. injection H as <- <-. lia.
  - split; discriminate.
  - split; [discriminate|]. intros v r H. injection H as <- <-. lia.
  - destruct (get_be 4 0 (b :: t)) as [[v r]|] eqn:E; [|split; discriminate].
    destruct (IH r) as [I1 I2]. apply get_be_len in E.
    destruct (be_versions fuel r) as [vs r'| | |s] eqn:Ev.
    + split; [discriminate|]. intros v' r'' H. injection H as <- <-. specialize (I2 _ _ eq_refl). lia.
    + split; discriminate.
    + split; discriminate.
    + exfalso. exact (I1 s eq_refl).
Qed.

Lemma safe_be_header t n : safe (be_header t n).
Proof.
  destruct t as [|v|spin]; cbn [be_header].
  - apply safe_bind; [apply safe_be_cid|intro d]. apply safe_bind; [apply safe_be_cid|intro s].
    intro bs. destruct (be_versions_safe (S (length bs)) bs) as [V1 V2].
    destruct (be_versions (S (length bs)) bs) as [vs r| | |st] eqn:E.
    + split; [discriminate|]. intros v' r' H. injection H as _ <-. exact (V2 _ _ eq_refl).
    + split; discriminate.
    + split; discriminate.
    + exfalso. exact (V1 st eq_refl).
  - destruct v; try solve [safe_auto2].
    apply safe_bind; [apply safe_be_cid|intro d]. apply safe_bind; [apply safe_be_cid|intro s].
    intro bs. destruct (zlen bs <? 16); [split; discriminate|]. split; [discriminate|].
    intros v' r' H. injection H as _ <-. unfold zlen; cbn [length]. lia.
  - safe_auto.
Qed.

Lemma be_packet_type_shrinks bs t r : be_packet_type bs = TOk t r -> zlen r < zlen bs.
Proof.
  unfold be_packet_type. destruct bs as [|ty rest]; [discriminate|].
  destruct (negb (bit_set ty 128)).
  - intro H. injection H as _ <-. rewrite zlen_cons. lia.
  - destruct (get_be 4 0 rest) as [[ver r']|] eqn:E; [|discriminate].
    apply get_be_len in E. rewrite zlen_cons.
    destruct (ver =? 0); [intro H; injection H as _ <-; lia|].
    destruct (ver =? 1); [|discriminate].
    destruct (negb (bit_set ty 64)); [discriminate|]. intro H. injection H as _ <-. lia.
Qed.

Lemma p_c03_packet_no_panic n dg s : be_packet n dg <> PPanic s.
Proof.
  unfold be_packet. destruct (be_packet_type dg) as [t remain|e]; [|discriminate].
  destruct (safe_be_header t n remain) as [H1 _].
  destruct (be_header t n remain) as [h remain'| | |st] eqn:Eh; try discriminate.
  - destruct h; try discriminate; try (destruct (zlen remain' <? 20); discriminate);
      destruct (safe_length_data remain') as [L1 _];
      destruct (length_data remain') as [payload rest| | |st] eqn:El; try discriminate;
      try (destruct (zlen payload <? 20); discriminate); exfalso; exact (L1 st eq_refl).
  - exfalso. exact (H1 st eq_refl).
Qed.

(* a parsed packet lies inside the datagram: 0 < total <= |datagram| and 0 <= offset <= total *)
Lemma p_c03_packet_bounds n dg h total off :
  be_packet n dg = POk h total off -> 0 < total <= zlen dg /\ 0 <= off <= total.
Proof.
  unfold be_packet. destruct (be_packet_type dg) as [t remain|e] eqn:Et; [|discriminate].
  pose proof (be_packet_type_shrinks _ _ _ Et) as Hs.
  destruct (safe_be_header t n remain) as [_ H2].
  destruct (be_header t n remain) as [h' remain'| | |st] eqn:Eh; try discriminate.
  specialize (H2 _ _ eq_refl). pose proof (zlen_nonneg remain') as Hr.
  destruct h'.
  - intro H. injection H as _ <- <-. lia.
  - intro H. injection H as _ <- <-. lia.
  - destruct (safe_length_data remain') as [_ L2].
    destruct (length_data remain') as [payload rest| | |st] eqn:El; try discriminate.
    destruct (Z.ltb_spec (zlen payload) 20) as [Hlt|Hge]; [discriminate|]. intro Heq. injection Heq as _ <- <-.
    specialize (L2 _ _ eq_refl). pose proof (zlen_nonneg rest).
    unfold length_data, bind in El. destruct (be_varint remain') as [len r1| | |] eqn:Ev; try discriminate.
    pose proof (strict_be_varint _ _ _ Ev). unfold take_s in El.
    destruct (zlen r1 <? len) eqn:Elt; [discriminate|]. injection El as <- <-.
    apply Z.ltb_ge in Elt. unfold zlen in *. rewrite firstn_length, skipn_length in *. lia.
  - destruct (safe_length_data remain') as [_ L2].
    destruct (length_data remain') as [payload rest| | |st] eqn:El; try discriminate.
    destruct (Z.ltb_spec (zlen payload) 20) as [Hlt|Hge]; [discriminate|]. intro Heq. injection Heq as _ <- <-.
    specialize (L2 _ _ eq_refl). pose proof (zlen_nonneg rest).
    unfold length_data, bind in El. destruct (be_varint remain') as [len r1| | |] eqn:Ev; try discriminate.
    pose proof (strict_be_varint _ _ _ Ev). unfold take_s in El.
    destruct (zlen r1 <? len) eqn:Elt; [discriminate|]. injection El as <- <-.
    apply Z.ltb_ge in Elt. unfold zlen in *. rewrite firstn_length, skipn_length in *. lia.
  - destruct (safe_length_data remain') as [_ L2].
    destruct (length_data remain') as [payload rest| | |st] eqn:El; try discriminate.
    destruct (Z.ltb_spec (zlen payload) 20) as [Hlt|Hge]; [discriminate|]. intro Heq. injection Heq as _ <- <-.
    specialize (L2 _ _ eq_refl). pose proof (zlen_nonneg rest).
    unfold length_data, bind in El. destruct (be_varint remain') as [len r1| | |] eqn:Ev; try discriminate.
    pose proof (strict_be_varint _ _ _ Ev). unfold take_s in El.
    destruct (zlen r1 <? len) eqn:Elt; [discriminate|]. injection El as <- <-.
    apply Z.ltb_ge in Elt. unfold zlen in *. rewrite firstn_length, skipn_length in *. lia.
  - destruct (Z.ltb_spec (zlen remain') 20) as [Hlt|Hge]; [discriminate|]. intro Heq. injection Heq as _ <- <-. lia.
Qed.

Definition ptotal (r : pres) : Z := match r with POk _ t _ => t | _ => 0 end.
Definition sum_totals (rs : list pres) : Z := fold_right (fun r a => ptotal r + a) 0 rs.

Lemma read_packets_spec n : forall fuel dg, (length dg < fuel)%nat ->
  sum_totals (read_packets fuel n dg) <= zlen dg /\
  (forall r, In r (read_packets fuel n dg) -> forall s, r <> PPanic s) /\
  read_packets (S fuel) n dg = read_packets fuel n dg.
Proof.
  induction fuel as [|fuel IH]; intros dg Hf; [inversion Hf|].
  destruct dg as [|b t].
  - cbn [read_packets sum_totals fold_right]. split; [unfold zlen; cbn; lia|]. split; [intros r []|reflexivity].
  - remember (b :: t) as bs eqn:Ebs.
    assert (Hstep : forall fu, read_packets (S fu) n bs =
               match be_packet n bs with
               | POk h total off => POk h total off :: read_packets fu n (skipn (Z.to_nat total) bs)
               | r => [r] end).
    { intro fu. rewrite Ebs. reflexivity. }
    rewrite (Hstep fuel), (Hstep (S fuel)).
    destruct (be_packet n bs) as [h total off|e|s] eqn:Ep.
    + destruct (p_c03_packet_bounds _ _ _ _ _ Ep) as [Hc _].
      assert (Hlen : (length (skipn (Z.to_nat total) bs) < fuel)%nat).
      { rewrite skipn_length. unfold zlen in Hc. lia. }
      destruct (IH _ Hlen) as (I1 & I2 & I3).
      split; [|split].
      * cbn [sum_totals fold_right ptotal]. fold (sum_totals (read_packets fuel n (skipn (Z.to_nat total) bs))).
        rewrite skipn_zlen_le in I1 by lia. lia.
      * intros r [<-|Hin]; [discriminate|]. now apply I2.
      * now rewrite I3.
    + split; [cbn [sum_totals fold_right ptotal]; pose proof (zlen_nonneg bs); lia|].
      split; [intros r [<-|[]]; discriminate|reflexivity].
    + exfalso. exact (p_c03_packet_no_panic _ _ _ Ep).
Qed.

Lemma p_c03_packets_of n dg :
  sum_totals (packets_of n dg) <= zlen dg /\
  (forall r, In r (packets_of n dg) -> forall s, r <> PPanic s) /\
  (forall extra, read_packets (extra + S (length dg)) n dg = packets_of n dg).
Proof.
  unfold packets_of. destruct (read_packets_spec n (S (length dg)) dg ltac:(lia)) as (H1 & H2 & _).
  split; [exact H1|]. split; [exact H2|].
  induction extra as [|extra IH]; [reflexivity|].
  cbn [plus]. rewrite <- IH.
  destruct (read_packets_spec n (extra + S (length dg)) dg ltac:(lia)) as (_ & _ & H3). exact H3.
Qed.

(* ------------------------------------------------------------------ transport parameters *)

Lemma parse_loop_no_panic r : forall fuel m buf s, parse_loop fuel r m buf <> PaPanic s.
Proof.
  induction fuel as [|fuel IH]; intros m buf s; destruct buf as [|b t]; cbn [parse_loop]; try discriminate.
  assert (S : safe be_raw_parameter) by (unfold be_raw_parameter, length_data_p; safe_auto).
  destruct (S (b :: t)) as [S1 _].
  destruct (be_raw_parameter (b :: t)) as [[id data] rest| | |st] eqn:E; try discriminate.
  - destruct (param_row_of id) as [row|]; [|apply IH].
    destruct (negb (belong_to id r)); [discriminate|].
    destruct (be_param_value (p_type row) data) as [v|]; [|discriminate].
    destruct (in_bound row v); [apply IH|discriminate].
  - exfalso. exact (S1 st eq_refl).
Qed.

Lemma p_c03_params_no_panic r buf s : parse_params r buf <> PaPanic s.
Proof.
  unfold parse_params. pose proof (parse_loop_no_panic r (S (length buf)) [] buf) as H.
  destruct (parse_loop (S (length buf)) r [] buf) as [m| |st]; [|discriminate|exfalso; exact (H st eq_refl)].
  destruct (forallb _ _); discriminate.
Qed.

Lemma p_c03_remembered_no_panic buf s : parse_remembered buf <> PaPanic s.
Proof. unfold parse_remembered. apply parse_loop_no_panic. Qed.

(* the loop never runs out of fuel: every raw parameter consumes at least two bytes *)
Lemma parse_loop_fuel r : forall fuel m buf, (length buf < fuel)%nat ->
  parse_loop (S fuel) r m buf = parse_loop fuel r m buf.
Proof.
  induction fuel as [|fuel IH]; intros m buf Hf; [inversion Hf|].
  destruct buf as [|b t]; [reflexivity|].
  remember (b :: t) as bs eqn:Ebs.
  assert (Hstep : forall fu mm, parse_loop (S fu) r mm bs =
     match be_raw_parameter bs with
     | Ok (id, data) rest =>
        match param_row_of id with
        | None => parse_loop fu r mm rest
        | Some row => if negb (belong_to id r) then PaErr
                      else match be_param_value (p_type row) data with
                           | None => PaErr
                           | Some v => if in_bound row v then parse_loop fu r (pm_set mm id v) rest else PaErr
                           end
        end
     | Panic s => PaPanic s
     | _ => PaErr end).
  { intros fu mm. rewrite Ebs. reflexivity. }
  rewrite (Hstep (S fuel)), (Hstep fuel).
  destruct (be_raw_parameter bs) as [[id data] rest| | |st] eqn:E; try reflexivity.
  assert (Hlen : (length rest < fuel)%nat).
  { unfold be_raw_parameter, bind in E. destruct (be_varint bs) as [i r1| | |] eqn:E1; try discriminate.
    pose proof (strict_be_varint _ _ _ E1).
    assert (S2 : safe length_data_p) by (unfold length_data_p; safe_auto).
    destruct (S2 r1) as [_ L2]. destruct (length_data_p r1) as [d r2| | |] eqn:E2; try discriminate.
    specialize (L2 _ _ eq_refl). unfold ret in E. injection E as _ _ <-. unfold zlen in *. lia. }
  destruct (param_row_of id) as [row|]; [|now apply IH].
  destruct (negb (belong_to id r)); [reflexivity|].
  destruct (be_param_value (p_type row) data) as [v|]; [|reflexivity].
  destruct (in_bound row v); [now apply IH|reflexivity].
Qed.

(* ---- round trip ---- *)

Definition value_type (v : pvalue) : pvtype :=
  match v with
  | PVVarInt _ => VTVarInt | PVTrue => VTBoolean | PVBytes _ => VTBytes | PVDuration _ => VTDuration
  | PVResetToken _ => VTResetToken | PVCid _ => VTConnectionId | PVPrefAddr _ _ _ _ => VTPreferredAddress
  end.

Definition wf_value (v : pvalue) : Prop :=
  match v with
  | PVVarInt x | PVDuration x => varint_ok x
  | PVTrue => True
  | PVBytes b => varint_ok (zlen b)
  | PVResetToken t => zlen t = RESET_TOKEN_SIZE
  | PVCid c => zlen c <= MAX_CID_SIZE
  | PVPrefAddr a4 a6 cid tok => zlen a4 = 6 /\ zlen a6 = 18 /\ zlen cid <= MAX_CID_SIZE /\ zlen tok = RESET_TOKEN_SIZE
  end.

(* the bytes of the value as they sit between the length prefix and the next parameter *)
Definition value_bytes (v : pvalue) : list Z :=
  match v with
  | PVBytes b => b
  | PVCid c => c
  | PVDuration ms => put_varint ms
  | PVTrue => []
  | PVPrefAddr a4 a6 cid tok => a4 ++ a6 ++ put_cid cid ++ tok
  | PVResetToken t => t
  | PVVarInt x => put_varint x
  end.

Lemma put_varint_small x : 0 <= x < 64 -> put_varint x = [x].
Proof.
  intro H. unfold put_varint. destruct (Z.ltb_spec x (2^6)); [|lia]. apply put_be_1. lia.
Qed.

Lemma put_param_split id v : wf_value v ->
  put_param id v = put_varint id ++ put_varint (zlen (value_bytes v)) ++ value_bytes v.
Proof.
  intro H. unfold put_param. f_equal.
  destruct v as [x| |b|ms|t|c|a4 a6 cid tok]; cbn [value_bytes wf_value] in *.
  - now rewrite put_varint_length.
  - rewrite app_nil_r. reflexivity.
  - reflexivity.
  - now rewrite put_varint_length.
  - now rewrite H.
  - unfold put_cid. unfold MAX_CID_SIZE in H. pose proof (zlen_nonneg c).
    rewrite put_varint_small by lia. reflexivity.
  - destruct H as (H1 & H2 & H3 & H4). unfold put_cid.
    rewrite !zlen_app, zlen_cons, H1, H2, H4. unfold RESET_TOKEN_SIZE. do 2 f_equal. lia.
Qed.

Lemma be_raw_parameter_rt id v rest : varint_ok id -> wf_value v -> varint_ok (zlen (value_bytes v)) ->
  be_raw_parameter (put_param id v ++ rest) = Ok (id, value_bytes v) rest.
Proof.
  intros Hid Hv Hl. rewrite (put_param_split _ _ Hv). rewrite <- !app_assoc.
  unfold be_raw_parameter. unfold bind at 1. rewrite be_varint_put_varint by assumption.
  unfold bind at 1. unfold length_data_p. unfold bind at 1. rewrite be_varint_put_varint by assumption.
  rewrite take_s_app by reflexivity. reflexivity.
Qed.

Lemma take_c_all (d : list Z) n : n = zlen d -> take_c n d = Ok d [].
Proof. intros ->. pose proof (take_c_app d [] (zlen d) eq_refl) as H. now rewrite app_nil_r in H. Qed.
Lemma be_varint_all x : varint_ok x -> be_varint (put_varint x) = Ok x [].
Proof. intro Hx. pose proof (be_varint_put_varint x [] Hx) as H. now rewrite app_nil_r in H. Qed.

Lemma be_param_value_rt v : wf_value v -> be_param_value (value_type v) (value_bytes v) = Some v.
Proof.
  intro H. destruct v as [x| |b|ms|t|c|a4 a6 cid tok]; cbn [value_type value_bytes be_param_value wf_value] in *.
  - unfold pmap, bind. rewrite be_varint_all by assumption. reflexivity.
  - reflexivity.
  - reflexivity.
  - unfold pmap, bind. rewrite be_varint_all by assumption. reflexivity.
  - unfold pmap, bind. rewrite take_c_all by (symmetry; exact H). reflexivity.
  - destruct (Z.ltb_spec MAX_CID_SIZE (zlen c)); [lia|reflexivity].
  - destruct H as (H1 & H2 & H3 & H4). unfold be_pref_addr.
    unfold bind at 1. rewrite take_s_app by (symmetry; exact H1).
    unfold bind at 1. rewrite take_s_app by (symmetry; exact H2).
    unfold bind at 1. rewrite be_cid_rt by (pose proof (zlen_nonneg cid); lia).
    unfold bind at 1. rewrite take_c_all by (symmetry; exact H4). reflexivity.
Qed.

(* a parameter entry the sender's role may carry, of the type the table prescribes, within bounds *)
Definition wf_entry (r : role) (e : Z * pvalue) : Prop :=
  let '(id, v) := e in
  varint_ok id /\ wf_value v /\ varint_ok (zlen (value_bytes v)) /\
  exists row, param_row_of id = Some row /\ p_type row = value_type v /\
              belong_to id r = true /\ in_bound row v = true.

Definition set_list (l : pmap_t) : pmap_t := fold_left (fun m e => pm_set m (fst e) (snd e)) l [].

Lemma parse_loop_rt r : forall l fuel m, Forall (wf_entry r) l -> (length l < fuel)%nat ->
  parse_loop fuel r m (put_params l) = PaOk (fold_left (fun m e => pm_set m (fst e) (snd e)) l m).
Proof.
  induction l as [|[id v] t IH]; intros fuel m Hwf Hf.
  - destruct fuel; reflexivity.
  - inversion Hwf as [|? ? He Ht]; subst. destruct He as (Hid & Hv & Hl & row & Hrow & Hty & Hb & Hin).
    destruct fuel as [|fuel]; [cbn [length] in Hf; lia|].
    cbn [put_params fold_left fst snd].
    assert (Hne : put_param id v ++ put_params t <> []).
    { unfold put_param. rewrite <- app_assoc. intro E. apply app_eq_nil in E. destruct E as [E _].
      exact (put_varint_nonempty _ E). }
    destruct (put_param id v ++ put_params t) as [|b0 t0] eqn:Eb; [contradiction|].
    cbn [parse_loop]. rewrite <- Eb.
    rewrite be_raw_parameter_rt by assumption. rewrite Hrow, Hb. cbn [negb].
    rewrite Hty, be_param_value_rt by assumption. rewrite Hin.
    apply IH; [assumption|cbn [length] in Hf; lia].
Qed.

Lemma put_params_len l : (length l <= length (put_params l))%nat.
Proof.
  induction l as [|[id v] t IH]; cbn [put_params length]; [lia|].
  rewrite app_length. unfold put_param. rewrite app_length.
  pose proof (put_varint_length id) as L1. pose proof (varint_size_pos id). unfold zlen in L1. lia.
Qed.

Lemma p_c05_params_rt r l : Forall (wf_entry r) l ->
  parse_loop (S (length (put_params l))) r [] (put_params l) = PaOk (set_list l).
Proof.
  intro H. unfold set_list. apply parse_loop_rt; [assumption|]. pose proof (put_params_len l). lia.
Qed.

(* the resulting map answers every lookup with the last value set for that id *)
Lemma pm_get_set m id v id' : pm_get (pm_set m id v) id' = if id =? id' then Some v else pm_get m id'.
Proof.
  induction m as [|[k w] t IH]; cbn [pm_set pm_get].
  - reflexivity.
  - destruct (Z.eqb_spec k id) as [->|NE]; cbn [pm_get].
    + destruct (Z.eqb_spec id id'); reflexivity.
    + destruct (Z.eqb_spec k id') as [->|NE'].
      * destruct (Z.eqb_spec id id'); [congruence|reflexivity].
      * exact IH.
Qed.

Fixpoint last_value (l : pmap_t) (id : Z) (acc : option pvalue) : option pvalue :=
  match l with
  | [] => acc
  | (k, v) :: t => last_value t id (if k =? id then Some v else acc)
  end.

Lemma set_list_get l id : pm_get (set_list l) id = last_value l id None.
Proof.
  unfold set_list.
  assert (G : forall m, pm_get (fold_left (fun m e => pm_set m (fst e) (snd e)) l m) id = last_value l id (pm_get m id)).
  { induction l as [|[k v] t IH]; intro m; cbn [fold_left last_value fst snd]; [reflexivity|].
    rewrite IH, pm_get_set. reflexivity. }
  apply G.
Qed.

(* the parameter error is the transport-parameter connection error *)
Lemma p_c03_param_error_kind : param_error_kind = EK_TRANSPORT_PARAMETER.
Proof. reflexivity. Qed.
