"""Shared by C10 and C07: generators, reference functions and oracles for the `journal` stream
(harness/hr/src/bin/impl_journal.rs, coq/Model/Journal.v).  Everything here is a DIRECT statement
on the implementation's observations; nothing is taken from the Coq model."""
import itertools
from vlib import Case

PANIC = -77
T_TICK, T_DECODE, T_RCVD, T_GENACK, T_PEERACK, T_NEEDACK, T_RDUMP = 0, 1, 2, 3, 4, 5, 6
T_NEWPKT, T_ROTATE, T_SDUMP = 10, 11, 12
NAMES = {0: "tick", 1: "decode", 2: "rcvd", 3: "genack", 4: "peerack", 5: "needack", 6: "rdump",
         10: "newpkt", 11: "rotate", 12: "sdump"}


# ---------------------------------------------------------------- reference functions (RFC 9000)
def vs(v):
    return 1 if v < 2**6 else 2 if v < 2**14 else 4 if v < 2**30 else 8


def rfc_encode(pn, la):
    """RFC 9000 A.2 as coded (16-bit floor, largest_acked = 0 when nothing is acked) -> (width, truncated)"""
    rng = max((pn - la) * 2, 2**16 - 1)
    for w in (1, 2, 3, 4):
        if rng < 2**(8 * w):
            return w, pn % 2**(8 * w)
    return None


def rfc_decode(w, trunc, expected):
    """RFC 9000 A.3 with expected = largest_pn + 1"""
    win = 1 << (8 * w)
    hwin = win // 2
    mask = win - 1
    cand = (expected & ~mask) | trunc
    if cand <= expected - hwin and cand < (1 << 62) - win:
        return cand + win
    if cand > expected + hwin and cand >= win:
        return cand - win
    return cand


def frame_ranges(largest, first, ranges):
    """AckFrame::iter -> list of inclusive (lo, hi), or None on a negative number"""
    if first > largest:
        return None
    lo = largest - first
    out = [(lo, largest)]
    for g, a in ranges:
        hi = lo - g - 2
        if hi < 0 or hi - a < 0:
            return None
        lo = hi - a
        out.append((lo, hi))
    return out


def runs_desc(tracked, largest):
    """maximal runs of `tracked` numbers <= largest, highest first, as (lo, hi)"""
    out = []
    xs = sorted((x for x in tracked if x <= largest), reverse=True)
    for x in xs:
        if out and out[-1][0] == x + 1:
            out[-1] = (x, out[-1][1])
        else:
            out.append((x, x))
    return out


def full_size(largest, delay, runs):
    """encoding size of the frame that lists every run (runs[0] must contain `largest`)"""
    if not runs or runs[0][1] != largest:
        first = 0
        rest = runs
        # (largest itself not tracked: only reached for a rotated-out largest)
    else:
        first = runs[0][1] - runs[0][0]
        rest = runs[1:]
    size = 1 + vs(largest) + vs(delay) + vs(len(rest)) + vs(first)
    lo = largest - first
    for (l, h) in rest:
        size += vs(lo - h - 2) + vs(h - l)
        lo = l
    return size


# ---------------------------------------------------------------- dump parsers
def parse_rdump(v):
    off, ln, mad, nin = v[0], v[1], v[2], v[3]
    i = 4
    incl = v[i:i + nin]
    i += nin
    if v[i] == 1:
        earliest = (v[i + 1], v[i + 2])
        i += 3
    else:
        earliest = None
        i += 1
    recs = []
    for _ in range(ln):
        k = v[i]
        if k == 0:
            recs.append((0,))
            i += 1
        elif k == 1:
            recs.append((1, v[i + 1], v[i + 2], v[i + 3]))
            i += 4
        elif k == 2:
            n = v[i + 4]
            recs.append((2, v[i + 1], v[i + 2], v[i + 3], tuple(v[i + 5:i + 5 + n])))
            i += 5 + n
        else:
            recs.append((3, v[i + 1], v[i + 2], v[i + 3]))
            i += 4
    if i != len(v):
        raise ValueError("rdump length")
    return {"off": off, "recs": recs, "mad": mad, "incl": incl, "earliest": earliest}


def parse_sdump(v):
    off, ln, la, nq = v[0], v[1], v[2], v[3]
    q = v[4:4 + nq]
    i = 4 + nq
    recs = []
    for _ in range(ln):
        k = v[i]
        if k == 0:
            recs.append([0, 0])
            i += 1
        elif k == 1:
            recs.append([1, v[i + 1], v[i + 2], v[i + 3], v[i + 4]])   # n sent exp retran
            i += 5
        else:
            recs.append([k, v[i + 1], v[i + 2], v[i + 3]])
            i += 4
    if i != len(v):
        raise ValueError("sdump length")
    return {"off": off, "la": la, "queue": q, "recs": recs}


# ---------------------------------------------------------------- oracle
def ints(line):
    return [int(x) for x in line.split()]


def emitted(args):
    """guard discipline of qconnection/src/tx.rs: a packet leaves iff something was written, i.e. a frame
    or a trivial frame was recorded, and then it is built; (no frame, not trivial, build_with_time) is the
    'nothing was written' path that never reaches encrypt_and_protect_packet"""
    triv, mode, nfr = args[0] != 0, args[1], len(args) - 4
    return mode in (0, 1) and (triv or nfr > 0)


def oracle(case, obs, want=("C10", "C07")):
    if len(obs) != len(case.ops):
        return "length: %d observations for %d ops (%s)" % (len(obs), len(case.ops), obs[-1] if obs else "")
    now = 0
    registered = {}            # pn -> time of first registration
    rdump = None               # last dump of the received journal if no mutating op happened since
    sdump = None
    carried = {}               # pn -> frames recorded by the guard that consumed pn
    orphan = False             # a guard was dropped after record_frame / built without trivial or frames
    last_emitted = -1
    la = 0                     # largest acknowledged as accepted by update_largest
    acked_once = set()
    rdead = sdead = False
    for k, ((tag, args), line) in enumerate(zip(case.ops, obs)):
        if line.startswith("!"):
            return "abnormal: op %d -> %s" % (k, line)
        v = ints(line)
        if v and v[-1] == PANIC:
            # the only panics that are legitimate are the ones the generator asked for
            if tag in (T_NEWPKT, T_ROTATE, T_SDUMP):
                if sdead:
                    continue
                sdead = True
                if tag == T_NEWPKT and args[1] == 1 and (len(args) > 4 or args[0] == 0):
                    continue                       # build_trivial after record_frame / without record_trivial: assert
                return "panic: op %d (%s %s) panicked" % (k, NAMES[tag], args)
            if rdead:
                continue
            rdead = True
            if tag == T_RCVD and args[0] >= 2**62:
                continue
            if tag == T_GENACK and args[1] >= 2**62:
                continue
            if tag == T_PEERACK and frame_ranges(args[0], args[2], list(zip(args[3::2], args[4::2]))) is None:
                continue                           # F7 (C04): u64 underflow in AckFrame::iter, debug profile
            return "panic: op %d (%s %s) panicked" % (k, NAMES[tag], args)
        if tag == T_TICK:
            now = v[0]
        elif tag == T_RDUMP:
            rdump = parse_rdump(v)
            continue
        elif tag == T_SDUMP:
            sdump = parse_sdump(v)
            if "C10" in want and not orphan:
                exp_q = []
                for i, r in enumerate(sdump["recs"]):
                    fr = carried.get(sdump["off"] + i, [])
                    if r[0] == 0:
                        if fr:
                            return "sentstate: op %d packet %d carried %s but is recorded Skipped" % (k, sdump["off"] + i, fr)
                    else:
                        if r[1] != len(fr):
                            return "sentstate: op %d packet %d recorded with %d frames, carried %s" % (k, sdump["off"] + i, r[1], fr)
                        exp_q += fr
                if exp_q != sdump["queue"]:
                    return "sentqueue: op %d frame queue %s is not the concatenation of the tracked packets' frames %s" % (k, sdump["queue"], exp_q)
            continue
        elif tag == T_DECODE:
            if v[0] == 0 and "C10" in want and v[1] in registered:
                return "acceptonce: op %d decode_pn accepted %d which was registered as received at t=%d" % (k, v[1], registered[v[1]])
            if "C07" in want and 1 <= args[0] <= 4:
                # RFC 9000 A.3: the truncated number is expanded around (largest received packet number) + 1, whatever
                # has happened to the records since (acknowledged, confirmed, rotated out)
                exp = (max(registered) + 1) if registered else 0
                wantpn = rfc_decode(args[0], args[1] % (1 << (8 * args[0])), exp)
                if v[0] == 0 and v[1] != wantpn:
                    return "rcvdecode: op %d decode_pn(U%d(%d)) = %d, RFC 9000 A.3 with largest received %d gives %d" % (k, 8 * args[0], args[1], v[1], exp - 1, wantpn)
                if v[0] != 0 and registered and wantpn > max(registered) and wantpn < 2**62:
                    return "rcvdecode: op %d decode_pn(U%d(%d)) refused (%d) the new packet number %d (largest received %d)" % (k, 8 * args[0], args[1], v[0], wantpn, exp - 1)
        elif tag == T_RCVD:
            registered.setdefault(args[0], now)
            rdump = None
        elif tag == T_PEERACK:
            rdump = None
        elif tag == T_GENACK and "C10" in want:
            pn, largest, rt, cap = args
            d = rdump
            rdump = None
            if v[0] == 1:
                # refusal is only allowed when even the minimal frame does not fit
                if d is not None and (largest in registered):
                    delay = max(0, now - rt) * 1000
                    tracked = set(d["off"] + i for i, r in enumerate(d["recs"]) if r[0] != 0)
                    runs = runs_desc(tracked, largest)
                    first = (runs[0][1] - runs[0][0]) if runs and runs[0][1] == largest else 0
                    if cap >= 1 + vs(largest) + vs(delay) + vs(first) + 1:
                        return "ackrefused: op %d capacity %d suffices for the minimal frame but gen_ack_frame_util refused" % (k, cap)
                continue
            f_largest, f_delay, f_first, n = v[1], v[2], v[3], v[4]
            rs = list(zip(v[5:5 + 2 * n:2], v[6:6 + 2 * n:2]))
            size = v[5 + 2 * n]
            if size == -88:
                return "acksize: op %d encoding_size %d differs from the %d bytes written" % (k, v[7 + 2 * n], v[6 + 2 * n])
            if size > cap:
                return "ackfits: op %d ACK frame of %d bytes generated for capacity %d" % (k, size, cap)
            if f_largest != largest:
                return "acklargest: op %d frame reports largest %d, requested %d" % (k, f_largest, largest)
            if rt <= now and f_delay != (now - rt) * 1000:
                return "ackdelay: op %d delay %d, expected %d" % (k, f_delay, (now - rt) * 1000)
            if largest not in registered:
                continue                          # outside the statement (callers pass a received number)
            fr = frame_ranges(f_largest, f_first, rs)
            if fr is None:
                return "ackneg: op %d frame enumerates negative packet numbers: first=%d ranges=%s" % (k, f_first, rs)
            for (lo, hi) in fr:
                for x in range(lo, hi + 1):
                    if x not in registered:
                        return "acksound: op %d frame acknowledges %d which was never registered as received" % (k, x)
            if d is not None:
                tracked = set(d["off"] + i for i, r in enumerate(d["recs"]) if r[0] != 0)
                runs = runs_desc(tracked, largest)
                if largest < d["off"]:
                    if fr != [(largest, largest)]:
                        return "ackrotated: op %d largest %d is rotated out, frame lists %s" % (k, largest, fr)
                    continue
                # the frame must list a prefix (highest first) of the maximal runs, each run whole
                if fr != runs[:len(fr)]:
                    return "ackruns: op %d frame lists %s, tracked runs are %s" % (k, fr, runs[:len(fr) + 1])
                fs = full_size(largest, f_delay, runs)
                if len(fr) < len(runs) and cap >= fs:
                    return "ackcomplete: op %d capacity %d >= full size %d but runs %s are missing" % (k, cap, fs, runs[len(fr):])
        elif tag == T_NEWPKT:
            sdump = None
            pn, w, x, consumed = v
            nfr = len(args) - 4
            frames = list(args[4:])
            if "C07" in want:
                if consumed != (1 if emitted(args) else 0):
                    return "consumed: op %d guard %s consumed=%d" % (k, args[:2] + [nfr], consumed)
                if emitted(args):
                    if pn <= last_emitted:
                        return "pnreuse: op %d packet number %d emitted after %d" % (k, pn, last_emitted)
                    last_emitted = pn
                    xw = x % (1 << (8 * w))           # what put_packet_number writes
                    for exp in (pn, la + 1 if la + 1 <= pn else pn, la):
                        if rfc_decode(w, xw, exp) != pn:
                            return "pndecode: op %d pn %d encoded as (%d,%d) with largest_acked %d decodes to %d at expected %d" % (k, pn, w, x, la, rfc_decode(w, xw, exp), exp)
            if args[1] == 2 and nfr > 0:
                orphan = True
            if consumed:
                carried[pn] = frames
        elif tag == T_ROTATE:
            d = sdump
            sdump = None
            i = 0
            subs = list(zip(args[0::2], args[1::2]))
            for (kind, p) in subs:
                if kind == 3:
                    ok = v[i] == 0
                    i += 1
                    if ok:
                        la = max(la, p)
                    continue
                n = v[i]
                out = v[i + 1:i + 1 + n]
                i += 1 + n
                if "C10" not in want or orphan:
                    d = None
                    continue
                if kind in (0, 1):
                    fr = carried.get(p, [])
                    if out != [] and out != fr:
                        return "sentexact: op %d %s(%d) yielded %s, the packet carried %s" % (k, ("acked", "lost")[kind], p, out, fr)
                    if kind == 0 and out:
                        if p in acked_once:
                            return "sentonce: op %d packet %d reported delivered twice" % (k, p)
                    if d is not None:
                        idx = p - d["off"]
                        st = d["recs"][idx] if 0 <= idx < len(d["recs"]) else None
                        live = st is not None and st[0] in (1, 2)
                        if live and out != fr:
                            return "sentmissing: op %d %s(%d): packet is %s with frames %s but %s was yielded" % (k, ("acked", "lost")[kind], p, ("", "Flighting", "Retransmitted")[st[0]], fr, out)
                        if not live and out:
                            return "sentspurious: op %d %s(%d) yielded %s for a packet that is not in flight" % (k, ("acked", "lost")[kind], p, out)
                        if live:
                            st[0] = 3 if kind == 0 else 2
                    if kind == 0 and out:
                        acked_once.add(p)
                else:
                    # fast retransmit: only frames of packets below the largest acknowledged, each packet whole
                    if d is not None:
                        recs = d["recs"]
                        off = d["off"]
                        while recs and (recs[0][0] in (0, 3) or (recs[0][0] == 2 and recs[0][3] <= now)):
                            recs.pop(0)
                            off += 1
                        d["off"] = off
                        exp_out = []
                        for j, r in enumerate(recs):
                            if off + j < la and r[0] == 1 and r[4] < now:
                                exp_out += carried.get(off + j, [])
                                r[0] = 2
                                del r[4:]
                        if out != exp_out:
                            return "fastretx: op %d fast_retransmit yielded %s, expected %s" % (k, out, exp_out)
    return None


# ---------------------------------------------------------------- generators
class Fresh:
    def __init__(self):
        self.n = 100

    def take(self, k):
        out = list(range(self.n, self.n + k))
        self.n += k
        return out


def gen_rcvd_case(rng, name, big=False):
    ops = []
    mad = rng.choice([-1, 0, 25])
    mode = rng.random()
    span = rng.randint(4, 14) if mode < 0.55 else rng.randint(15, 60) if mode < 0.9 else rng.randint(61, 400)
    if big:
        span = rng.randint(300, 1500)
    density = rng.choice([0.3, 0.5, 0.7, 0.9])
    if big and rng.random() < 0.7:
        arrivals = [p for p in range(span) if p % 2 == 0]       # many ranges (range-count varint grows)
    else:
        arrivals = [p for p in range(span) if rng.random() < density]
    if not arrivals:
        arrivals = [rng.randint(0, span)]
    # reorder locally, add duplicates
    for _ in range(len(arrivals) // 3):
        i = rng.randrange(len(arrivals))
        j = min(len(arrivals) - 1, i + rng.randint(1, 4))
        arrivals[i], arrivals[j] = arrivals[j], arrivals[i]
    for _ in range(rng.randint(0, 3)):
        arrivals.insert(rng.randrange(len(arrivals) + 1), rng.choice(arrivals))
    if rng.random() < 0.15:
        arrivals.insert(rng.randrange(len(arrivals) + 1), arrivals[-1] + rng.choice([70, 300, 2000]))   # jump (F9 territory, small)
    now = 0
    seen = {}
    out_pn = rng.randint(0, 3)
    sent_acks = []
    maxseen = -1

    def genack(largest=None, cap=None):
        nonlocal out_pn
        if not seen:
            return
        r = rng.random()
        if largest is None:
            largest = maxseen if r < 0.6 else rng.choice(list(seen)) if r < 0.93 else rng.randint(0, maxseen + 3)
        rt = seen.get(largest, now)
        if rng.random() < 0.05:
            rt = now + 3
        tracked_runs = runs_desc(set(seen), largest)
        fs = full_size(largest, max(0, now - rt) * 1000, tracked_runs)
        if cap is None:
            r2 = rng.random()
            cap = (rng.randint(0, 8) if r2 < 0.1 else rng.randint(max(0, fs - 6), fs + 2) if r2 < 0.55
                   else fs if r2 < 0.65 else fs + 1 if r2 < 0.7 else rng.randint(5, 40) if r2 < 0.9 else 1200)
        if not big or rng.random() < 0.3:
            ops.append((T_RDUMP, []))
        ops.append((T_GENACK, [out_pn, largest, rt, cap]))
        sent_acks.append(out_pn)
        out_pn += rng.choice([1, 1, 1, 2, 5])

    for pn in arrivals:
        r = rng.random()
        if r < 0.5:
            la = rng.randint(max(0, pn - 200), pn)
            enc = rfc_encode(pn, la)
            ops.append((T_DECODE, [enc[0], enc[1]]))
        if r < 0.92 or pn not in seen:
            ops.append((T_RCVD, [pn, 1 if rng.random() < 0.7 else 0, rng.choice([10, 50, 100])]))
            seen.setdefault(pn, now)
            maxseen = max(maxseen, pn)
        r = rng.random()
        if r < 0.25:
            dt = rng.choice([1, 5, 30, 200])
            ops.append((T_TICK, [dt]))
            now += dt
        if rng.random() < (0.03 if big else 0.25):
            genack()
        if rng.random() < 0.1:
            ops.append((T_NEEDACK, []))
        if sent_acks and rng.random() < (0.02 if big else 0.12):
            # the peer acknowledges some of our ACK-carrying packets
            hi = rng.choice(sent_acks)
            first = rng.randint(0, min(hi, 3))
            rs = []
            lo = hi - first
            for _ in range(rng.randint(0, 2)):
                g = rng.randint(0, 2)
                if lo - g - 2 < 0:
                    break
                a = rng.randint(0, min(2, lo - g - 2))
                rs += [g, a]
                lo = lo - g - 2 - a
            ops.append((T_PEERACK, [hi, rng.randint(0, 100), first] + rs))
            if rng.random() < 0.5:
                dt = rng.choice([40, 400, 2000])
                ops.append((T_TICK, [dt]))
                now += dt
                ops.append((T_PEERACK, [hi, 0, 0]))
            if rng.random() < 0.6 and seen:
                p = rng.choice(list(seen))
                enc = rfc_encode(p, max(0, p - 10))
                ops.append((T_DECODE, [enc[0], enc[1]]))
    genack(largest=maxseen)
    genack(largest=maxseen, cap=1200)
    ops.append((T_NEEDACK, []))
    ops.append((T_RDUMP, []))
    if rng.random() < 0.04:
        ops.append(rng.choice([(T_PEERACK, [3, 0, 10]), (T_RCVD, [2**62, 1, 10]), (T_GENACK, [out_pn, 2**62, 0, 100]), (T_PEERACK, [9, 0, 2, 6, 0])]))
        ops.append((T_RDUMP, []))
        ops.append((T_DECODE, [2, 5]))
    return Case(name, ops, cfg=[mad], meta={"side": "rcvd"})


def gen_sent_case(rng, name, undisciplined=False):
    ops = []
    fresh = Fresh()
    n = rng.randint(3, 25)
    next_pn = 0
    sent = []
    now = 0
    for _ in range(n):
        r = rng.random()
        retran = rng.choice([5, 20, 100])
        expire = rng.choice([30, 100, 400])
        if undisciplined and r < 0.15:
            kind = rng.choice(["orphan", "empty-build", "bad-trivial"])
            if kind == "orphan":
                ops.append((T_NEWPKT, [rng.randint(0, 1), 2, retran, expire] + fresh.take(rng.randint(1, 3))))
            elif kind == "empty-build":
                ops.append((T_NEWPKT, [0, 0, retran, expire]))
            else:
                ops.append((T_NEWPKT, rng.choice([[0, 1, retran, expire], [1, 1, retran, expire] + fresh.take(1)])))
        elif r < 0.5:
            k = rng.choice([1, 1, 2, 3, 5, 9])
            ops.append((T_NEWPKT, [rng.randint(0, 1), 0, retran, expire] + fresh.take(k)))
            sent.append(next_pn)
            next_pn += 1
        elif r < 0.68:
            ops.append((T_NEWPKT, [1, rng.randint(0, 1), retran, expire]))      # trivial packet
            sent.append(next_pn)
            next_pn += 1
        elif r < 0.82:
            ops.append((T_NEWPKT, [rng.choice([0, 0, 1]), 2, retran, expire]))  # abandoned guard
        else:
            ops.append((T_NEWPKT, [0, 0, retran, expire] + fresh.take(1)))
            sent.append(next_pn)
            next_pn += 1
        if rng.random() < 0.3:
            dt = rng.choice([1, 6, 25, 120, 500])
            ops.append((T_TICK, [dt]))
            now += dt
        if sent and rng.random() < 0.45:
            subs = []
            for _ in range(rng.randint(1, 5)):
                q = rng.random()
                if q < 0.2:
                    subs += [3, rng.choice([rng.choice(sent), next_pn, next_pn + 1, rng.randint(0, next_pn)])]
                elif q < 0.6:
                    subs += [0, rng.choice(sent) if rng.random() < 0.9 else rng.randint(0, next_pn + 2)]
                elif q < 0.88:
                    subs += [1, rng.choice(sent) if rng.random() < 0.9 else rng.randint(0, next_pn + 2)]
                else:
                    subs += [2, 0]
            ops.append((T_SDUMP, []))
            ops.append((T_ROTATE, subs))
            if rng.random() < 0.3:
                ops.append((T_SDUMP, []))
    ops.append((T_SDUMP, []))
    ops.append((T_ROTATE, [3, next_pn - 1 if next_pn else 0, 2, 0] + [x for p in sent[:6] for x in (0, p)]))
    ops.append((T_SDUMP, []))
    ops.append((T_TICK, [1000]))
    ops.append((T_ROTATE, []))
    ops.append((T_SDUMP, []))
    return Case(name, ops, cfg=[-1], meta={"side": "sent"})


def gen_cap_sweep(bits, prefix):
    """every received/not-received pattern over `bits` numbers (top one received), every capacity from 0 to full+2"""
    cases = []
    n = 0
    for mask in range(1 << (bits - 1)):
        pns = [i for i in range(bits - 1) if mask >> i & 1] + [bits - 1]
        largest = bits - 1
        fs = full_size(largest, 0, runs_desc(set(pns), largest))
        for cap in range(4, fs + 3):
            ops = [(T_RCVD, [p, 1, 10]) for p in pns]
            ops += [(T_RDUMP, []), (T_GENACK, [1, largest, 0, cap]), (T_RDUMP, []), (T_GENACK, [2, largest, 0, 1200]), (T_RDUMP, [])]
            cases.append(Case("%s%d" % (prefix, n), ops, cfg=[-1], meta={"side": "rcvd"}))
            n += 1
    return cases


def gen_many_ranges(rng, count, prefix):
    """received sets with 60..70 gaps (the Range Count field crosses its 1-byte/2-byte varint boundary at 64) and
    capacities swept around the exact size of the frame cut after m ranges, m = 60 .. all"""
    cases = []
    for i in range(count):
        R = rng.choice([62, 63, 64, 64, 64, 65, 65, 66, 67, 70])
        pns = []
        x = rng.choice([0, 0, 0, 1, 5, 100, 16000])      # 0: the oldest range ends at the start of the journal (no gap below it)
        for _ in range(R + 1):
            ln = rng.choice([1, 1, 2, 3])
            pns += list(range(x, x + ln))
            x += ln + rng.choice([1, 1, 2, 3, 70])
        largest = pns[-1]
        runs = runs_desc(set(pns), largest)
        caps = set()
        for m in range(max(1, len(runs) - 8), len(runs) + 1):
            sz = full_size(largest, 0, runs[:m])
            caps |= {sz - 1, sz, sz + 1}
        caps = sorted(caps)
        rng.shuffle(caps)
        fs = full_size(largest, 0, runs)
        caps = [fs - 1, fs, fs + 1] + [c for c in caps if c not in (fs - 1, fs, fs + 1)]     # the complete frame, exactly
        ops = [(T_RCVD, [p, 1, 10]) for p in pns]
        for j, cap in enumerate(caps[:8]):
            ops += [(T_RDUMP, []), (T_GENACK, [j + 1, largest, 0, cap])]
        ops += [(T_RDUMP, []), (T_GENACK, [20, largest, 0, 1200]), (T_RDUMP, [])]
        cases.append(Case("%s%d" % (prefix, i), ops, cfg=[-1], meta={"side": "rcvd"}))
    return cases


def gen_drained(rng, count, prefix):
    """late in the connection: everything received so far is acknowledged, our ACK is confirmed by the peer and the
    records are rotated out (empty journal with a non-zero offset); then new packet numbers are decoded"""
    cases = []
    for i in range(count):
        P = rng.choice([300, 700, 3000, 255 + rng.randint(0, 600)])        # small: the models keep one cell per number
        el = rng.randint(0, 1)
        ops = [(T_RCVD, [P + j, el if j == 0 else rng.randint(0, 1), 10]) for j in range(rng.randint(1, 3))]
        top = P + len(ops) - 1
        ops += [(T_GENACK, [1, top, 0, 1200]), (T_PEERACK, [1, 0, 0]), (T_TICK, [rng.choice([1, 40, 400])]), (T_PEERACK, [1, 0, 0]), (T_RDUMP, [])]
        for d in rng.sample([1, 2, 5, 100, 127, 128, 300], 4):
            pn = top + d
            # the 1-byte form is legal whenever fewer than 128 numbers are outstanding (other stacks use it)
            w = 1 if d < 128 and rng.random() < 0.7 else 2
            ops.append((T_DECODE, [w, pn % (1 << (8 * w))]))
            if rng.random() < 0.5:
                ops.append((T_RCVD, [pn, 1, 10]))
                top = max(top, pn)
        ops.append((T_RDUMP, []))
        cases.append(Case("%s%d" % (prefix, i), ops, cfg=[rng.choice([-1, 0, 25])], meta={"side": "rcvd"}))
    return cases


def gen_guard_exhaustive(prefix):
    """every sequence of 3 guard lives over {0,1,2 frames} x trivial x {build_with_time, build_trivial, drop} that
    respects the guard discipline, followed by acks of every packet number in both orders"""
    lives = []
    for nfr in (0, 1, 2):
        for triv in (0, 1):
            for mode in (0, 1, 2):
                if mode == 1 and (nfr > 0 or not triv):
                    continue
                if mode == 2 and nfr > 0:
                    continue
                if mode == 0 and nfr == 0 and not triv:
                    continue
                lives.append((nfr, triv, mode))
    cases = []
    n = 0
    for seq in itertools.product(lives, repeat=3):
        for order in ((0, 1, 2), (2, 0, 1)):
            fresh = Fresh()
            ops = [(T_NEWPKT, [t, m, 10, 50] + fresh.take(k)) for (k, t, m) in seq]
            ops += [(T_SDUMP, []), (T_ROTATE, [3, 3] + [x for p in order for x in (0, p)] + [0, order[0], 1, order[1]]), (T_SDUMP, [])]
            cases.append(Case("%s%d" % (prefix, n), ops, cfg=[-1], meta={"side": "sent"}))
            n += 1
    return cases


def gen(rng, tier):
    q = tier == "quick"
    cases = gen_cap_sweep(7 if q else 8, "cap")      # thorough sizes keep the run within ~20 min (the journal model keeps one cell per number)
    cases += gen_guard_exhaustive("g3-")
    cases += gen_many_ranges(rng, 40 if q else 300, "mr")
    cases += gen_drained(rng, 30 if q else 300, "dr")
    cases += [gen_rcvd_case(rng, "r%d" % i) for i in range(1500 if q else 10000)]
    cases += [gen_rcvd_case(rng, "rb%d" % i, big=True) for i in range(6 if q else 30)]
    cases += [gen_sent_case(rng, "s%d" % i) for i in range(1500 if q else 10000)]
    cases += [gen_sent_case(rng, "su%d" % i, undisciplined=True) for i in range(300 if q else 2000)]
    # mixed: both journals in one case (they share only the clock)
    for i in range(200 if q else 1500):
        a = gen_rcvd_case(rng, "x", False)
        b = gen_sent_case(rng, "y", False)
        ops = []
        ia = ib = 0
        while ia < len(a.ops) or ib < len(b.ops):
            if ib >= len(b.ops) or (ia < len(a.ops) and rng.random() < 0.5):
                ops.append(a.ops[ia])
                ia += 1
            else:
                ops.append(b.ops[ib])
                ib += 1
        # a dump must directly precede the op it documents: re-insert dumps before genack / rotate
        fixed = []
        for (t, ar) in ops:
            if t == T_GENACK:
                fixed.append((T_RDUMP, []))
            if t == T_ROTATE:
                fixed.append((T_SDUMP, []))
            fixed.append((t, ar))
        cases.append(Case("m%d" % i, fixed, cfg=a.cfg, meta={"side": "mixed"}))
    return cases


# ---------------------------------------------------------------- non-triviality and histogram
def nontrivial(case):
    # sent side: >= 1 multi-frame packet, >= 1 trivial packet, >= 1 abandoned guard, acks out of order
    multi = triv = aband = False
    acks = []
    seen = set()
    dup = False
    below = False
    for t, a in case.ops:
        if t == T_NEWPKT:
            nfr = len(a) - 4
            multi |= nfr >= 2 and a[1] == 0
            triv |= nfr == 0 and a[0] != 0 and a[1] in (0, 1)
            aband |= a[1] == 2
        elif t == T_ROTATE:
            acks += [p for k, p in zip(a[0::2], a[1::2]) if k == 0]
        elif t == T_RCVD:
            dup |= a[0] in seen
            seen.add(a[0])
        elif t == T_DECODE:
            pass
        elif t == T_GENACK and seen:
            runs = runs_desc(seen, a[1])
            if len(runs) >= 3 and a[3] < full_size(a[1], 0, runs):
                below = True
    ooo = any(x > y for x, y in zip(acks, acks[1:]))
    sent_ok = multi and triv and aband and ooo
    gaps = len(runs_desc(seen, max(seen))) - 1 if seen else 0
    dupdec = dup or any(t == T_DECODE for t, a in case.ops)
    rcvd_ok = gaps >= 2 and dup and below
    return sent_ok or rcvd_ok


def hist(case):
    lab = ["side:%s" % case.meta.get("side", "?")]
    seen = set()
    for t, a in case.ops:
        lab.append("op:%s" % NAMES.get(t, "?"))
        if t == T_NEWPKT:
            nfr = len(a) - 4
            lab.append("guard:%s/%s/%s" % ("0" if nfr == 0 else "1" if nfr == 1 else "many", "trivial" if a[0] else "plain", ("build", "build_trivial", "drop")[a[1]]))
        elif t == T_GENACK:
            lab.append("cap:%s" % ("<8" if a[3] < 8 else "<16" if a[3] < 16 else "<64" if a[3] < 64 else "<300" if a[3] < 300 else "big"))
        elif t == T_RCVD:
            if a[0] in seen:
                lab.append("rcvd:duplicate")
            elif seen and a[0] < max(seen):
                lab.append("rcvd:reordered")
            elif seen and a[0] > max(seen) + 1:
                lab.append("rcvd:gap" if a[0] - max(seen) < 64 else "rcvd:jump")
            seen.add(a[0])
        elif t == T_ROTATE:
            for k in a[0::2]:
                lab.append("rot:%s" % ("acked", "lost", "fast", "largest")[k])
    return lab


def mutate(rng, case, j):
    ops = [(t, list(a)) for t, a in case.ops]
    for _ in range(rng.randint(1, 3)):
        if not ops:
            break
        k = rng.randrange(len(ops))
        t, a = ops[k]
        if t == T_GENACK:
            a[3] = max(0, a[3] + rng.randint(-3, 3))
        elif t == T_RCVD:
            a[0] = max(0, a[0] + rng.randint(-2, 2))
        elif t == T_ROTATE and a:
            i = rng.randrange(len(a) // 2)
            a[2 * i + 1] = max(0, a[2 * i + 1] + rng.randint(-1, 1))
        elif t == T_TICK:
            a[0] = max(0, a[0] + rng.randint(-5, 50))
        elif t == T_NEWPKT and rng.random() < 0.5:
            a[0] = 1 - (1 if a[0] else 0)
        else:
            ops.insert(k, (T_TICK, [rng.choice([1, 50, 500])]))
    fixed = []
    for (t, ar) in ops:
        if t == T_GENACK and (not fixed or fixed[-1][0] != T_RDUMP):
            fixed.append((T_RDUMP, []))
        if t == T_ROTATE and (not fixed or fixed[-1][0] != T_SDUMP):
            fixed.append((T_SDUMP, []))
        fixed.append((t, ar))
    return Case("mu%d" % j, fixed, cfg=case.cfg, meta=dict(case.meta))
