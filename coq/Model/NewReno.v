(* Model of qcongestion/src/algorithm/new_reno.rs (NewReno) and of the sent-packet record of
   qcongestion/src/packets.rs.  Definitions only.  Integer arithmetic exactly as coded; all
   quantities are unbounded Z (sizes and times are non-negative in every reachable state).

   Explicit outcomes instead of silent totalisation:
   * [r_sat]   is raised when a `saturating_sub` on bytes_in_flight actually saturates;
   * [r_panic] is raised where the Rust would panic in a debug build / wrap in release:
               `bytes_in_flight -= n` with n > bytes_in_flight (remove_from_bytes_in_flight),
               `congestion_window - max_datagram_size` with cwnd < mds (on_congestion_event),
               division by a zero congestion window (on_packet_acked).
   The theorems of Proofs/NewReno.v / Proofs/LossDetect.v show that neither flag is ever
   raised.  Times are nanoseconds since the start of the case. *)
From Coq Require Import List ZArith Bool.
Import ListNotations.
Local Open Scope Z_scope.

Inductive pstate := Inflight | AckedS | Retx.

Definition pstate_eqb (a b : pstate) : bool :=
  match a, b with
  | Inflight, Inflight | AckedS, AckedS | Retx, Retx => true
  | _, _ => false
  end.

(* SentPacket: packet_number, time_sent, ack_eliciting, count_for_cc, sent_bytes, state *)
Record pkt := mkpkt {
  p_pn : Z; p_time : Z; p_elic : bool; p_cc : bool; p_size : Z; p_st : pstate }.

Definition set_st (p : pkt) (s : pstate) : pkt :=
  mkpkt (p_pn p) (p_time p) (p_elic p) (p_cc p) (p_size p) s.

(* ssthresh: None = usize::MAX *)
Record reno := mkreno {
  mds : Z; cwnd : Z; ssthresh : option Z; bif : Z; rstart : option Z;
  ce : Z -> Z;                 (* ecn_ce_counters, by epoch 0..2 *)
  r_sat : bool; r_panic : bool }.

Definition ce_init : Z -> Z := fun _ => 0.
Definition ce_set (f : Z -> Z) (e v : Z) : Z -> Z := fun x => if x =? e then v else f x.

(* NewReno::new : initial_window = min(10*mtu, max(2*mtu, 14600)) *)
Definition reno_new (mtu : Z) : reno :=
  mkreno mtu (Z.min (mtu * 10) (Z.max (mtu * 2) 14600)) None 0 None ce_init false false.

Definition set_bif (r : reno) (b : Z) (sat : bool) : reno :=
  mkreno (mds r) (cwnd r) (ssthresh r) b (rstart r) (ce r) (r_sat r || sat) (r_panic r).

(* bytes_in_flight.saturating_sub(n) *)
Definition bif_sat_sub (r : reno) (n : Z) : reno :=
  if bif r <? n then set_bif r 0 true else set_bif r (bif r - n) false.

(* bytes_in_flight -= n  (checked subtraction) *)
Definition bif_sub (r : reno) (n : Z) : reno :=
  if bif r <? n
  then mkreno (mds r) (cwnd r) (ssthresh r) 0 (rstart r) (ce r) (r_sat r) true
  else set_bif r (bif r - n) false.

Definition on_packet_sent_cc (r : reno) (n : Z) : reno := set_bif r (bif r + n) false.

Definition in_recovery (r : reno) (sent_time : Z) : bool :=
  match rstart r with
  | Some s => sent_time <=? s
  | None => false
  end.

Definition below_ssthresh (r : reno) : bool :=
  match ssthresh r with
  | None => true
  | Some s => cwnd r <? s
  end.

Definition set_cwnd (r : reno) (c : Z) (panic : bool) : reno :=
  mkreno (mds r) c (ssthresh r) (bif r) (rstart r) (ce r) (r_sat r) (r_panic r || panic).

(* NewReno::on_packet_acked *)
Definition on_packet_acked (r : reno) (p : pkt) : reno :=
  if negb (p_cc p) then r else
  let r1 := if pstate_eqb (p_st p) Inflight then bif_sat_sub r (p_size p) else r in
  if in_recovery r1 (p_time p) then r1 else
  if below_ssthresh r1 then set_cwnd r1 (cwnd r1 + p_size p) false
  else set_cwnd r1 (cwnd r1 + mds r1 * p_size p / cwnd r1) (cwnd r1 =? 0).

(* NewReno::on_congestion_event *)
Definition on_congestion_event (r : reno) (sent_time now : Z) : reno :=
  if in_recovery r sent_time then r else
  let ss := if cwnd r <? mds r then 0 else cwnd r - mds r in
  mkreno (mds r) (Z.max ss (2 * mds r)) (Some ss) (bif r) (Some now) (ce r) (r_sat r)
         (r_panic r || (cwnd r <? mds r)).

(* NewReno::process_ecn ; [cev] = the CE count of the frame's ECN section, if any *)
Definition process_ecn (r : reno) (cev : option Z) (sent_time : Z) (e : Z) (now : Z) : reno :=
  match cev with
  | Some c =>
      if ce r e <? c then
        on_congestion_event
          (mkreno (mds r) (cwnd r) (ssthresh r) (bif r) (rstart r) (ce_set (ce r) e c) (r_sat r) (r_panic r))
          sent_time now
      else r
  | None => r
  end.

(* the loop of NewReno::on_packets_lost: returns the controller and max time_sent of the counted packets *)
Fixpoint lost_loop (r : reno) (lost : list pkt) (last : option Z) : reno * option Z :=
  match lost with
  | [] => (r, last)
  | p :: rest =>
      if p_cc p then
        lost_loop (bif_sat_sub r (p_size p)) rest
                  (match last with Some t => Some (Z.max t (p_time p)) | None => Some (p_time p) end)
      else lost_loop r rest last
  end.

(* NewReno::on_packets_lost *)
Definition on_packets_lost (r : reno) (lost : list pkt) (persistent : bool) (now : Z) : reno :=
  let '(r1, last) := lost_loop r lost None in
  let r2 := match last with Some t => on_congestion_event r1 t now | None => r1 end in
  if persistent then
    let ss := cwnd r2 / 2 in
    mkreno (mds r2) (Z.max ss (2 * mds r2)) (Some ss) (bif r2) None (ce r2) (r_sat r2) (r_panic r2)
  else r2.

(* NewReno::remove_from_bytes_in_flight *)
Fixpoint remove_from_bif (r : reno) (ps : list pkt) : reno :=
  match ps with
  | [] => r
  | p :: rest =>
      if p_cc p && negb (pstate_eqb (p_st p) Retx)
      then remove_from_bif (bif_sub r (p_size p)) rest
      else remove_from_bif r rest
  end.
