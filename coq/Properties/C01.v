(* C01 — stream data is delivered reliably, in order, exactly once.
   Only the property theorems live here: each is closed by a lemma of Proofs/Streams.v, its statement
   is pinned here, and its assumptions are printed for the audit.

   [flow_reach c fl P] : the flow [fl] (Sender over the C09 SendBuf model, Recver over the C08 RecvBuf
   model) and the frames [P] it has put on the wire so far, after ANY sequence of application calls
   (write / flush / shutdown / cancel / read / stop), emissions with any capacity, token count and
   credit, and deliveries / acknowledgements / loss reports of any frame of [P], in any order, any
   number of times ([justified]).  [in_class] restricts feedback for an EMPTY range (FIN-only frames)
   to the calls after which SendBuf is still inside the state space verified by C09; outside it is
   finding F29 and nothing is proved here (exercised by the correspondence run and the oracle only).
   [rc_got] = every byte handed to the reader, [rc_eos] = the reader was told the stream ended. *)
From Coq Require Import List NArith ZArith.
From GQ Require Import Lib.Base Model.SendBuf Model.RecvBuf Model.Streams Proofs.Streams.
Import ListNotations.
Local Open Scope N_scope.

(* the invariant is inductive over every justified operation *)
Theorem c01_step_inv : forall c fl P o fl' new out,
  FI c fl P -> justified P o -> in_class fl o -> flow_step c fl o = (fl', new, out) -> FI c fl' (P ++ new).
Proof. exact flow_step_inv. Qed.

(* reliable, in order, exactly once; end of stream only after the last byte and only after shutdown *)
Theorem c01_safety : forall c fl P, flow_reach c fl P ->
  is_prefix (rc_got (fl_rcv fl)) (written_bytes c fl) /\
  (rc_eos (fl_rcv fl) = true ->
   rc_got (fl_rcv fl) = written_bytes c fl /\ sn_shutcalled (fl_snd fl) = true).
Proof. exact p_c01_safety. Qed.

Theorem c01_frames : forall c fl P off len fin d, flow_reach c fl P -> In (FrS off len fin d) P ->
  d = slice c off len /\ off + len <= wr (fl_snd fl) /\
  (fin = true -> off + len = wr (fl_snd fl) /\ sn_shutcalled (fl_snd fl) = true /\ past_fin (fl_snd fl)).
Proof. exact p_c01_frames. Qed.

Theorem c01_rcvbuf : forall c fl P, flow_reach c fl P ->
  RB.Inv c (rc_buf (fl_rcv fl)) /\ largest (rc_buf (fl_rcv fl)) <= wr (fl_snd fl) /\
  rc_got (fl_rcv fl) = slice c 0 (nread (rc_buf (fl_rcv fl))).
Proof. exact p_c01_rcvbuf. Qed.

Theorem c01_reset_safe : forall c fl P, flow_reach c fl P ->
  is_prefix (rc_got (fl_rcv fl)) (written_bytes c fl) /\
  ((rc_st (fl_rcv fl) = RResetRcvd \/ rc_st (fl_rcv fl) = RResetRead) -> exists err final, In (FrR err final) P) /\
  (forall err final, In (FrR err final) P -> final <= wr (fl_snd fl) /\ is_reset (fl_snd fl)).
Proof. exact p_c01_reset_safe. Qed.

(* ---- the two endpoints: a schedule with two streams, chunked writes, small packets, a lost frame that
   is retransmitted at different boundaries, FIN delivered before data, duplicates, acks after loss, and
   then the fair round (lose all, emit until drained, deliver all, ack all): everything written is read,
   the end is reported, flush and shutdown are Ready (liveness on this instance; the general statement
   c01_progress is NOT proved, see the report) *)
Definition seqN (n : nat) : list N := map N.of_nat (seq 0 n).

Definition fair_round (cap : N) (n_emit n_pool : nat) : list op :=
  map OLose (seqN n_pool) ++ repeat (OEmit 0 cap cap) n_emit ++ repeat (OEmit 1 cap cap) n_emit
  ++ map ODeliver (seqN (n_pool + 2 * n_emit)) ++ map OAck (seqN (n_pool + 2 * n_emit)).

Definition demo_ops : list op :=
  [OWrite 0 0 40; OWrite 0 1 25; OEmit 0 30 30; OEmit 0 30 30; OWrite 0 0 10; OShutdown 0 0; OShutdown 0 1;
   OEmit 0 30 30; OEmit 0 30 30; OEmit 0 30 30; OLose 1; OLose 3; ODeliver 4; ODeliver 4; ODeliver 2; ORead 1 0 5;
   OEmit 0 41 41; OAck 3; OAck 0; ODeliver 0; OWrite 1 0 9; OShutdown 1 0; OEmit 1 64 64; OLose 6]
  ++ fair_round 33 6 8
  ++ [ORead 1 0 100; ORead 1 0 100; ORead 1 1 100; ORead 1 1 100; ORead 0 0 100; ORead 0 0 100].

Definition flow_done (s : sys) (key : N) : bool :=
  match StreamCtl.alookup (sy_flows s) key with
  | Some fl =>
    (lenN (rc_got (fl_rcv fl)) =? wr (fl_snd fl)) && rc_eos (fl_rcv fl)
    && (match sn_st (fl_snd fl) with SDataRcvd => true | _ => false end)
    && (match snd_poll_flush (fl_snd fl) with (_, 1%Z) => true | _ => false end)
    && (match snd_poll_shutdown (fl_snd fl) with (_, 1%Z) => true | _ => false end)
  | None => false
  end.

Example c01_progress_instance :
  let s := sys_exec (sys_init 1048576 [0; 1]) demo_ops in
  flow_done s 0 = true /\ flow_done s 1 = true /\ flow_done s 2 = true /\
  (exists fl, StreamCtl.alookup (sy_flows s) 0 = Some fl /\ wr (fl_snd fl) = 50 /\ rc_got (fl_rcv fl) = slice (cof 0) 0 50).
Proof. vm_compute. repeat split. eexists. repeat split. Qed.

Print Assumptions c01_step_inv.
Print Assumptions c01_safety.
Print Assumptions c01_frames.
Print Assumptions c01_rcvbuf.
Print Assumptions c01_reset_safe.
Print Assumptions c01_progress_instance.
