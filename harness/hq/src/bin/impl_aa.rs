//! Correspondence stream `aa` (C15): drives the real `qconnection::path::{AntiAmplifier, Constraints}`
//! and the real `qbase::net::tx::ArcSendWaker` the amplifier wakes.
//!
//! LEVEL NOTE.  `Burst::burst` / `Burst::load_spaces` / `Path::send_packets` are reachable only through a
//! complete `Components` (TLS, spaces, congestion controller, interface).  The BURST operation below
//! therefore TRANSLITERATES their control structure (one `balance()` per segment = `self.assembler()` in
//! `load_spaces`/`load_ping`/`load_heartbeat`; `Constraints::constrain` before every packet and
//! `Constraints::commit` after it = `PacketsAssembler::assemble`; `if loaded_initial { pad to the whole
//! buffer; return origin }`; the `try_fold` that stops after a shorter segment; one
//! `on_sent(sum of the IoSlice lengths)` = `Path::send_packets`) around the REAL primitives.  The shape
//! facts this transliteration relies on are re-extracted from burst.rs / path.rs on every run by
//! tools/extract_sources.py (coq/Generated/Sources.v, `burst_shape_*`).
//!
//! CASE cfg: `minpkt` (smallest buffer `new_packet` accepts: header + 20)
//! ops (every op ends with the observation of `balance()`: kind value; kind 0 Err(CREDIT), 1 Ok(Some v), 2 Ok(None)):
//!   0 n                       RCVD    on_rcvd(n)
//!   1                         BALANCE
//!   2 n                       ONSENT  on_sent(n)
//!   3                         GRANT
//!   4                         ABORT
//!   5 mtu rsv (quota wi wo)*  BURST   -> status nseg len* sum, then balance
//!                                     status 0 handed to IO | 1 nothing (signals) | 2 path deactivated
//!   6                         POLLWAIT  one poll of tx_waker.wait_for(CREDIT) -> ready wakes, then balance
use std::{
    future::Future,
    pin::Pin,
    sync::{
        Arc,
        atomic::{AtomicU64, Ordering},
    },
    task::{Context, Poll, Wake, Waker},
};

use hproto::{Obs, Op};
use qbase::net::tx::{ArcSendWaker, Signals};
use qconnection::path::{AntiAmplifier, Constraints};

struct CountWaker(AtomicU64);
impl Wake for CountWaker {
    fn wake(self: Arc<Self>) {
        self.0.fetch_add(1, Ordering::SeqCst);
    }
    fn wake_by_ref(self: &Arc<Self>) {
        self.0.fetch_add(1, Ordering::SeqCst);
    }
}

struct St {
    aa: AntiAmplifier,
    tx: ArcSendWaker,
    cw: Arc<CountWaker>,
    waker: Waker,
    minpkt: usize,
}

fn new_case(cfg: &[&str]) -> St {
    let minpkt: usize = cfg.first().and_then(|s| s.parse().ok()).unwrap_or(40);
    let tx = ArcSendWaker::new();
    let cw = Arc::new(CountWaker(AtomicU64::new(0)));
    St { aa: AntiAmplifier::new(tx.clone()), tx, waker: Waker::from(cw.clone()), cw, minpkt }
}

fn bal(st: &St, o: &mut Obs) {
    match st.aa.balance() {
        Err(_) => o.push(0u8).push(0u8),
        Ok(Some(v)) => o.push(1u8).push(v as u64),
        Ok(None) => o.push(2u8).push(0u8),
    };
}

enum SegErr {
    Signals,
    Deactivated,
}

/// one segment = `Burst::load_spaces` on a buffer of `buf_len` bytes (two packet requests: the Initial
/// space wants `wi` bytes, the remaining spaces together want `wo` bytes)
fn load_segment(st: &St, buf_len: usize, quota: usize, wi: usize, wo: usize) -> Result<usize, SegErr> {
    let mut storage = vec![0u8; buf_len];
    let mut buffer: &mut [u8] = &mut storage[..];
    let origin = buffer.len();
    // PacketsAssembler::new
    let credit = match st.aa.balance() {
        Err(_) => return Err(SegErr::Signals),
        Ok(None) => return Err(SegErr::Deactivated),
        Ok(Some(c)) => c,
    };
    let mut cons = Constraints::new(credit, quota);
    // PacketsAssembler::assemble for one packet request: constrain, (new_packet needs `minpkt`), commit
    let mut assemble = |buffer: &mut &mut [u8], want: usize| {
        let room = cons.constrain(&mut buffer[..]).len();
        let sent = if want > 0 && room >= st.minpkt { want.min(room) } else { 0 };
        if sent > 0 {
            cons.commit(sent, true);
            let tmp = std::mem::take(buffer);
            *buffer = &mut tmp[sent..];
        }
    };
    assemble(&mut buffer, wi); // Initial space
    let loaded_initial = buffer.len() != origin;
    assemble(&mut buffer, wo); // 0-RTT / Handshake / 1-RTT spaces, taken together
    if loaded_initial {
        // buffer.put_bytes(0, buffer.remaining_mut()); return Ok((origin, ..))
        return Ok(origin);
    }
    let sent_bytes = origin - buffer.len();
    if sent_bytes > 0 { Ok(sent_bytes) } else { Err(SegErr::Signals) }
}

fn burst(st: &St, mtu: usize, rsv: usize, segs: &[(usize, usize, usize)], o: &mut Obs) {
    // Burst::burst: map over the segments + try_fold
    let mut lens: Vec<usize> = Vec::new();
    let mut status = 0i64;
    for &(quota, wi, wo) in segs {
        match load_segment(st, mtu - rsv, quota, wi, wo) {
            Err(SegErr::Signals) if lens.is_empty() => {
                status = 1;
                break;
            }
            Err(SegErr::Deactivated) if lens.is_empty() => {
                status = 2;
                break;
            }
            Err(_) => break,
            Ok(n) => {
                let seg_len = rsv + n;
                let shorter = seg_len < lens.last().copied().unwrap_or_default();
                lens.push(seg_len);
                if shorter {
                    break;
                }
            }
        }
    }
    let sum: usize = lens.iter().sum();
    if status == 0 {
        if lens.is_empty() {
            status = 1; // no segments requested at all: burst() returns Ok(vec![]) and send_packets debits 0
        }
        // Path::send_packets
        st.aa.on_sent(sum);
        let _ = st.aa.balance();
    }
    o.push(status).push_usize(lens.len());
    for l in &lens {
        o.push_usize(*l);
    }
    o.push_usize(sum);
}

fn step(st: &mut St, op: &Op, _i: usize) -> Obs {
    let mut o = Obs::new();
    match op.tag {
        0 => st.aa.on_rcvd(op.u(0) as usize),
        1 => {}
        2 => st.aa.on_sent(op.u(0) as usize),
        3 => st.aa.grant(),
        4 => st.aa.abort(),
        5 => {
            let mtu = op.u(0) as usize;
            let rsv = op.u(1) as usize;
            let mut segs = Vec::new();
            let mut i = 2;
            while i + 2 < op.args.len() {
                segs.push((op.u(i) as usize, op.u(i + 1) as usize, op.u(i + 2) as usize));
                i += 3;
            }
            burst(st, mtu, rsv, &segs, &mut o);
        }
        6 => {
            let mut cx = Context::from_waker(&st.waker);
            let tx = st.tx.clone();
            let mut fut = Box::pin(async move { tx.wait_for(Signals::CREDIT).await });
            let r = matches!(Pin::new(&mut fut).poll(&mut cx), Poll::Ready(()));
            o.push_bool(r).push(st.cw.0.load(Ordering::SeqCst));
        }
        _ => {
            o.push(-99i32);
            return o;
        }
    }
    bal(st, &mut o);
    o
}

fn main() {
    hproto::run(new_case, step);
}
