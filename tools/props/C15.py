"""C15 — an unvalidated address never receives more than 3x what it sent."""
import itertools
import os
import sys

from vlib import Case

sys.path.insert(0, os.path.dirname(os.path.dirname(os.path.abspath(__file__))))
import extract_sources  # noqa: E402

PROP_FILE = "Properties/C15.v"
W = 2 ** 64
MAXU = W - 1
RULE = ("cases = op lists over RCVD n, BALANCE, ONSENT n, GRANT, ABORT, BURST mtu rsv (quota wi wo)*, POLLWAIT with CASE cfg "
        "(minpkt); non-trivial = at least 2 bursts that hand bytes to IO before any grant/abort, one of them Initial-bearing "
        "(wi > 0), and at least one arrival between them; distinct by hash of cfg+ops")
TRUSTED_BASE = [
    "model coq/Model/AntiAmp.v transcribes qconnection/src/path/aa.rs one atomic operation per definition (fetch_add "
    "written as mod 2^64, the debit saturating) plus the CREDIT bit of qbase SendWaker; coq/Model/Burst.v transcribes Constraints and the control "
    "structure of Burst::load_spaces / Burst::burst / Path::send_packets; equality with the Rust primitives is checked by "
    "stream `aa`, not proved",
    "LEVEL: Burst::burst is reachable only through a complete Components (TLS, spaces, cc, interface); the harness "
    "transliterates its control structure around the real AntiAmplifier/Constraints, and tools/extract_sources.py re-extracts "
    "the three shape facts the transliteration relies on (coq/Generated/Sources.v burst_shape_*, pinned by c15_glue_shape)",
    "the interleaving theorems (c15_resume, c15_ratio_interleaved) are about the small-step system of Model/AntiAmp.v; the "
    "correspondence stream exercises the same atomic pieces only in sequential composition",
]
MODELLED = ("AntiAmplifier::{new,on_rcvd,balance,on_sent,grant,abort}; SendWaker::{poll_wait_for,wake_by} projected on CREDIT; "
            "Constraints::{new,constrain,commit}; load_spaces (Initial packet, the other spaces as one request, pad-to-full), "
            "burst (per-segment assembler, try_fold, reserved forward header), send_packets (one debit of the sum). NOT "
            "modelled: what the spaces actually write (input `want`), load_ping/load_heartbeat (bounded by the same "
            "constrain), cc.send_quota (input), PathStatus flags, usize other than 64 bit")
ASSUMPTIONS = ["fewer than 2^64/3 bytes are received from one unvalidated address (the credit counter itself does not overflow)",
               "only one task sends on a path at a time (the doc comment of AntiAmplifier::balance)"]

MANIFEST = {
    "text": "Machine-checked Coq theorems (Properties/C15.v) over an executable model of the repaired AntiAmplifier "
            "(atomic-operation granularity, saturating debit), Constraints and the burst/send_packets control structure. "
            "Full strength: in EVERY history the credit of an unvalidated path is at most 3 x the bytes received (it cannot "
            "underflow into an unlimited allowance), unreachable!() is unreachable, and for every interleaving of the atomic "
            "steps no wake-up of the parked sender is lost on on_rcvd/grant/abort and single-segment in-budget sends keep "
            "bytes handed to IO <= 3 x bytes received. The running ratio over bursts is REFUTED on the faithful model (F19, "
            "open): a burst with more than one segment assembles every segment against the same undebited balance, an "
            "Initial-bearing datagram is padded to the whole buffer regardless of credit, the reserved forward header is "
            "added outside the constrained buffer (witnesses by vm_compute, replayed on the real AntiAmplifier/Constraints); "
            "it is proved, with credit = 3R - H exactly, for every history without an op of that class.",
    "note": "Trusted: Coq kernel, extraction, OCaml driver, Rust harness, Python generators/oracle, regex shape extractor. "
            "F19 is confirmed on the real primitives through a transliterated burst loop (the real Burst needs a whole "
            "connection). F19w (wrapping fetch_sub in on_sent) is repaired by a `fix:` commit; its witness is a regression "
            "case and the oracle reports any credit above 3R as a violation.",
    "technique": "Coq proof (invariants over op lists; inductive invariant over a small-step interleaving system) + regenerated "
                 "shape table + differential correspondence model/implementation + direct oracle",
}


def regen():
    extract_sources.regen()


# ------------------------------------------------------------------------------------------------
# reference bookkeeping used by the oracle and the generator (NOT the Coq model: only R, H and the
# validation state, which are what the property talks about)
# ------------------------------------------------------------------------------------------------

def known_class(op, credit, state):
    """Appendix B class of F19, evaluated on the op and the credit the property allows (3R - H)"""
    t, a = op
    if state != 0:
        return False
    if t == 2:
        return a[0] > credit
    if t == 5:
        mtu, rsv = a[0], a[1]
        segs = [a[i:i + 3] for i in range(2, len(a) - 2, 3)]
        if len(segs) > 1 or rsv > 0:
            return True
        return any(s[1] > 0 for s in segs) and credit < mtu - rsv
    return False


def oracle(case, obs):
    """direct statement of C15 on the implementation's observations"""
    if len(obs) != len(case.ops):
        return "length: %d observations for %d ops (%s)" % (len(obs), len(case.ops), obs[-1] if obs else "")
    R = 0
    H = 0
    state = 0            # 0 unvalidated, 1 granted, 2 aborted
    klass = None         # first op of the known class seen (index)
    pending_poll = False
    notified = False
    last_wakes = 0
    for k, ((tag, args), line) in enumerate(zip(case.ops, obs)):
        if line.startswith("!"):
            return "abnormal: op %d -> %s" % (k, line)
        v = [int(x) for x in line.split()]
        bal = v[-2:]
        body = v[:-2]
        allowed = max(0, 3 * R - H)
        if klass is None and known_class((tag, args), allowed, state):
            klass = k
        mark = "" if klass is None else " [class F19: op %d is a multi-segment / reserved-header / Initial-padded burst or an over-debit]" % klass
        if tag == 0:
            R += args[0]
            if state == 0:
                notified = True
        elif tag == 2:
            if state != 2:
                H += args[0]
        elif tag == 3:
            if state == 0:
                state = 1
                notified = True
        elif tag == 4:
            if state == 0:
                state = 2
                notified = True
        elif tag == 5:
            mtu, rsv = args[0], args[1]
            status, nseg = body[0], body[1]
            lens = body[2:2 + nseg]
            total = body[2 + nseg]
            if total != sum(lens):
                return "burst: op %d sum %d of %s" % (k, total, lens)
            if any(l > mtu for l in lens):
                return "burst: op %d a segment exceeds the MTU: %s" % (k, lens)
            if state == 2 and (status != 2 or total != 0):
                return "abort: op %d bytes handed to IO on an aborted path: %s" % (k, body)
            if state == 0 and allowed == 0 and klass is None and total != 0:
                return "ratio: op %d sent %d bytes with no credit" % (k, total)
            H += total
        elif tag == 6:
            ready, wk = body
            if pending_poll and notified and (ready != 1 or wk <= last_wakes):
                return "resume: op %d a receive/grant/abort happened since the sender parked but the wait is not woken (ready %d, wakes %d -> %d)" % (
                    k, ready, last_wakes, wk)
            pending_poll = (ready == 0)
            notified = False
            last_wakes = wk
        # ---- the credit never exceeds 3 x received (no wrap into an unlimited allowance): every history, every op
        if state == 0 and bal[0] == 1 and bal[1] > 3 * R:
            return "underflow: after op %d the credit is %d although only %d bytes were received" % (k, bal[1], R)
        # ---- the running inequality, at every prefix before grant
        if state != 1 and H > 3 * R:
            return "ratio: after op %d bytes handed to IO %d > 3 x bytes received %d%s" % (k, H, R, mark)
        # ---- the credit the implementation reports
        if state == 1:
            if bal != [1, MAXU]:
                return "grant: op %d balance after grant is %s" % (k, bal)
        elif state == 2:
            if bal != [2, 0]:
                return "abort: op %d balance after abort is %s" % (k, bal)
        else:
            exp = 3 * R - H
            if klass is None and bal != ([1, exp] if exp > 0 else [0, 0]):
                return "credit: after op %d balance %s, required 3*%d-%d" % (k, bal, R, H)
            if tag == 0 and args[0] > 0 and bal[0] == 0:
                return "resume: op %d sending does not resume after %d bytes arrived" % (k, args[0])
    return None


def classify(case, msg, obs):
    # the only open finding of C15 is the burst-level excess (F19); a credit above 3R ("underflow", F19w repaired)
    # or any failure without an op of the class is a violation
    if "[class F19:" in msg and msg.split(":")[0] in ("ratio", "credit"):
        return "F19"
    return None


def _segs(a):
    return [a[i:i + 3] for i in range(2, len(a) - 2, 3)]


def nontrivial(case):
    bursts = 0
    initial = False
    arrival_between = False
    seen_burst = False
    for t, a in case.ops:
        if t in (3, 4):
            break
        if t == 0 and a[0] > 0 and seen_burst:
            arrival_between = True
        if t == 5 and _segs(a):
            bursts += 1
            seen_burst = True
            if any(s[1] > 0 for s in _segs(a)):
                initial = True
    return bursts >= 2 and initial and arrival_between


def hist(case):
    lab = []
    names = ("rcvd", "balance", "onsent", "grant", "abort", "burst", "pollwait")
    R = H = 0
    state = 0
    for t, a in case.ops:
        lab.append("op:%s" % names[t])
        if t == 0:
            R += a[0]
            lab.append("rcvd:%s" % ("0" if a[0] == 0 else "<40" if a[0] < 40 else "<1200" if a[0] < 1200 else ">=1200"))
        elif t == 5:
            s = _segs(a)
            lab.append("segs:%d" % min(len(s), 4))
            if a[1] > 0:
                lab.append("burst:reserved-header")
            if any(x[1] > 0 for x in s):
                lab.append("burst:initial")
            if known_class((t, a), max(0, 3 * R - H), state):
                lab.append("burst:known-class")
            lab.append("burst:state%d" % state)
        elif t == 2:
            lab.append("onsent:%s" % ("over" if known_class((t, a), max(0, 3 * R - H), state) else "within"))
            H += a[0]
        elif t == 3 and state == 0:
            state = 1
        elif t == 4 and state == 0:
            state = 2
    return lab


# ------------------------------------------------------------------------------------------------
# generators
# ------------------------------------------------------------------------------------------------

def ref_burst(credit, state, minpkt, a):
    """bytes a CLEAN (not known-class) burst hands to IO, used only to keep the generator's credit estimate"""
    mtu, rsv = a[0], a[1]
    s = _segs(a)
    if state == 1:
        credit = MAXU
    if state == 2 or not s or credit == 0:
        return 0
    q, wi, wo = s[0]
    buf = mtu - rsv
    room = min(buf, credit, q)
    s1 = min(wi, room) if (wi > 0 and room >= minpkt) else 0
    if s1 > 0:
        return buf + rsv
    room2 = min(buf - s1, credit - s1, q - s1)
    s2 = min(wo, room2) if (wo > 0 and room2 >= minpkt) else 0
    return (s1 + s2 + rsv) if s1 + s2 > 0 else 0


def gen_random(rng, n, prefix):
    cases = []
    for i in range(n):
        minpkt = rng.choice([40, 40, 40, 10, 60])
        dirty = rng.random() < 0.35
        R = H = 0
        state = 0
        ops = []
        for _ in range(rng.randint(2, 14)):
            credit = max(0, 3 * R - H) if state == 0 else (MAXU if state == 1 else 0)
            r = rng.random()
            if r < 0.3:
                m = rng.random()
                nrx = (rng.choice([0, 1, 13, 14, 40, 100, 400, 1199, 1200, 1201, 1452]) if m < 0.7 else rng.randint(0, 65535))
                ops.append((0, [nrx]))
                R += nrx
            elif r < 0.72:
                mtu = rng.choice([1200, 1200, 1452, 200, 100, 9000])
                rsv = 0
                nseg = 1
                if dirty and rng.random() < 0.5:
                    nseg = rng.randint(2, 5)
                if dirty and rng.random() < 0.15:
                    rsv = rng.choice([8, 20, 38])
                segs = []
                for _s in range(nseg):
                    q = rng.choice([10 ** 9, 10 ** 9, rng.randint(0, 3000)])
                    wi = 0
                    if rng.random() < 0.3:
                        if dirty or credit >= mtu - rsv:
                            wi = rng.choice([minpkt, 100, 300, mtu, mtu + 50])
                    wo = rng.choice([0, minpkt, rng.randint(1, mtu), mtu - rsv, mtu * 2])
                    segs += [q, wi, wo]
                a = [mtu, rsv] + segs
                ops.append((5, a))
                if not known_class((5, a), credit, state):
                    H += ref_burst(credit, state, minpkt, a)
                else:
                    H += 0   # estimate lost: the rest of the case is `dirty` anyway
                    dirty = True
            elif r < 0.78:
                ops.append((1, []))
            elif r < 0.84:
                if dirty and rng.random() < 0.5:
                    nn = credit + rng.randint(1, 500)
                else:
                    nn = rng.randint(0, min(credit, 5000)) if state == 0 else rng.randint(0, 5000)
                ops.append((2, [nn]))
                if state != 2:
                    H += nn
            elif r < 0.92:
                ops.append((6, []))
            elif r < 0.96:
                ops.append((3, []))
                if state == 0:
                    state = 1
            else:
                ops.append((4, []))
                if state == 0:
                    state = 2
        cases.append(Case("%s%d" % (prefix, i), ops, cfg=[minpkt]))
    return cases


ALPHABET = [
    (0, [0]), (0, [1]), (0, [14]),
    (5, [50, 0, 1000, 0, 50]),                      # one segment
    (5, [50, 0, 1000, 0, 50, 1000, 0, 50]),         # two segments
    (5, [50, 0, 1000, 20, 0]),                      # Initial-bearing
    (5, [50, 4, 1000, 0, 30]),                      # reserved forward header
    (2, [1]), (2, [50]),
    (3, []), (4, []), (6, []),
]


def gen_exhaustive(length, prefix, sample=None, rng=None):
    cases = []
    n = 0
    for seq in itertools.product(range(len(ALPHABET)), repeat=length):
        if sample is not None and rng.random() > sample:
            continue
        ops = [(ALPHABET[j][0], list(ALPHABET[j][1])) for j in seq]
        cases.append(Case("%s%d" % (prefix, n), ops, cfg=[10]))
        n += 1
    return cases


def gen(rng, tier):
    if tier == "quick":
        return gen_exhaustive(3, "ex3-") + gen_exhaustive(4, "ex4s-", 0.12, rng) + gen_random(rng, 3000, "r")
    return (gen_exhaustive(4, "ex4-") + gen_exhaustive(5, "ex5s-", 0.3, rng) + gen_random(rng, 100000, "r"))


def mutate(rng, case, j):
    ops = [(t, list(a)) for t, a in case.ops]
    for _ in range(rng.randint(1, 3)):
        r = rng.random()
        if r < 0.4 and ops:
            k = rng.randrange(len(ops))
            t, a = ops[k]
            if t in (0, 2):
                a[0] = max(0, a[0] + rng.randint(-3, 3))
            elif t == 5 and len(a) >= 5:
                kk = rng.randrange(2, len(a))
                a[kk] = max(0, a[kk] + rng.randint(-3, 3))
        elif r < 0.7:
            ops.insert(rng.randint(0, len(ops)), (0, [rng.choice([0, 1, 14, 100])]))
        else:
            ops.insert(rng.randint(0, len(ops)), (5, [rng.choice([50, 1200]), 0, 10 ** 6, 0, rng.randint(0, 1300)]))
    ops.append((1, []))
    return Case("m%d" % j, ops, cfg=list(case.cfg))


STREAMS = [{
    "name": "aa", "pkg": "hq", "bin": "impl_aa",
    "gen": gen, "oracle": oracle, "nontrivial": nontrivial, "hist": hist, "mutate": mutate, "classify": classify,
    "profiles": ("debug",), "profiles_thorough": ("debug", "release"),
    "rule": RULE,
}]
