(* Lemmas about the routing table model (Model/Router.v): the table is used through [t_get] only. *)
From Coq Require Import List NArith ZArith Bool Lia.
From GQ Require Import Model.Router.
Import ListNotations.
Local Open Scope N_scope.

Lemma get_remove : forall t k x, t_get (t_remove t k) x = if k =? x then None else t_get t x.
Proof.
  induction t as [|[k' v] r IH]; intros k x; cbn [t_remove t_get].
  - destruct (k =? x); reflexivity.
  - destruct (k' =? k) eqn:E1.
    + apply N.eqb_eq in E1; subst k'. rewrite IH. destruct (k =? x); reflexivity.
    + cbn [t_get]. rewrite IH. destruct (k' =? x) eqn:E2; [|reflexivity].
      apply N.eqb_eq in E2; subst k'. rewrite N.eqb_sym, E1. reflexivity.
Qed.

Lemma get_insert : forall t k v x, t_get (t_insert t k v) x = if k =? x then Some v else t_get t x.
Proof.
  intros. unfold t_insert. cbn [t_get]. rewrite get_remove. destruct (k =? x); reflexivity.
Qed.

Lemma get_remove_if : forall t k q x,
  t_get (t_remove_if t k q) x =
  if (k =? x) && (match t_get t k with Some q' => q' =? q | None => false end) then None else t_get t x.
Proof.
  intros. unfold t_remove_if. destruct (t_get t k) as [q'|] eqn:E.
  - destruct (q' =? q); [rewrite get_remove|]; destruct (k =? x); reflexivity.
  - rewrite andb_false_r. reflexivity.
Qed.

(* the pointer-equality guard: dropping an entry never disturbs a signpost that now points to
   another connection's queue *)
Lemma remove_if_guard : forall t k q x q',
  t_get t x = Some q' -> q' <> q -> t_get (t_remove_if t k q) x = Some q'.
Proof.
  intros. rewrite get_remove_if. destruct (k =? x) eqn:E; [|exact H].
  apply N.eqb_eq in E; subst x. rewrite H.
  destruct (q' =? q) eqn:E2; [apply N.eqb_eq in E2; contradiction|]. reflexivity.
Qed.

Section Gen.
  Variable rnd : N -> cid.

  Lemma gen_loop_fresh : forall f t k c k',
    gen_loop rnd f t k = Some (c, k') -> t_get t c = None /\ k < k'.
  Proof.
    induction f as [|f IH]; intros t k c k' H; cbn [gen_loop] in H; [discriminate|].
    destruct (t_get t (rnd k)) eqn:E.
    - apply IH in H. destruct H. split; [assumption|lia].
    - inversion H; subst. split; [assumption|lia].
  Qed.

  Lemma gen_unique_spec : forall fuel q e e' c,
    gen_unique rnd fuel q e = Some (e', c) ->
    t_get (e_tab e) c = None /\ e_tab e' = t_insert (e_tab e) c q.
  Proof.
    intros fuel q e e' c H. unfold gen_unique in H.
    destruct (gen_loop rnd fuel (e_tab e) (e_k e)) as [[c0 k']|] eqn:E; [|discriminate].
    inversion H; subst. apply gen_loop_fresh in E. destruct E. split; [assumption|reflexivity].
  Qed.

  (* progress: an oracle that offers a vacant ID within the fuel makes the loop succeed *)
  Lemma gen_loop_progress : forall f t k,
    (exists j, (j < f)%nat /\ t_get t (rnd (k + N.of_nat j)) = None) ->
    gen_loop rnd f t k <> None.
  Proof.
    induction f as [|f IH]; intros t k [j [Hj Hv]]; [lia|].
    cbn [gen_loop]. destruct (t_get t (rnd k)) eqn:E; [|discriminate].
    apply IH. destruct j as [|j].
    - rewrite N.add_0_r in Hv. congruence.
    - exists j. split; [lia|]. replace (k + 1 + N.of_nat j) with (k + N.of_nat (S j)) by lia. exact Hv.
  Qed.
End Gen.
