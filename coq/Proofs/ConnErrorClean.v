(* [Clean] (no component poisoned) is an invariant of every history that contains no connection
   error: only on_conn_error ever writes an Err into a component. *)
From Coq Require Import List NArith ZArith Bool Lia.
From GQ Require Import Model.ConnError Proofs.ConnError Proofs.ConnErrorLater.
Import ListNotations.
Local Open Scope N_scope.

Lemma clean_same6 : forall m m', same6 m m' -> Clean m -> Clean m'.
Proof.
  intros m m' (A1&A2&A3&A4&A5&A6) (P1&P2&P3&P4&P5&P6). unfold Clean.
  rewrite A1, A2, A3, A4, A5, A6. repeat split; assumption.
Qed.

Lemma clean_upd_snd : forall m k s, Clean m -> sn_err s = None -> Clean (upd_snd m k s).
Proof.
  intros m k s (P1&P2&P3&P4&P5&P6) E. unfold Clean, upd_snd. cbn. repeat split; auto.
  apply (Forall_aupdate _ (fun s => sn_err s = None)); assumption.
Qed.
Lemma clean_upd_rcv : forall m k r, Clean m -> rc_err r = None -> Clean (upd_rcv m k r).
Proof.
  intros m k r (P1&P2&P3&P4&P5&P6) E. unfold Clean, upd_rcv. cbn. repeat split; auto.
  apply (Forall_aupdate _ (fun r => rc_err r = None)); assumption.
Qed.
Lemma clean_app_snd : forall m k s, Clean m -> sn_err s = None -> Clean (set_snd m (c_snd m ++ [(k, s)])).
Proof.
  intros m k s (P1&P2&P3&P4&P5&P6) E. unfold Clean. cbn. repeat split; auto. apply Forall_app_one; assumption.
Qed.
Lemma clean_app_rcv : forall m k r, Clean m -> rc_err r = None -> Clean (set_rcv m (c_rcv m ++ [(k, r)])).
Proof.
  intros m k r (P1&P2&P3&P4&P5&P6) E. unfold Clean. cbn. repeat split; auto. apply Forall_app_one; assumption.
Qed.

Lemma clean_lookup_snd : forall m k s, Clean m -> alookup (c_snd m) k = Some s -> sn_err s = None.
Proof.
  intros m k s (_&_&_&_&P5&_) H. destruct (alookup_In _ _ _ _ H) as [k' Hin].
  rewrite Forall_forall in P5. apply (P5 _ Hin).
Qed.
Lemma clean_lookup_rcv : forall m k r, Clean m -> alookup (c_rcv m) k = Some r -> rc_err r = None.
Proof.
  intros m k r (_&_&_&_&_&P6) H. destruct (alookup_In _ _ _ _ H) as [k' Hin].
  rewrite Forall_forall in P6. apply (P6 _ Hin).
Qed.
Lemma clean_handed_snd : forall m k s, Clean m -> handed_sender m k = Some s -> sn_err s = None.
Proof.
  intros m k s C H. unfold handed_sender in H. destruct (alookup (c_snd m) k) as [s0|] eqn:E; [|discriminate].
  destruct (sn_handed s0); inversion H; subst. eapply clean_lookup_snd; eauto.
Qed.
Lemma clean_handed_rcv : forall m k r, Clean m -> handed_recver m k = Some r -> rc_err r = None.
Proof.
  intros m k r C H. apply handed_recver_lookup in H. eapply clean_lookup_rcv; eauto.
Qed.

Ltac same6_chain :=
  repeat first [ apply same6_refl
               | eapply same6_trans; [|first [apply same6_set_exec | apply same6_set_sid | apply same6_set_flow
                                              | apply same6_set_listener | apply same6_wake_list | apply same6_wake_opt
                                              | apply same6_sid_increase ]] ].

Lemma same6_set_params : forall m a b w, same6 m (set_params m a b w (c_perr m)).
Proof. intros. repeat split. Qed.
Lemma same6_set_dgin : forall m q w, same6 m (set_dgin m q w (c_dgin_err m)).
Proof. intros. repeat split. Qed.
Lemma same6_set_dgout : forall m q, same6 m (set_dgout m q (c_dgout_err m)).
Proof. intros. repeat split. Qed.

Lemma clean_poll : forall m t k, Clean m -> Clean (fst (poll m t k)).
Proof.
  intros m t k C. pose proof C as (Ho & Hi & Hg & Hp & Hs & Hr).
  destruct k as [d | d | sid len | sid | sid | sid n | | ]; cbn [poll].
  - (* open *)
    unfold poll_open. rewrite Ho, Hp. destruct (open_window m) as [w|]; cbn [fst].
    + destruct (_ <? _); cbn [fst].
      * set (m1 := set_sid m (c_max m) (pset (c_next m) d (pget (c_next m) d + 1)) (c_wsid m)).
        assert (C1 : Clean m1) by (eapply clean_same6; [apply same6_set_sid|exact C]).
        assert (C2 : Clean (set_snd m1 (c_snd m1 ++ [(local_sid m d (pget (c_next m) d), new_sender w true)])))
          by (apply clean_app_snd; [exact C1|reflexivity]).
        destruct (d =? 0); [|exact C2]. apply clean_app_rcv; [exact C2|reflexivity].
      * eapply clean_same6; [apply same6_set_sid|exact C].
    + rewrite <- Hp. eapply clean_same6; [apply same6_set_params|exact C].
  - (* accept *)
    unfold poll_accept. rewrite Ho. destruct (d =? 0).
    + rewrite Hp. destruct (c_pready m).
      * destruct (fst (c_lq m)) as [|sid q]; cbn [fst].
        -- eapply clean_same6; [apply same6_set_listener|exact C].
        -- set (m1 := set_listener m (q, snd (c_lq m)) (c_wbi m) (c_wuni m)).
           assert (C1 : Clean m1) by (eapply clean_same6; [apply same6_set_listener|exact C]).
           assert (C2 : Clean (hand_sender m1 sid (c_peer_sd m))).
           { unfold hand_sender. destruct (alookup (c_snd m1) sid) as [s|] eqn:E; [|exact C1].
             apply clean_upd_snd; [exact C1|]. cbn. eapply clean_lookup_snd; eauto. }
           unfold hand_recver. destruct (alookup (c_rcv (hand_sender m1 sid (c_peer_sd m))) sid) as [r|] eqn:E; [|exact C2].
           apply clean_upd_rcv; [exact C2|]. cbn. eapply clean_lookup_rcv; eauto.
      * cbn [fst]. rewrite <- Hp. eapply clean_same6; [apply same6_set_params|exact C].
    + destruct (snd (c_lq m)) as [|sid q]; cbn [fst].
      * eapply clean_same6; [apply same6_set_listener|exact C].
      * set (m1 := set_listener m (fst (c_lq m), q) (c_wbi m) (c_wuni m)).
        assert (C1 : Clean m1) by (eapply clean_same6; [apply same6_set_listener|exact C]).
        unfold hand_recver. destruct (alookup (c_rcv m1) sid) as [r|] eqn:E; [|exact C1].
        apply clean_upd_rcv; [exact C1|]. cbn. eapply clean_lookup_rcv; eauto.
  - (* write *)
    unfold poll_write. destruct (handed_sender m sid) as [s|] eqn:E; [|exact C].
    rewrite (clean_handed_snd _ _ _ C E).
    destruct (sn_st s); cbn [fst]; try exact C.
    destruct (sn_wshut s); [exact C|]. destruct (_ <=? _); cbn [fst];
      (apply clean_upd_snd; [exact C|cbn; eapply clean_handed_snd; eauto]).
  - (* flush *)
    unfold poll_flush. destruct (handed_sender m sid) as [s|] eqn:E; [|exact C].
    rewrite (clean_handed_snd _ _ _ C E).
    destruct (sn_st s); cbn [fst]; try exact C.
    + destruct (_ =? _); cbn [fst]; [exact C|]. apply clean_upd_snd; [exact C|cbn; eapply clean_handed_snd; eauto].
    + apply clean_upd_snd; [exact C|cbn; eapply clean_handed_snd; eauto].
  - (* shutdown *)
    unfold poll_shutdown. destruct (handed_sender m sid) as [s|] eqn:E; [|exact C].
    rewrite (clean_handed_snd _ _ _ C E).
    destruct (sn_st s); cbn [fst]; try exact C;
      (apply clean_upd_snd; [exact C|cbn; eapply clean_handed_snd; eauto]).
  - (* read *)
    unfold poll_read. destruct (handed_recver m sid) as [r|] eqn:E; [|exact C].
    rewrite (clean_handed_rcv _ _ _ C E).
    destruct (rc_ph r); cbn [fst]; try exact C;
      try (destruct (_ <? _); cbn [fst]);
      (apply clean_upd_rcv; [exact C|cbn; eapply clean_handed_rcv; eauto]).
  - unfold poll_dgrecv. rewrite Hi. destruct (c_dgin m); cbn [fst]; rewrite <- Hi;
      (eapply clean_same6; [apply same6_set_dgin|exact C]).
  - unfold poll_pready. rewrite Hp. destruct (c_pready m); cbn [fst]; [exact C|].
    rewrite <- Hp. eapply clean_same6; [apply same6_set_params|exact C].
Qed.

Lemma clean_start_task : forall m t k, Clean m -> Clean (fst (start_task m t k)).
Proof.
  intros m t k C. unfold start_task. destruct (slot_busy m k); [exact C|].
  pose proof (clean_poll m t k C) as Q. destruct (poll m t k) as [m1 [code val]]. cbn [fst] in *.
  destruct (code =? 0)%Z; cbn [fst]; [|exact Q]. eapply clean_same6; [apply same6_set_exec|exact Q].
Qed.

Lemma clean_handshake : forall m, Clean m -> Clean (fst (handshake m)).
Proof.
  intros m C. pose proof C as (Ho & Hi & Hg & Hp & Hs & Hr). unfold handshake.
  destruct (c_hs m); [exact C|].
  set (m0 := set_misc m true (c_out_err m) (c_peer_next m)).
  assert (C0 : Clean m0) by (eapply clean_same6; [apply same6_set_misc|exact C]).
  assert (E1 : c_perr m0 = None) by exact Hp. rewrite E1.
  set (m1 := wake_list (set_params m0 false true [] None) (c_wparams m0)).
  assert (C1 : Clean m1).
  { subst m1. eapply clean_same6; [apply same6_wake_list|].
    rewrite <- E1. eapply clean_same6; [apply same6_set_params|exact C0]. }
  assert (E2 : c_out_err m1 = None) by exact Ho. rewrite E2.
  set (m2 := sid_increase (sid_increase m1 0 (fst (c_peer_max m1))) 1 (snd (c_peer_max m1))).
  assert (C2 : Clean m2).
  { subst m2. eapply clean_same6; [apply same6_sid_increase|]. eapply clean_same6; [apply same6_sid_increase|exact C1]. }
  destruct (c_ferr m2); cbn [fst]; [exact C2|]. eapply clean_same6; [apply same6_set_flow|exact C2].
Qed.

Lemma clean_peer_open : forall m d, Clean m -> Clean (fst (peer_open m d)).
Proof.
  intros m d C. pose proof C as (Ho & _). unfold peer_open.
  set (m0 := set_misc m (c_hs m) (c_out_err m) (pset (c_peer_next m) d (pget (c_peer_next m) d + 1))).
  assert (C0 : Clean m0) by (eapply clean_same6; [apply same6_set_misc|exact C]).
  assert (E : c_out_err m0 = None) by exact Ho. rewrite E. cbn [fst].
  set (sid := peer_sid m d (pget (c_peer_next m) d)).
  set (m1 := set_rcv m0 (c_rcv m0 ++ [(sid, new_recver false)])).
  assert (C1 : Clean m1) by (apply clean_app_rcv; [exact C0|reflexivity]).
  set (m2 := if d =? 0 then set_snd m1 (c_snd m1 ++ [(sid, new_sender 0 false)]) else m1).
  assert (C2 : Clean m2) by (subst m2; destruct (d =? 0); [apply clean_app_snd; [exact C1|reflexivity]|exact C1]).
  destruct (d =? 0); (eapply clean_same6; [eapply same6_trans; [apply same6_set_listener|apply same6_wake_opt]|exact C2]).
Qed.

Lemma clean_may_send : forall m sid r, Clean m -> peer_may_send m sid = Some r -> rc_err r = None.
Proof. intros m sid r C H. apply alookup_known in H. eapply clean_lookup_rcv; eauto. Qed.

Lemma clean_wake_upd_rcv : forall m sid r l, Clean m -> rc_err r = None -> Clean (wake_list (upd_rcv m sid r) l).
Proof. intros. eapply clean_same6; [apply same6_wake_list|]. apply clean_upd_rcv; assumption. Qed.
Lemma clean_wake_upd_snd : forall m sid s l, Clean m -> sn_err s = None -> Clean (wake_list (upd_snd m sid s) l).
Proof. intros. eapply clean_same6; [apply same6_wake_list|]. apply clean_upd_snd; assumption. Qed.

Lemma clean_peer_data : forall m sid len fin, Clean m -> Clean (fst (peer_data m sid len fin)).
Proof.
  intros m sid len fin C. unfold peer_data. destruct (peer_may_send m sid) as [r|] eqn:E; [|exact C].
  pose proof (clean_may_send _ _ _ C E) as Er.
  destruct (live_in_set m r); cbn [fst].
  - apply clean_wake_upd_rcv; [exact C|exact Er].
  - apply clean_upd_rcv; [exact C|exact Er].
Qed.
Lemma clean_peer_fingap : forall m sid g, Clean m -> Clean (fst (peer_fingap m sid g)).
Proof.
  intros m sid g C. unfold peer_fingap. destruct (peer_may_send m sid) as [r|] eqn:E; [|exact C].
  pose proof (clean_may_send _ _ _ C E) as Er. destruct (tk_fin r); [exact C|].
  destruct (live_in_set m r); cbn [fst].
  - apply clean_wake_upd_rcv; [exact C|exact Er].
  - apply clean_upd_rcv; [exact C|exact Er].
Qed.
Lemma clean_peer_reset : forall m sid, Clean m -> Clean (fst (peer_reset m sid)).
Proof.
  intros m sid C. unfold peer_reset. destruct (peer_may_send m sid) as [r|] eqn:E; [|exact C].
  pose proof (clean_may_send _ _ _ C E) as Er.
  destruct (live_in_set m r); cbn [fst].
  - apply clean_wake_upd_rcv; [exact C|exact Er].
  - apply clean_upd_rcv; [exact C|exact Er].
Qed.

Lemma clean_peer_stop : forall m sid, Clean m -> Clean (fst (peer_stop m sid)).
Proof.
  intros m sid C. unfold peer_stop. destruct (peer_may_ctl m sid); [|exact C].
  destruct (sender_in_set m sid) as [s|]; [|exact C]. destruct (sn_live s); cbn [fst]; [|exact C].
  apply clean_wake_upd_snd; [exact C|reflexivity].
Qed.
Lemma clean_peer_maxsd : forall m sid v, Clean m -> Clean (fst (peer_maxsd m sid v)).
Proof.
  intros m sid v C. unfold peer_maxsd. destruct (peer_may_ctl m sid); [|exact C].
  destruct (sender_in_set m sid) as [s|]; [|exact C]. destruct (sn_st s); cbn [fst]; try exact C.
  destruct (_ <? _); cbn [fst]; [|exact C]. apply clean_wake_upd_snd; [exact C|reflexivity].
Qed.
Lemma clean_ack : forall m sid, Clean m -> Clean (fst (ack m sid)).
Proof.
  intros m sid C. unfold ack. destruct (sender_in_set m sid) as [s|]; [|exact C].
  destruct (_ || _); [|exact C]. destruct (sn_st s); cbn [fst]; try exact C;
    (apply clean_wake_upd_snd; [exact C|reflexivity]).
Qed.

Lemma load_senders_clean : forall l, Forall (fun ks => sn_err (snd ks) = None) l ->
  Forall (fun ks => sn_err (snd ks) = None) (fst (fst (load_senders l))).
Proof.
  induction l as [|[k s] t IH]; intros H; [constructor|]. inversion H; subst. specialize (IH H3).
  cbn [load_senders]. destruct (load_senders t) as [[t' b] f]. cbn [fst] in *.
  destruct (_ && _); [|cbn; constructor; assumption].
  destruct (sn_st s); cbn [fst]; constructor; auto.
Qed.

Lemma clean_load : forall m, Clean m -> Clean (fst (load m)).
Proof.
  intros m C. pose proof C as (Ho & Hi & Hg & Hp & Hs & Hr). unfold load. rewrite Ho.
  destruct (c_ferr m).
  - rewrite Hg. cbn [fst]. rewrite <- Hg. eapply clean_same6; [apply same6_set_dgout|exact C].
  - pose proof (load_senders_clean _ Hs) as L. destruct (load_senders (c_snd m)) as [[s' b] f]. cbn [fst] in L.
    set (m1 := set_flow (set_snd m s') (c_fmax m) (c_fsent m + b) None).
    assert (C1 : Clean m1) by (unfold Clean; cbn; repeat split; auto).
    assert (E : c_dgout_err m1 = None) by exact Hg. rewrite E. cbn [fst].
    rewrite <- E. eapply clean_same6; [apply same6_set_dgout|exact C1].
Qed.

Lemma clean_dgram_in : forall m len, Clean m -> Clean (fst (dgram_in m len)).
Proof.
  intros m len C. pose proof C as (_ & Hi & _). unfold dgram_in. rewrite Hi. cbn [fst].
  eapply clean_same6; [apply same6_wake_opt|]. rewrite <- Hi. eapply clean_same6; [apply same6_set_dgin|exact C].
Qed.
Lemma clean_dgram_send : forall m len, Clean m -> Clean (fst (dgram_send m len)).
Proof.
  intros m len C. pose proof C as (_ & _ & Hg & _). unfold dgram_send. rewrite Hg.
  destruct (_ <? _); cbn [fst]; [exact C|]. rewrite <- Hg. eapply clean_same6; [apply same6_set_dgout|exact C].
Qed.
Lemma clean_flow_err : forall m e2, Clean m -> Clean (flow_conn_error e2 m).
Proof.
  intros m e2 C. unfold flow_conn_error. destruct (c_ferr m); [exact C|]. eapply clean_same6; [apply same6_set_flow|exact C].
Qed.

(* every operation except the connection error itself (tag 21, and tag 24 = a poll racing it) *)
Lemma clean_cm_op : forall m idx tag a, tag <> 21 -> tag <> 24 -> Clean m -> Clean (fst (cm_op m idx tag a)).
Proof.
  intros m idx tag a NE NE2 C. unfold cm_op.
  repeat (match goal with
          | |- context[match ?x with _ => _ end] =>
            match type of x with
            | N => destruct x
            | positive => destruct x
            | list Z => destruct x
            end
          end); cbn [fst]; try exact C; try (exfalso; apply NE; reflexivity); try (exfalso; apply NE2; reflexivity);
    try (apply clean_handshake; exact C);
    try (apply clean_start_task; exact C);
    try (apply clean_dgram_send; exact C);
    try (apply clean_peer_open; exact C);
    try (apply clean_peer_data; exact C);
    try (apply clean_peer_fingap; exact C);
    try (apply clean_peer_reset; exact C);
    try (apply clean_peer_stop; exact C);
    try (apply clean_peer_maxsd; exact C);
    try (eapply clean_same6; [apply same6_sid_increase|exact C]);
    try (apply clean_load; exact C);
    try (apply clean_ack; exact C);
    try (apply clean_dgram_in; exact C);
    try (apply clean_flow_err; exact C);
    try (rewrite p_credit; exact C).
Qed.

Lemma clean_repoll : forall todo m, Clean m -> Clean (fst (fst (repoll m todo))).
Proof.
  induction todo as [|[t k] rest IH]; intros m C; [exact C|]. cbn [repoll].
  pose proof (clean_poll m t k C) as Q. destruct (poll m t k) as [m1 [code val]]. cbn [fst] in *.
  set (m2 := if (code =? 0)%Z then m1 else set_exec m1 (filter (fun tk => negb (fst tk =? t)) (c_tasks m1)) (c_woken m1)).
  assert (P2 : Clean m2).
  { subst m2. destruct (code =? 0)%Z; [exact Q|]. eapply clean_same6; [apply same6_set_exec|exact Q]. }
  specialize (IH m2 P2). destruct (repoll m2 rest) as [[m3 w] n]. cbn [fst] in *.
  destruct (code =? 0)%Z; cbn [fst]; exact IH.
Qed.

Lemma clean_settle : forall m self, Clean m -> Clean (fst (settle m self)).
Proof.
  intros m self C. unfold settle.
  set (ready := filter (fun tk => mem_tid (fst tk) (c_woken m)) (c_tasks m)).
  assert (P0 : Clean (set_exec m (c_tasks m) [])) by (eapply clean_same6; [apply same6_set_exec|exact C]).
  pose proof (clean_repoll ready _ P0) as Q.
  destruct (repoll (set_exec m (c_tasks m) []) ready) as [[m1 w] n]. cbn [fst] in *.
  eapply clean_same6; [apply same6_set_exec|exact Q].
Qed.

Lemma clean_cm_step : forall m idx tag a, tag <> 21 -> tag <> 24 -> Clean m -> Clean (fst (cm_step m idx tag a)).
Proof.
  intros m idx tag a NE NE2 C. unfold cm_step. pose proof (clean_cm_op m idx tag a NE NE2 C) as Q.
  destruct (cm_op m idx tag a) as [m1 o]. cbn [fst] in Q.
  assert (X : forall o', Clean (fst (let '(m2, w) := settle m1 idx in (m2, o' ++ w)))).
  { intros o'. pose proof (clean_settle m1 idx Q) as S. destruct (settle m1 idx) as [m2 w]. exact S. }
  destruct o as [|z o1]; [apply X|].
  destruct z; try apply X. destruct p; try apply X. destruct p; try apply X. destruct p; try apply X.
  destruct p; try apply X. destruct p; try apply X. destruct p; try apply X. destruct p; try apply X.
  destruct o1; [exact Q|apply X].
Qed.

Lemma clean_cm_exec : forall ops m idx, Forall (fun o => fst o <> 21 /\ fst o <> 24) ops -> Clean m -> Clean (cm_exec m idx ops).
Proof.
  induction ops as [|[t a] r IH]; intros m idx H C; [exact C|]. inversion H as [|x l [H1 H2] H3]; subst. cbn [cm_exec].
  apply IH; [assumption|]. apply clean_cm_step; assumption.
Qed.

(* ---------------------------------------------------------------- the statement over whole histories *)
(* any configuration, ANY history without a connection error, then the error e, then ANY history of
   operations of any kind (a second error included): every registered sleeper of that moment is
   woken, no slot keeps a sleeper, and at every later point the connection is poisoned with e, so
   every later application operation is not Pending and reports e (or its half's terminal result) *)
Lemma p_c17_release_all : forall cfg m0 before e after,
  cm_init true cfg = Some m0 -> Forall (fun o => fst o <> 21 /\ fst o <> 24) before ->
  let m := cm_exec m0 0 before in
  c_fix23 m = true ->
  (forall t, In t (registered m) -> In t (c_woken (conn_error e m))) /\
  registered (conn_error e m) = [] /\
  forall idx, Poisoned e (cm_exec (conn_error e m) idx after).
Proof.
  intros cfg m0 before e after Hi Hb m F.
  assert (C : Clean m) by (apply clean_cm_exec; [exact Hb|eapply p_c17_init_clean; exact Hi]).
  split; [intros t; apply conn_error_woken; assumption|].
  split; [apply conn_error_cleared; assumption|].
  intros idx. apply p_cm_exec. apply conn_error_poisoned. exact C.
Qed.
