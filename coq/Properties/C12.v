(* C12 — stream limits, stream direction and final size are enforced.
   Only the property theorems live here; each is closed by a lemma of Proofs/Sid.v or
   Proofs/StreamCtl.v and its assumptions are printed for the audit. *)
From Coq Require Import List NArith ZArith Bool.
From GQ Require Import Model.StreamCtl Proofs.Sid Proofs.StreamCtl Proofs.StreamLift.
Import ListNotations.
Local Open Scope N_scope.

(* opened count <= the peer's current maximum, for every history of allocations and MAX_STREAMS
   updates (0-RTT rejection is the stated guard) *)
Theorem c12_open_bound : forall r ops s,
  Forall no_reject ops -> Linv s -> Linv (fst (l_exec r s ops)).
Proof. exact p_c12_open_bound. Qed.

Theorem c12_open_ids : forall r s d s' sid,
  poll_alloc_sid r s d = (s', AllocSid sid) ->
  sid = sid_of r d (pget (l_next s) d) /\ sid_idx sid < pget (l_max s) d
  /\ pget (l_next s') d = pget (l_next s) d + 1.
Proof. exact p_c12_open_ids. Qed.

Theorem c12_open_limit_is_granted : forall r ops s d,
  Forall no_reject ops -> pget (l_max (fst (l_exec r s ops))) d = granted (pget (l_max s) d) d ops.
Proof. exact p_c12_limit_is_granted. Qed.

(* accepted index <= max; the full statement (< max) holds outside the known class F14 *)
Theorem c12_accept_bound : forall mono s d idx s' res up,
  try_accept_sid false mono s d idx = (s', res, up) ->
  idx <> pget (r_max s) d ->                         (* ~ KnownClass F14 *)
  (forall m, res <> AccExceed m) -> idx < pget (r_max s) d.
Proof. exact p_c12_accept_bound. Qed.

Theorem c12_accept_le : forall mono s d idx s' res up,
  try_accept_sid false mono s d idx = (s', res, up) ->
  (forall m, res <> AccExceed m) -> idx <= pget (r_max s) d.
Proof. exact p_c12_accept_le. Qed.

Theorem c12_accept_exact : forall strict mono s d idx,
  (exists m, snd (fst (try_accept_sid strict mono s d idx)) = AccExceed m)
  <-> over_limit strict idx (pget (r_max s) d) = true.
Proof. exact p_c12_accept_exact. Qed.

(* F14: with limit 0 the peer's stream 0 is accepted *)
Theorem c12_accept_bound_refuted : exists s d idx s' res up,
  try_accept_sid false true s d idx = (s', res, up) /\ (forall m, res <> AccExceed m) /\ ~ idx < pget (r_max s) d.
Proof.
  exists (mkrsid (0, 0) (0, 0) Demand), Bi, 0. eexists _, _, _. split; [vm_compute; reflexivity|].
  split; [intros m; discriminate|vm_compute; discriminate].
Qed.

(* the same witness on the whole model: server, max_streams_uni = 0, client uni stream 2 accepted *)
Example c12_f14_replay :
  run_streams [1; 0; 0; 2; 0; 100000; 100; 100; 100; 5; 5; 100000; 700; 1000; 0; 0; 0; 0; 0; 0; 0]%Z
              [(0, [0%Z]); (7, [2; 0; 1; 0]%Z); (7, [6; 0; 1; 0]%Z)]
  = [[1; 0]; [0; 1; 0]; [4; 0; 0]]%Z.
Proof. vm_compute. reflexivity. Qed.

Theorem c12_accept_bound_rfc : forall mono s d idx s' res up,
  try_accept_sid true mono s d idx = (s', res, up) ->
  (forall m, res <> AccExceed m) -> idx < pget (r_max s) d.
Proof. exact p_c12_accept_bound_strict. Qed.

(* direction: frame kinds on send-only / receive-only streams give StreamState, and only those *)
Theorem c12_direction : forall v s sid,
  d_closed s = false -> sid_dir sid = Uni ->
  (sid_role sid = d_role s ->
     forall off len fin final err w,
       ds_step v s (OStream sid off len fin) = (set_closed s, [5; 0; 0]%Z)
       /\ ds_step v s (OReset sid err final) = (set_closed s, [5; 0; 0]%Z)
       /\ ds_step v s (OSDBlocked sid w) = (set_closed s, [5; 0; 0]%Z))
  /\ (sid_role sid <> d_role s ->
     forall err w,
       ds_step v s (OStop sid err) = (set_closed s, [5; 0; 0]%Z)
       /\ ds_step v s (OMaxSD sid w) = (set_closed s, [5; 0; 0]%Z)).
Proof. exact p_c12_direction_step. Qed.

Theorem c12_direction_only : forall v s sid side,
  ds_check_sid v s sid side = inr EStreamState ->
  sid_dir sid = Uni /\ (if side then sid_role sid = d_role s else sid_role sid <> d_role s).
Proof. exact p_c12_direction_only. Qed.

(* final size: data beyond it, a FIN or RESET that changes it, a FIN or RESET below received data *)
Theorem c12_final_size_known : forall v r f off len fin,
  rc_phase r = PSizeKnown f ->
  (f < off + len \/ (fin = true /\ off + len <> f)) ->
  rc_recv_data v r off len fin = inr EFinalSize.
Proof. exact p_c12_final_size_known. Qed.

Theorem c12_final_size_shrink : forall v r off len,
  rc_phase r = PRecv -> off + len < largest (rc_buf r) ->
  final_or_flow v (rc_recv_data v r off len true).
Proof. exact p_c12_final_size_shrink. Qed.

Theorem c12_final_size_reset : forall v r final,
  match rc_phase r with
  | PSizeKnown f => final <> f -> rc_recv_reset v r final = inr EFinalSize
  | PRecv => final < rc_largest r ->
             rc_recv_reset v r final = inr EFinalSize
             \/ (fix13 v = true /\ rc_recv_reset v r final = inr EFlowControl)
  | _ => True
  end.
Proof. exact p_c12_final_size_reset. Qed.

Theorem c12_final_size_only : forall v r off len fin,
  rc_recv_data v r off len fin = inr EFinalSize ->
  match rc_phase r with
  | PRecv => fin = true /\ off + len < largest (rc_buf r)
  | PSizeKnown f => f < off + len \/ (fin = true /\ off + len <> f)
  | _ => False
  end.
Proof. exact p_c12_final_size_only. Qed.

Theorem c12_final_size_stable : forall v r f off len fin r',
  rc_phase r = PSizeKnown f -> rc_recv_data v r off len fin = inl r' ->
  rc_phase r' = PSizeKnown f \/ (rc_phase r' = PDataRcvd /\ rc_inset r' = false).
Proof. exact p_c12_final_size_stable. Qed.

(* implicit open: for every history, yielded ++ queued is exactly the ids of indices 0..next-1,
   in order and without repetition *)
Theorem c12_implicit_open : forall strict mono peer ops s,
  r_next s = (0, 0) -> Rinv peer (rl_exec strict mono peer ops (rl_init s)).
Proof. exact p_c12_implicit_open. Qed.

Theorem c12_implicit_once : forall strict mono peer ops s d,
  r_next s = (0, 0) ->
  NoDup (qget (rl_y (rl_exec strict mono peer ops (rl_init s))) d ++ qget (rl_q (rl_exec strict mono peer ops (rl_init s))) d).
Proof. exact p_c12_implicit_once. Qed.

Theorem c12_implicit_all : forall strict mono s d idx s' first last up,
  try_accept_sid strict mono s d idx = (s', AccNew first last, up) ->
  need_create first last = range_nat (pget (r_next s) d) (N.to_nat (idx + 1 - pget (r_next s) d))
  /\ pget (r_next s') d = idx + 1.
Proof. exact p_c12_implicit_all. Qed.


(* ---- whole-DataStreams op lists (simulation of ds_step by the Sid / listener components) *)
Theorem c12_ds_simulates_local : forall v s o,
  exists lops, (op_no_reject o -> Forall no_reject lops)
               /\ d_l (fst (ds_step v s o)) = fst (l_exec (d_role s) (d_l s) lops)
               /\ d_role (fst (ds_step v s o)) = d_role s.
Proof. exact ds_step_lsim. Qed.

Theorem c12_ds_simulates_remote : forall v s y o,
  Sim v s y (fst (ds_step v s o)) (accept_yield o (snd (ds_step v s o)) y).
Proof. exact ds_step_rsim. Qed.

Theorem c12_open_bound_ds : forall v ops s,
  Forall op_no_reject ops -> Linv (d_l s) -> Linv (d_l (ds_exec v s ops)).
Proof. exact p_c12_open_bound_ds. Qed.

(* y' = the ids the ACCEPT observations yielded, in order; queued = Listener queues *)
Theorem c12_implicit_open_ds : forall v ops s y,
  Rinv (peer_of (d_role s)) (rl_of s y) ->
  let '(s', y') := ds_exec_y v s y ops in
  d_role s' = d_role s /\ Rinv (peer_of (d_role s)) (rl_of s' y').
Proof. exact p_c12_implicit_open_ds. Qed.

Theorem c12_implicit_open_ds_init : forall r c loc rem mem,
  Rinv (peer_of r) (rl_of (ds_init r c loc rem mem) ([], [])).
Proof. exact Rinv_init_ds. Qed.

(* ---- F27 repaired: the advertised MAX_STREAMS limit *)
Theorem c12_limit_monotone : forall strict peer ops x,
  max_le (r_max (rl_s x)) (r_max (rl_s (rl_exec strict true peer ops x))).
Proof. exact p_c12_limit_monotone. Qed.

Theorem c12_limit_monotone_ds : forall v ops s,
  fix27 v = true -> max_le (r_max (d_r s)) (r_max (d_r (ds_exec v s ops))).
Proof. exact p_c12_limit_monotone_ds. Qed.

(* a MAX_STREAMS frame is queued exactly when the limit goes up, and carries the new limit *)
Theorem c12_limit_frames : forall s d x,
  (max_le (r_max s) (r_max (fst (on_end_of_stream true s d x)))
   /\ match snd (on_end_of_stream true s d x) with
      | Some a => a = pget (r_max (fst (on_end_of_stream true s d x))) d /\ pget (r_max s) d < a
      | None => r_max (fst (on_end_of_stream true s d x)) = r_max s
      end)
  /\ (max_le (r_max s) (r_max (fst (recv_streams_blocked true s d x)))
      /\ match snd (recv_streams_blocked true s d x) with
         | Some a => a = pget (r_max (fst (recv_streams_blocked true s d x))) d /\ pget (r_max s) d < a
         | None => r_max (fst (recv_streams_blocked true s d x)) = r_max s
         end).
Proof. intros s d x. split; [apply end_max_mono|apply blocked_max_mono]. Qed.

(* the value in the peer's STREAMS_BLOCKED frame only decides "stale or not": the new limit is a
   function of the receiver's own state (hostile values included) *)
Theorem c12_blocked_own_state : forall s d v v',
  pget (r_max s) d <= v -> pget (r_max s) d <= v' ->
  recv_streams_blocked true s d v = recv_streams_blocked true s d v'.
Proof. exact p_c12_blocked_own_state. Qed.

Theorem c12_blocked_stale : forall s d v,
  v < pget (r_max s) d -> recv_streams_blocked true s d v = (s, None).
Proof. exact p_c12_blocked_stale. Qed.

Theorem c12_blocked_demand : forall s d v,
  r_ctrl s = Demand -> pget (r_max s) d <= v ->
  recv_streams_blocked true s d v
  = (mkrsid (pset (r_max s) d (pget (r_max s) d + 1)) (r_next s) Demand, Some (pget (r_max s) d + 1)).
Proof. exact p_c12_blocked_demand. Qed.

Theorem c12_blocked_consistent : forall s d v ms,
  r_ctrl s = Consistent ms -> fst (recv_streams_blocked true s d v) = s /\ snd (recv_streams_blocked true s d v) = None.
Proof. exact p_c12_blocked_consistent. Qed.

Theorem c12_end_consistent : forall s d idx,
  ctrl_synced s ->
  ctrl_synced (fst (on_end_of_stream true s d idx))
  /\ match r_ctrl s with
     | Consistent _ => snd (on_end_of_stream true s d idx) = Some (pget (r_max s) d + 1)
     | Demand => snd (on_end_of_stream true s d idx) = None
     end.
Proof. exact p_c12_end_consistent. Qed.

(* before the repair (F27): DemandConcurrency, limit 6, STREAMS_BLOCKED(1) -> limit 2 *)
Theorem c12_limit_monotone_refuted :
  exists s d v, pget (r_max (fst (recv_streams_blocked false s d v))) d < pget (r_max s) d.
Proof. exact p_c12_limit_monotone_refuted. Qed.

(* the F27 witness on the whole model: as it was, MAX_STREAMS(bidi, 2) goes out and the permitted
   stream 16 (index 4 < 6) is refused; repaired, the stale frame is ignored and the stream accepted *)
Example c12_f27_replay :
  let cfg := [1; 0; 1; 6; 6; 100000; 100; 100; 100; 5; 5; 100000; 700; 1000; 0; 0; 0; 0; 0; 0; 0]%Z in
  let ops := [(0, [0%Z]); (12, [0; 1]%Z); (7, [16; 0; 1; 0]%Z)] in
  run_streams cfg ops = [[1; 0]; [0; 0; 1; 5; 0; 2; 0; 0]; [4; 0; 0]]%Z
  /\ run_streams_fixed cfg ops = [[1; 0]; [0; 0; 0]; [0; 1; 0]]%Z.
Proof. vm_compute. split; reflexivity. Qed.

(* non-vacuity: a history with a jump to index 3, an old index, pops, a refused index, and local
   opens that hit the limit and continue after MAX_STREAMS *)
Example c12_nonvacuous :
  let x := rl_exec false true Client [RUse Bi 3; RPop Bi; RUse Bi 1; RUse Uni 0; RUse Bi 9; RPop Bi; RUse Bi 4; RPop Uni]
                   (rl_init (mkrsid (5, 1) (0, 0) (Consistent (5, 1)))) in
  qget (rl_y x) Bi = [0; 4] /\ qget (rl_q x) Bi = [8; 12; 16] /\ qget (rl_y x) Uni = [2]
  /\ snd (l_exec Server (mklsid (1, 0) (0, 0)) [LAlloc Bi; LAlloc Bi; LIncrease Bi 3; LAlloc Bi; LAlloc Uni]) = [1; 5].
Proof. vm_compute. repeat split. Qed.

Print Assumptions c12_open_bound.
Print Assumptions c12_open_ids.
Print Assumptions c12_open_limit_is_granted.
Print Assumptions c12_accept_bound.
Print Assumptions c12_accept_le.
Print Assumptions c12_accept_exact.
Print Assumptions c12_accept_bound_refuted.
Print Assumptions c12_f14_replay.
Print Assumptions c12_accept_bound_rfc.
Print Assumptions c12_direction.
Print Assumptions c12_direction_only.
Print Assumptions c12_final_size_known.
Print Assumptions c12_final_size_shrink.
Print Assumptions c12_final_size_reset.
Print Assumptions c12_final_size_only.
Print Assumptions c12_final_size_stable.
Print Assumptions c12_implicit_open.
Print Assumptions c12_implicit_once.
Print Assumptions c12_implicit_all.
Print Assumptions c12_nonvacuous.
Print Assumptions c12_ds_simulates_local.
Print Assumptions c12_ds_simulates_remote.
Print Assumptions c12_open_bound_ds.
Print Assumptions c12_implicit_open_ds.
Print Assumptions c12_implicit_open_ds_init.
Print Assumptions c12_limit_monotone.
Print Assumptions c12_limit_monotone_ds.
Print Assumptions c12_limit_frames.
Print Assumptions c12_blocked_own_state.
Print Assumptions c12_blocked_stale.
Print Assumptions c12_blocked_demand.
Print Assumptions c12_blocked_consistent.
Print Assumptions c12_end_consistent.
Print Assumptions c12_limit_monotone_refuted.
Print Assumptions c12_f27_replay.
