(* Lemmas about PacketSpace: what each pass does to the bytes in flight, to packet states, and
   which packets a detection pass may report. *)
From Coq Require Import List ZArith Bool Lia.
From GQ Require Import Model.NewReno Model.LossDetect Proofs.NewReno.
Import ListNotations.
Local Open Scope Z_scope.

(* size a packet contributes to bytes_in_flight: counted for congestion control and still Inflight *)
Definition flight1 (p : pkt) : Z := if p_cc p && is_inflight p then p_size p else 0.
Fixpoint flight (ps : list pkt) : Z :=
  match ps with [] => 0 | p :: rest => flight1 p + flight rest end.

Definition sizes_ok (ps : list pkt) : Prop := Forall (fun p => 0 <= p_size p) ps.

Lemma flight1_nonneg p : 0 <= p_size p -> 0 <= flight1 p.
Proof. unfold flight1. destruct (p_cc p && is_inflight p); lia. Qed.

Lemma flight_nonneg ps : sizes_ok ps -> 0 <= flight ps.
Proof. induction 1; cbn [flight]; [lia|]. pose proof (flight1_nonneg x H). lia. Qed.

Lemma flight_app a b : flight (a ++ b) = flight a + flight b.
Proof. induction a; cbn [flight app]; lia. Qed.

Lemma flight1_set_acked p : flight1 (set_st p AckedS) = 0.
Proof. unfold flight1, is_inflight, set_st; cbn. now rewrite andb_false_r. Qed.

Lemma flight1_set_retx p : flight1 (set_st p Retx) = 0.
Proof. unfold flight1, is_inflight, set_st; cbn. now rewrite andb_false_r. Qed.

(* ------------------------------------------------------------------ *)
(* the ACK walk *)

Lemma ack_walk_spec rs ps : forall r r1 ps' e l,
  ack_walk r ps rs = (r1, ps', e, l) ->
  sizes_ok ps -> flight ps <= bif r ->
  bif r1 = bif r - (flight ps - flight ps') /\ flight ps' <= flight ps /\ 0 <= flight ps' /\
  r_sat r1 = r_sat r /\ sizes_ok ps' /\
  mds r1 = mds r /\ rstart r1 = rstart r /\ ssthresh r1 = ssthresh r /\ ce r1 = ce r.
Proof.
  induction ps as [|p rest IH]; intros r r1 ps' e l Hw Hs Hb; cbn [ack_walk] in Hw.
  - inversion Hw; subst. cbn [flight].
    split; [lia|]. split; [lia|]. split; [lia|]. split; [reflexivity|]. split; [constructor|]. auto.
  - destruct (ack_walk r rest rs) as [[[r0 rest'] e0] l0] eqn:Hrec.
    inversion Hs as [|? ? Hp Hrest]; subst.
    cbn [flight] in Hb. pose proof (flight1_nonneg p Hp) as Hp1. pose proof (flight_nonneg rest Hrest) as Hr1.
    specialize (IH r r0 rest' e0 l0 Hrec Hrest ltac:(lia)).
    destruct IH as (B1 & B2 & B3 & B4 & B5 & B6 & B7 & B8 & B9).
    destruct (in_ranges (p_pn p) rs && negb (is_acked p)).
    + inversion Hw; subst; clear Hw.
      assert (Hle : (if p_cc p && pstate_eqb (p_st p) Inflight then p_size p else 0) <= bif r0)
        by (change (flight1 p <= bif r0); lia).
      destruct (on_packet_acked_bif r0 p Hle) as (C1 & C2).
      change (if p_cc p && pstate_eqb (p_st p) Inflight then p_size p else 0) with (flight1 p) in C1.
      destruct (on_packet_acked_fields r0 p) as (D1 & D2 & D3 & D4).
      cbn [flight]. rewrite flight1_set_acked.
      split; [lia|]. split; [lia|]. split; [lia|]. split; [congruence|].
      split; [constructor; [exact Hp|exact B5]|].
      split; [congruence|]. split; [congruence|]. split; congruence.
    + inversion Hw; subst; clear Hw. cbn [flight].
      split; [lia|]. split; [lia|]. split; [lia|]. split; [congruence|].
      split; [constructor; [exact Hp|exact B5]|]. auto.
Qed.

Lemma ack_walk_ok m rs ps : forall r r1 ps' e l,
  ack_walk r ps rs = (r1, ps', e, l) -> sizes_ok ps -> reno_ok m r ->
  reno_ok m r1 /\ cwnd r <= cwnd r1.
Proof.
  induction ps as [|p rest IH]; intros r r1 ps' e l Hw Hs Hok; cbn [ack_walk] in Hw.
  - inversion Hw; subst. split; [exact Hok|lia].
  - destruct (ack_walk r rest rs) as [[[r0 rest'] e0] l0] eqn:Hrec.
    inversion Hs as [|? ? Hp Hrest]; subst.
    destruct (IH r r0 rest' e0 l0 Hrec Hrest Hok) as (E1 & E2).
    destruct (in_ranges (p_pn p) rs && negb (is_acked p)); inversion Hw; subst; clear Hw.
    + split; [now apply on_packet_acked_ok|].
      pose proof (on_packet_acked_mono r0 p m Hp E1). lia.
    + split; assumption.
Qed.

(* the window grows in the walk only because of a counted, not yet acknowledged packet in the
   ranges that was sent after the recovery start *)
Lemma ack_walk_grows m rs ps : forall r r1 ps' e l,
  ack_walk r ps rs = (r1, ps', e, l) -> sizes_ok ps -> flight ps <= bif r -> reno_ok m r ->
  cwnd r < cwnd r1 ->
  exists p, In p ps /\ in_ranges (p_pn p) rs = true /\ is_acked p = false /\ p_cc p = true /\
            in_recovery r (p_time p) = false.
Proof.
  induction ps as [|p rest IH]; intros r r1 ps' e l Hw Hs Hb Hok Hlt; cbn [ack_walk] in Hw.
  - inversion Hw; subst. lia.
  - destruct (ack_walk r rest rs) as [[[r0 rest'] e0] l0] eqn:Hrec.
    inversion Hs as [|? ? Hp Hrest]; subst.
    cbn [flight] in Hb. pose proof (flight1_nonneg p Hp) as Hp1.
    destruct (ack_walk_spec rs rest r r0 rest' e0 l0 Hrec Hrest ltac:(lia))
      as (B1 & B2 & B3 & B4 & B5 & B6 & B7 & B8 & B9).
    destruct (ack_walk_ok m rs rest r r0 rest' e0 l0 Hrec Hrest Hok) as (E1 & E2).
    destruct (in_ranges (p_pn p) rs && negb (is_acked p)) eqn:Hc.
    + inversion Hw; subst; clear Hw.
      destruct (Z_lt_le_dec (cwnd r0) (cwnd (on_packet_acked r0 p))) as [Hg|Hg].
      * apply on_packet_acked_grows in Hg. destruct Hg as (G1 & G2).
        apply andb_true_iff in Hc. destruct Hc as (H1 & H2). apply negb_true_iff in H2.
        exists p. repeat split; auto; [now left|].
        unfold in_recovery in *. now rewrite <- B7.
      * destruct (IH r r0 rest' e0 l0 Hrec Hrest ltac:(lia) Hok ltac:(lia)) as (q & Q1 & Q2).
        exists q. split; [now right|exact Q2].
    + inversion Hw; subst; clear Hw.
      destruct (IH r r1 rest' e l Hrec Hrest ltac:(lia) Hok Hlt) as (q & Q1 & Q2).
      exists q. split; [now right|exact Q2].
Qed.

(* state discipline: the walk never produces an Inflight packet, and marks everything in the ranges *)
Definition noinfl (pn : Z) (ps : list pkt) : Prop :=
  forall p, In p ps -> p_pn p = pn -> is_inflight p = false.

Lemma ack_walk_states rs ps : forall r r1 ps' e l,
  ack_walk r ps rs = (r1, ps', e, l) ->
  (forall pn, noinfl pn ps -> noinfl pn ps') /\
  (forall pn, in_ranges pn rs = true -> noinfl pn ps') /\
  (forall q, In q ps' -> is_inflight q = true -> In q ps) /\
  map p_pn ps' = map p_pn ps /\
  (forall q, In q ps' -> p_elic q = true -> is_inflight q = true -> In q ps).
Proof.
  induction ps as [|p rest IH]; intros r r1 ps' e l Hw; cbn [ack_walk] in Hw.
  - inversion Hw; subst. repeat split; auto; intros; intros q Hq; inversion Hq.
  - destruct (ack_walk r rest rs) as [[[r0 rest'] e0] l0] eqn:Hrec.
    destruct (IH r r0 rest' e0 l0 Hrec) as (A1 & A2 & A3 & A4 & A5).
    destruct (in_ranges (p_pn p) rs && negb (is_acked p)) eqn:Hc; inversion Hw; subst; clear Hw.
    + repeat split.
      * intros pn Hn q [<-|Hq] Hpn; [reflexivity|].
        apply (A1 pn); auto. intros x Hx. apply Hn. now right.
      * intros pn Hr q [<-|Hq] Hpn; [reflexivity|]. now apply (A2 pn).
      * intros q [<-|Hq] Hi; [discriminate Hi|]. right. now apply A3.
      * cbn [map]. now rewrite A4.
      * intros q [<-|Hq] He Hi; [discriminate Hi|]. right. now apply A3.
    + repeat split.
      * intros pn Hn q [<-|Hq] Hpn; [apply Hn; [now left|exact Hpn]|].
        apply (A1 pn); auto. intros x Hx. apply Hn. now right.
      * intros pn Hr q [<-|Hq] Hpn; [|now apply (A2 pn)].
        apply andb_false_iff in Hc. destruct Hc as [Hc|Hc]; [congruence|].
        apply negb_false_iff in Hc. unfold is_acked, is_inflight in *. destruct (p_st p); auto; discriminate.
      * intros q [<-|Hq] Hi; [now left|]. right. now apply A3.
      * cbn [map]. now rewrite A4.
      * intros q [<-|Hq] He Hi; [now left|]. right. now apply A3.
Qed.

(* ------------------------------------------------------------------ *)
(* pop_front *)

Lemma pop_front_incl ps : forall p, In p (pop_front ps) -> In p ps.
Proof.
  induction ps as [|a rest IH]; cbn [pop_front]; [auto|].
  destruct (is_inflight a); [auto|]. intros p Hp. right. now apply IH.
Qed.

Lemma pop_front_flight ps : flight (pop_front ps) = flight ps.
Proof.
  induction ps as [|a rest IH]; cbn [pop_front flight]; [reflexivity|].
  destruct (is_inflight a) eqn:E; [reflexivity|].
  rewrite IH. unfold flight1. rewrite E, andb_false_r. lia.
Qed.

Lemma pop_front_sizes ps : sizes_ok ps -> sizes_ok (pop_front ps).
Proof.
  intro H. apply Forall_forall. intros p Hp. apply pop_front_incl in Hp.
  revert p Hp. now apply Forall_forall.
Qed.

Lemma pop_front_keeps_inflight ps : forall p, In p ps -> is_inflight p = true -> In p (pop_front ps).
Proof.
  induction ps as [|a rest IH]; cbn [pop_front]; [auto|].
  intros p [<-|Hp] Hi; [rewrite Hi; now left|].
  destruct (is_inflight a); [now right|now apply IH].
Qed.

(* ------------------------------------------------------------------ *)
(* the detection pass *)

(* the filter of the pass: Inflight, and (repaired code) numbered below the largest acknowledged *)
Definition below (fx : bool) (la : Z) (p : pkt) : Prop := fx = true -> p_pn p < la.

Lemma pass_filter fx la p :
  is_inflight p && (negb fx || (p_pn p <? la)) = true <-> is_inflight p = true /\ below fx la p.
Proof.
  unfold below. rewrite andb_true_iff. destruct fx; cbn [negb orb].
  - rewrite Z.ltb_lt. split; intros (A & B); split; auto.
  - split; intros (A & B); split; auto. intro; discriminate.
Qed.

Lemma detect_walk_spec fx la lst ld li ps : forall idx ps' lost lt,
  detect_walk fx la ps idx lst ld li = (ps', lost, lt) ->
  sizes_ok ps ->
  flight ps' = flight ps - counted_sum (map snd lost) /\
  0 <= counted_sum (map snd lost) <= flight ps /\
  sizes_ok ps' /\ sizes_ok (map snd lost) /\
  map p_pn ps' = map p_pn ps.
Proof.
  induction ps as [|p rest IH]; intros idx ps' lost lt Hw Hs; cbn [detect_walk] in Hw.
  - inversion Hw; subst. cbn. repeat split; try lia; constructor.
  - destruct (detect_walk fx la rest (idx + 1) lst ld li) as [[rest' lost0] lt0] eqn:Hrec.
    inversion Hs as [|? ? Hp Hrest]; subst.
    destruct (IH (idx + 1) rest' lost0 lt0 Hrec Hrest) as (A1 & A2 & A3 & A4 & A5).
    pose proof (flight1_nonneg p Hp) as Hp1.
    destruct (is_inflight p && (negb fx || (p_pn p <? la))) eqn:Ec.
    + apply pass_filter in Ec. destruct Ec as (Ei & _).
      destruct ((p_time p <? lst) || (idx + PACKET_THRESHOLD <=? li)); inversion Hw; subst; clear Hw.
      * cbn [flight map snd counted_sum]. rewrite flight1_set_retx.
        assert (Hc : (if p_cc (set_st p Retx) then p_size (set_st p Retx) else 0) = flight1 p)
          by (unfold flight1, set_st; cbn; rewrite Ei, andb_true_r; reflexivity).
        rewrite Hc. repeat split; try lia.
        -- constructor; [exact Hp|exact A3].
        -- constructor; [exact Hp|exact A4].
        -- now rewrite A5.
      * cbn [flight map]. repeat split; try lia; [constructor; assumption|assumption|now rewrite A5].
    + inversion Hw; subst; clear Hw.
      cbn [flight map]. repeat split; try lia; [constructor; assumption|assumption|now rewrite A5].
Qed.

(* what a pass may report (the loss rule exactly as coded, by deque index; in the repaired variant
   only packets numbered below [la]), state discipline, and the loss time left behind *)
Lemma detect_walk_rule fx la lst ld li ps : forall idx ps' lost lt,
  detect_walk fx la ps idx lst ld li = (ps', lost, lt) ->
  (forall i q, In (i, q) lost ->
     exists p, nth_error ps (Z.to_nat (i - idx)) = Some p /\ idx <= i /\ is_inflight p = true /\ q = set_st p Retx /\
               (p_time p < lst \/ i + PACKET_THRESHOLD <= li) /\ below fx la p) /\
  (forall p, In p ps -> is_inflight p = true -> below fx la p -> p_time p < lst ->
             In (p_pn p) (map (fun x => p_pn (snd x)) lost)) /\
  (forall pn, noinfl pn ps -> noinfl pn ps') /\
  (forall q, In q ps' -> is_inflight q = true -> In q ps) /\
  ((exists q, In q ps' /\ is_inflight q = true /\ below fx la q) -> lt <> None) /\
  (forall t, lt = Some t -> exists q, In q ps' /\ is_inflight q = true /\ t <= p_time q + ld /\ below fx la q).
Proof.
  induction ps as [|p rest IH]; intros idx ps' lost lt Hw; cbn [detect_walk] in Hw.
  - inversion Hw; subst.
    split; [intros i q []|]. split; [intros p []|]. split; [intros pn _ q []|]. split; [intros q []|].
    split; [intros (q & [] & _)|intros t Ht; discriminate].
  - destruct (detect_walk fx la rest (idx + 1) lst ld li) as [[rest' lost0] lt0] eqn:Hrec.
    destruct (IH (idx + 1) rest' lost0 lt0 Hrec) as (A1 & A2 & A3 & A4 & A5 & A6).
    assert (Hshift : forall i q, In (i, q) lost0 ->
       exists p0, nth_error (p :: rest) (Z.to_nat (i - idx)) = Some p0 /\ idx <= i /\ is_inflight p0 = true /\
                  q = set_st p0 Retx /\ (p_time p0 < lst \/ i + PACKET_THRESHOLD <= li) /\ below fx la p0).
    { intros i q Hq. destruct (A1 i q Hq) as (p0 & N & L & R).
      exists p0. split; [|split; [lia|exact R]].
      replace (Z.to_nat (i - idx)) with (S (Z.to_nat (i - (idx + 1)))) by lia. exact N. }
    destruct (is_inflight p && (negb fx || (p_pn p <? la))) eqn:Ec.
    + apply pass_filter in Ec. destruct Ec as (Ei & Eb).
      destruct ((p_time p <? lst) || (idx + PACKET_THRESHOLD <=? li)) eqn:Er; inversion Hw; subst; clear Hw.
      * split; [|split; [|split; [|split; [|split]]]].
        -- intros i q [Hq|Hq]; [|now apply Hshift].
           inversion Hq; subst. exists p. replace (i - i) with 0 by lia. cbn.
           apply orb_true_iff in Er.
           split; [reflexivity|]. split; [lia|]. split; [exact Ei|]. split; [reflexivity|]. split; [|exact Eb].
           destruct Er as [Er|Er]; [left; now apply Z.ltb_lt|right; now apply Z.leb_le].
        -- intros q [<-|Hq] Hi Hb Ht; cbn [map snd]; [left; reflexivity|right; now apply A2].
        -- intros pn Hn q [<-|Hq] Hpn; [reflexivity|]. apply (A3 pn); auto. intros x Hx. apply Hn. now right.
        -- intros q [<-|Hq] Hi; [discriminate Hi|]. right. now apply A4.
        -- intros (q & [<-|Hq] & Hi & Hb); [discriminate Hi|]. apply A5. now exists q.
        -- intros t Ht. destruct (A6 t Ht) as (q & Q1 & Q2). exists q. split; [now right|exact Q2].
      * apply orb_false_iff in Er. destruct Er as (Er1 & Er2). apply Z.ltb_ge in Er1.
        split; [|split; [|split; [|split; [|split]]]].
        -- exact Hshift.
        -- intros q [<-|Hq] Hi Hb Ht; [lia|now apply A2].
        -- intros pn Hn q [<-|Hq] Hpn; [apply Hn; [now left|exact Hpn]|].
           apply (A3 pn); auto. intros x Hx. apply Hn. now right.
        -- intros q [<-|Hq] Hi; [now left|]. right. now apply A4.
        -- intros _. unfold opt_min. destruct lt0; discriminate.
        -- intros t Ht. unfold opt_min in Ht. destruct lt0 as [t0|].
           ++ inversion Ht; subst. destruct (Z_le_gt_dec t0 (p_time p + ld)) as [Hl|Hl].
              ** destruct (A6 t0 eq_refl) as (q & Q1 & Q2 & Q3 & Q4). exists q. split; [now right|split; [exact Q2|split; [lia|exact Q4]]].
              ** exists p. split; [now left|split; [exact Ei|split; [lia|exact Eb]]].
           ++ inversion Ht; subst. exists p. split; [now left|split; [exact Ei|split; [lia|exact Eb]]].
    + assert (En : ~ (is_inflight p = true /\ below fx la p))
        by (intro X; apply pass_filter in X; congruence).
      inversion Hw; subst; clear Hw.
      split; [|split; [|split; [|split; [|split]]]].
      * exact Hshift.
      * intros q [<-|Hq] Hi Hb Ht; [exfalso; apply En; now split|now apply A2].
      * intros pn Hn q [<-|Hq] Hpn; [apply Hn; [now left|exact Hpn]|].
        apply (A3 pn); auto. intros x Hx. apply Hn. now right.
      * intros q [<-|Hq] Hi; [now left|]. right. now apply A4.
      * intros (q & [<-|Hq] & Hi & Hb); [exfalso; apply En; now split|]. apply A5. now exists q.
      * intros t Ht. destruct (A6 t Ht) as (q & Q1 & Q2). exists q. split; [now right|exact Q2].
Qed.

(* ------------------------------------------------------------------ *)
(* discard *)

Lemma discard_sum_flight ps : discard_sum (filter is_inflight ps) = flight ps.
Proof.
  induction ps as [|p rest IH]; cbn [filter flight discard_sum]; [reflexivity|].
  destruct (is_inflight p) eqn:E; cbn [discard_sum].
  - rewrite IH. unfold flight1. rewrite E.
    assert (pstate_eqb (p_st p) Retx = false) by (unfold is_inflight in E; destruct (p_st p); auto; discriminate).
    rewrite H. cbn [negb]. reflexivity.
  - rewrite IH. unfold flight1. rewrite E, andb_false_r. lia.
Qed.

Lemma filter_sizes (f : pkt -> bool) ps : sizes_ok ps -> sizes_ok (filter f ps).
Proof.
  intro H. apply Forall_forall. intros p Hp. apply filter_In in Hp. destruct Hp as (Hp & _).
  revert p Hp. now apply Forall_forall.
Qed.
