(* C12 — stream limits, stream direction and final size are enforced.
   Only the property theorems live here; each is closed by a lemma of Proofs/Sid.v or
   Proofs/StreamCtl.v and its assumptions are printed for the audit. *)
From Coq Require Import List NArith ZArith Bool.
From GQ Require Import Model.StreamCtl Proofs.Sid Proofs.StreamCtl.
Import ListNotations.
Local Open Scope N_scope.

(* opened count <= the peer's current maximum, for every history of allocations and MAX_STREAMS
   updates (0-RTT rejection is the stated guard) *)
Theorem c12_open_bound : forall r ops s,
  Forall no_reject ops -> Linv s -> Linv (fst (l_exec r s ops)).
Proof. exact p_c12_open_bound. Qed.

Theorem c12_open_ids : forall r s d s' sid,
  poll_alloc_sid r s d = (s', AllocSid sid) ->
  sid = sid_of r d (pget (l_next s) d) /\ sid_idx sid < pget (l_max s) d
  /\ pget (l_next s') d = pget (l_next s) d + 1.
Proof. exact p_c12_open_ids. Qed.

Theorem c12_open_limit_is_granted : forall r ops s d,
  Forall no_reject ops -> pget (l_max (fst (l_exec r s ops))) d = granted (pget (l_max s) d) d ops.
Proof. exact p_c12_limit_is_granted. Qed.

(* accepted index <= max; the full statement (< max) holds outside the known class F14 *)
Theorem c12_accept_bound : forall s d idx s' res up,
  try_accept_sid false s d idx = (s', res, up) ->
  idx <> pget (r_max s) d ->                         (* ~ KnownClass F14 *)
  (forall m, res <> AccExceed m) -> idx < pget (r_max s) d.
Proof. exact p_c12_accept_bound. Qed.

Theorem c12_accept_le : forall s d idx s' res up,
  try_accept_sid false s d idx = (s', res, up) ->
  (forall m, res <> AccExceed m) -> idx <= pget (r_max s) d.
Proof. exact p_c12_accept_le. Qed.

Theorem c12_accept_exact : forall strict s d idx,
  (exists m, snd (fst (try_accept_sid strict s d idx)) = AccExceed m)
  <-> over_limit strict idx (pget (r_max s) d) = true.
Proof. exact p_c12_accept_exact. Qed.

(* F14: with limit 0 the peer's stream 0 is accepted *)
Theorem c12_accept_bound_refuted : exists s d idx s' res up,
  try_accept_sid false s d idx = (s', res, up) /\ (forall m, res <> AccExceed m) /\ ~ idx < pget (r_max s) d.
Proof.
  exists (mkrsid (0, 0) (0, 0) Demand), Bi, 0. eexists _, _, _. split; [vm_compute; reflexivity|].
  split; [intros m; discriminate|vm_compute; discriminate].
Qed.

(* the same witness on the whole model: server, max_streams_uni = 0, client uni stream 2 accepted *)
Example c12_f14_replay :
  run_streams [1; 0; 0; 2; 0; 100000; 100; 100; 100; 5; 5; 100000; 700; 1000; 0; 0; 0; 0; 0; 0; 0]%Z
              [(0, [0%Z]); (7, [2; 0; 1; 0]%Z); (7, [6; 0; 1; 0]%Z)]
  = [[1; 0]; [0; 1; 0]; [4; 0; 0]]%Z.
Proof. vm_compute. reflexivity. Qed.

Theorem c12_accept_bound_rfc : forall s d idx s' res up,
  try_accept_sid true s d idx = (s', res, up) ->
  (forall m, res <> AccExceed m) -> idx < pget (r_max s) d.
Proof. exact p_c12_accept_bound_strict. Qed.

(* direction: frame kinds on send-only / receive-only streams give StreamState, and only those *)
Theorem c12_direction : forall v s sid,
  d_closed s = false -> sid_dir sid = Uni ->
  (sid_role sid = d_role s ->
     forall off len fin final err w,
       ds_step v s (OStream sid off len fin) = (set_closed s, [5; 0; 0]%Z)
       /\ ds_step v s (OReset sid err final) = (set_closed s, [5; 0; 0]%Z)
       /\ ds_step v s (OSDBlocked sid w) = (set_closed s, [5; 0; 0]%Z))
  /\ (sid_role sid <> d_role s ->
     forall err w,
       ds_step v s (OStop sid err) = (set_closed s, [5; 0; 0]%Z)
       /\ ds_step v s (OMaxSD sid w) = (set_closed s, [5; 0; 0]%Z)).
Proof. exact p_c12_direction_step. Qed.

Theorem c12_direction_only : forall s sid side,
  ds_check_sid s sid side = inr EStreamState ->
  sid_dir sid = Uni /\ (if side then sid_role sid = d_role s else sid_role sid <> d_role s).
Proof. exact p_c12_direction_only. Qed.

(* final size: data beyond it, a FIN or RESET that changes it, a FIN or RESET below received data *)
Theorem c12_final_size_known : forall v r f off len fin,
  rc_phase r = PSizeKnown f ->
  (f < off + len \/ (fin = true /\ off + len <> f)) ->
  rc_recv_data v r off len fin = inr EFinalSize.
Proof. exact p_c12_final_size_known. Qed.

Theorem c12_final_size_shrink : forall v r off len,
  rc_phase r = PRecv -> off + len < largest (rc_buf r) ->
  final_or_flow v (rc_recv_data v r off len true).
Proof. exact p_c12_final_size_shrink. Qed.

Theorem c12_final_size_reset : forall v r final,
  match rc_phase r with
  | PSizeKnown f => final <> f -> rc_recv_reset v r final = inr EFinalSize
  | PRecv => final < rc_largest r ->
             rc_recv_reset v r final = inr EFinalSize
             \/ (fix13 v = true /\ rc_recv_reset v r final = inr EFlowControl)
  | _ => True
  end.
Proof. exact p_c12_final_size_reset. Qed.

Theorem c12_final_size_only : forall v r off len fin,
  rc_recv_data v r off len fin = inr EFinalSize ->
  match rc_phase r with
  | PRecv => fin = true /\ off + len < largest (rc_buf r)
  | PSizeKnown f => f < off + len \/ (fin = true /\ off + len <> f)
  | _ => False
  end.
Proof. exact p_c12_final_size_only. Qed.

Theorem c12_final_size_stable : forall v r f off len fin r',
  rc_phase r = PSizeKnown f -> rc_recv_data v r off len fin = inl r' ->
  rc_phase r' = PSizeKnown f \/ (rc_phase r' = PDataRcvd /\ rc_inset r' = false).
Proof. exact p_c12_final_size_stable. Qed.

(* implicit open: for every history, yielded ++ queued is exactly the ids of indices 0..next-1,
   in order and without repetition *)
Theorem c12_implicit_open : forall strict peer ops s,
  r_next s = (0, 0) -> Rinv peer (rl_exec strict peer ops (rl_init s)).
Proof. exact p_c12_implicit_open. Qed.

Theorem c12_implicit_once : forall strict peer ops s d,
  r_next s = (0, 0) ->
  NoDup (qget (rl_y (rl_exec strict peer ops (rl_init s))) d ++ qget (rl_q (rl_exec strict peer ops (rl_init s))) d).
Proof. exact p_c12_implicit_once. Qed.

Theorem c12_implicit_all : forall strict s d idx s' first last up,
  try_accept_sid strict s d idx = (s', AccNew first last, up) ->
  need_create first last = range_nat (pget (r_next s) d) (N.to_nat (idx + 1 - pget (r_next s) d))
  /\ pget (r_next s') d = idx + 1.
Proof. exact p_c12_implicit_all. Qed.

(* non-vacuity: a history with a jump to index 3, an old index, pops, a refused index, and local
   opens that hit the limit and continue after MAX_STREAMS *)
Example c12_nonvacuous :
  let x := rl_exec false Client [RUse Bi 3; RPop Bi; RUse Bi 1; RUse Uni 0; RUse Bi 9; RPop Bi; RUse Bi 4; RPop Uni]
                   (rl_init (mkrsid (5, 1) (0, 0) (Consistent (5, 1)))) in
  qget (rl_y x) Bi = [0; 4] /\ qget (rl_q x) Bi = [8; 12; 16] /\ qget (rl_y x) Uni = [2]
  /\ snd (l_exec Server (mklsid (1, 0) (0, 0)) [LAlloc Bi; LAlloc Bi; LIncrease Bi 3; LAlloc Bi; LAlloc Uni]) = [1; 5].
Proof. vm_compute. repeat split. Qed.

Print Assumptions c12_open_bound.
Print Assumptions c12_open_ids.
Print Assumptions c12_open_limit_is_granted.
Print Assumptions c12_accept_bound.
Print Assumptions c12_accept_le.
Print Assumptions c12_accept_exact.
Print Assumptions c12_accept_bound_refuted.
Print Assumptions c12_f14_replay.
Print Assumptions c12_accept_bound_rfc.
Print Assumptions c12_direction.
Print Assumptions c12_direction_only.
Print Assumptions c12_final_size_known.
Print Assumptions c12_final_size_shrink.
Print Assumptions c12_final_size_reset.
Print Assumptions c12_final_size_only.
Print Assumptions c12_final_size_stable.
Print Assumptions c12_implicit_open.
Print Assumptions c12_implicit_once.
Print Assumptions c12_implicit_all.
Print Assumptions c12_nonvacuous.
