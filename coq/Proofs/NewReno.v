(* Lemmas about the NewReno model: window floor, no underflow, who may move the window. *)
From Coq Require Import List ZArith Bool Lia.
From GQ Require Import Model.NewReno.
Import ListNotations.
Local Open Scope Z_scope.

Ltac Zify.zify_post_hook ::= Z.div_mod_to_equations.
Ltac rcbn := cbn [mds cwnd ssthresh bif rstart ce r_sat r_panic fst snd negb andb orb].
Tactic Notation "rcbn" "in" hyp_list(H) := cbn [mds cwnd ssthresh bif rstart ce r_sat r_panic fst snd negb andb orb] in H.

(* the part of the controller state the arithmetic invariants talk about *)
Definition reno_ok (m : Z) (r : reno) : Prop :=
  mds r = m /\ 0 < m /\ 2 * m <= cwnd r /\ 0 <= bif r /\ r_panic r = false.

Lemma reno_new_ok m : 0 < m -> reno_ok m (reno_new m).
Proof. intro H. unfold reno_ok, reno_new; cbn [mds cwnd bif r_panic]. repeat split; lia. Qed.

Lemma bif_sat_sub_fields r n :
  mds (bif_sat_sub r n) = mds r /\ cwnd (bif_sat_sub r n) = cwnd r /\
  ssthresh (bif_sat_sub r n) = ssthresh r /\ rstart (bif_sat_sub r n) = rstart r /\
  ce (bif_sat_sub r n) = ce r /\ r_panic (bif_sat_sub r n) = r_panic r.
Proof. unfold bif_sat_sub, set_bif. destruct (bif r <? n); rcbn; repeat split. Qed.

(* exact subtraction, no saturation, when enough is in flight *)
Lemma bif_sat_sub_exact r n :
  n <= bif r -> bif (bif_sat_sub r n) = bif r - n /\ r_sat (bif_sat_sub r n) = r_sat r.
Proof.
  intro H. unfold bif_sat_sub, set_bif.
  destruct (bif r <? n) eqn:E; [apply Z.ltb_lt in E; lia|]. rcbn. split; [reflexivity|apply orb_false_r].
Qed.

Lemma bif_sat_sub_nonneg r n : 0 <= bif r -> 0 <= bif (bif_sat_sub r n).
Proof.
  intro H. unfold bif_sat_sub, set_bif. destruct (bif r <? n) eqn:E; rcbn; [lia|apply Z.ltb_ge in E; lia].
Qed.

Lemma bif_sub_exact r n :
  n <= bif r ->
  bif (bif_sub r n) = bif r - n /\ r_sat (bif_sub r n) = r_sat r /\ r_panic (bif_sub r n) = r_panic r /\
  mds (bif_sub r n) = mds r /\ cwnd (bif_sub r n) = cwnd r /\ ssthresh (bif_sub r n) = ssthresh r /\
  rstart (bif_sub r n) = rstart r.
Proof.
  intro H. unfold bif_sub, set_bif.
  destruct (bif r <? n) eqn:E; [apply Z.ltb_lt in E; lia|]. rcbn.
  repeat split. apply orb_false_r.
Qed.

Lemma reno_ok_bif_sat_sub m r n : reno_ok m r -> reno_ok m (bif_sat_sub r n).
Proof.
  intros (A & B & C & D & E).
  destruct (bif_sat_sub_fields r n) as (F1 & F2 & F3 & F4 & F5 & F6).
  unfold reno_ok. rewrite F1, F2, F6. repeat split; auto. now apply bif_sat_sub_nonneg.
Qed.

(* ---- on_packet_acked ---- *)
Lemma on_packet_acked_ok m r p : 0 <= p_size p -> reno_ok m r -> reno_ok m (on_packet_acked r p).
Proof.
  intros Hs H. unfold on_packet_acked.
  destruct (negb (p_cc p)); [exact H|].
  set (r1 := if pstate_eqb (p_st p) Inflight then bif_sat_sub r (p_size p) else r).
  assert (H1 : reno_ok m r1) by (subst r1; destruct (pstate_eqb _ _); [now apply reno_ok_bif_sat_sub|exact H]).
  clearbody r1. destruct H1 as (A & B & C & D & E).
  destruct (in_recovery r1 (p_time p)); [repeat split; auto|].
  destruct (below_ssthresh r1); unfold set_cwnd, reno_ok; rcbn.
  - repeat split; auto; try lia. now rewrite E.
  - assert (0 <= mds r1 * p_size p / cwnd r1) by (apply Z.div_pos; nia).
    assert (Hz : (cwnd r1 =? 0) = false) by (apply Z.eqb_neq; lia).
    repeat split; auto; try lia. now rewrite E, Hz.
Qed.

Lemma on_packet_acked_mono r p m : 0 <= p_size p -> reno_ok m r -> cwnd r <= cwnd (on_packet_acked r p).
Proof.
  intros Hs (A & B & C & D & E). unfold on_packet_acked.
  destruct (negb (p_cc p)); [lia|].
  set (r1 := if pstate_eqb (p_st p) Inflight then bif_sat_sub r (p_size p) else r).
  assert (H1 : cwnd r1 = cwnd r /\ mds r1 = mds r).
  { subst r1. destruct (pstate_eqb _ _); [|auto]. destruct (bif_sat_sub_fields r (p_size p)) as (F1 & F2 & _); auto. }
  clearbody r1. destruct H1 as (H1 & H2).
  destruct (in_recovery r1 (p_time p)); [lia|].
  destruct (below_ssthresh r1); unfold set_cwnd; rcbn; [lia|].
  assert (0 <= mds r1 * p_size p / cwnd r1) by (apply Z.div_pos; nia). lia.
Qed.

(* the window grows only for a counted packet sent after the recovery start *)
Lemma on_packet_acked_grows r p :
  cwnd r < cwnd (on_packet_acked r p) -> p_cc p = true /\ in_recovery r (p_time p) = false.
Proof.
  unfold on_packet_acked. destruct (p_cc p) eqn:Ec; cbn [negb]; [|lia].
  set (r1 := if pstate_eqb (p_st p) Inflight then bif_sat_sub r (p_size p) else r).
  assert (H1 : cwnd r1 = cwnd r /\ rstart r1 = rstart r).
  { subst r1. destruct (pstate_eqb _ _); [|auto]. destruct (bif_sat_sub_fields r (p_size p)) as (F1 & F2 & F3 & F4 & _); auto. }
  clearbody r1. destruct H1 as (H1 & H2).
  assert (Hr : in_recovery r1 (p_time p) = in_recovery r (p_time p)) by (unfold in_recovery; now rewrite H2).
  rewrite Hr. destruct (in_recovery r (p_time p)); [lia|]. auto.
Qed.

Lemma on_packet_acked_fields r p :
  mds (on_packet_acked r p) = mds r /\ rstart (on_packet_acked r p) = rstart r /\
  ssthresh (on_packet_acked r p) = ssthresh r /\ ce (on_packet_acked r p) = ce r.
Proof.
  unfold on_packet_acked. destruct (negb (p_cc p)); [auto|].
  set (r1 := if pstate_eqb (p_st p) Inflight then bif_sat_sub r (p_size p) else r).
  assert (H1 : mds r1 = mds r /\ rstart r1 = rstart r /\ ssthresh r1 = ssthresh r /\ ce r1 = ce r).
  { subst r1. destruct (pstate_eqb _ _); [|auto]. destruct (bif_sat_sub_fields r (p_size p)) as (F1 & F2 & F3 & F4 & F5 & _); auto. }
  clearbody r1. destruct H1 as (A & B & C & D).
  destruct (in_recovery r1 (p_time p)); [auto|].
  destruct (below_ssthresh r1); unfold set_cwnd; rcbn; auto.
Qed.

(* bytes_in_flight: exactly the size of a counted Inflight packet leaves, nothing else *)
Lemma on_packet_acked_bif r p :
  (if p_cc p && pstate_eqb (p_st p) Inflight then p_size p else 0) <= bif r ->
  bif (on_packet_acked r p) = bif r - (if p_cc p && pstate_eqb (p_st p) Inflight then p_size p else 0) /\
  r_sat (on_packet_acked r p) = r_sat r.
Proof.
  unfold on_packet_acked. destruct (p_cc p); cbn [negb andb]; [|intros; split; [lia|reflexivity]].
  destruct (pstate_eqb (p_st p) Inflight).
  - intro H. destruct (bif_sat_sub_exact r (p_size p) H) as (A & B).
    destruct (in_recovery _ _); [auto|]. destruct (below_ssthresh _); unfold set_cwnd; rcbn; auto.
  - intros _. destruct (in_recovery _ _); [split; [lia|reflexivity]|].
    destruct (below_ssthresh _); unfold set_cwnd; rcbn; split; try lia; reflexivity.
Qed.

(* ---- on_congestion_event ---- *)
Lemma congestion_event_in_recovery r t now : in_recovery r t = true -> on_congestion_event r t now = r.
Proof. intro H. unfold on_congestion_event. now rewrite H. Qed.

Lemma congestion_event_ok m r t now : reno_ok m r -> reno_ok m (on_congestion_event r t now).
Proof.
  intros (A & B & C & D & E). unfold on_congestion_event.
  destruct (in_recovery r t); [repeat split; auto|].
  assert (Hlt : (cwnd r <? mds r) = false) by (apply Z.ltb_ge; lia).
  unfold reno_ok; rcbn. rewrite Hlt, E. repeat split; auto; lia.
Qed.

Lemma congestion_event_fields r t now :
  mds (on_congestion_event r t now) = mds r /\ bif (on_congestion_event r t now) = bif r /\
  r_sat (on_congestion_event r t now) = r_sat r /\ ce (on_congestion_event r t now) = ce r.
Proof. unfold on_congestion_event. destruct (in_recovery r t); rcbn; auto. Qed.

(* one event takes exactly one datagram off the window (floor two datagrams) and opens a recovery period *)
Lemma congestion_event_effect m r t now :
  reno_ok m r ->
  let r' := on_congestion_event r t now in
  (in_recovery r t = true /\ r' = r) \/
  (in_recovery r t = false /\ cwnd r' = Z.max (cwnd r - m) (2 * m) /\ rstart r' = Some now).
Proof.
  intros (A & B & C & D & E). rcbn. unfold on_congestion_event.
  destruct (in_recovery r t); [left; auto|right].
  assert (Hlt : (cwnd r <? mds r) = false) by (apply Z.ltb_ge; lia).
  rewrite Hlt. rcbn. rewrite A. auto.
Qed.

Lemma congestion_event_le m r t now : reno_ok m r -> cwnd (on_congestion_event r t now) <= cwnd r.
Proof.
  intro H. destruct (congestion_event_effect m r t now H) as [(_ & ->)|(_ & -> & _)]; [lia|].
  destruct H as (A & B & C & _). lia.
Qed.

(* after an event at [now], a further event for a packet sent no later than [now] is ignored *)
Lemma congestion_event_once r t now t' now' :
  t' <= now -> in_recovery r t = false ->
  on_congestion_event (on_congestion_event r t now) t' now' = on_congestion_event r t now.
Proof.
  intros H1 H2. apply congestion_event_in_recovery.
  unfold on_congestion_event. rewrite H2. unfold in_recovery; rcbn. now apply Z.leb_le.
Qed.

(* ---- process_ecn ---- *)
Lemma process_ecn_ok m r cev t e now : reno_ok m r -> reno_ok m (process_ecn r cev t e now).
Proof.
  intro H. unfold process_ecn. destruct cev as [c|]; [|exact H].
  destruct (ce r e <? c); [|exact H]. apply congestion_event_ok.
  destruct H as (A & B & C & D & E). repeat split; auto.
Qed.

Lemma process_ecn_fields r cev t e now :
  mds (process_ecn r cev t e now) = mds r /\ bif (process_ecn r cev t e now) = bif r /\
  r_sat (process_ecn r cev t e now) = r_sat r.
Proof.
  unfold process_ecn. destruct cev as [c|]; [|auto]. destruct (ce r e <? c); [|auto].
  match goal with |- context [on_congestion_event ?x t now] =>
    destruct (congestion_event_fields x t now) as (A & B & C & _) end.
  rewrite A, B, C. rcbn. auto.
Qed.

Lemma process_ecn_effect m r cev t e now :
  reno_ok m r ->
  let r' := process_ecn r cev t e now in
  (cwnd r' = cwnd r /\ rstart r' = rstart r) \/
  (in_recovery r t = false /\ cwnd r' = Z.max (cwnd r - m) (2 * m) /\ rstart r' = Some now).
Proof.
  intro H. rcbn. unfold process_ecn. destruct cev as [c|]; [|left; auto].
  destruct (ce r e <? c); [|left; auto].
  set (r0 := mkreno _ _ _ _ _ _ _ _).
  assert (H0 : reno_ok m r0) by (destruct H as (A & B & C & D & E); repeat split; auto).
  destruct (congestion_event_effect m r0 t now H0) as [(_ & ->)|(X & Y & Z0)]; [left; auto|right].
  auto.
Qed.

(* ---- on_packets_lost ---- *)
Lemma lost_loop_fields r lost last :
  let r1 := fst (lost_loop r lost last) in
  mds r1 = mds r /\ cwnd r1 = cwnd r /\ ssthresh r1 = ssthresh r /\ rstart r1 = rstart r /\
  ce r1 = ce r /\ r_panic r1 = r_panic r.
Proof.
  revert r last. induction lost as [|p rest IH]; intros r last; cbn [lost_loop fst]; [repeat split|].
  destruct (p_cc p); [|apply IH].
  specialize (IH (bif_sat_sub r (p_size p))
                 (match last with Some t => Some (Z.max t (p_time p)) | None => Some (p_time p) end)).
  cbn zeta in IH.
  destruct (bif_sat_sub_fields r (p_size p)) as (F1 & F2 & F3 & F4 & F5 & F6).
  destruct IH as (A & B & C & D & E & F). cbn zeta. rewrite A, B, C, D, E, F. repeat split; assumption.
Qed.

Lemma lost_loop_nonneg r lost last : 0 <= bif r -> 0 <= bif (fst (lost_loop r lost last)).
Proof.
  revert r last. induction lost as [|p rest IH]; intros r last H; cbn [lost_loop fst]; [exact H|].
  destruct (p_cc p); [|now apply IH]. apply IH. now apply bif_sat_sub_nonneg.
Qed.

(* the last-loss time is bounded by any bound on the send times of the lost packets *)
Lemma lost_loop_last r lost last b :
  (forall p, In p lost -> p_time p <= b) -> (forall t, last = Some t -> t <= b) ->
  forall t, snd (lost_loop r lost last) = Some t -> t <= b.
Proof.
  revert r last. induction lost as [|p rest IH]; intros r last Hb Hl t; cbn [lost_loop snd]; [apply Hl|].
  destruct (p_cc p); apply IH; auto; try (intros; apply Hb; now right).
  intros t0 Ht. assert (p_time p <= b) by (apply Hb; now left).
  destruct last as [t1|]; inversion Ht; subst; [specialize (Hl t1 eq_refl); lia|lia].
Qed.

Lemma on_packets_lost_ok m r lost pers now : reno_ok m r -> reno_ok m (on_packets_lost r lost pers now).
Proof.
  intro H. unfold on_packets_lost.
  pose proof (lost_loop_fields r lost None) as F. pose proof (lost_loop_nonneg r lost None) as N.
  destruct (lost_loop r lost None) as (r1, last). cbn [fst snd] in N, F. cbn zeta in F.
  destruct H as (A & B & C & D & E). destruct F as (F1 & F2 & F3 & F4 & F5 & F6).
  assert (H1 : reno_ok m r1) by (repeat split; auto; try congruence; lia).
  set (r2 := match last with Some t => on_congestion_event r1 t now | None => r1 end).
  assert (H2 : reno_ok m r2) by (subst r2; destruct last; [now apply congestion_event_ok|exact H1]).
  clearbody r2. destruct pers; [|exact H2].
  destruct H2 as (A2 & B2 & C2 & D2 & E2). unfold reno_ok; rcbn. rewrite A2. repeat split; auto; lia.
Qed.

Lemma on_packets_lost_le m r lost pers now : reno_ok m r -> cwnd (on_packets_lost r lost pers now) <= cwnd r.
Proof.
  intro H. unfold on_packets_lost.
  pose proof (lost_loop_fields r lost None) as F. pose proof (lost_loop_nonneg r lost None) as N.
  destruct (lost_loop r lost None) as (r1, last). cbn [fst snd] in N, F. cbn zeta in F.
  destruct H as (A & B & C & D & E). destruct F as (F1 & F2 & F3 & F4 & F5 & F6).
  assert (H1 : reno_ok m r1) by (repeat split; auto; try congruence; lia).
  set (r2 := match last with Some t => on_congestion_event r1 t now | None => r1 end).
  assert (H2 : reno_ok m r2 /\ cwnd r2 <= cwnd r).
  { subst r2; destruct last; [split; [now apply congestion_event_ok|]|split; [exact H1|lia]].
    pose proof (congestion_event_le m r1 z now H1). lia. }
  clearbody r2. destruct H2 as ((A2 & B2 & C2 & D2 & E2) & L). destruct pers; [rcbn|exact L]. lia.
Qed.

(* without the persistent flag: at most one datagram off the window; nothing at all when every
   lost packet was sent no later than the recovery start *)
Lemma on_packets_lost_single m r lost now :
  reno_ok m r ->
  let r' := on_packets_lost r lost false now in
  Z.max (cwnd r - m) (2 * m) <= cwnd r' /\
  ((forall s, rstart r = Some s -> forall p, In p lost -> p_time p <= s) -> rstart r <> None -> cwnd r' = cwnd r) /\
  (cwnd r' < cwnd r -> rstart r' = Some now).
Proof.
  intro H. rcbn. unfold on_packets_lost.
  pose proof (lost_loop_fields r lost None) as F. pose proof (lost_loop_nonneg r lost None) as N.
  pose proof (fun b Hb => lost_loop_last r lost None b Hb (fun t (E : None = Some t) => ltac:(discriminate))) as L.
  destruct (lost_loop r lost None) as (r1, last). cbn [fst snd] in N, L, F. cbn zeta in F.
  destruct H as (A & B & C & D & E). destruct F as (F1 & F2 & F3 & F4 & F5 & F6).
  assert (H1 : reno_ok m r1) by (repeat split; auto; try congruence; lia).
  destruct last as [t|]; [|rewrite F2; split; [lia|split; [auto|lia]]].
  destruct (congestion_event_effect m r1 t now H1) as [(X & ->)|(X & Y & Z0)].
  - rewrite F2. split; [lia|split; [auto|lia]].
  - rewrite Y, Z0, F2. split; [lia|split; [|auto]].
    intros Hall Hsome. exfalso. destruct (rstart r) as [s|] eqn:Es; [|congruence].
    assert (t <= s) by (apply (L s); [intros p Hp; now apply (Hall s eq_refl)|reflexivity]).
    unfold in_recovery in X. rewrite F4 in X. apply Z.leb_gt in X. lia.
Qed.

Lemma on_packets_lost_fields r lost pers now :
  mds (on_packets_lost r lost pers now) = mds r /\ r_panic (on_packets_lost r lost pers now) = r_panic r \/ True.
Proof. now right. Qed.

(* bytes_in_flight after a loss report: the counted sizes leave, exactly *)
Fixpoint counted_sum (ps : list pkt) : Z :=
  match ps with
  | [] => 0
  | p :: rest => (if p_cc p then p_size p else 0) + counted_sum rest
  end.

Lemma counted_sum_nonneg ps : Forall (fun p => 0 <= p_size p) ps -> 0 <= counted_sum ps.
Proof. induction 1; cbn [counted_sum]; [lia|]. destruct (p_cc x); lia. Qed.

Lemma lost_loop_bif r lost last :
  Forall (fun p => 0 <= p_size p) lost -> counted_sum lost <= bif r ->
  bif (fst (lost_loop r lost last)) = bif r - counted_sum lost /\ r_sat (fst (lost_loop r lost last)) = r_sat r.
Proof.
  revert r last. induction lost as [|p rest IH]; intros r last Hf H; cbn [lost_loop counted_sum fst] in *; [split; [lia|reflexivity]|].
  inversion Hf; subst. pose proof (counted_sum_nonneg rest H3).
  destruct (p_cc p).
  - destruct (bif_sat_sub_exact r (p_size p)) as (A & B); [lia|].
    destruct (IH (bif_sat_sub r (p_size p))
                 (match last with Some t => Some (Z.max t (p_time p)) | None => Some (p_time p) end) H3) as (C & D); [lia|].
    rewrite C, D, A, B. split; [lia|reflexivity].
  - destruct (IH r last H3) as (C & D); [lia|]. rewrite C, D. split; [lia|reflexivity].
Qed.

Lemma on_packets_lost_bif r lost pers now :
  Forall (fun p => 0 <= p_size p) lost -> counted_sum lost <= bif r ->
  bif (on_packets_lost r lost pers now) = bif r - counted_sum lost /\
  r_sat (on_packets_lost r lost pers now) = r_sat r.
Proof.
  intros Hf H. unfold on_packets_lost.
  pose proof (lost_loop_bif r lost None Hf H) as L.
  destruct (lost_loop r lost None) as (r1, last). cbn [fst snd] in L. destruct L as (L1 & L2).
  set (r2 := match last with Some t => on_congestion_event r1 t now | None => r1 end).
  assert (H2 : bif r2 = bif r1 /\ r_sat r2 = r_sat r1).
  { subst r2. destruct last; [|auto]. destruct (congestion_event_fields r1 z now) as (_ & A & B & _). auto. }
  clearbody r2. destruct H2 as (A & B). destruct pers; rcbn; rewrite ?A, ?B, ?L1, ?L2; auto.
Qed.

(* ---- remove_from_bytes_in_flight ---- *)
Fixpoint discard_sum (ps : list pkt) : Z :=
  match ps with
  | [] => 0
  | p :: rest => (if p_cc p && negb (pstate_eqb (p_st p) Retx) then p_size p else 0) + discard_sum rest
  end.

Lemma discard_sum_nonneg ps : Forall (fun p => 0 <= p_size p) ps -> 0 <= discard_sum ps.
Proof. induction 1; cbn [discard_sum]; [lia|]. destruct (p_cc x && _); lia. Qed.

Lemma remove_from_bif_exact r ps :
  Forall (fun p => 0 <= p_size p) ps -> discard_sum ps <= bif r ->
  let r' := remove_from_bif r ps in
  bif r' = bif r - discard_sum ps /\ r_sat r' = r_sat r /\ r_panic r' = r_panic r /\
  mds r' = mds r /\ cwnd r' = cwnd r /\ ssthresh r' = ssthresh r /\ rstart r' = rstart r.
Proof.
  revert r. induction ps as [|p rest IH]; intros r Hf H; cbn [remove_from_bif discard_sum] in *; cbn zeta; [repeat split; lia|].
  inversion Hf; subst. pose proof (discard_sum_nonneg rest H3).
  destruct (p_cc p && negb (pstate_eqb (p_st p) Retx)).
  - destruct (bif_sub_exact r (p_size p)) as (A & B & C & D & E & F & G); [lia|].
    destruct (IH (bif_sub r (p_size p)) H3) as (A' & B' & C' & D' & E' & F' & G'); [lia|].
    rewrite A', B', C', D', E', F', G', A, B, C, D, E, F, G. repeat split; lia.
  - destruct (IH r H3) as (A' & B' & C' & D' & E' & F' & G'); [lia|].
    rewrite A', B', C', D', E', F', G'. repeat split; lia.
Qed.
