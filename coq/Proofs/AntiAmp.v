(* The small-step system of Model/AntiAmp.v: no wake-up of the parked sender is lost, for every
   interleaving of the atomic steps of on_rcvd / grant / abort with the sender's balance() + wait_for. *)
From Coq Require Import List NArith ZArith Bool Lia.
From GQ Require Import Lib.Base Model.AntiAmp.
Import ListNotations.
Local Open Scope N_scope.

Arguments N.add : simpl never.
Arguments N.sub : simpl never.
Arguments N.mul : simpl never.
Arguments N.pow : simpl never.
Arguments N.modulo : simpl never.

Definition signal_pending (y : sys) : Prop := cbit (sa y) = true \/ In NWake (pend y).
Definition changed (y : sys) : Prop := credit (sa y) <> 0 \/ st (sa y) <> 0.

(* what the sender knows is stale only if a signal is still on its way *)
Definition RInv (y : sys) : Prop :=
  match spcv y with
  | SReloadState => credit (sa y) <> 0 -> signal_pending y
  | SWait => changed y -> signal_pending y
  | SParked w0 =>
      (w0 < wakes (sa y) /\ cbit (sa y) = true) \/
      (cbit (sa y) = false /\ reg (sa y) = true /\ w0 = wakes (sa y) /\ (changed y -> In NWake (pend y)))
  | _ => True
  end.

Lemma wake_credit_props a :
  cbit (wake_credit a) = true /\ st (wake_credit a) = st a /\ credit (wake_credit a) = credit a /\
  reg (wake_credit a) = reg a /\ wakes a <= wakes (wake_credit a) /\
  (cbit a = false -> reg a = true -> wakes (wake_credit a) = wakes a + 1) /\
  (cbit a = true -> wake_credit a = a).
Proof.
  unfold wake_credit. destruct (cbit a) eqn:E; cbn [cbit st credit reg wakes].
  - repeat split; try reflexivity; try lia; try discriminate. exact E.
  - repeat split; try reflexivity; try discriminate.
    + destruct (reg a); lia.
    + intros _ ->. reflexivity.
Qed.

Lemma In_remove_nth_other {A} (x : A) i l y :
  nth_error l i = Some y -> In x l -> x <> y -> In x (remove_nth i l).
Proof.
  revert i. induction l as [| h t IH]; intros i Hn Hin Hne; [destruct Hin |].
  destruct i as [| i]; cbn in Hn.
  - injection Hn as ->. destruct Hin as [-> | Hin]; [congruence | exact Hin].
  - unfold remove_nth. cbn [firstn skipn app]. destruct Hin as [-> | Hin]; [left; reflexivity |].
    right. apply (IH i Hn Hin Hne).
Qed.

Lemma sender_keeps_pend y k y' : sender_step y k = Some y' -> pend y' = pend y.
Proof.
  unfold sender_step. intro E.
  destruct (spcv y); repeat match type of E with
    | context [if ?c then _ else _] => destruct c
    | context [let '(_, _) := ?p in _] => destruct p
    end; try discriminate; injection E as <-; reflexivity.
Qed.

Lemma RInv_step y l y' : RInv y -> sstep y l = Some y' -> RInv y'.
Proof.
  intros HI E. destruct l as [n | | | i | k]; cbn [sstep] in E.
  - (* on_rcvd entered *)
    assert (Hy : exists p', y' = mksys (sa y) (pend y ++ p') (spcv y) (gR y + n) (gH y)).
    { destruct (st (sa y) =? 0); injection E as <-; [exists [NAdd n] | exists []; rewrite app_nil_r]; reflexivity. }
    destruct Hy as [p' ->]. unfold RInv, signal_pending, changed in *. cbn [spcv sa pend].
    destruct (spcv y); try exact I.
    + intro H. destruct (HI H) as [C | C]; [left; exact C | right; apply in_or_app; left; exact C].
    + intro H. destruct (HI H) as [C | C]; [left; exact C | right; apply in_or_app; left; exact C].
    + destruct HI as [HI | (C1 & C2 & C3 & C4)]; [left; exact HI | right].
      repeat split; try assumption. intro H. apply in_or_app; left; exact (C4 H).
  - (* grant *)
    destruct (N.eqb_spec (st (sa y)) 0) as [E0 | E0]; injection E as <-; [| exact HI].
    unfold RInv, signal_pending, changed in *. cbn [spcv sa pend set_st cbit credit st reg wakes].
    destruct (spcv y); try exact I.
    + intros _. right. apply in_or_app; right; left; reflexivity.
    + intros _. right. apply in_or_app; right; left; reflexivity.
    + destruct HI as [HI | (C1 & C2 & C3 & C4)]; [left; exact HI | right].
      repeat split; try assumption. intros _. apply in_or_app; right; left; reflexivity.
  - (* abort *)
    destruct (N.eqb_spec (st (sa y)) 0) as [E0 | E0]; injection E as <-; [| exact HI].
    unfold RInv, signal_pending, changed in *. cbn [spcv sa pend set_st cbit credit st reg wakes].
    destruct (spcv y); try exact I.
    + intros _. right. apply in_or_app; right; left; reflexivity.
    + intros _. right. apply in_or_app; right; left; reflexivity.
    + destruct HI as [HI | (C1 & C2 & C3 & C4)]; [left; exact HI | right].
      repeat split; try assumption. intros _. apply in_or_app; right; left; reflexivity.
  - (* a notifier step *)
    destruct (nth_error (pend y) i) as [[n |] |] eqn:En; [| | discriminate]; injection E as <-.
    + (* fetch_add, wake still to come *)
      unfold RInv, signal_pending, changed in *. cbn [spcv sa pend fetch_add set_credit cbit credit st reg wakes].
      destruct (spcv y); try exact I.
      * intros _. right. apply in_or_app; right; left; reflexivity.
      * intros _. right. apply in_or_app; right; left; reflexivity.
      * destruct HI as [HI | (C1 & C2 & C3 & C4)]; [left; exact HI | right].
        repeat split; try assumption. intros _. apply in_or_app; right; left; reflexivity.
    + (* wake_by(CREDIT) *)
      destruct (wake_credit_props (sa y)) as (W1 & W2 & W3 & W4 & W5 & W6 & W7).
      unfold RInv, signal_pending, changed in *. cbn [spcv sa pend].
      destruct (spcv y); try exact I.
      * intros _. left. exact W1.
      * intros _. left. exact W1.
      * left. destruct HI as [[H1 H2] | (C1 & C2 & C3 & C4)].
        -- split; [lia | exact W1].
        -- split; [rewrite (W6 C1 C2); lia | exact W1].
  - (* a sender step *)
    pose proof (sender_keeps_pend _ _ _ E) as Hp.
    unfold sender_step in E. unfold RInv, signal_pending, changed in *.
    destruct (spcv y) as [ | | | | | w0 | budget | n | n | ] eqn:Epc.
    + (* SIdle *)
      destruct (st (sa y) =? 1); [injection E as <-; exact I |].
      destruct (st (sa y) =? 2); injection E as <-; exact I.
    + (* SLoadCredit *)
      destruct (N.eqb_spec (credit (sa y)) 0) as [Ez | Ez]; injection E as <-; cbn [spcv sa pend]; [| exact I].
      intro H; contradiction.
    + (* SReloadState *)
      destruct (N.eqb_spec (st (sa y)) 0) as [E0 | E0]; injection E as <-; cbn [spcv sa pend]; [| exact I].
      intros [H | H]; [exact (HI H) | contradiction].
    + injection E as <-. cbn [spcv]. destruct (st (sa y) =? 1); exact I.
    + (* SWait: poll *)
      unfold poll_wait in E. destruct (cbit (sa y)) eqn:Ec; injection E as <-; cbn [spcv sa pend cbit reg wakes credit st]; [exact I |].
      right. repeat split; try reflexivity. intro H. destruct (HI H) as [C | C]; [discriminate | exact C].
    + (* SParked: runs again only when woken *)
      destruct (N.ltb_spec w0 (wakes (sa y))) as [Hlt | Hge]; [| discriminate]. injection E as <-. cbn [spcv sa pend].
      intros _. destruct HI as [[_ H2] | (_ & _ & C3 & _)]; [left; exact H2 | lia].
    + destruct (k <=? budget); [injection E as <-; exact I | discriminate].
    + destruct (st (sa y) =? 0); injection E as <-; exact I.
    + injection E as <-. exact I.
    + discriminate.
Qed.

Lemma RInv_reach y : sreach y -> RInv y.
Proof. induction 1 as [| y l y' _ IH E]; [exact I | exact (RInv_step _ _ _ IH E)]. Qed.

(* c15_resume *)
Lemma p_c15_resume : forall y w0,
  sreach y -> spcv y = SParked w0 ->
  ~ In NWake (pend y) ->                    (* every started wake_by has been delivered *)
  credit (sa y) <> 0 \/ st (sa y) <> 0 ->   (* there is credit, or the path was granted / aborted *)
  w0 < wakes (sa y) /\ sender_step y 0 <> None.   (* the sender has been woken and its next step is enabled *)
Proof.
  intros y w0 Hr Hp Hn Hc. pose proof (RInv_reach y Hr) as HI. unfold RInv in HI. rewrite Hp in HI.
  assert (Hlt : w0 < wakes (sa y)).
  { destruct HI as [[H _] | (_ & _ & _ & C4)]; [exact H | exfalso; exact (Hn (C4 Hc))]. }
  split; [exact Hlt |]. unfold sender_step. rewrite Hp.
  destruct (N.ltb_spec w0 (wakes (sa y))); [discriminate | lia].
Qed.

(* a pending fetch_add always leads to a wake_by: arrivals that are still in flight cannot be forgotten *)
Lemma p_c15_resume_progress : forall y i n,
  nth_error (pend y) i = Some (NAdd n) ->
  exists y', sstep y (LNotif i) = Some y' /\ In NWake (pend y').
Proof.
  intros y i n E. cbn [sstep]. rewrite E. eexists. split; [reflexivity |].
  cbn [pend]. apply in_or_app; right; left; reflexivity.
Qed.
