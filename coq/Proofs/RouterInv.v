(* The router seen through an abstraction ("view"): the table, the active IDs of every
   connection and its live origin-DCID entry.  Two invariants:
     VB  every table entry points to a connection that still owns that ID
         (so: a retired ID, or an ID of a dropped connection, is routed nowhere - or to a
          connection that owns it now)                                  -- holds for ALL histories
     VC  every active ID is routed to its own connection, and a connection's active IDs are
         distinct (so: no ID has two owners)                            -- holds for histories
         in which a server connection is only created for an unroutable origin DCID
   and the abstract transitions that the operations of Model/Cid.v perform on a view. *)
From Coq Require Import List NArith ZArith Bool Lia.
From GQ Require Import Model.Router Proofs.Router.
Import ListNotations.
Local Open Scope N_scope.

Record view := mkV { v_tab : table; v_act : nat -> list cid; v_od : nat -> option cid }.

Definition VB (v : view) : Prop :=
  forall x q, t_get (v_tab v) x = Some q ->
    exists i, q = N.of_nat i /\ (In x (v_act v i) \/ v_od v i = Some x).

Definition VC (v : view) : Prop :=
  (forall i x, In x (v_act v i) -> t_get (v_tab v) x = Some (N.of_nat i)) /\
  (forall i, NoDup (v_act v i)).

Definition fupd {A} (f : nat -> A) (i : nat) (a : A) : nat -> A :=
  fun j => if Nat.eqb j i then a else f j.

Lemma fupd_same : forall A (f : nat -> A) i a, fupd f i a i = a.
Proof. intros. unfold fupd. rewrite Nat.eqb_refl. reflexivity. Qed.

Lemma fupd_other : forall A (f : nat -> A) i j a, j <> i -> fupd f i a j = f j.
Proof. intros. unfold fupd. apply Nat.eqb_neq in H. rewrite H. reflexivity. Qed.

Lemma of_nat_inj : forall i j, N.of_nat i = N.of_nat j -> i = j.
Proof. intros. lia. Qed.

Lemma VC_fresh_notin : forall v c i, VC v -> t_get (v_tab v) c = None -> ~ In c (v_act v i).
Proof. intros v c i [H _] Hn Hin. apply H in Hin. congruence. Qed.

Lemma nodup_snoc : forall (l : list cid) c, NoDup l -> ~ In c l -> NoDup (l ++ [c]).
Proof.
  induction l as [|x r IH]; intros c H Hn; cbn [app].
  - constructor; [tauto|constructor].
  - inversion H; subst. constructor.
    + intro Hin. apply in_app_or in Hin. destruct Hin as [Hin|[<-|[]]]; [contradiction|]. apply Hn. left. reflexivity.
    + apply IH; [assumption|]. intro Hin. apply Hn. right. assumption.
Qed.

(* ---- gen_unique_cid for connection i ---- *)
Section Gen.
  Variables (v : view) (i : nat) (c : cid) (tab' : table).
  Hypothesis Hfresh : t_get (v_tab v) c = None.
  Hypothesis Htab : forall x, t_get tab' x = if c =? x then Some (N.of_nat i) else t_get (v_tab v) x.
  Let v' := mkV tab' (fupd (v_act v) i (v_act v i ++ [c])) (v_od v).

  Lemma gen_VB : VB v -> VB v'.
  Proof.
    intros HB x q Hx. unfold v' in *. cbn [v_tab v_act v_od] in *. rewrite Htab in Hx.
    destruct (c =? x) eqn:E.
    - apply N.eqb_eq in E. subst x. inversion Hx; subst. exists i. split; [reflexivity|left].
      rewrite fupd_same. apply in_or_app. right. left. reflexivity.
    - destruct (HB x q Hx) as [j [Hq Ho]]. exists j. split; [assumption|].
      destruct Ho as [Ho|Ho]; [left|right; assumption].
      destruct (Nat.eq_dec j i) as [->|Hne]; [rewrite fupd_same; apply in_or_app; left; assumption|].
      rewrite fupd_other by assumption. assumption.
  Qed.

  Lemma gen_VC : VC v -> VC v'.
  Proof.
    intros HC. pose proof HC as [H1 H2]. unfold v'. split; cbn [v_tab v_act v_od].
    - intros j x Hx. rewrite Htab. destruct (Nat.eq_dec j i) as [->|Hne].
      + rewrite fupd_same in Hx. apply in_app_or in Hx. destruct Hx as [Hx|[<-|[]]].
        * apply H1 in Hx. destruct (c =? x) eqn:E; [apply N.eqb_eq in E; subst; congruence|assumption].
        * rewrite N.eqb_refl. reflexivity.
      + rewrite fupd_other in Hx by assumption. apply H1 in Hx.
        destruct (c =? x) eqn:E; [apply N.eqb_eq in E; subst; congruence|assumption].
    - intros j. destruct (Nat.eq_dec j i) as [->|Hne]; [|rewrite fupd_other by assumption; auto].
      rewrite fupd_same. apply nodup_snoc; auto. apply VC_fresh_notin; assumption.
  Qed.
End Gen.

(* ---- recv_retire_cid_frame of an active ID c of connection i: replacement c' issued, c retired ---- *)
Section Retire.
  Variables (v : view) (i : nat) (c c' : cid) (a1 a2 : list cid) (tab' : table).
  Hypothesis Hact : v_act v i = a1 ++ c :: a2.
  Hypothesis Hfresh : t_get (v_tab v) c' = None.
  Hypothesis Htab : forall x, t_get tab' x =
     if c =? x then None else if c' =? x then Some (N.of_nat i) else t_get (v_tab v) x.
  Let v' := mkV tab' (fupd (v_act v) i (a1 ++ a2 ++ [c'])) (v_od v).

  Lemma retire_VB : VB v -> VB v'.
  Proof.
    intros HB x q Hx. unfold v' in *. cbn [v_tab v_act v_od] in *. rewrite Htab in Hx.
    destruct (c =? x) eqn:E1; [discriminate|]. apply N.eqb_neq in E1.
    destruct (c' =? x) eqn:E2.
    - apply N.eqb_eq in E2. subst x. inversion Hx; subst. exists i. split; [reflexivity|left].
      rewrite fupd_same. apply in_or_app. right. apply in_or_app. right. left. reflexivity.
    - destruct (HB x q Hx) as [j [Hq Ho]]. exists j. split; [assumption|].
      destruct Ho as [Ho|Ho]; [left|right; assumption].
      destruct (Nat.eq_dec j i) as [->|Hne]; [|rewrite fupd_other by assumption; assumption].
      rewrite fupd_same. rewrite Hact in Ho. apply in_app_or in Ho. apply in_or_app.
      destruct Ho as [Ho|[Ho|Ho]]; [left; assumption|congruence|right; apply in_or_app; left; assumption].
  Qed.

  Lemma retire_VC : VC v -> VC v'.
  Proof.
    intros HC. pose proof HC as [H1 H2].
    assert (Hc : t_get (v_tab v) c = Some (N.of_nat i)).
    { apply H1. rewrite Hact. apply in_or_app. right. left. reflexivity. }
    assert (Hne : c <> c') by congruence.
    assert (Hnd : NoDup (a1 ++ c :: a2)) by (rewrite <- Hact; apply H2).
    unfold v'. split; cbn [v_tab v_act v_od].
    - intros j x Hx. rewrite Htab. destruct (Nat.eq_dec j i) as [->|Hji].
      + rewrite fupd_same in Hx. rewrite app_assoc in Hx. apply in_app_or in Hx. destruct Hx as [Hx|[<-|[]]].
        * assert (x <> c). { intros ->. apply NoDup_remove_2 in Hnd. contradiction. }
          assert (Hin : In x (v_act v i)).
          { rewrite Hact. apply in_app_or in Hx. apply in_or_app. destruct Hx; [left|right; right]; assumption. }
          apply H1 in Hin.
          destruct (c =? x) eqn:E1; [apply N.eqb_eq in E1; congruence|].
          destruct (c' =? x) eqn:E2; [apply N.eqb_eq in E2; subst; congruence|]. assumption.
        * destruct (c =? c') eqn:E1; [apply N.eqb_eq in E1; contradiction|]. rewrite N.eqb_refl. reflexivity.
      + rewrite fupd_other in Hx by assumption. apply H1 in Hx.
        destruct (c =? x) eqn:E1.
        { apply N.eqb_eq in E1. subst x. rewrite Hc in Hx. inversion Hx. apply of_nat_inj in H0. congruence. }
        destruct (c' =? x) eqn:E2; [apply N.eqb_eq in E2; subst; congruence|]. assumption.
    - intros j. destruct (Nat.eq_dec j i) as [->|Hji]; [|rewrite fupd_other by assumption; auto].
      rewrite fupd_same. rewrite app_assoc. apply nodup_snoc.
      + apply NoDup_remove_1 in Hnd. assumption.
      + intro Hin. assert (Hin2 : In c' (v_act v i)).
        { rewrite Hact. apply in_app_or in Hin. apply in_or_app. destruct Hin; [left|right; right]; assumption. }
        apply H1 in Hin2. congruence.
  Qed.
End Retire.

(* ---- clear(): every active ID of connection i retired ---- *)
Section Clear.
  Variables (v : view) (i : nat) (tab' : table).
  Hypothesis Htab : forall x, t_get tab' x =
     if existsb (N.eqb x) (v_act v i) then None else t_get (v_tab v) x.
  Let v' := mkV tab' (fupd (v_act v) i []) (v_od v).

  Lemma ex_in : forall x l, existsb (N.eqb x) l = true <-> In x l.
  Proof.
    intros x l. rewrite existsb_exists. split.
    - intros [y [Hy E]]. apply N.eqb_eq in E. subst. assumption.
    - intros H. exists x. split; [assumption|apply N.eqb_refl].
  Qed.

  Lemma clear_VB : VB v -> VB v'.
  Proof.
    intros HB x q Hx. unfold v' in *. cbn [v_tab v_act v_od] in *. rewrite Htab in Hx.
    destruct (existsb (N.eqb x) (v_act v i)) eqn:E; [discriminate|].
    destruct (HB x q Hx) as [j [Hq Ho]]. exists j. split; [assumption|].
    destruct Ho as [Ho|Ho]; [left|right; assumption].
    destruct (Nat.eq_dec j i) as [->|Hne]; [|rewrite fupd_other by assumption; assumption].
    apply ex_in in Ho. congruence.
  Qed.

  Lemma clear_VC : VC v -> VC v'.
  Proof.
    intros [H1 H2]. unfold v'. split; cbn [v_tab v_act v_od].
    - intros j x Hx. destruct (Nat.eq_dec j i) as [->|Hji]; [rewrite fupd_same in Hx; destruct Hx|].
      rewrite fupd_other in Hx by assumption. rewrite Htab.
      destruct (existsb (N.eqb x) (v_act v i)) eqn:E; [|auto].
      apply ex_in in E. apply H1 in E. apply H1 in Hx. rewrite E in Hx. inversion Hx.
      apply of_nat_inj in H0. congruence.
    - intros j. destruct (Nat.eq_dec j i) as [->|Hji]; [rewrite fupd_same; constructor|].
      rewrite fupd_other by assumption. auto.
  Qed.
End Clear.

(* ---- drop of connection i: clear(), then the guarded removal of its origin-DCID entry ---- *)
Section Drop.
  Variables (v : view) (i : nat) (tab' : table).
  Hypothesis Htab : forall x, t_get tab' x =
     if existsb (N.eqb x) (v_act v i) then None
     else if (match v_od v i with Some o => o =? x | None => false end) &&
             (match t_get (v_tab v) x with Some q => q =? N.of_nat i | None => false end)
          then None else t_get (v_tab v) x.
  Let v' := mkV tab' (fupd (v_act v) i []) (fupd (v_od v) i None).

  Lemma drop_VB : VB v -> VB v'.
  Proof.
    intros HB x q Hx. unfold v' in *. cbn [v_tab v_act v_od] in *. rewrite Htab in Hx.
    destruct (existsb (N.eqb x) (v_act v i)) eqn:E; [discriminate|].
    destruct ((match v_od v i with Some o => o =? x | None => false end) &&
              (match t_get (v_tab v) x with Some q => q =? N.of_nat i | None => false end)) eqn:E2; [discriminate|].
    destruct (HB x q Hx) as [j [Hq Ho]]. exists j. split; [assumption|].
    destruct (Nat.eq_dec j i) as [->|Hne].
    - exfalso. destruct Ho as [Ho|Ho].
      + apply ex_in in Ho. congruence.
      + rewrite Ho, Hx, Hq, !N.eqb_refl in E2. discriminate.
    - rewrite !fupd_other by assumption. assumption.
  Qed.

  Lemma drop_VC : VC v -> VC v'.
  Proof.
    intros [H1 H2]. unfold v'. split; cbn [v_tab v_act v_od].
    - intros j x Hx. destruct (Nat.eq_dec j i) as [->|Hji]; [rewrite fupd_same in Hx; destruct Hx|].
      rewrite fupd_other in Hx by assumption. rewrite Htab. pose proof (H1 _ _ Hx) as Hj.
      destruct (existsb (N.eqb x) (v_act v i)) eqn:E.
      { apply ex_in in E. apply H1 in E. rewrite E in Hj. inversion Hj. apply of_nat_inj in H0. congruence. }
      rewrite Hj. replace (N.of_nat j =? N.of_nat i) with false; [rewrite andb_false_r; reflexivity|].
      symmetry. apply N.eqb_neq. intro Heq. apply of_nat_inj in Heq. contradiction.
    - intros j. destruct (Nat.eq_dec j i) as [->|Hji]; [rewrite fupd_same; constructor|].
      rewrite fupd_other by assumption. auto.
  Qed.
End Drop.

(* ---- a new connection i (the view does not mention i yet) ---- *)
Section New.
  Variables (v : view) (i : nat) (scid c1 : cid) (od : option cid) (tab' : table).
  Hypothesis Hnew_act : v_act v i = [].
  Hypothesis Hnew_od : v_od v i = None.
  Hypothesis Hfresh0 : t_get (v_tab v) scid = None.
  (* c1 is generated after scid and the origin DCID were inserted *)
  Hypothesis Hfresh1 : c1 <> scid /\ t_get (v_tab v) c1 = None /\ od <> Some c1.
  Hypothesis Htab : forall x, t_get tab' x =
     if c1 =? x then Some (N.of_nat i)
     else if (match od with Some o => o =? x | None => false end) then Some (N.of_nat i)
     else if scid =? x then Some (N.of_nat i) else t_get (v_tab v) x.
  Let v' := mkV tab' (fupd (v_act v) i [scid; c1]) (fupd (v_od v) i od).

  Lemma new_VB : VB v -> VB v'.
  Proof.
    intros HB x q Hx. unfold v' in *. cbn [v_tab v_act v_od] in *. rewrite Htab in Hx.
    destruct (c1 =? x) eqn:E1.
    { apply N.eqb_eq in E1. subst x. inversion Hx. exists i. split; [reflexivity|left].
      rewrite fupd_same. right. left. reflexivity. }
    destruct (match od with Some o => o =? x | None => false end) eqn:E2.
    { destruct od as [o|]; [|discriminate]. apply N.eqb_eq in E2. subst o. inversion Hx.
      exists i. split; [reflexivity|right]. rewrite fupd_same. reflexivity. }
    destruct (scid =? x) eqn:E3.
    { apply N.eqb_eq in E3. subst x. inversion Hx. exists i. split; [reflexivity|left].
      rewrite fupd_same. left. reflexivity. }
    destruct (HB x q Hx) as [j [Hq Ho]]. exists j. split; [assumption|].
    destruct (Nat.eq_dec j i) as [->|Hne].
    - exfalso. destruct Ho as [Ho|Ho]; [rewrite Hnew_act in Ho; destruct Ho|congruence].
    - rewrite !fupd_other by assumption. assumption.
  Qed.

  (* the origin DCID was not routable when the connection was created (QuicRouter::deliver) *)
  Hypothesis Hod : match od with Some o => t_get (v_tab v) o = None | None => True end.

  Lemma new_VC : VC v -> VC v'.
  Proof.
    intros [H1 H2]. destruct Hfresh1 as [F1 [F2 F3]]. unfold v'. split; cbn [v_tab v_act v_od].
    - intros j x Hx. rewrite Htab. destruct (Nat.eq_dec j i) as [->|Hji].
      + rewrite fupd_same in Hx. destruct Hx as [<-|[<-|[]]].
        * destruct (c1 =? scid); [reflexivity|].
          destruct (match od with Some o => o =? scid | None => false end); [reflexivity|].
          rewrite N.eqb_refl. reflexivity.
        * rewrite N.eqb_refl. reflexivity.
      + rewrite fupd_other in Hx by assumption. apply H1 in Hx.
        destruct (c1 =? x) eqn:E1; [apply N.eqb_eq in E1; subst; congruence|].
        destruct (match od with Some o => o =? x | None => false end) eqn:E2.
        { destruct od as [o|]; [|discriminate]. apply N.eqb_eq in E2. subst o. congruence. }
        destruct (scid =? x) eqn:E3; [apply N.eqb_eq in E3; subst; congruence|]. assumption.
    - intros j. destruct (Nat.eq_dec j i) as [->|Hji]; [|rewrite fupd_other by assumption; auto].
      rewrite fupd_same. constructor; [|constructor; [tauto|constructor]].
      intros [H|[]]. congruence.
  Qed.
End New.
