(* Proofs about the received-packet journal (Model/RcvdJournal.v): the C10 clauses about
   generated ACK frames and about accepting a packet number at most once. *)
From Coq Require Import List ZArith Bool Lia.
From GQ Require Import Model.RcvdJournal.
Import ListNotations.
Local Open Scope Z_scope.

(* ------------------------------------------------------------------ *)
(* varint sizes *)

Lemma varint_size_pos : forall v, 1 <= varint_size v <= 8.
Proof. intros v. unfold varint_size. repeat match goal with |- context [if ?c then _ else _] => destruct c end; lia. Qed.

Lemma varint_size_succ : forall n, varint_size (n + 1) = varint_size n + rc_incr n.
Proof.
  intros n. unfold varint_size, rc_incr.
  change (2 ^ 6) with 64. change (2 ^ 14) with 16384. change (2 ^ 30) with 1073741824.
  repeat match goal with
  | |- context [if ?c then _ else _] =>
      let E := fresh "E" in destruct c eqn:E;
      rewrite ?Z.ltb_lt, ?Z.ltb_ge, ?Z.eqb_eq, ?Z.eqb_neq in E
  end; lia.
Qed.

Lemma rc_incr_nonneg : forall n, 0 <= rc_incr n.
Proof. intros n. unfold rc_incr. repeat match goal with |- context [if ?c then _ else _] => destruct c end; lia. Qed.

Lemma ranges_size_app : forall a b, ranges_size (a ++ b) = ranges_size a + ranges_size b.
Proof. induction a as [|[g x] a IH]; cbn; intros; [lia|]. rewrite IH. lia. Qed.

Lemma ranges_size_nonneg : forall a, 0 <= ranges_size a.
Proof. induction a as [|[g x] a IH]; cbn; [lia|]. pose proof (varint_size_pos g). pose proof (varint_size_pos x). lia. Qed.

(* ------------------------------------------------------------------ *)
(* track *)

Lemma track_flag : forall pn s, snd (track pn s) = tracked s.
Proof. destruct s; reflexivity. Qed.

Lemma track_tracked : forall pn s, tracked (fst (track pn s)) = tracked s.
Proof. destruct s; reflexivity. Qed.

(* ------------------------------------------------------------------ *)
(* capacity accounting of the fold: what is spent is exactly the size of the ranges pushed plus
   the growth of the range-count varint; the capacity never goes negative *)
Lemma ack_fold_cap : forall pn l gap ack last cap nr R st cap' l',
  ack_fold pn l gap ack last cap nr = (R, st, cap', l') ->
  cap - cap' = ranges_size R + varint_size (nr + Z.of_nat (length R)) - varint_size nr
  /\ (0 <= cap -> 0 <= cap').
Proof.
  induction l as [|s rest IH]; cbn [ack_fold]; intros gap ack last cap nr R st cap' l' H.
  - inversion H; subst. cbn. rewrite Z.add_0_r. split; lia.
  - destruct (track pn s) as [s' t].
    destruct last, t.
    + destruct (ack_fold pn rest gap (ack + 1) true cap nr) as [[[R1 st1] c1] l1] eqn:E.
      inversion H; subst. eapply IH; eauto.
    + destruct (cap <? rc_incr nr + varint_size (gap - 1) + varint_size (ack - 1)) eqn:C.
      * inversion H; subst. cbn. rewrite Z.add_0_r. split; lia.
      * apply Z.ltb_ge in C.
        destruct (ack_fold pn rest 1 0 false (cap - (rc_incr nr + varint_size (gap - 1) + varint_size (ack - 1))) (nr + 1)) as [[[R1 st1] c1] l1] eqn:E.
        inversion H; subst. destruct (IH _ _ _ _ _ _ _ _ _ E) as [IH1 IH2].
        cbn [ranges_size length]. rewrite Nat2Z.inj_succ.
        replace (nr + Z.succ (Z.of_nat (length R1))) with (nr + 1 + Z.of_nat (length R1)) by lia.
        rewrite (varint_size_succ nr) in IH1.
        split; [lia|]. intros Hc. apply IH2. lia.
    + destruct (ack_fold pn rest gap (ack + 1) true cap nr) as [[[R1 st1] c1] l1] eqn:E.
      inversion H; subst. eapply IH; eauto.
    + destruct (ack_fold pn rest (gap + 1) ack false cap nr) as [[[R1 st1] c1] l1] eqn:E.
      inversion H; subst. eapply IH; eauto.
Qed.

(* the fold and the first loop only change AckSent bookkeeping: the received/not-received flag
   of every record, and the number of records, stay as they were *)
Lemma ack_fold_flags : forall pn l gap ack last cap nr R st cap' l',
  ack_fold pn l gap ack last cap nr = (R, st, cap', l') -> map tracked l' = map tracked l.
Proof.
  induction l as [|s rest IH]; cbn [ack_fold]; intros gap ack last cap nr R st cap' l' H.
  - inversion H; subst. reflexivity.
  - pose proof (track_tracked pn s) as Ht. destruct (track pn s) as [s' t]. cbn [fst] in Ht.
    destruct last, t.
    + destruct (ack_fold pn rest gap (ack + 1) true cap nr) as [[[R1 st1] c1] l1] eqn:E.
      inversion H; subst. cbn. rewrite Ht. f_equal. eapply IH; eauto.
    + destruct (cap <? rc_incr nr + varint_size (gap - 1) + varint_size (ack - 1)).
      * inversion H; subst. cbn. rewrite Ht. reflexivity.
      * destruct (ack_fold pn rest 1 0 false (cap - (rc_incr nr + varint_size (gap - 1) + varint_size (ack - 1))) (nr + 1)) as [[[R1 st1] c1] l1] eqn:E.
        inversion H; subst. cbn. rewrite Ht. f_equal. eapply IH; eauto.
    + destruct (ack_fold pn rest gap (ack + 1) true cap nr) as [[[R1 st1] c1] l1] eqn:E.
      inversion H; subst. cbn. rewrite Ht. f_equal. eapply IH; eauto.
    + destruct (ack_fold pn rest (gap + 1) ack false cap nr) as [[[R1 st1] c1] l1] eqn:E.
      inversion H; subst. cbn. rewrite Ht. f_equal. eapply IH; eauto.
Qed.

Definition flag (l : list rstate) (i : nat) : bool := nth i (map tracked l) false.

Lemma first_loop_spec : forall pn l c done rem, first_loop pn l = (c, done, rem) ->
  0 <= c <= Z.of_nat (length l)
  /\ (forall i, (i < Z.to_nat c)%nat -> flag l i = true)
  /\ map tracked (done ++ rem) = map tracked l
  /\ ((c = Z.of_nat (length l) /\ rem = []) \/
      (c < Z.of_nat (length l) /\ flag l (Z.to_nat c) = false /\ rem = skipn (S (Z.to_nat c)) l)).
Proof.
  induction l as [|s rest IH]; cbn [first_loop]; intros c done rem H.
  - inversion H; subst. cbn. split; [lia|]. split; [intros i Hi; lia|]. split; [reflexivity|]. left. auto.
  - pose proof (track_tracked pn s) as Ht. pose proof (track_flag pn s) as Hf.
    destruct (track pn s) as [s' t]. cbn [fst snd] in *. destruct t.
    + destruct (first_loop pn rest) as [[c1 d1] r1] eqn:E. inversion H; subst.
      destruct (IH _ _ _ eq_refl) as (Hc & Hall & Hmap & Hend).
      cbn [length]. rewrite Nat2Z.inj_succ.
      split; [lia|]. split; [|split].
      * intros i Hi. destruct i; [unfold flag; cbn; auto|].
        unfold flag. cbn. apply Hall. lia.
      * cbn. rewrite Ht. f_equal. exact Hmap.
      * destruct Hend as [[Hc1 Hr]|(Hc1 & Hfl & Hr)].
        -- left. split; [lia|exact Hr].
        -- right. split; [lia|].
           replace (Z.to_nat (c1 + 1)) with (S (Z.to_nat c1)) by lia.
           split; [unfold flag in *; cbn; exact Hfl | cbn; exact Hr].
    + inversion H; subst. cbn [length]. rewrite Nat2Z.inj_succ.
      split; [lia|]. split; [|split].
      * intros i Hi. cbn in Hi. lia.
      * cbn. rewrite Ht. reflexivity.
      * right. split; [lia|]. split; [unfold flag; cbn; auto | reflexivity].
Qed.

(* ------------------------------------------------------------------ *)
(* meaning of the ranges (what AckFrame::iter enumerates below the first range) *)
Fixpoint cov (smallest : Z) (rs : list (Z * Z)) (x : Z) : Prop :=
  match rs with
  | [] => False
  | (g, a) :: r => (smallest - g - 2 - a <= x <= smallest - g - 2) \/ cov (smallest - g - 2 - a) r x
  end.

(* no field negative, no range below zero *)
Fixpoint wfr (smallest : Z) (rs : list (Z * Z)) : Prop :=
  match rs with
  | [] => True
  | (g, a) :: r => 0 <= g /\ 0 <= a /\ 0 <= smallest - g - 2 - a /\ wfr (smallest - g - 2 - a) r
  end.

Definition final_ranges (R : list (Z * Z)) (st : Z * Z * bool) : list (Z * Z) :=
  let '(g, a, last) := st in if last then R ++ [(g - 1, a - 1)] else R.

Lemma cov_app_l : forall R r sm x, cov sm R x -> cov sm (R ++ r) x.
Proof. induction R as [|[g a] R IH]; cbn; intros r sm x H; [contradiction|]. destruct H; auto. Qed.

Lemma wfr_app_l : forall R r sm, wfr sm (R ++ r) -> wfr sm R.
Proof. induction R as [|[g a] R IH]; cbn; intros r sm H; auto. destruct H as (A & B & C & D). eauto. Qed.

Lemma flag_cons : forall s l i, flag (s :: l) (S i) = flag l i.
Proof. reflexivity. Qed.

Lemma ack_fold_sound : forall pn l p gap ack last cap nr R st cap' l' smallest,
  ack_fold pn l gap ack last cap nr = (R, st, cap', l') ->
  1 <= gap -> (if last then 1 <= ack else ack = 0) -> p = smallest - gap - ack - 1 ->
  (l <> [] -> 0 <= p - Z.of_nat (length l) + 1) -> (last = true -> 0 <= smallest - gap - ack) ->
  wfr smallest (final_ranges R st) /\
  forall x, cov smallest (final_ranges R st) x ->
    (smallest - gap - ack <= x <= smallest - gap - 1) \/
    (exists i, (i < length l)%nat /\ x = p - Z.of_nat i /\ flag l i = true).
Proof.
  induction l as [|s rest IH]; cbn [ack_fold]; intros p gap ack last cap nr R st cap' l' sm H Hg Ha Hp Hlow Hpend.
  - inversion H; subst. cbn [final_ranges]. destruct last; cbn.
    + specialize (Hpend eq_refl). split; [lia|]. intros x [Hx|[]]. left. lia.
    + split; [exact I|]. intros x [].
  - pose proof (track_flag pn s) as Hf. destruct (track pn s) as [s' t]. cbn [snd] in Hf.
    assert (Hlow' : 0 <= p - Z.of_nat (length rest)).
    { assert (s :: rest <> []) as Hne by discriminate. specialize (Hlow Hne). cbn [length] in Hlow. lia. }
    destruct last, t.
    + (* (true, true) *)
      destruct (ack_fold pn rest gap (ack + 1) true cap nr) as [[[R1 st1] c1] l1] eqn:E.
      inversion H; subst.
      destruct (IH (sm - gap - ack - 1 - 1) _ _ _ _ _ _ _ _ _ sm E) as [W C]; try (cbn; intros; first [lia | discriminate]).
      split; [exact W|]. intros x Hx. destruct (C x Hx) as [Hr|(i & Hi & Hxi & Hfl)].
      * destruct (Z.eq_dec x (sm - gap - ack - 1)) as [->|Hne]; [|left; lia].
        right. exists O. cbn [length]. split; [lia|]. split; [lia|]. unfold flag. cbn. auto.
      * right. exists (S i). cbn [length]. split; [lia|]. split; [lia|]. rewrite flag_cons. exact Hfl.
    + (* (true, false): the range ends *)
      specialize (Hpend eq_refl).
      destruct (cap <? rc_incr nr + varint_size (gap - 1) + varint_size (ack - 1)).
      * inversion H; subst. cbn [final_ranges]. split; [exact I|]. intros x [].
      * destruct (ack_fold pn rest 1 0 false (cap - (rc_incr nr + varint_size (gap - 1) + varint_size (ack - 1))) (nr + 1)) as [[[R1 st1] c1] l1] eqn:E.
        inversion H; subst.
        destruct (IH (sm - gap - ack - 1 - 1) _ _ _ _ _ _ _ _ _ (sm - gap - ack) E) as [W C]; try (cbn; intros; first [lia | discriminate]).
        assert (Hfr : final_ranges ((gap - 1, ack - 1) :: R1) st = (gap - 1, ack - 1) :: final_ranges R1 st).
        { unfold final_ranges. destruct st as [[g a] [|]]; reflexivity. }
        rewrite Hfr. cbn [wfr cov].
        replace (sm - (gap - 1) - 2 - (ack - 1)) with (sm - gap - ack) by lia.
        split; [repeat split; try lia; exact W|].
        intros x [Hx|Hx]; [left; lia|].
        destruct (C x Hx) as [Hr|(i & Hi & Hxi & Hfl)]; [lia|].
        right. exists (S i). cbn [length]. split; [lia|]. split; [lia|]. rewrite flag_cons. exact Hfl.
    + (* (false, true) *)
      subst ack.
      destruct (ack_fold pn rest gap (0 + 1) true cap nr) as [[[R1 st1] c1] l1] eqn:E.
      inversion H; subst.
      destruct (IH (sm - gap - 0 - 1 - 1) _ _ _ _ _ _ _ _ _ sm E) as [W C]; try (cbn; intros; first [lia | discriminate]).
      split; [exact W|]. intros x Hx. destruct (C x Hx) as [Hr|(i & Hi & Hxi & Hfl)].
      * right. exists O. cbn [length]. split; [lia|]. split; [lia|]. unfold flag. cbn. auto.
      * right. exists (S i). cbn [length]. split; [lia|]. split; [lia|]. rewrite flag_cons. exact Hfl.
    + (* (false, false) *)
      subst ack.
      destruct (ack_fold pn rest (gap + 1) 0 false cap nr) as [[[R1 st1] c1] l1] eqn:E.
      inversion H; subst.
      destruct (IH (sm - gap - 0 - 1 - 1) _ _ _ _ _ _ _ _ _ sm E) as [W C]; try (cbn; intros; first [lia | discriminate]).
      split; [exact W|]. intros x Hx. destruct (C x Hx) as [Hr|(i & Hi & Hxi & Hfl)]; [lia|].
      right. exists (S i). cbn [length]. split; [lia|]. split; [lia|]. rewrite flag_cons. exact Hfl.
Qed.

(* AckFrame::iter on well-formed ranges never underflows and enumerates exactly [cov] *)
Lemma iter_tail_cov : forall rs sm, wfr sm rs ->
  exists t, iter_tail sm rs = Some t /\ forall x, in_ranges x t = true <-> cov sm rs x.
Proof.
  induction rs as [|[g a] rs IH]; cbn [iter_tail wfr cov]; intros sm W.
  - exists []. split; [reflexivity|]. intros x. cbn. split; [discriminate|contradiction].
  - destruct W as (Hg & Ha & Hl & W).
    destruct (sm <? g) eqn:E1; [apply Z.ltb_lt in E1; lia|].
    destruct (sm - g <? 2) eqn:E2; [apply Z.ltb_lt in E2; lia|].
    destruct (sm - g - 2 <? a) eqn:E3; [apply Z.ltb_lt in E3; lia|].
    destruct (IH _ W) as (t & Ht & Hc). rewrite Ht.
    eexists. split; [reflexivity|]. intros x. cbn [in_ranges existsb]. rewrite orb_true_iff.
    unfold in_range at 1. cbn [fst snd]. rewrite andb_true_iff, !Z.leb_le.
    fold (in_ranges x t). rewrite Hc. tauto.
Qed.

(* ------------------------------------------------------------------ *)
(* inversion of gen_ack *)
Definition ga_desc (j : rjournal) (largest : Z) : list rstate := rev (firstn (n_le j largest) (r_recs j)).

Lemma gen_ack_inv : forall j now pn largest rt cap j' f,
  gen_ack j now pn largest rt cap = GaOk j' f ->
  exists c done1 rest1 R g a last cap2 rest',
    largest < VARINT_LIMIT /\
    first_loop pn (ga_desc j largest) = (c, done1, rest1) /\
    1 + varint_size largest + varint_size (Z.max 0 (now - rt) * 1000) + varint_size (Z.max (c - 1) 0) + 1 <= cap /\
    ack_fold pn rest1 1 0 false
      (cap - (1 + varint_size largest + varint_size (Z.max 0 (now - rt) * 1000) + varint_size (Z.max (c - 1) 0) + 1)) 0
      = (R, (g, a, last), cap2, rest') /\
    f = mkack largest (Z.max 0 (now - rt) * 1000) (Z.max (c - 1) 0)
          (if last then
             if rc_incr (Z.of_nat (length R)) + varint_size (g - 1) + varint_size (a - 1) <=? cap2
             then R ++ [(g - 1, a - 1)] else R
           else R) /\
    r_off j' = r_off j /\ r_mad j' = r_mad j /\ r_incl j' = set_add pn (r_incl j) /\
    r_recs j' = rev (done1 ++ rest') ++ skipn (n_le j largest) (r_recs j).
Proof.
  intros j now pn largest rt cap j' f. unfold gen_ack. fold (ga_desc j largest).
  destruct (VARINT_LIMIT <=? largest) eqn:E1; [discriminate|]. apply Z.leb_gt in E1.
  destruct (VARINT_LIMIT <=? Z.max 0 (now - rt) * 1000); [discriminate|].
  destruct (first_loop pn (ga_desc j largest)) as [[c done1] rest1] eqn:FL.
  match goal with |- context [if ?c then GaErr _ else _] => destruct c eqn:E3 end; [discriminate|].
  apply Z.ltb_ge in E3.
  match goal with |- context [ack_fold ?a ?b ?c ?d ?e ?f ?g] => destruct (ack_fold a b c d e f g) as [[[R st] cap2] rest'] eqn:AF end.
  destruct st as [[g a] last].
  intros H. inversion H; subst.
  exists c, done1, rest1, R, g, a, last, cap2, rest'.
  repeat split; auto.
Qed.

Lemma gen_ack_flags : forall j now pn largest rt cap,
  match gen_ack j now pn largest rt cap with
  | GaOk j' _ | GaErr j' => r_off j' = r_off j /\ map tracked (r_recs j') = map tracked (r_recs j)
  | GaPanic => True
  end.
Proof.
  intros j now pn largest rt cap. unfold gen_ack.
  destruct (VARINT_LIMIT <=? largest); [exact I|].
  destruct (VARINT_LIMIT <=? Z.max 0 (now - rt) * 1000); [exact I|].
  destruct (first_loop pn (rev (firstn (n_le j largest) (r_recs j)))) as [[c done1] rest1] eqn:FL.
  destruct (first_loop_spec _ _ _ _ _ FL) as (_ & _ & Hmap & _).
  assert (Hrec : forall d, map tracked d = map tracked (rev (firstn (n_le j largest) (r_recs j))) ->
     map tracked (rev d ++ skipn (n_le j largest) (r_recs j)) = map tracked (r_recs j)).
  { intros d Hd. rewrite map_app, map_rev, Hd, <- map_rev, rev_involutive, <- map_app, firstn_skipn. reflexivity. }
  match goal with |- context [if ?c then GaErr _ else _] => destruct c end.
  - cbn [r_off r_recs]. split; [reflexivity|]. apply Hrec. exact Hmap.
  - match goal with |- context [ack_fold ?a ?b ?c ?d ?e ?f ?g] => destruct (ack_fold a b c d e f g) as [[[R st] cap2] rest'] eqn:AF end.
    destruct st as [[g a] last]. cbn [r_off r_recs]. split; [reflexivity|]. apply Hrec.
    rewrite <- Hmap, !map_app. f_equal. eapply ack_fold_flags; eauto.
Qed.

(* ---- c10_ack_fits / c10_ack_largest ---- *)
Lemma p_c10_ack_fits : forall j now pn largest rt cap j' f,
  gen_ack j now pn largest rt cap = GaOk j' f -> ack_encoding_size f <= cap /\ a_largest f = largest.
Proof.
  intros j now pn largest rt cap j' f H.
  destruct (gen_ack_inv _ _ _ _ _ _ _ _ H) as (c & done1 & rest1 & R & g & a & last & cap2 & rest' & _ & _ & Hmin & AF & Hf & _).
  destruct (ack_fold_cap _ _ _ _ _ _ _ _ _ _ _ AF) as [Hspent Hpos].
  assert (0 <= cap2) as Hc2 by (apply Hpos; lia).
  cbn [Z.of_nat] in Hspent. rewrite Z.add_0_l in Hspent.
  change (varint_size 0) with 1 in Hspent.
  subst f. unfold ack_encoding_size. cbn [a_largest a_delay a_first a_ranges]. split; [|reflexivity].
  destruct last.
  - destruct (rc_incr (Z.of_nat (length R)) + varint_size (g - 1) + varint_size (a - 1) <=? cap2) eqn:E.
    + apply Z.leb_le in E. rewrite app_length, ranges_size_app. cbn [length ranges_size].
      rewrite Nat2Z.inj_add. change (Z.of_nat 1) with 1. rewrite varint_size_succ. lia.
    + lia.
  - lia.
Qed.

(* ------------------------------------------------------------------ *)
(* the reversed iterator and the records *)
Lemma nth_firstn_lt : forall A (l : list A) n k d, (k < n)%nat -> nth k (firstn n l) d = nth k l d.
Proof. induction l; destruct n, k; cbn; intros; try lia; auto. apply IHl. lia. Qed.

Lemma ga_desc_length : forall j largest, r_off j <= largest < r_next j ->
  length (ga_desc j largest) = Z.to_nat (largest - r_off j + 1).
Proof.
  intros j largest H. unfold ga_desc, n_le, r_next, r_len in *. rewrite rev_length, firstn_length. lia.
Qed.

Lemma desc_flag : forall j largest i, r_off j <= largest < r_next j ->
  (i < length (ga_desc j largest))%nat -> flag (ga_desc j largest) i = true ->
  exists s, r_get j (largest - Z.of_nat i) = Some s /\ tracked s = true.
Proof.
  intros j largest i Hr Hi Hf.
  pose proof (ga_desc_length j largest Hr) as Hlen. rewrite Hlen in Hi.
  unfold flag in Hf. change false with (tracked REmpty) in Hf. rewrite map_nth in Hf.
  unfold ga_desc in Hf.
  assert (Hn : n_le j largest = Z.to_nat (largest - r_off j + 1)) by (unfold n_le, r_next, r_len in *; lia).
  assert (Hfl : length (firstn (n_le j largest) (r_recs j)) = Z.to_nat (largest - r_off j + 1)).
  { rewrite firstn_length, Hn. unfold r_next, r_len in Hr. lia. }
  rewrite rev_nth in Hf by lia. rewrite Hfl in Hf.
  rewrite nth_firstn_lt in Hf by lia.
  exists (nth (Z.to_nat (largest - r_off j + 1) - S i) (r_recs j) REmpty). split; [|exact Hf].
  unfold r_get.
  replace ((r_off j <=? largest - Z.of_nat i) && (largest - Z.of_nat i <? r_next j)) with true
    by (symmetry; apply andb_true_iff; split; [apply Z.leb_le | apply Z.ltb_lt]; lia).
  replace (Z.to_nat (largest - Z.of_nat i - r_off j)) with (Z.to_nat (largest - r_off j + 1) - S i)%nat by lia.
  apply nth_error_nth'. unfold r_next, r_len in Hr. lia.
Qed.

(* what a caller must guarantee about `largest`: it is below the window (rotated out) or its
   record is a received one.  Every registered number satisfies it (RInv below). *)
Definition ack_pre (j : rjournal) (largest : Z) : Prop :=
  0 <= largest /\ (largest < r_off j \/ exists s, r_get j largest = Some s /\ tracked s = true).

Lemma r_get_range : forall j x s, r_get j x = Some s -> r_off j <= x < r_next j.
Proof.
  unfold r_get. intros j x s H.
  destruct ((r_off j <=? x) && (x <? r_next j)) eqn:E; [|discriminate].
  apply andb_true_iff in E. destruct E as [E1 E2]. apply Z.leb_le in E1. apply Z.ltb_lt in E2. lia.
Qed.

Lemma skipn_flag : forall k l i, flag (skipn k l) i = flag l (k + i).
Proof.
  induction k; destruct l; cbn [skipn]; intros; auto.
  - unfold flag. cbn. destruct (k + i)%nat; destruct i; reflexivity.
  - rewrite IHk. reflexivity.
Qed.

(* soundness of one generated frame *)
Lemma p_c10_ack_sound_state : forall j now pn largest rt cap j' f,
  0 <= r_off j -> ack_pre j largest ->
  gen_ack j now pn largest rt cap = GaOk j' f ->
  exists rs, ack_iter f = Some rs /\
    (forall g a, In (g, a) (a_ranges f) -> 0 <= g /\ 0 <= a) /\ 0 <= a_first f /\
    forall x, in_ranges x rs = true ->
      (x = largest /\ largest < r_off j) \/ (exists s, r_get j x = Some s /\ tracked s = true).
Proof.
  intros j now pn largest rt cap j' f Hoff [Hl0 Hpre] H.
  destruct (gen_ack_inv _ _ _ _ _ _ _ _ H) as (c & done1 & rest1 & R & g & a & last & cap2 & rest' & _ & FL & _ & AF & Hf & _).
  destruct (first_loop_spec _ _ _ _ _ FL) as (Hc & Hall & _ & Hend).
  set (ranges := if last then if rc_incr (Z.of_nat (length R)) + varint_size (g - 1) + varint_size (a - 1) <=? cap2
                              then R ++ [(g - 1, a - 1)] else R else R) in *.
  assert (Hsub : exists r, final_ranges R (g, a, last) = ranges ++ r).
  { unfold final_ranges, ranges. destruct last; [|exists []; symmetry; apply app_nil_r].
    destruct (_ <=? cap2); [exists []; symmetry; apply app_nil_r | exists [(g - 1, a - 1)]; reflexivity]. }
  destruct Hsub as [rx Hsub].
  destruct Hpre as [Hrot | (s & Hs & Hts)].
  - (* rotated out: the iterator is empty *)
    assert (Hd : ga_desc j largest = []).
    { unfold ga_desc, n_le. replace (Z.to_nat (Z.min (largest - r_off j + 1) (r_len j))) with O by (unfold r_len; lia). reflexivity. }
    rewrite Hd in FL. cbn in FL. inversion FL; subst c done1 rest1. cbn in AF. inversion AF; subst.
    cbn in ranges. subst ranges. try subst f. unfold ack_iter. cbn [a_largest a_first a_ranges iter_tail].
    replace (largest <? Z.max (0 - 1) 0) with false by (symmetry; apply Z.ltb_ge; lia).
    eexists. split; [reflexivity|]. split; [intros ? ? []|]. split; [lia|].
    intros x Hx. cbn in Hx. rewrite orb_false_r in Hx. unfold in_range in Hx. cbn in Hx.
    apply andb_true_iff in Hx. destruct Hx as [H1 H2]. apply Z.leb_le in H1. apply Z.leb_le in H2. left. lia.
  - pose proof (r_get_range _ _ _ Hs) as Hrange.
    pose proof (ga_desc_length j largest Hrange) as Hlen.
    (* the head of the iterator is `largest`, a received record *)
    assert (Hhead : flag (ga_desc j largest) 0 = true).
    { destruct (Bool.bool_dec (flag (ga_desc j largest) 0) true) as [|Hn]; [assumption|exfalso].
      apply not_true_is_false in Hn.
      (* relate the head to r_get j largest *)
      unfold flag in Hn. change false with (tracked REmpty) in Hn. rewrite map_nth in Hn.
      unfold ga_desc in Hn.
      assert (Hfl : length (firstn (n_le j largest) (r_recs j)) = Z.to_nat (largest - r_off j + 1)).
      { rewrite firstn_length. unfold n_le, r_next, r_len in *. lia. }
      rewrite rev_nth in Hn by lia. rewrite Hfl in Hn.
      rewrite nth_firstn_lt in Hn by (unfold n_le, r_next, r_len in *; lia).
      unfold r_get in Hs.
      replace ((r_off j <=? largest) && (largest <? r_next j)) with true in Hs
        by (symmetry; apply andb_true_iff; split; [apply Z.leb_le | apply Z.ltb_lt]; lia).
      replace (Z.to_nat (largest - r_off j + 1) - 1)%nat with (Z.to_nat (largest - r_off j)) in Hn by lia.
      erewrite nth_error_nth in Hn by exact Hs. cbn in Hn. congruence. }
    assert (Hc1 : 1 <= c).
    { destruct Hend as [[Hce _]|(Hclt & Hfc & _)]; [lia|].
      destruct (Z.eq_dec c 0) as [->|]; [cbn in Hfc; congruence|lia]. }
    (* the fold, started below the first range *)
    assert (Hfold : wfr (largest - (c - 1)) (final_ranges R (g, a, last)) /\
            forall x, cov (largest - (c - 1)) (final_ranges R (g, a, last)) x ->
              exists i, (i < length (ga_desc j largest))%nat /\ x = largest - Z.of_nat i /\ flag (ga_desc j largest) i = true).
    { destruct (ack_fold_sound pn rest1 (largest - (c - 1) - 2) 1 0 false _ 0 R (g, a, last) cap2 rest' (largest - (c - 1)) AF) as [W C];
        try (cbn; intros; first [lia | discriminate]).
      - intros Hne. destruct Hend as [[_ Hr]|(Hclt & _ & Hr)]; [congruence|].
        rewrite Hr, skipn_length, Hlen. rewrite Hr in Hne.
        assert (S (Z.to_nat c) < length (ga_desc j largest))%nat.
        { destruct (Nat.lt_ge_cases (S (Z.to_nat c)) (length (ga_desc j largest))); [assumption|].
          rewrite skipn_all2 in Hne by lia. congruence. }
        lia.
      - split; [exact W|]. intros x Hx. destruct (C x Hx) as [Hr|(i & Hi & Hxi & Hfl)]; [lia|].
        destruct Hend as [[_ Hr]|(Hclt & _ & Hr)]; [rewrite Hr in Hi; cbn in Hi; lia|].
        rewrite Hr in Hi, Hfl. rewrite skipn_length in Hi. rewrite skipn_flag in Hfl.
        exists (S (Z.to_nat c) + i)%nat. split; [lia|]. split; [lia|exact Hfl]. }
    destruct Hfold as [W C].
    rewrite Hsub in W, C. apply wfr_app_l in W.
    destruct (iter_tail_cov _ _ W) as (t & Ht & Hcov).
    subst f. unfold ack_iter. cbn [a_largest a_first a_ranges]. fold ranges.
    replace (Z.max (c - 1) 0) with (c - 1) by lia.
    replace (largest <? c - 1) with false by (symmetry; apply Z.ltb_ge; lia).
    rewrite Ht. eexists. split; [reflexivity|]. split; [|split; [lia|]].
    + clear - W. revert W. generalize (largest - (c - 1)). induction ranges as [|[g0 a0] r IH]; cbn; intros sm W g1 a1 Hin; [contradiction|].
      destruct W as (A & B & _ & D). destruct Hin as [E|Hin]; [inversion E; subst; lia|]. eapply IH; eauto.
    + intros x Hx. cbn [in_ranges existsb] in Hx. apply orb_true_iff in Hx. right.
      assert (exists i, (i < length (ga_desc j largest))%nat /\ x = largest - Z.of_nat i /\ flag (ga_desc j largest) i = true) as (i & Hi & Hxi & Hfl).
      { destruct Hx as [Hx|Hx].
        - unfold in_range in Hx. cbn [fst snd] in Hx. apply andb_true_iff in Hx. destruct Hx as [H1 H2].
          apply Z.leb_le in H1. apply Z.leb_le in H2.
          exists (Z.to_nat (largest - x)). split; [lia|]. split; [lia|]. apply Hall. lia.
        - apply C. apply cov_app_l. apply Hcov. exact Hx. }
      subst x. eapply desc_flag; eauto.
Qed.

(* ------------------------------------------------------------------ *)
(* histories of the received journal *)
Inductive rev_ :=
| RvRcvd (now pn : Z) (el : bool) (pto : Z)
| RvGenAck (now pn largest rt cap : Z)
| RvPeerAck (now : Z) (f : ackframe).

Definition rv_ok (e : rev_) : Prop := match e with RvRcvd _ pn _ _ => 0 <= pn | _ => True end.   (* u64 *)

(* [reg] is the log of the packet numbers passed to on_rcvd_pn *)
Definition rv_step (j : rjournal) (reg : list Z) (e : rev_) : option (rjournal * list Z) :=
  match e with
  | RvRcvd now pn el pto => match on_rcvd_pn j now pn el pto with Some j' => Some (j', pn :: reg) | None => None end
  | RvGenAck now pn largest rt cap =>
      match gen_ack j now pn largest rt cap with
      | GaOk j' _ | GaErr j' => Some (j', reg)
      | GaPanic => None
      end
  | RvPeerAck now f => match on_rcvd_ack j now f with Some j' => Some (j', reg) | None => None end
  end.

Fixpoint rv_run (j : rjournal) (reg : list Z) (h : list rev_) : option (rjournal * list Z) :=
  match h with
  | [] => Some (j, reg)
  | e :: r => match rv_step j reg e with Some (j', reg') => rv_run j' reg' r | None => None end
  end.

Definition rreach (h : list rev_) (j : rjournal) (reg : list Z) : Prop :=
  Forall rv_ok h /\ exists mad, rv_run (rj_new mad) [] h = Some (j, reg).

Definition has (j : rjournal) (q : Z) : bool :=
  (r_off j <=? q) && flag (r_recs j) (Z.to_nat (q - r_off j)).

Record RInv (j : rjournal) (reg : list Z) : Prop := {
  ri_off : 0 <= r_off j;
  ri_reg : forall q, In q reg -> 0 <= q /\ (q < r_off j \/ has j q = true);
  ri_has : forall q, has j q = true -> In q reg }.

Lemma flag_nth_error : forall l i, flag l i = true <-> exists s, nth_error l i = Some s /\ tracked s = true.
Proof.
  unfold flag. intros l i. change false with (tracked REmpty). rewrite map_nth. split.
  - intros H. destruct (nth_error l i) as [s|] eqn:E.
    + exists s. split; [reflexivity|]. erewrite nth_error_nth in H by exact E. exact H.
    + apply nth_error_None in E. rewrite nth_overflow in H by lia. discriminate.
  - intros (s & E & T). erewrite nth_error_nth by exact E. exact T.
Qed.

Lemma has_get : forall j q, has j q = true <-> exists s, r_get j q = Some s /\ tracked s = true.
Proof.
  intros j q. unfold has, r_get, r_next, r_len. split.
  - intros H. apply andb_true_iff in H. destruct H as [H1 H2]. apply Z.leb_le in H1.
    apply flag_nth_error in H2. destruct H2 as (s & E & T).
    assert (Z.to_nat (q - r_off j) < length (r_recs j))%nat by (apply nth_error_Some; congruence).
    replace ((r_off j <=? q) && (q <? r_off j + Z.of_nat (length (r_recs j)))) with true
      by (symmetry; apply andb_true_iff; split; [apply Z.leb_le | apply Z.ltb_lt]; lia).
    eauto.
  - intros (s & E & T).
    destruct ((r_off j <=? q) && (q <? r_off j + Z.of_nat (length (r_recs j)))) eqn:C; [|discriminate].
    apply andb_true_iff in C. destruct C as [C1 C2]. rewrite C1. cbn. apply flag_nth_error. eauto.
Qed.

Lemma has_ext : forall j j', r_off j' = r_off j -> map tracked (r_recs j') = map tracked (r_recs j) ->
  forall q, has j' q = has j q.
Proof. intros j j' Ho Hm q. unfold has, flag. rewrite Ho, Hm. reflexivity. Qed.

Lemma RInv_ext : forall j j' reg, r_off j' = r_off j -> map tracked (r_recs j') = map tracked (r_recs j) ->
  RInv j reg -> RInv j' reg.
Proof.
  intros j j' reg Ho Hm I. pose proof (has_ext j j' Ho Hm) as He.
  constructor.
  - rewrite Ho. apply I.
  - intros q Hq. rewrite Ho, He. apply I. exact Hq.
  - intros q Hq. rewrite He in Hq. apply I. exact Hq.
Qed.

(* ---- on_rcvd_pn ---- *)
Lemma map_set_nth : forall k st l, map tracked (set_nth k st l) = set_nth k (tracked st) (map tracked l).
Proof. induction k; destruct l; cbn; auto. f_equal. auto. Qed.

Lemma nth_set_nth : forall A k (x : A) l i d, (k < length l)%nat ->
  nth i (set_nth k x l) d = if Nat.eqb i k then x else nth i l d.
Proof.
  induction k; destruct l; cbn; intros i d H; try lia.
  - destruct i; reflexivity.
  - destruct i; [reflexivity|]. cbn. apply IHk. lia.
Qed.

Lemma on_rcvd_pn_has : forall j now pn el pto j', 0 <= r_off j -> 0 <= pn ->
  on_rcvd_pn j now pn el pto = Some j' ->
  r_off j' = r_off j /\ forall q, has j' q = if (q =? pn) && (r_off j <=? pn) then true else has j q.
Proof.
  intros j now pn el pto j' Hoff Hpn. unfold on_rcvd_pn.
  set (st := RRecv now (if el then Some (now + match r_mad j with Some d => d | None => 0 end) else None) (now + pto * 3)).
  destruct ((r_off j <=? pn) && (pn <? r_next j)) eqn:C.
  - apply andb_true_iff in C. destruct C as [C1 C2]. apply Z.leb_le in C1. apply Z.ltb_lt in C2.
    intros H; inversion H; subst. cbn [r_off r_recs]. split; [reflexivity|]. intros q.
    unfold has, flag. cbn [r_off r_recs]. rewrite map_set_nth.
    unfold r_next, r_len in C2.
    rewrite nth_set_nth by (rewrite map_length; lia). cbn [tracked st].
    destruct (q =? pn) eqn:Q.
    + apply Z.eqb_eq in Q. subst q. rewrite Nat.eqb_refl.
      replace (r_off j <=? pn) with true by (symmetry; apply Z.leb_le; lia). reflexivity.
    + apply Z.eqb_neq in Q. cbn [andb].
      destruct (r_off j <=? q) eqn:L; [|reflexivity]. apply Z.leb_le in L. cbn [andb].
      replace (Z.to_nat (q - r_off j) =? Z.to_nat (pn - r_off j))%nat with false
        by (symmetry; apply Nat.eqb_neq; lia). reflexivity.
  - destruct (LIMIT <? pn); [discriminate|].
    destruct (pn <? r_off j) eqn:D.
    + apply Z.ltb_lt in D. intros H; inversion H; subst. cbn [r_off r_recs]. split; [reflexivity|].
      intros q. replace (r_off j <=? pn) with false by (symmetry; apply Z.leb_gt; lia).
      rewrite andb_false_r. reflexivity.
    + apply Z.ltb_ge in D.
      apply andb_false_iff in C. destruct C as [C|C]; [apply Z.leb_gt in C; lia|]. apply Z.ltb_ge in C.
      unfold r_next, r_len in C.
      intros H; inversion H; subst. cbn [r_off r_recs]. split; [reflexivity|]. intros q.
      unfold has, flag. cbn [r_off r_recs].
      replace (r_off j <=? pn) with true by (symmetry; apply Z.leb_le; lia). rewrite andb_true_r.
      rewrite !map_app. cbn [map tracked st].
      set (gapn := (Z.to_nat (pn - r_off j) - length (r_recs j))%nat).
      destruct (r_off j <=? q) eqn:L; [|destruct (q =? pn) eqn:Q; [apply Z.eqb_eq in Q; apply Z.leb_gt in L; lia|reflexivity]].
      apply Z.leb_le in L. cbn [andb].
      destruct (Z_lt_le_dec q (r_off j + Z.of_nat (length (r_recs j)))) as [Hin|Hout].
      * rewrite app_nth1 by (rewrite map_length; lia).
        replace (q =? pn) with false by (symmetry; apply Z.eqb_neq; lia). reflexivity.
      * rewrite app_nth2 by (rewrite map_length; lia). rewrite map_length.
        rewrite (nth_overflow (map tracked (r_recs j))) by (rewrite map_length; lia).
        destruct (q =? pn) eqn:Q.
        -- apply Z.eqb_eq in Q. subst q.
           rewrite app_nth2 by (rewrite map_length, repeat_length; unfold gapn; lia).
           rewrite map_length, repeat_length.
           replace (Z.to_nat (pn - r_off j) - length (r_recs j) - gapn)%nat with O by (unfold gapn; lia).
           reflexivity.
        -- apply Z.eqb_neq in Q.
           destruct (Z_lt_le_dec q pn) as [Hlt|Hgt].
           ++ rewrite app_nth1 by (rewrite map_length, repeat_length; unfold gapn; lia).
              change false with (tracked REmpty) at 1. rewrite map_nth.
              destruct (nth_in_or_default (Z.to_nat (q - r_off j) - length (r_recs j)) (repeat REmpty gapn) REmpty) as [Hi|Hd].
              ** apply repeat_spec in Hi. rewrite Hi. reflexivity.
              ** rewrite Hd. reflexivity.
           ++ rewrite nth_overflow; [reflexivity|].
              rewrite app_length, map_length, repeat_length. cbn [length]. unfold gapn. lia.
Qed.

Lemma on_rcvd_pn_inv : forall j reg now pn el pto j', RInv j reg -> 0 <= pn ->
  on_rcvd_pn j now pn el pto = Some j' -> RInv j' (pn :: reg).
Proof.
  intros j reg now pn el pto j' I Hpn H.
  destruct (on_rcvd_pn_has _ _ _ _ _ _ (ri_off _ _ I) Hpn H) as [Ho Hh].
  constructor.
  - rewrite Ho. apply I.
  - intros q [E|Hq]; [subst q|]; rewrite Ho, Hh.
    + split; [exact Hpn|]. rewrite Z.eqb_refl. cbn [andb].
      destruct (r_off j <=? pn) eqn:L; [right; reflexivity|]. apply Z.leb_gt in L. left. lia.
    + destruct (ri_reg _ _ I q Hq) as [Hq0 Hc]. split; [exact Hq0|].
      destruct Hc as [Hc|Hc]; [left; exact Hc|]. right.
      destruct ((q =? pn) && (r_off j <=? pn)); [reflexivity|exact Hc].
  - intros q Hq. rewrite Hh in Hq.
    destruct ((q =? pn) && (r_off j <=? pn)) eqn:C.
    + apply andb_true_iff in C. destruct C as [C _]. apply Z.eqb_eq in C. subst q. left. reflexivity.
    + right. apply I. exact Hq.
Qed.

(* ---- on_rcvd_ack / rotate_queue ---- *)
Lemma drop_expired_spec : forall now l off off' l', drop_expired now off l = (off', l') ->
  exists k, off' = off + Z.of_nat k /\ l' = skipn k l /\ (k <= length l)%nat.
Proof.
  induction l as [|s r IH]; cbn [drop_expired]; intros off off' l' H.
  - inversion H; subst. exists O. cbn. split; [lia|auto].
  - destruct (could_expire now s).
    + destruct (IH _ _ _ H) as (k & A & B & C). exists (S k). cbn [skipn length]. split; [lia|]. split; [exact B|lia].
    + inversion H; subst. exists O. cbn [skipn]. split; [lia|]. split; [reflexivity|lia].
Qed.

Lemma confirm_tracked : forall acked s, tracked (confirm acked s) = tracked s.
Proof. destruct s; cbn; auto. destruct (existsb _ pns); reflexivity. Qed.

Lemma on_rcvd_ack_inv : forall j reg now f j', RInv j reg -> on_rcvd_ack j now f = Some j' -> RInv j' reg.
Proof.
  intros j reg now f j' I. unfold on_rcvd_ack. destruct (ack_iter f) as [rs|]; [|discriminate].
  intros H; inversion H; subst. unfold rotate_queue. cbn [r_off r_recs r_mad r_incl r_earliest].
  set (acked := filter (fun p => in_ranges p rs) (r_incl j)).
  destruct (drop_expired now (r_off j) (map (confirm acked) (r_recs j))) as [off' l'] eqn:D.
  destruct (drop_expired_spec _ _ _ _ _ D) as (k & Ho & Hl & Hk).
  assert (Hhas : forall q, has (mkrj off' l' (r_mad j) (filter (fun p => negb (set_mem p acked)) (r_incl j)) (r_earliest j)) q
                     = (off' <=? q) && has j q).
  { intros q. unfold has. cbn [r_off r_recs]. subst off' l'.
    destruct (r_off j + Z.of_nat k <=? q) eqn:L; [|reflexivity]. apply Z.leb_le in L. cbn [andb].
    replace (r_off j <=? q) with true by (symmetry; apply Z.leb_le; lia). cbn [andb].
    rewrite skipn_flag. replace (k + Z.to_nat (q - (r_off j + Z.of_nat k)))%nat with (Z.to_nat (q - r_off j)) by lia.
    unfold flag. rewrite map_map. f_equal. apply map_ext. intros s. apply confirm_tracked. }
  constructor; cbn [r_off].
  - pose proof (ri_off _ _ I). lia.
  - intros q Hq. destruct (ri_reg _ _ I q Hq) as [Hq0 Hc]. split; [exact Hq0|].
    rewrite Hhas. destruct (off' <=? q) eqn:L; [|apply Z.leb_gt in L; left; lia].
    destruct Hc as [Hc|Hc]; [apply Z.leb_le in L; left; lia|]. right. rewrite Hc. reflexivity.
  - intros q Hq. rewrite Hhas in Hq. apply andb_true_iff in Hq. apply I. apply Hq.
Qed.

Lemma RInv_init : forall mad, RInv (rj_new mad) [].
Proof.
  intros mad. constructor; cbn.
  - lia.
  - intros q [].
  - intros q H. unfold has, flag in H. cbn in H. destruct (Z.to_nat (q - 0)); rewrite andb_false_r in H; discriminate.
Qed.

Lemma rv_step_inv : forall j reg e j' reg', RInv j reg -> rv_ok e -> rv_step j reg e = Some (j', reg') -> RInv j' reg'.
Proof.
  intros j reg e j' reg' I Ok H. destruct e; cbn [rv_step rv_ok] in *.
  - destruct (on_rcvd_pn j now pn el pto) as [jn|] eqn:E; [|discriminate]. inversion H; subst.
    eapply on_rcvd_pn_inv; eauto.
  - pose proof (gen_ack_flags j now pn largest rt cap) as F.
    destruct (gen_ack j now pn largest rt cap) as [jn fr|jn|]; try discriminate;
      inversion H; subst; destruct F as [Ho Hm]; eapply RInv_ext; eauto.
  - destruct (on_rcvd_ack j now f) as [jn|] eqn:E; [|discriminate]. inversion H; subst.
    eapply on_rcvd_ack_inv; eauto.
Qed.

Lemma rv_run_inv : forall h j reg j' reg', RInv j reg -> Forall rv_ok h ->
  rv_run j reg h = Some (j', reg') -> RInv j' reg'.
Proof.
  induction h as [|e r IH]; cbn; intros j reg j' reg' I Ok H.
  - inversion H; subst. exact I.
  - inversion Ok; subst. destruct (rv_step j reg e) as [[j1 reg1]|] eqn:E; [|discriminate].
    eapply IH; [eapply rv_step_inv; eauto | assumption | exact H].
Qed.

Lemma rreach_inv : forall h j reg, rreach h j reg -> RInv j reg.
Proof. intros h j reg [Ok [mad H]]. eapply rv_run_inv; [apply RInv_init | exact Ok | exact H]. Qed.

Lemma rv_run_reg_mono : forall h j reg j' reg' q, rv_run j reg h = Some (j', reg') -> In q reg -> In q reg'.
Proof.
  induction h as [|e r IH]; cbn; intros j reg j' reg' q H Hq.
  - inversion H; subst. exact Hq.
  - destruct (rv_step j reg e) as [[j1 reg1]|] eqn:E; [|discriminate].
    eapply IH; [exact H|].
    destruct e; cbn [rv_step] in E.
    + destruct (on_rcvd_pn j now pn el pto); inversion E; subst. right. exact Hq.
    + destruct (gen_ack j now pn largest rt cap); inversion E; subst; exact Hq.
    + destruct (on_rcvd_ack j now f); inversion E; subst. exact Hq.
Qed.

(* ---- c10_accept_once ---- *)
Lemma p_c10_accept_once : forall h j reg pn p,
  rreach h j reg -> In pn reg -> decode_pn j p <> DpnOk pn.
Proof.
  intros h j reg pn p R Hin. pose proof (rreach_inv _ _ _ R) as I.
  destruct (ri_reg _ _ I pn Hin) as [_ Hc].
  unfold decode_pn. destruct (decode p (r_next j)) as [v|]; [|discriminate].
  destruct (v <? r_off j) eqn:L; [discriminate|]. apply Z.ltb_ge in L.
  destruct (r_get j v) as [s|] eqn:G.
  - destruct s; try discriminate. intros E. inversion E; subst v.
    destruct Hc as [Hc|Hc]; [lia|]. apply has_get in Hc. destruct Hc as (s & Gs & T). rewrite G in Gs. inversion Gs; subst. discriminate.
  - intros E. inversion E; subst v.
    destruct Hc as [Hc|Hc]; [lia|]. apply has_get in Hc. destruct Hc as (s & Gs & T). rewrite G in Gs. discriminate.
Qed.

(* "for ever": the registration survives every continuation of the history *)
Lemma p_c10_accept_once_forever : forall h1 h2 j reg now pn el pto p,
  rreach (h1 ++ RvRcvd now pn el pto :: h2) j reg -> decode_pn j p <> DpnOk pn.
Proof.
  intros h1 h2 j reg now pn el pto p R.
  eapply p_c10_accept_once; [exact R|].
  destruct R as [Ok [mad H]].
  assert (forall h1 j0 reg0, rv_run j0 reg0 (h1 ++ RvRcvd now pn el pto :: h2) = Some (j, reg) -> In pn reg) as G.
  { clear. induction h1 as [|e r IH]; cbn [app rv_run]; intros j0 reg0 H.
    - cbn [rv_step] in H. destruct (on_rcvd_pn j0 now pn el pto) as [j1|]; [|discriminate].
      eapply rv_run_reg_mono; [exact H|]. left. reflexivity.
    - destruct (rv_step j0 reg0 e) as [[j1 reg1]|]; [|discriminate]. eapply IH; eauto. }
  eapply G; eauto.
Qed.

(* ---- c10_ack_sound over histories ---- *)
Lemma p_c10_ack_sound : forall h j reg now pn largest rt cap j' f,
  rreach h j reg -> In largest reg ->
  gen_ack j now pn largest rt cap = GaOk j' f ->
  exists rs, ack_iter f = Some rs /\ forall x, in_ranges x rs = true -> In x reg.
Proof.
  intros h j reg now pn largest rt cap j' f R Hin H. pose proof (rreach_inv _ _ _ R) as I.
  destruct (ri_reg _ _ I largest Hin) as [Hl0 Hc].
  assert (Hpre : ack_pre j largest).
  { split; [exact Hl0|]. destruct Hc as [Hc|Hc]; [left; exact Hc|right; apply has_get; exact Hc]. }
  destruct (p_c10_ack_sound_state _ _ _ _ _ _ _ _ (ri_off _ _ I) Hpre H) as (rs & Hit & _ & _ & Hs).
  exists rs. split; [exact Hit|]. intros x Hx.
  destruct (Hs x Hx) as [[-> _]|Hg]; [exact Hin|]. apply I. apply has_get. exact Hg.
Qed.

(* no field of a generated frame is negative: the u32 `gap - 1` / `ack - 1` / saturating
   first-range computations never underflow *)
Lemma p_c10_ack_fields : forall h j reg now pn largest rt cap j' f,
  rreach h j reg -> In largest reg ->
  gen_ack j now pn largest rt cap = GaOk j' f ->
  0 <= a_first f /\ forall g a, In (g, a) (a_ranges f) -> 0 <= g /\ 0 <= a.
Proof.
  intros h j reg now pn largest rt cap j' f R Hin H. pose proof (rreach_inv _ _ _ R) as I.
  destruct (ri_reg _ _ I largest Hin) as [Hl0 Hc].
  assert (Hpre : ack_pre j largest).
  { split; [exact Hl0|]. destruct Hc as [Hc|Hc]; [left; exact Hc|right; apply has_get; exact Hc]. }
  destruct (p_c10_ack_sound_state _ _ _ _ _ _ _ _ (ri_off _ _ I) Hpre H) as (rs & _ & Hr & Hf & _).
  split; assumption.
Qed.

(* the precondition on `largest` is needed: for a `largest` whose record is Empty the frame
   acknowledges numbers that were never received (5, 3 and 0; only 1, 4 and 6 were registered) *)
Lemma p_c10_ack_sound_needs_pre :
  let h := [RvRcvd 0 1 true 10; RvRcvd 0 4 true 10; RvRcvd 0 6 true 10] in
  match rv_run (rj_new None) [] h with
  | Some (j, reg) =>
      match gen_ack j 0 1 5 0 100 with
      | GaOk _ f => ack_iter f = Some [(5, 5); (3, 3); (0, 0)] /\ ~ In 3 reg /\ ~ In 5 reg /\ ~ In 0 reg
      | _ => False
      end
  | None => False
  end.
Proof. vm_compute. split; [reflexivity|]. repeat split; intros H; intuition discriminate. Qed.

(* ------------------------------------------------------------------ *)
(* completeness: the ranges listed when capacity is no object *)
Fixpoint runs_full (l : list bool) (gap ack : Z) (last : bool) : list (Z * Z) :=
  match l with
  | [] => if last then [(gap - 1, ack - 1)] else []
  | t :: rest =>
      match last, t with
      | true, false => (gap - 1, ack - 1) :: runs_full rest 1 0 false
      | _, true => runs_full rest gap (ack + 1) true
      | false, false => runs_full rest (gap + 1) ack false
      end
  end.

Lemma varint_size_mono : forall a b, a <= b -> varint_size a <= varint_size b.
Proof.
  intros a b H. unfold varint_size.
  change (2 ^ 6) with 64. change (2 ^ 14) with 16384. change (2 ^ 30) with 1073741824.
  repeat match goal with
  | |- context [if ?c then _ else _] =>
      let E := fresh "E" in destruct c eqn:E; rewrite ?Z.ltb_lt, ?Z.ltb_ge in E
  end; lia.
Qed.

(* with at least the capacity the full list needs, the fold pushes every range and the pending one *)
Lemma ack_fold_full : forall pn l gap ack last cap nr,
  ranges_size (runs_full (map tracked l) gap ack last)
    + varint_size (nr + Z.of_nat (length (runs_full (map tracked l) gap ack last))) - varint_size nr <= cap ->
  exists R g a lst cap' l',
    ack_fold pn l gap ack last cap nr = (R, (g, a, lst), cap', l') /\
    (if lst then R ++ [(g - 1, a - 1)] else R) = runs_full (map tracked l) gap ack last /\
    (lst = true -> rc_incr (nr + Z.of_nat (length R)) + varint_size (g - 1) + varint_size (a - 1) <= cap').
Proof.
  induction l as [|s rest IH]; cbn [ack_fold map runs_full]; intros gap ack last cap nr Hcap.
  - exists [], gap, ack, last, cap, []. split; [reflexivity|]. split; [destruct last; reflexivity|].
    intros ->. cbn [ranges_size length] in Hcap. change (Z.of_nat 1) with 1 in Hcap.
    rewrite varint_size_succ in Hcap. cbn [length Z.of_nat]. rewrite Z.add_0_r. lia.
  - pose proof (track_flag pn s) as Hf. destruct (track pn s) as [s' t]. cbn [snd] in Hf. subst t.
    revert Hcap. destruct last, (tracked s); intros Hcap.
    + destruct (IH gap (ack + 1) true cap nr Hcap) as (R & g & a & lst & c' & l' & E & HF & HC).
      rewrite E. exists R, g, a, lst, c', (s' :: l'). auto.
    + cbn [ranges_size length] in Hcap. rewrite Nat2Z.inj_succ in Hcap.
      set (F := runs_full (map tracked rest) 1 0 false) in *.
      pose proof (ranges_size_nonneg F) as HFn.
      pose proof (varint_size_mono (nr + 1) (nr + Z.succ (Z.of_nat (length F))) ltac:(lia)) as Hm.
      rewrite varint_size_succ in Hm.
      destruct (cap <? rc_incr nr + varint_size (gap - 1) + varint_size (ack - 1)) eqn:C; [apply Z.ltb_lt in C; lia|].
      destruct (IH 1 0 false (cap - (rc_incr nr + varint_size (gap - 1) + varint_size (ack - 1))) (nr + 1)) as (R & g & a & lst & c' & l' & E & HF & HC).
      { fold F. rewrite varint_size_succ. replace (nr + 1 + Z.of_nat (length F)) with (nr + Z.succ (Z.of_nat (length F))) by lia. lia. }
      rewrite E. exists ((gap - 1, ack - 1) :: R), g, a, lst, c', (s' :: l'). split; [reflexivity|].
      split.
      * fold F in HF. rewrite <- HF. destruct lst; reflexivity.
      * intros Hl. specialize (HC Hl). cbn [length]. rewrite Nat2Z.inj_succ.
        replace (nr + Z.succ (Z.of_nat (length R))) with (nr + 1 + Z.of_nat (length R)) by lia. exact HC.
    + destruct (IH gap (ack + 1) true cap nr Hcap) as (R & g & a & lst & c' & l' & E & HF & HC).
      rewrite E. exists R, g, a, lst, c', (s' :: l'). auto.
    + destruct (IH (gap + 1) ack false cap nr Hcap) as (R & g & a & lst & c' & l' & E & HF & HC).
      rewrite E. exists R, g, a, lst, c', (s' :: l'). auto.
Qed.

(* every received record below the first range is inside one of the full ranges *)
Lemma runs_full_complete : forall (l : list bool) (p gap ack : Z) (last : bool) (smallest : Z),
  1 <= gap -> (if last then 1 <= ack else ack = 0) -> p = smallest - gap - ack - 1 ->
  forall x, (smallest - gap - ack <= x <= smallest - gap - 1) \/
            (exists i, (i < length l)%nat /\ x = p - Z.of_nat i /\ nth i l false = true) ->
  cov smallest (runs_full l gap ack last) x.
Proof.
  induction l as [|t rest IH]; cbn [runs_full]; intros p gap ack last sm Hg Ha Hp x Hx.
  - destruct Hx as [Hx|(i & Hi & _)]; [|cbn in Hi; lia].
    destruct last; [|lia]. cbn. left. lia.
  - destruct last, t.
    + apply (IH (p - 1) gap (ack + 1) true sm); try lia.
      destruct Hx as [Hx|(i & Hi & Hxi & Hn)]; [left; lia|].
      destruct i; [left; lia|]. right. exists i. cbn in Hi, Hn. split; [lia|]. split; [lia|exact Hn].
    + cbn [cov]. replace (sm - (gap - 1) - 2 - (ack - 1)) with (sm - gap - ack) by lia.
      destruct Hx as [Hx|(i & Hi & Hxi & Hn)]; [left; lia|].
      destruct i; [cbn in Hn; discriminate|]. right.
      apply (IH (p - 1) 1 0 false (sm - gap - ack)); try lia.
      right. exists i. cbn in Hi, Hn. split; [lia|]. split; [lia|exact Hn].
    + subst ack. apply (IH (p - 1) gap (0 + 1) true sm); try lia.
      destruct Hx as [Hx|(i & Hi & Hxi & Hn)]; [lia|].
      destruct i; [left; lia|]. right. exists i. cbn in Hi, Hn. split; [lia|]. split; [lia|exact Hn].
    + subst ack. apply (IH (p - 1) (gap + 1) 0 false sm); try lia.
      destruct Hx as [Hx|(i & Hi & Hxi & Hn)]; [lia|].
      destruct i; [cbn in Hn; discriminate|]. right. exists i. cbn in Hi, Hn. split; [lia|]. split; [lia|exact Hn].
Qed.

Lemma first_loop_indep : forall pn pn' l,
  fst (fst (first_loop pn l)) = fst (fst (first_loop pn' l)) /\ snd (first_loop pn l) = snd (first_loop pn' l).
Proof.
  induction l as [|s rest IH]; cbn [first_loop]; [auto|].
  pose proof (track_flag pn s) as H1. pose proof (track_flag pn' s) as H2.
  destruct (track pn s) as [s1 t1]. destruct (track pn' s) as [s2 t2]. cbn [snd] in *. subst.
  destruct (tracked s).
  - destruct (first_loop pn rest) as [[c1 d1] r1]. destruct (first_loop pn' rest) as [[c2 d2] r2].
    cbn [fst snd] in *. destruct IH. subst. auto.
  - auto.
Qed.

(* the frame that lists everything (what gen_ack_frame_util returns when capacity is no object) *)
Definition full_frame (j : rjournal) (now largest rt : Z) : ackframe :=
  let '(c, _, rest1) := first_loop 0 (ga_desc j largest) in
  mkack largest (Z.max 0 (now - rt) * 1000) (Z.max (c - 1) 0) (runs_full (map tracked rest1) 1 0 false).

Definition full_size (j : rjournal) (now largest rt : Z) : Z := ack_encoding_size (full_frame j now largest rt).

Lemma gen_ack_full : forall j now pn largest rt cap j' f,
  gen_ack j now pn largest rt cap = GaOk j' f -> full_size j now largest rt <= cap -> f = full_frame j now largest rt.
Proof.
  intros j now pn largest rt cap j' f H Hcap.
  destruct (gen_ack_inv _ _ _ _ _ _ _ _ H) as (c & done1 & rest1 & R & g & a & last & cap2 & rest' & _ & FL & Hmin & AF & Hf & _).
  unfold full_size, full_frame in *.
  destruct (first_loop_indep pn 0 (ga_desc j largest)) as [Hc Hr]. rewrite FL in Hc, Hr. cbn [fst snd] in Hc, Hr.
  destruct (first_loop 0 (ga_desc j largest)) as [[c0 d0] r0]. cbn [fst snd] in Hc, Hr. subst c0 r0.
  unfold ack_encoding_size in Hcap. cbn [a_largest a_delay a_first a_ranges] in Hcap.
  destruct (ack_fold_full pn rest1 1 0 false
     (cap - (1 + varint_size largest + varint_size (Z.max 0 (now - rt) * 1000) + varint_size (Z.max (c - 1) 0) + 1)) 0)
    as (R' & g' & a' & lst' & c' & l' & E & HF & HC).
  { change (varint_size 0) with 1. rewrite Z.add_0_l. lia. }
  rewrite AF in E. inversion E; subst R' g' a' lst' c' l'.
  subst f. f_equal. rewrite <- HF. destruct last; [|reflexivity].
  specialize (HC eq_refl). rewrite Z.add_0_l in HC.
  replace (rc_incr (Z.of_nat (length R)) + varint_size (g - 1) + varint_size (a - 1) <=? cap2) with true
    by (symmetry; apply Z.leb_le; lia).
  reflexivity.
Qed.

Lemma full_frame_complete : forall j now largest rt,
  0 <= r_off j -> ack_pre j largest ->
  exists rs, ack_iter (full_frame j now largest rt) = Some rs /\
    forall x, x <= largest -> has j x = true -> in_ranges x rs = true.
Proof.
  intros j now largest rt Hoff Hpre.
  (* the full frame is what gen_ack returns with a huge capacity; reuse soundness for wfr *)
  unfold full_frame.
  destruct (first_loop 0 (ga_desc j largest)) as [[c d0] rest1] eqn:FL.
  destruct (first_loop_spec _ _ _ _ _ FL) as (Hc & Hall & _ & Hend).
  destruct Hpre as [Hl0 [Hrot | (s & Hs & Hts)]].
  - assert (Hd : ga_desc j largest = []).
    { unfold ga_desc, n_le. replace (Z.to_nat (Z.min (largest - r_off j + 1) (r_len j))) with O by (unfold r_len; lia). reflexivity. }
    rewrite Hd in FL. cbn in FL. inversion FL; subst. cbn [map runs_full].
    unfold ack_iter. cbn [a_largest a_first a_ranges iter_tail].
    replace (largest <? Z.max (0 - 1) 0) with false by (symmetry; apply Z.ltb_ge; lia).
    eexists. split; [reflexivity|]. intros x Hx Hh. unfold has in Hh. apply andb_true_iff in Hh.
    destruct Hh as [Hh _]. apply Z.leb_le in Hh. lia.
  - pose proof (r_get_range _ _ _ Hs) as Hrange.
    pose proof (ga_desc_length j largest Hrange) as Hlen.
    (* wfr of the full ranges: via gen_ack with a capacity above the full size *)
    set (F := runs_full (map tracked rest1) 1 0 false).
    set (delay := Z.max 0 (now - rt) * 1000).
    set (first := Z.max (c - 1) 0).
    set (BIG := 1 + varint_size largest + varint_size delay + varint_size first + 1 + ranges_size F + 8 + 1).
    destruct (ack_fold_full 0 rest1 1 0 false (BIG - (1 + varint_size largest + varint_size delay + varint_size first + 1)) 0)
      as (R & g & a & lst & c' & l' & AF & HF & HC).
    { fold F. pose proof (varint_size_pos (0 + Z.of_nat (length F))). change (varint_size 0) with 1. unfold BIG. lia. }
    assert (Hhead : flag (ga_desc j largest) 0 = true).
    { apply flag_nth_error. unfold ga_desc.
      assert (Hfl : length (firstn (n_le j largest) (r_recs j)) = Z.to_nat (largest - r_off j + 1)).
      { rewrite firstn_length. unfold n_le, r_next, r_len in *. lia. }
      exists s. split; [|exact Hts].
      rewrite nth_error_nth' with (d := REmpty) by (rewrite rev_length; lia).
      rewrite rev_nth by lia. rewrite Hfl. rewrite nth_firstn_lt by (unfold n_le, r_next, r_len in *; lia).
      unfold r_get in Hs.
      replace ((r_off j <=? largest) && (largest <? r_next j)) with true in Hs
        by (symmetry; apply andb_true_iff; split; [apply Z.leb_le | apply Z.ltb_lt]; lia).
      replace (Z.to_nat (largest - r_off j + 1) - 1)%nat with (Z.to_nat (largest - r_off j)) by lia.
      f_equal. eapply nth_error_nth. exact Hs. }
    assert (Hc1 : 1 <= c).
    { destruct Hend as [[Hce _]|(Hclt & Hfc & _)]; [lia|].
      destruct (Z.eq_dec c 0) as [->|]; [cbn in Hfc; congruence|lia]. }
    assert (W : wfr (largest - (c - 1)) F).
    { destruct (ack_fold_sound 0 rest1 (largest - (c - 1) - 2) 1 0 false _ 0 R (g, a, lst) c' l' (largest - (c - 1)) AF) as [W _];
        try (cbn; intros; first [lia | discriminate]).
      - intros Hne. destruct Hend as [[_ Hr]|(Hclt & _ & Hr)]; [congruence|].
        rewrite Hr, skipn_length, Hlen. rewrite Hr in Hne.
        assert (S (Z.to_nat c) < length (ga_desc j largest))%nat.
        { destruct (Nat.lt_ge_cases (S (Z.to_nat c)) (length (ga_desc j largest))); [assumption|].
          rewrite skipn_all2 in Hne by lia. congruence. }
        lia.
      - unfold final_ranges in W. rewrite HF in W. exact W. }
    destruct (iter_tail_cov _ _ W) as (t & Ht & Hcov).
    clear AF HF HC. subst first. unfold ack_iter. cbn [a_largest a_first a_ranges]. fold F.
    replace (Z.max (c - 1) 0) with (c - 1) by lia.
    replace (largest <? c - 1) with false by (symmetry; apply Z.ltb_ge; lia).
    rewrite Ht. eexists. split; [reflexivity|].
    intros x Hx Hh. cbn [in_ranges existsb]. apply orb_true_iff.
    destruct (Z_lt_le_dec x (largest - (c - 1))) as [Hbelow|Hin].
    + right. apply Hcov.
      (* x is a received record below the first range: it is in rest1 *)
      unfold has in Hh. apply andb_true_iff in Hh. destruct Hh as [Hx0 Hfx]. apply Z.leb_le in Hx0.
      assert (Hdi : flag (ga_desc j largest) (Z.to_nat (largest - x)) = true).
      { apply flag_nth_error. apply flag_nth_error in Hfx. destruct Hfx as (sx & Hnx & Htx). exists sx. split; [|exact Htx].
        unfold ga_desc.
        assert (Hfl : length (firstn (n_le j largest) (r_recs j)) = Z.to_nat (largest - r_off j + 1)).
        { rewrite firstn_length. unfold n_le, r_next, r_len in *. lia. }
        rewrite nth_error_nth' with (d := REmpty) by (rewrite rev_length; lia).
        rewrite rev_nth by lia. rewrite Hfl. rewrite nth_firstn_lt by (unfold n_le, r_next, r_len in *; lia).
        replace (Z.to_nat (largest - r_off j + 1) - S (Z.to_nat (largest - x)))%nat with (Z.to_nat (x - r_off j)) by lia.
        f_equal. eapply nth_error_nth. exact Hnx. }
      destruct Hend as [[Hce Hr]|(Hclt & Hfc & Hr)].
      * (* no record below the first range *) exfalso. lia.
      * assert (Z.to_nat (largest - x) <> Z.to_nat c) by (intros E; rewrite E in Hdi; congruence).
        apply (runs_full_complete (map tracked rest1) (largest - (c - 1) - 2) 1 0 false (largest - (c - 1))); try lia.
        right. exists (Z.to_nat (largest - x) - S (Z.to_nat c))%nat.
        rewrite map_length, Hr, skipn_length, Hlen.
        split; [lia|]. split; [lia|].
        fold (flag (skipn (S (Z.to_nat c)) (ga_desc j largest)) (Z.to_nat (largest - x) - S (Z.to_nat c))).
        rewrite skipn_flag. replace (S (Z.to_nat c) + (Z.to_nat (largest - x) - S (Z.to_nat c)))%nat with (Z.to_nat (largest - x)) by lia.
        exact Hdi.
    + left. unfold in_range. cbn [fst snd]. apply andb_true_iff. split; apply Z.leb_le; lia.
Qed.

(* c10_ack_complete: capacity at least the size of the frame that lists everything *)
Lemma p_c10_ack_complete : forall h j reg now pn largest rt cap j' f,
  rreach h j reg -> In largest reg ->
  gen_ack j now pn largest rt cap = GaOk j' f -> full_size j now largest rt <= cap ->
  exists rs, ack_iter f = Some rs /\
    forall x, x <= largest -> has j x = true -> in_ranges x rs = true.
Proof.
  intros h j reg now pn largest rt cap j' f R Hin H Hcap. pose proof (rreach_inv _ _ _ R) as I.
  destruct (ri_reg _ _ I largest Hin) as [Hl0 Hc].
  assert (Hpre : ack_pre j largest).
  { split; [exact Hl0|]. destruct Hc as [Hc|Hc]; [left; exact Hc|right; apply has_get; exact Hc]. }
  rewrite (gen_ack_full _ _ _ _ _ _ _ _ H Hcap).
  apply full_frame_complete; [apply I | exact Hpre].
Qed.

(* regression witness of the repaired finding F30 (`capacity > size`): with capacity == full size
   (7 bytes) the complete frame is returned; one byte less and the last range is (rightly) cut *)
Lemma p_c10_ack_exact_fit :
  let h := [RvRcvd 0 0 true 10; RvRcvd 0 2 true 10] in
  match rv_run (rj_new None) [] h with
  | Some (j, reg) =>
      full_size j 0 2 0 = 7 /\
      match gen_ack j 0 1 2 0 7, gen_ack j 0 1 2 0 6 with
      | GaOk _ f, GaOk _ f6 =>
          ack_iter f = Some [(2, 2); (0, 0)] /\ ack_encoding_size f = 7 /\
          ack_iter f6 = Some [(2, 2)] /\ ack_encoding_size f6 = 5
      | _, _ => False
      end
  | None => False
  end.
Proof. vm_compute. repeat split; auto. Qed.

(* generating a frame (whatever the capacity, also when it is refused) never removes a number
   from the tracked set: numbers left out for capacity are listed by the next frame that has room *)
Lemma p_c10_genack_keeps_tracked : forall j now pn largest rt cap,
  match gen_ack j now pn largest rt cap with
  | GaOk j' _ | GaErr j' => r_off j' = r_off j /\ forall q, has j' q = has j q
  | GaPanic => True
  end.
Proof.
  intros j now pn largest rt cap. pose proof (gen_ack_flags j now pn largest rt cap) as F.
  destruct (gen_ack j now pn largest rt cap) as [j' f|j'|]; try exact I;
    destruct F as [Ho Hm]; (split; [exact Ho | apply has_ext; assumption]).
Qed.
