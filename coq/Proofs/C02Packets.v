(* C02 — composition statements over the abstract packet layer of Model/C02Packets.v under the
   ideal-AEAD hypothesis of DESIGN §7 (a Section hypothesis, never an axiom). *)
From Coq Require Import List NArith Bool Lia.
From GQ Require Import Model.C02Packets.
Import ListNotations.
Local Open Scope N_scope.

Section IdealAEAD.
  Variables pkt frame : Type.
  Variable open : pkt -> option (N * list frame).
  (* everything the peer ever put into packets under these keys: (packet number, frames) *)
  Variable sent : list (N * list frame).
  (* ideal AEAD (integrity of ciphertexts): a datagram that the adversary dropped, delayed, reordered,
     duplicated, truncated or bit-flipped either fails to open or is, as far as the receiver can
     tell, one of the packets the peer sealed *)
  Hypothesis ideal_aead : forall p x, open p = Some x -> In x sent.

  Lemma recv_all_spec : forall ps st,
    let out := recv_all pkt frame open st ps in
    incl out sent /\ NoDup (map fst out) /\ (forall x, In x out -> ~ In (fst x) st).
  Proof.
    induction ps as [|p r IH]; intro st; cbn [recv_all].
    - cbn. split; [intros x []|]. split; [constructor|intros x []].
    - unfold recv_pkt. destruct (open p) as [[pn fs]|] eqn:O; [|apply IH].
      destruct (seen st pn) eqn:S; [apply IH|].
      destruct (IH (pn :: st)) as (I & N & F). cbn zeta in *.
      split; [intros x [<-|Hx]; [eapply ideal_aead; eauto|apply I; exact Hx]|].
      split.
      + cbn [map fst]. constructor; [|exact N].
        intro Hin. apply in_map_iff in Hin. destruct Hin as (x & Hx1 & Hx2).
        apply (F x Hx2). left. symmetry; exact Hx1.
      + intros x [<-|Hx]; cbn [fst].
        * intro Hin. unfold seen in S. assert (existsb (N.eqb pn) st = true); [|congruence].
          apply existsb_exists. exists pn. split; [exact Hin|apply N.eqb_refl].
        * intro Hin. apply (F x Hx). right; exact Hin.
  Qed.

  Lemma p_c02_no_forgery : forall delivered f,
    In f (dispatched pkt frame open delivered) -> exists pn fs, In (pn, fs) sent /\ In f fs.
  Proof.
    intros delivered f H. unfold dispatched in H. apply in_concat in H.
    destruct H as (fs & H1 & H2). apply in_map_iff in H1. destruct H1 as ([pn fs'] & E & H1).
    cbn in E. subst fs'. exists pn, fs. split; [|exact H2].
    destruct (recv_all_spec delivered []) as (I & _ & _). apply I. exact H1.
  Qed.

  Lemma p_c02_no_replay : forall delivered,
    NoDup (map fst (processed pkt frame open delivered)) /\ incl (processed pkt frame open delivered) sent.
  Proof.
    intro delivered. destruct (recv_all_spec delivered []) as (I & N & _). split; assumption.
  Qed.

  (* with C07's guarantee (the peer never reuses a packet number) no sealed packet's frames are
     dispatched twice: the processed list has no duplicates at all *)
  Lemma p_c02_at_most_once : forall delivered,
    NoDup (map fst sent) -> NoDup (processed pkt frame open delivered).
  Proof.
    intros delivered _. destruct (p_c02_no_replay delivered) as [N _].
    eapply NoDup_map_inv; exact N.
  Qed.
End IdealAEAD.
