"""C05 — every encodable value decodes back to itself, in the size it declared."""
import extract_tables
import pycodec as pc
from vlib import Case

PROP_FILE = "Properties/C05.v"
RULE = ("cases = batches of ENC(value) / DEC(reference encoding [+ trailing bytes]) / REENC ops over random well-formed values of all "
        "frame kinds (boundary varints 0,63,64,16383,16384,2^30-1,2^30,2^62-1 and ±2, empty and long byte fields, every flag combination), "
        "varints at every width, headers, connection ids, addresses and transport-parameter sets; a case is non-trivial when a value in it "
        "hits a varint width boundary or carries a non-default flag; distinct by hash of the op list")
TRUSTED_BASE = ["tools/pycodec.py: independent Python reference encoder written from RFC 9000 (third implementation used by the oracle)",
                "coq/Generated/FrameTable.v is regenerated from qbase/src/frame.rs by tools/extract_tables.py on every run (translator trusted)"]
MODELLED = ("qbase/src/varint.rs, frame.rs (FrameType tables regenerated), frame/io.rs (be_frame, complete_frame), frame/*.rs (all 26 kinds: "
            "parser, put_frame, encoding_size, max_encoding_size), sid.rs be_streamid, cid/connection_id.rs, token.rs reset token, net.rs socket address")
ASSUMPTIONS = ["nom combinators, bytes::BufMut::put_* and Bytes::slice behave as documented (complete vs streaming take; big-endian put_uN)",
               "domain guards stated in the theorems: varint fields < 2^62, data/token/reason lengths < 2^32, reason phrase valid UTF-8, max_streams <= 2^60-1"]
MANIFEST = {
    "text": "Machine-checked Coq theorems (Properties/C05.v) over an executable model of the whole frame codec: for every well-formed value of each of the 26 frame kinds and every permitted packet type, be_frame (put_frame v ++ rest) returns v and consumes exactly the bytes written; |put_frame v| = encoding_size v + data length <= max_encoding_size v + data length; the varint round-trips at every width; the frame-type table (regenerated from the Rust source every run) is a bijection between types and codes. Model and Rust are run on the same values/bytes every check (encode, decode, re-encode), and the property is evaluated directly on the implementation against an independent Python reference encoder.",
    "note": "Trusted: Coq kernel, table translator, extraction, harness, Python reference codec. Model is hand-written from frame/*.rs; equality with the Rust is checked by correspondence, not proved. NEW_CONNECTION_ID cannot be built from fields through the public API (random reset token) and is covered through decode/re-encode.",
    "technique": "Coq proof (parser/printer round-trip lemmas per frame kind, size lemmas) over a model tied by regenerated tables + differential correspondence",
}


def regen():
    extract_tables.regen_all()


def canon_code(code, f):
    if pc.STREAM <= code <= pc.STREAM + 7:
        return pc.STREAM | (4 if f[1] != 0 else 0) | (2 if f[2] else 0) | (1 if f[3] else 0)
    return code


def fields_as_printed(code, f):
    return list(f)


def admission_ops(rng):
    """estimate + strategy as try_load_data_into uses them, and the crypto estimate"""
    sid = pc.rand_varint(rng)
    off = rng.choice([0, 0, 1, 63, 64, 16383, 16384, pc.rand_varint(rng)])
    cap = rng.choice([1, 2, 3, 9, 10, 17, 25, 26, 27, 50, 51, 64, 80, 100, 1200, 1452, 16400, 16420, rng.randint(1, 1500)])
    least = 1 + pc.varint_size(sid) + (0 if off == 0 else pc.varint_size(off))
    out = [((8, [cap, sid, off]), ("AE", cap, least))]
    if cap > least:
        room = cap - least
        ln = rng.choice([0, 1, room, max(0, room - 1), max(0, room - 2), max(0, room - 3), max(0, room - 26), max(0, room - 27), rng.randint(0, room)])
        out.append(((7, [cap, sid, off, ln]), ("AS", cap, least, ln)))
    ccap = rng.choice([0, 1, 3, 4, 5, 66, 67, 68, 69, 70, 16387, 16388, 16389, 16390, 16391, 16392, rng.randint(0, 20000)])
    coff = rng.choice([0, 63, 64, 16383, 16384, pc.rand_varint(rng)])
    out.append(((9, [ccap, coff]), ("AC", ccap, coff)))
    return out


def gen_case(rng, name, n=14, small=False):
    ops = []
    meta = []
    for _ in range(n):
        r = rng.random()
        if r > 0.9:
            for op, m in admission_ops(rng):
                ops.append(op)
                meta.append(m)
            continue
        if r < 0.12:
            x = pc.rand_varint(rng)
            ops.append((4, [x]))
            meta.append(("V", x))
            tail = pc.rand_bytes(rng, rng.choice([0, 0, 1, 5]))
            w = rng.choice([w for w in (1, 2, 4, 8) if x < 1 << (8 * w - 2)])
            enc = pc.varint_nonminimal(x, w)
            ops.append((5, [enc + tail]))
            meta.append(("DV", x, len(enc)))
            continue
        code, f = pc.rand_frame(rng, small=small)
        code = canon_code(code, f)
        wire = pc.encode_frame(code, f)
        if code != pc.NEW_CONNECTION_ID:      # constructor draws a random reset token: decode/re-encode only
            ops.append((3, [code] + f))
            meta.append(("E", code, f, wire))
        pts = pc.allowed_ptypes(code)
        p = rng.choice(pts)
        no_len = (pc.STREAM <= code <= pc.STREAM + 7 and not (code & 2)) or code == pc.DATAGRAM
        tail = b"" if no_len else pc.rand_bytes(rng, rng.choice([0, 0, 0, 1, 3, 9]))
        ops.append((1, [p, wire + tail]))
        meta.append(("D", code, f, len(wire)))
        if rng.random() < 0.5:
            ops.append((6, [p, wire + tail]))
            meta.append(("R", code, f, wire))
    return Case(name, ops, meta={"m": meta})


def oracle(case, obs):
    meta = case.meta.get("m")
    if meta is None:
        return None
    if len(obs) != len(case.ops):
        return "length: %d observations for %d ops (%s)" % (len(obs), len(case.ops), obs[-1] if obs else "")
    for k, (m, line) in enumerate(zip(meta, obs)):
        if line.startswith("!"):
            return "abnormal: op %d -> %s" % (k, line)
        v = [int(x) for x in line.split()]
        if m[0] == "V":
            x = m[1]
            if v[0] != len(v) - 1 or bytes(v[1:]) != pc.varint(x):
                return "varint-enc: op %d put_varint(%d) wrote %s, declared %d" % (k, x, v[1:], v[0])
        elif m[0] == "DV":
            if v != [0, m[1], m[2]]:
                return "varint-dec: op %d be_varint -> %s expected value %d consumed %d" % (k, v, m[1], m[2])
        elif m[0] == "E":
            code, f, wire = m[1], m[2], m[3]
            if v == [-3]:
                continue
            if v[0] != 0:
                return "enc: op %d frame 0x%x not encoded: %s" % (k, code, v[:3])
            size, mx, out = v[1], v[2], bytes(v[3:])
            if out != wire:
                return "enc-bytes: op %d frame 0x%x bytes differ from the reference encoding (got %d bytes, want %d)" % (k, code, len(out), len(wire))
            if len(out) != size + pc.data_len(code, f):
                return "enc-size: op %d frame 0x%x declared encoding_size %d but wrote %d (+%d data)" % (k, code, size, len(out) - pc.data_len(code, f), pc.data_len(code, f))
            if size > mx:
                return "enc-max: op %d frame 0x%x encoding_size %d exceeds max_encoding_size %d" % (k, code, size, mx)
        elif m[0] == "D":
            code, f, n = m[1], m[2], m[3]
            if v[0] != 0:
                return "dec: op %d valid frame 0x%x rejected: %s" % (k, code, v)
            no_len = (pc.STREAM <= code <= pc.STREAM + 7 and not (code & 2)) or code == pc.DATAGRAM
            if v[1] != n:
                return "dec-consumed: op %d frame 0x%x consumed %d of %d written bytes" % (k, code, v[1], n)
            if v[2] != code or v[3:] != list(f):
                return "dec-value: op %d frame 0x%x decoded to a different value: %s" % (k, code, v[2:12])
        elif m[0] == "AE":
            cap, least = m[1], m[2]
            if v != ([1, cap - least] if cap > least else [0]):
                return "estimate: op %d stream estimate_max_capacity(%d) with header %d gives %s" % (k, cap, least, v)
        elif m[0] == "AS":
            cap, least, ln = m[1], m[2], m[3]
            if v[0] != 0:
                return "strategy: op %d encoding_strategy failed: %s" % (k, v)
            written = v[2] + least + (pc.varint_size(ln) if v[1] else 0) + ln
            if written > cap:
                return "admission: op %d stream frame of %d data bytes admitted into %d bytes writes %d (padding %d)" % (k, ln, cap, written, v[2])
            if not v[1] and written != cap:
                return "fill: op %d frame without length does not fill the packet (%d of %d)" % (k, written, cap)
            if not v[1] and cap - (least + ln) >= pc.varint_size(ln):
                return "lenbit: op %d length omitted although it fits" % k
        elif m[0] == "AC":
            ccap, coff = m[1], m[2]
            need = 1 + pc.varint_size(coff)
            best = None
            # largest n with need + varint_size(n) + n <= ccap
            lo, hi = 0, ccap
            for n in range(max(0, ccap - need - 8), ccap + 1):
                if n > 0 and need + pc.varint_size(n) + n <= ccap:
                    best = n
            want = [0] if ccap < need + 2 else [1, best]
            if v != want:
                return "cryptoest: op %d crypto estimate_max_capacity(%d, off %d) gives %s, largest fitting length is %s" % (k, ccap, coff, v, want)
        elif m[0] == "R":
            code, f, wire = m[1], m[2], m[3]
            if v[0] != 0:
                return "reenc: op %d valid frame 0x%x rejected" % (k, code)
            size, mx, out = v[2], v[3], bytes(v[4:])
            if out != wire:
                return "reenc-bytes: op %d frame 0x%x decode-then-encode changed the bytes" % (k, code)
            if len(out) != size + pc.data_len(code, f) or size > mx:
                return "reenc-size: op %d frame 0x%x declared %d (max %d), wrote %d (+%d data)" % (k, code, size, mx, len(out) - pc.data_len(code, f), pc.data_len(code, f))
    return None


def nontrivial(case):
    for t, a in case.ops:
        if t == 3:
            if any(isinstance(x, int) and x in (63, 64, 16383, 16384, (1 << 30) - 1, 1 << 30, (1 << 62) - 1) for x in a[1:]):
                return True
            if a[0] in (3, 0x31, 0x13, 0x17, 0x1d) or (8 < a[0] <= 15):
                return True
    return False


def hist(case):
    lab = []
    for t, a in case.ops:
        if t == 3:
            lab.append("enc:0x%x" % a[0])
        elif t == 1:
            lab.append("dec:ptype%d" % a[0])
        elif t == 6:
            lab.append("reenc")
        elif t in (4, 5):
            lab.append("varint")
    return lab


def gen(rng, tier):
    n = 1500 if tier == "quick" else 40000
    cases = [gen_case(rng, "c%d" % i) for i in range(n)]
    # every frame kind at least a few times
    for j, code in enumerate(pc.ALL_CODES):
        for r in range(3 if tier == "quick" else 30):
            ops, meta = [], []
            c, f = pc.rand_frame(rng, code=code)
            c = canon_code(c, f)
            wire = pc.encode_frame(c, f)
            if c != pc.NEW_CONNECTION_ID:
                ops.append((3, [c] + f))
                meta.append(("E", c, f, wire))
            for p in pc.allowed_ptypes(c):
                ops.append((1, [p, wire]))
                meta.append(("D", c, f, len(wire)))
                ops.append((6, [p, wire]))
                meta.append(("R", c, f, wire))
            cases.append(Case("k%x-%d" % (code, r), ops, meta={"m": meta}))
    return cases


def mutate(rng, case, j):
    return gen_case(rng, "m%d" % j, n=6, small=True)


# ---------------------------------------------------------------------------------------
# stream `pkt`: packet headers, datagram splitting, transport parameters
# ---------------------------------------------------------------------------------------

def param_ops(rng, role):
    ps = pc.rand_params(rng, role)
    fields = []
    for pid, v in ps.items():
        fields += pc.param_fields(pid, pc.PARAMS[pid], v)
    order = list(ps.items())
    rng.shuffle(order)
    blob = b""
    for pid, v in order:
        if rng.random() < 0.15:     # unknown ids must be skipped (reserved 31*N+27 and a random large one)
            blob += pc.varint(rng.choice([27, 58, 0x1234567])) + pc.varint(3) + b"abc"
        blob += pc.encode_param(pid, pc.PARAMS[pid], v)
    expected = []
    for pid in sorted(ps):
        expected += pc.param_fields(pid, pc.PARAMS[pid], ps[pid])
    raw = []
    for pid in sorted(ps):
        enc = pc.encode_param(pid, pc.PARAMS[pid], ps[pid])
        idl = len(pc.varint(pid))
        # value bytes = after id and length
        ln = enc[idl] >> 6
        lsz = 1 << ln
        raw += [pid, 2] + pc.pb(enc[idl + lsz:])
    return [((14, [role] + fields), ("PE", raw)), ((13, [role, blob]), ("PD", expected))]


def gen_pkt_case(rng, name, n=8):
    ops, meta = [], []
    for _ in range(n):
        r = rng.random()
        if r < 0.3:
            for op, m in param_ops(rng, rng.randint(0, 1)):
                ops.append(op)
                meta.append(m)
            continue
        kind, f = pc.rand_header(rng)
        wire = pc.encode_header(kind, f)
        ops.append((12, [kind] + f))
        meta.append(("HE", kind, f, wire))
        if kind in (pc.H_VN, pc.H_RETRY):
            ops.append((10, [8, wire]))
            meta.append(("HD", kind, f, len(wire), len(wire)))
        else:
            dl = f[1] if kind == pc.H_ONE_RTT else 8
            pkt, off = pc.data_packet(rng, kind, f, rng.choice([20, 21, 40, 1200]))
            ops.append((10, [dl, pkt]))
            meta.append(("HD", kind, f, len(pkt), off))
            if kind != pc.H_ONE_RTT and rng.random() < 0.6:
                # coalesced: a second packet follows in the same datagram
                k2, f2 = pc.rand_header(rng, kind=rng.choice([pc.H_HANDSHAKE, pc.H_ZERO_RTT, pc.H_ONE_RTT, pc.H_INITIAL]))
                dl2 = f2[1] if k2 == pc.H_ONE_RTT else rng.randint(0, 20)
                pkt2, off2 = pc.data_packet(rng, k2, f2, rng.choice([20, 33]))
                ops.append((11, [dl2, pkt + pkt2]))
                meta.append(("HR", [(kind, len(pkt), off), (k2, len(pkt2), off2)]))
    return Case(name, ops, meta={"m": meta})


def pkt_oracle(case, obs):
    meta = case.meta.get("m")
    if meta is None:
        return None
    if len(obs) != len(case.ops):
        return "length: %d observations for %d ops (%s)" % (len(obs), len(case.ops), obs[-1] if obs else "")
    for k, (m, line) in enumerate(zip(meta, obs)):
        if line.startswith("!"):
            return "abnormal: op %d -> %s" % (k, line)
        v = [int(x) for x in line.split()]
        if m[0] == "HE":
            kind, f, wire = m[1], m[2], m[3]
            if v[0] != 0 or bytes(v[2:]) != wire:
                return "hdr-enc: op %d header kind %d bytes differ from the reference encoding" % (k, kind)
            if v[1] != -1 and v[1] != len(wire):
                return "hdr-size: op %d header kind %d declared size %d, wrote %d" % (k, kind, v[1], len(wire))
        elif m[0] == "HD":
            kind, f, total, off = m[1], m[2], m[3], m[4]
            if v[:4] != [0, kind, total, off]:
                return "pkt-dec: op %d packet kind %d total %d offset %d decoded as %s" % (k, kind, total, off, v[:4])
            if v[4:] != list(f):
                return "hdr-dec: op %d header kind %d decoded to different fields" % (k, kind)
        elif m[0] == "HR":
            exp = []
            for (kind, total, off) in m[1]:
                exp += [0, kind, total, off]
            if v != exp:
                return "coalesced: op %d datagram split as %s expected %s" % (k, v, exp)
        elif m[0] == "PE":
            if v != [0] + m[1]:
                return "param-enc: op %d put_parameters wrote a different parameter set" % k
        elif m[0] == "PD":
            if v != [0] + m[1]:
                return "param-dec: op %d valid parameters decoded to %s..." % (k, v[:8])
    return None


def pkt_hist(case):
    lab = []
    for t, a in case.ops:
        lab.append({10: "be_packet", 11: "reader", 12: "put_header:%s" % a[0], 13: "params-dec", 14: "params-enc"}.get(t, "?"))
    return lab


def gen_pkt(rng, tier):
    n = 800 if tier == "quick" else 20000
    return [gen_pkt_case(rng, "p%d" % i) for i in range(n)]


STREAMS = [{
    "name": "codec", "pkg": "hb", "bin": "impl_codec",
    "gen": gen, "oracle": oracle, "nontrivial": nontrivial, "hist": hist, "mutate": mutate,
    "profiles": ("debug",), "profiles_thorough": ("debug", "release"),
    "rule": RULE,
}, {
    "name": "pkt", "pkg": "hb", "bin": "impl_pkt",
    "gen": gen_pkt, "oracle": pkt_oracle, "nontrivial": lambda c: len(c.ops) >= 4, "hist": pkt_hist,
    "mutate": lambda rng, case, j: gen_pkt_case(rng, "m%d" % j, n=3),
    "profiles": ("debug",), "profiles_thorough": ("debug", "release"),
    "rule": "headers of all six kinds with cid lengths 0..20, tokens 0..200 bytes, coalesced datagrams, valid parameter sets for both roles in random order with unknown ids interleaved",
}]
