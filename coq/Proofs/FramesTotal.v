(* Totality of the frame decoder (property C03, frames): no Panic outcome is reachable, every
   successful parse consumes between 1 and |input| bytes, FrameReader terminates, error mapping. *)
From Coq Require Import List ZArith NArith Bool Lia.
From GQ Require Import Lib.Wire Model.Varint Model.Frames Proofs.Wire Proofs.Frames.
Import ListNotations.
Local Open Scope Z_scope.

(* a parser is safe when it never panics and never returns more input than it was given *)
Definition safe {A} (p : parser A) : Prop :=
  forall bs, (forall s, p bs <> Panic s) /\ (forall v r, p bs = Ok v r -> zlen r <= zlen bs).
Definition strict {A} (p : parser A) : Prop :=
  forall bs v r, p bs = Ok v r -> zlen r < zlen bs.

Lemma safe_ret {A} (v : A) : safe (ret v).
Proof. intro bs. unfold ret. split; [discriminate|]. intros v' r H. injection H as _ <-. lia. Qed.

Lemma safe_bad {A} k : safe (fun _ : list Z => @Bad A k).
Proof. intro bs. split; discriminate. Qed.
Lemma safe_inc {A} : safe (fun _ : list Z => @Incomplete A).
Proof. intro bs. split; discriminate. Qed.

Lemma safe_bind {A B} (p : parser A) (f : A -> parser B) :
  safe p -> (forall v, safe (f v)) -> safe (bind p f).
Proof.
  intros Hp Hf bs. unfold bind. destruct (Hp bs) as [P1 P2].
  destruct (p bs) as [v r| | |s] eqn:E.
  - destruct (Hf v r) as [F1 F2]. split; [exact F1|].
    intros v' r' H. specialize (F2 _ _ H). specialize (P2 _ _ eq_refl). lia.
  - split; discriminate.
  - split; discriminate.
  - exfalso. exact (P1 s eq_refl).
Qed.

Lemma strict_bind_l {A B} (p : parser A) (f : A -> parser B) :
  strict p -> (forall v, safe (f v)) -> strict (bind p f).
Proof.
  intros Hp Hf bs v r. unfold bind. destruct (p bs) as [v0 r0| | |s] eqn:E; try discriminate.
  intro H. destruct (Hf v0 r0) as [_ F2]. specialize (F2 _ _ H). specialize (Hp _ _ _ E). lia.
Qed.

Lemma safe_if {A} (b : bool) (p q : parser A) : safe p -> safe q -> safe (if b then p else q).
Proof. destruct b; auto. Qed.

Lemma get_be_len n : forall acc bs v r, get_be n acc bs = Some (v, r) -> zlen r + Z.of_nat n = zlen bs.
Proof.
  intros acc bs v r H. apply get_be_rest in H. destruct H as [-> Hn].
  unfold zlen. rewrite skipn_length. lia.
Qed.

Lemma safe_be_varint : safe be_varint.
Proof.
  intro bs. unfold be_varint. destruct bs as [|b t]; [split; discriminate|].
  match goal with |- context [get_be ?n 0 ?l] => destruct (get_be n 0 l) as [[w rest]|] eqn:E end;
    [|split; discriminate].
  split; [discriminate|]. intros v r H. injection H as _ <-. apply get_be_len in E. lia.
Qed.

Lemma strict_be_varint : strict be_varint.
Proof.
  intros bs v r. unfold be_varint. destruct bs as [|b t]; [discriminate|].
  match goal with |- context [get_be ?n 0 ?l] => destruct (get_be n 0 l) as [[w rest]|] eqn:E end;
    [|discriminate].
  intro H. injection H as _ <-. apply get_be_len in E.
  destruct (b / 64 =? 0), (b / 64 =? 1), (b / 64 =? 2); lia.
Qed.

Lemma safe_take_s n : safe (take_s n).
Proof.
  intro bs. unfold take_s. destruct (zlen bs <? n); [split; discriminate|].
  split; [discriminate|]. intros v r H. injection H as _ <-. unfold zlen. rewrite skipn_length. lia.
Qed.
Lemma safe_take_c n : safe (take_c n).
Proof.
  intro bs. unfold take_c. destruct (zlen bs <? n); [split; discriminate|].
  split; [discriminate|]. intros v r H. injection H as _ <-. unfold zlen. rewrite skipn_length. lia.
Qed.
Lemma safe_be_uint_s n : safe (be_uint_s n).
Proof.
  intro bs. unfold be_uint_s. destruct (get_be n 0 bs) as [[v r]|] eqn:E; [|split; discriminate].
  split; [discriminate|]. intros v' r' H. injection H as _ <-. apply get_be_len in E. lia.
Qed.
Lemma safe_be_uint_c n : safe (be_uint_c n).
Proof.
  intro bs. unfold be_uint_c. destruct (get_be n 0 bs) as [[v r]|] eqn:E; [|split; discriminate].
  split; [discriminate|]. intros v' r' H. injection H as _ <-. apply get_be_len in E. lia.
Qed.

Ltac safe_auto :=
  repeat first
    [ apply safe_ret | apply safe_bad | apply safe_inc | apply safe_be_varint
    | apply safe_take_s | apply safe_take_c | apply safe_be_uint_s | apply safe_be_uint_c
    | apply safe_bind; [|intro] | apply safe_if ].

Lemma safe_be_cid : safe be_cid.
Proof. unfold be_cid. safe_auto. Qed.

Lemma safe_be_addr v6 : safe (be_addr v6).
Proof. unfold be_addr. safe_auto. Qed.

Lemma safe_be_nat : safe be_nat.
Proof. unfold be_nat. safe_auto. destruct (nat_type_of v); safe_auto. Qed.

Lemma safe_be_ranges : forall fuel n, safe (be_ranges n fuel).
Proof.
  induction fuel as [|fuel IH]; intro n; destruct n; cbn [be_ranges]; try apply safe_inc.
  - safe_auto.
  - safe_auto. apply IH.
Qed.

(* a data body cut out of the remaining input *)
Lemma safe_cut {A} (mk : list Z -> A) n :
  safe (fun bs => if zlen bs <? n then Incomplete else Ok (mk (firstn (Z.to_nat n) bs)) (skipn (Z.to_nat n) bs)).
Proof.
  intro bs. destruct (zlen bs <? n); [split; discriminate|]. split; [discriminate|].
  intros v r H. injection H as _ <-. unfold zlen. rewrite skipn_length. lia.
Qed.

Lemma safe_be_ack ecn : safe (be_ack ecn).
Proof.
  intro bs. unfold be_ack.
  refine (safe_bind be_varint _ safe_be_varint _ bs). intro l.
  apply safe_bind; [apply safe_be_varint|intro d].
  apply safe_bind; [apply safe_be_varint|intro count].
  apply safe_bind; [apply safe_be_varint|intro fr].
  intro bs'.
  refine (safe_bind _ _ (safe_be_ranges _ _) _ bs'). intro rs.
  destruct ecn; safe_auto.
Qed.

Lemma safe_ack_verify f : safe (ack_verify f).
Proof. unfold ack_verify. destruct f; try apply safe_ret. destruct (ack_valid _ _ _); [apply safe_ret|apply safe_bad]. Qed.

Lemma safe_be_close_app : safe be_close_app.
Proof. unfold be_close_app. safe_auto. Qed.

Lemma safe_be_close_quic : safe be_close_quic.
Proof.
  unfold be_close_quic. safe_auto.
  intro bs. destruct (safe_be_varint bs) as [V1 V2].
  destruct (be_varint bs) as [ft rest| | |s] eqn:E; try (split; discriminate).
  - destruct (ft_of_code ft); [|split; discriminate].
    match goal with |- context [bind be_varint ?f] => assert (S : safe (bind be_varint f)) by safe_auto end.
    destruct (S rest) as [S1 S2]. split; [exact S1|].
    intros v' r' H. specialize (S2 _ _ H). specialize (V2 _ _ eq_refl). lia.
  - exfalso. exact (V1 s eq_refl).
Qed.

Lemma safe_be_new_cid : safe be_new_cid.
Proof.
  unfold be_new_cid. safe_auto. destruct v1; safe_auto.
Qed.

Ltac safe_auto2 :=
  repeat first
    [ apply safe_ret | apply safe_bad | apply safe_inc | apply safe_be_varint
    | apply safe_take_s | apply safe_take_c | apply safe_be_uint_s | apply safe_be_uint_c
    | apply safe_be_nat | apply safe_be_addr | apply safe_be_cid
    | apply safe_bind; [|intro] | apply safe_if ].

Lemma safe_stream_tail (lb : bool) (mk : list Z -> frame) off :
  safe (fun bs =>
         match (if lb then be_varint bs else Ok (zlen bs) bs) with
         | Ok len rest =>
             if VARINT_MAX <? off + len then Bad EK_TooLarge
             else if zlen rest <? len then Incomplete
             else Ok (mk (firstn (Z.to_nat len) rest)) (skipn (Z.to_nat len) rest)
         | Incomplete => Incomplete
         | Bad k => Bad k
         | Panic st => Panic st
         end).
Proof.
  intro bs. destruct lb.
  - destruct (safe_be_varint bs) as [V1 V2].
    destruct (be_varint bs) as [n rest| | |s] eqn:E; try (split; discriminate).
    + destruct (VARINT_MAX <? off + n); [split; discriminate|].
      destruct (zlen rest <? n) eqn:El; [split; discriminate|]. split; [discriminate|].
      intros v' r' H. injection H as _ <-. specialize (V2 _ _ eq_refl). unfold zlen in *. rewrite skipn_length. lia.
    + exfalso. exact (V1 s eq_refl).
  - destruct (VARINT_MAX <? off + zlen bs); [split; discriminate|].
    destruct (zlen bs <? zlen bs); [split; discriminate|]. split; [discriminate|].
    intros v' r' H. injection H as _ <-. unfold zlen. rewrite skipn_length. lia.
Qed.

Lemma safe_all {A} (mk : list Z -> A) : safe (fun bs => Ok (mk bs) []).
Proof. intro bs. split; [discriminate|]. intros v r H. injection H as _ <-. unfold zlen; cbn [length]. lia. Qed.

Lemma safe_be_body t : safe (be_body t).
Proof.
  destruct t; cbn [be_body];
    try solve [ safe_auto
              | apply safe_bind; [apply safe_be_ack|intro; apply safe_ack_verify]
              | apply safe_be_new_cid
              | safe_auto; apply safe_cut
              | safe_auto2 ].
  - (* Stream *)
    apply safe_bind; [apply safe_be_varint|intro s].
    apply safe_bind; [destruct off; safe_auto|intro o].
    apply (safe_stream_tail len (fun d => Stream s o len fin d) o).
  - destruct app; [apply safe_be_close_app|apply safe_be_close_quic].
  - destruct with_len.
    + safe_auto. apply (safe_cut (fun d => Datagram true d)).
    + apply (safe_all (fun d => Datagram false d)).
Qed.

(* ---------------- be_frame ---------------- *)

Lemma p_c03_frame_no_panic p bs s : be_frame p bs <> FPanic s.
Proof.
  unfold be_frame. destruct (safe_be_varint bs) as [V1 _].
  destruct (be_varint bs) as [code rest| | |s'] eqn:E; try discriminate.
  - destruct (ft_of_code code) as [t|]; [|discriminate].
    destruct (negb (belongs t p)); [discriminate|].
    destruct (safe_be_body t rest) as [B1 _].
    destruct (be_body t rest) as [f r| | |s'] eqn:Eb; try discriminate.
    exfalso. exact (B1 s' eq_refl).
  - exfalso. exact (V1 s' eq_refl).
Qed.

Lemma p_c03_frame_consumed p bs c f t : be_frame p bs = FOk c f t -> 0 < c <= zlen bs.
Proof.
  unfold be_frame. destruct (be_varint bs) as [code rest| | |s'] eqn:E; try discriminate.
  destruct (ft_of_code code) as [t'|]; [|discriminate].
  destruct (negb (belongs t' p)); [discriminate|].
  destruct (safe_be_body t' rest) as [_ B2].
  destruct (be_body t' rest) as [f' r| | |s'] eqn:Eb; try discriminate.
  intro H. injection H as <- _ _. specialize (B2 _ _ eq_refl).
  pose proof (strict_be_varint _ _ _ E). pose proof (zlen_nonneg r). lia.
Qed.

(* the decoded frame always has the type that was announced, and that type is allowed in the packet *)
Lemma p_c03_frame_type_checked p bs c f t : be_frame p bs = FOk c f t -> belongs t p = true.
Proof.
  unfold be_frame. destruct (be_varint bs) as [code rest| | |s'] eqn:E; try discriminate.
  destruct (ft_of_code code) as [t'|]; [|discriminate].
  destruct (belongs t' p) eqn:Hb; cbn [negb]; [|discriminate].
  destruct (be_body t' rest) as [f' r| | |s'] eqn:Eb; try discriminate.
  intro H. injection H as _ _ <-. exact Hb.
Qed.

(* ---------------- FrameReader ---------------- *)

Definition consumed_of (r : fres) : Z := match r with FOk c _ _ => c | _ => 0 end.
Definition total_consumed (rs : list fres) : Z := fold_right (fun r a => consumed_of r + a) 0 rs.

Lemma skipn_zlen_le {A} n (l : list A) : 0 <= n <= zlen l -> zlen (skipn (Z.to_nat n) l) = zlen l - n.
Proof. intro H. unfold zlen in *. rewrite skipn_length. lia. Qed.

(* the reader never needs more than |payload| iterations: extra fuel changes nothing; the frames it
   yields lie inside the payload; it stops at the first error; no result is a panic *)
Lemma read_frames_spec p : forall fuel bs, (length bs < fuel)%nat ->
  total_consumed (read_frames fuel p bs) <= zlen bs /\
  (forall r, In r (read_frames fuel p bs) -> forall s, r <> FPanic s) /\
  read_frames (S fuel) p bs = read_frames fuel p bs.
Proof.
  induction fuel as [|fuel IH]; intros bs Hf; [inversion Hf|].
  destruct bs as [|b t].
  - cbn [read_frames total_consumed fold_right]. split; [unfold zlen; cbn; lia|]. split; [intros r []|reflexivity].
  - remember (b :: t) as bs eqn:Ebs.
    assert (Hstep : forall fu, read_frames (S fu) p bs =
               match be_frame p bs with
               | FOk c f ty => FOk c f ty :: read_frames fu p (skipn (Z.to_nat c) bs)
               | r => [r] end).
    { intro fu. rewrite Ebs. reflexivity. }
    rewrite (Hstep fuel), (Hstep (S fuel)).
    destruct (be_frame p bs) as [c f ty|e|s] eqn:Ef.
    + pose proof (p_c03_frame_consumed _ _ _ _ _ Ef) as Hc.
      assert (Hlen : (length (skipn (Z.to_nat c) bs) < fuel)%nat).
      { rewrite skipn_length. unfold zlen in Hc. lia. }
      destruct (IH _ Hlen) as (I1 & I2 & I3).
      split; [|split].
      * cbn [total_consumed fold_right consumed_of]. fold (total_consumed (read_frames fuel p (skipn (Z.to_nat c) bs))).
        rewrite skipn_zlen_le in I1 by lia. lia.
      * intros r [<-|Hin]; [discriminate|]. now apply I2.
      * now rewrite I3.
    + split; [cbn [total_consumed fold_right consumed_of]; pose proof (zlen_nonneg bs); lia|].
      split; [intros r [<-|[]]; discriminate|reflexivity].
    + exfalso. exact (p_c03_frame_no_panic _ _ _ Ef).
Qed.

Lemma p_c03_frames_of p bs :
  total_consumed (frames_of p bs) <= zlen bs /\
  (forall r, In r (frames_of p bs) -> forall s, r <> FPanic s) /\
  (forall extra, read_frames (extra + S (length bs)) p bs = frames_of p bs).
Proof.
  unfold frames_of. destruct (read_frames_spec p (S (length bs)) bs ltac:(lia)) as (H1 & H2 & _).
  split; [exact H1|]. split; [exact H2|].
  induction extra as [|extra IH]; [reflexivity|].
  cbn [plus]. rewrite <- IH.
  destruct (read_frames_spec p (extra + S (length bs)) bs ltac:(lia)) as (_ & _ & H3). exact H3.
Qed.

(* ---------------- error mapping (table regenerated from frame/error.rs and error.rs) ---------------- *)

Lemma p_c03_error_mapping e :
  quic_error_of e = (match e with ENoFrames => EK_PROTOCOL_VIOLATION | _ => EK_FRAME_ENCODING end).
Proof. destruct e; reflexivity. Qed.
