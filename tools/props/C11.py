"""C11 — flow-control limits are never exceeded and violations are detected."""
import itertools
import os
import re
import vlib
from vlib import Case
import props.streams_common as sc

PROP_FILE = "Properties/C11.v"
RULE = ("stream `streams`: as for C12, with all six initial flow-control parameters of both sides drawn from {0,1,small,large,unequal}; "
        "non-trivial = at least one LOAD after a successful WRITE and (a MAX_STREAM_DATA / MAX_DATA / HANDSHAKE after a LOAD, or a peer STREAM/RESET frame "
        "within 2 bytes of a stream or connection limit, or beyond it); a directed family drives a 0-RTT client (open, write, LOAD under the remembered "
        "parameters, then a rejected or accepted HANDSHAKE whose MAX_DATA lies below / at / above what was sent, then LOADs, MAX_DATA, losses - also of the frames of the "
        "rejected 0-RTT packets). "
        "stream `flow`: op lists over CREDIT quota, POST i n, DROP i, MAXDATA v, RCVD n, REVISE rejected v on the public FlowController; non-trivial = the send "
        "limit is reached at least once and raised afterwards (by MAX_DATA or a handshake), with at least one credit only partly used; distinct by hash")
TRUSTED_BASE = ["models coq/Model/Flow.v (SendControler, Credit, RecvController) and coq/Model/StreamCtl.v (window selection in poll_open_*/try_accept_*/"
                "Listener::poll_accept_bi_stream/revise_params, per-stream windows, the packet-loading loop with its token/cursor order, per-byte colouring of "
                "BufMap) are hand-written; equality with the Rust is checked by streams `streams` and `flow`, not proved",
                "BufMap is modelled per byte (a colour for every offset) under the assumption that its run list is maximally merged; the loss ops of `streams` exercise this"]
MODELLED = ("qbase/src/flow.rs; qrecovery/src/streams/raw.rs (try_load_data_into_once, revise_params, open/accept window choice), streams/io.rs, "
            "streams/listener.rs, send/sender.rs, send/outgoing.rs, send/writer.rs, BufMap::pick of send/sndbuf.rs (acknowledgements: C09), recv/recver.rs. "
            "qbase/src/param/core.rs only provides the six ParameterIds; qconnection's glue is replicated in the harness (3 lines).")
ASSUMPTIONS = ["no Credit holds unused budget while a rejected 0-RTT handshake is applied (DataStreams creates and drops its Credit inside try_load_data_into, under the "
               "output lock that revise_params takes first): c11_conn_limit carries the general statement with the slack term `ss_slack` = unused budget of Credits "
               "taken before the rejection, c11_conn_limit_quiet the form `fresh bytes since the rejection <= MAX_DATA` for slack 0; the flow stream exercises both. "
               "Not covered: a 1-RTT packet assembled on another thread between revise_params and revise_max_data of the TLS-finished handler (apply_parameters is "
               "not atomic with respect to the sender task; cannot be driven by this single-threaded harness)",
               "STREAM frames of rejected 0-RTT packets are reported lost after the rejection (nothing in qconnection discards their sent records): generated "
               "(gen_zero_rtt, gen_case) and judged like every other loss since finding F70 (property C09) is repaired - SendBuf::may_loss_data acts on the "
               "sent part of the range only (as it was: debug panic `Lost Range covered Pending parts`, release: the never-sent rest of the stream turned Lost and "
               "went out free of connection-level flow control; corpus/C11/streams/f70.case). Acknowledgements are not part of this stream (C09, C01)",
               "a rejected handshake is checked against qbase/src/flow.rs on every run (regen: SendControler::revise_max_data must restart sent_data in its rejected branch, fail closed)",
               "packet capacities <= 65536; offset+length <= 2^62-1; an accepted 0-RTT handshake does not shrink remembered parameters",
               "an empty non-FIN STREAM frame beyond the received data advances Recv.largest without being counted (observation O1 in the report): "
               "cases containing one are excluded from the connection-level receive clause"]

MANIFEST = {
    "text": "Machine-checked Coq theorems (Properties/C11.v) over executable models of the connection-level send and receive controllers and of the per-stream "
            "windows: which initial parameter feeds which window for which stream kind on which side (table theorem; the as-coded table is refuted for locally "
            "opened unidirectional streams = F12 and for peer-initiated streams touched by revise_params = F26, and proved for the repaired variant), every "
            "emitted STREAM frame ends within the stream's current window, the sum of fresh bytes never exceeds MAX_DATA, each byte is charged once, "
            "retransmissions are free, unused credit is returned and `max_data - sent_data` never underflows - for every history including rejected 0-RTT "
            "handshakes, after which the count restarts from the server's new initial_max_data (as it was, sent_data was kept across the rejection and the "
            "subtraction underflowed = F34, refuted for that variant by a concrete history and proved for the repaired one), data or a final size "
            "beyond an advertised limit gives FlowControl (refuted as coded for FIN/RESET = F13, proved for the repaired variant), advertised limits never "
            "decrease. Tied to the Rust by running the extracted models against the real DataStreams and FlowController on the same op lists each run; "
            "the clauses are also evaluated directly on the implementation's observations.",
    "note": "Trusted: Coq kernel, extraction, OCaml driver, Rust harness, Python generators/oracle. Models hand-written; correspondence checked, not proved. "
            "F12/F13/F26/F33/F34 are listed in known_findings.json (open = KNOWN-FINDING lines; fixed = the stream registry selects run_streams_fixed / run_flow_fixed, "
            "and regen() checks that qbase/src/flow.rs carries the repair of F34).",
    "technique": "Coq proof (invariants over operation lists) + differential correspondence model/implementation + direct oracle",
}

oracle = sc.oracle_for(sc.C11_CLAUSES)


def _body(src, start_pat):
    i = src.find(start_pat)
    if i < 0:
        raise RuntimeError("pattern %r not found" % start_pat)
    j = src.index("{", i)
    depth, k = 0, j
    while True:
        if src[k] == "{":
            depth += 1
        elif src[k] == "}":
            depth -= 1
            if depth == 0:
                return src[j + 1:k]
        k += 1


def revise_shape(repo=None):
    """reads SendControler::revise_max_data from the checked-out qbase/src/flow.rs -> 'fixed' (the rejected branch restarts
    sent_data, max_data and flow_limited, then increase_limit) | 'asis' (sent_data kept = F34); anything else raises"""
    src = open(os.path.join(repo or vlib.REPO, "qbase/src/flow.rs")).read()
    body = re.sub(r"//[^\n]*", "", _body(src, "fn revise_max_data(&mut self"))
    m = re.fullmatch(r"\s*if\s+zero_rtt_rejected\s*\{(.*?)\}\s*self\.increase_limit\(max_data\);\s*", body, re.S)
    if not m:
        raise RuntimeError("qbase/src/flow.rs SendControler::revise_max_data is no longer `if zero_rtt_rejected { .. } self.increase_limit(max_data);`")
    stmts = sorted(x.strip().replace(" ", "") for x in m.group(1).split(";") if x.strip())
    if stmts == sorted(["self.sent_data=0", "self.max_data=0", "self.flow_limited=false"]):
        return "fixed"
    if stmts == sorted(["self.max_data=0", "self.flow_limited=false"]):
        return "asis"
    raise RuntimeError("qbase/src/flow.rs SendControler::revise_max_data: rejected branch %s is not one of the two modelled variants (Model/Flow.v sc_revise_with)" % stmts)


def regen():
    """called by ./check before the Coq build: the theorems of Properties/C11.v about rejected handshakes (and the run functions the
    stream registry selects) are about the repaired revise_max_data; fail closed when the source is anything else"""
    shape = revise_shape()
    vlib.log("[C11] source configuration: revise_max_data(rejected) restarts sent_data = %s" % (shape == "fixed"))
    if shape != "fixed":
        raise RuntimeError("qbase/src/flow.rs SendControler::revise_max_data keeps sent_data across a rejected 0-RTT handshake (the pre-repair variant, F34): "
                           "c11_conn_limit and the models compared (run_flow_fixed, run_streams_fixed) describe the repaired code")


def classify(case, msg, obs):
    """only findings listed as OPEN in known_findings.json are classified; a repaired class is a violation again"""
    fid = _classify(case, msg, obs)
    return fid if fid in {e["id"] for e in vlib.load_known("C11")} else None


def _classify(case, msg, obs):
    cf = sc.cfg_of(case)
    if msg.startswith("rejectsend:"):
        return "F33"
    if msg.startswith("progress:") and "locally-initiated uni" in msg and cf["R"].sdu > cf["R"].sdbr:
        return "F12"
    if msg.startswith("streamlimit:"):
        if "locally-initiated uni" in msg:
            return "F12"
        if "peer-initiated bidi" in msg and cf["mode"] == 1:
            return "F26"
        return None
    if msg.startswith("recvdetect:") and "was accepted" in msg:
        import re
        m = re.search(r"op (\d+) (STREAM|RESET)\[([^\]]*)\]", msg)
        if m:
            a = [int(x) for x in m.group(3).split(",")]
            if m.group(2) == "RESET" or a[3] == 1:
                if "connection:" in msg:
                    mm = re.search(r"stream window (\d+)", msg)
                    end = a[2] if m.group(2) == "RESET" else a[1] + a[2]
                    if mm and end > int(mm.group(1)):
                        return "F13"
    return None


def nontrivial(case):
    wrote = False
    loaded = False
    for t, a in case.ops:
        if t == 2 and a[1] > 0:
            wrote = True
        if t == 6 and wrote:
            loaded = True
        if loaded and t in (10, 13, 0):
            return True
    cf = sc.cfg_of(case)
    L = cf["L"]
    for t, a in case.ops:
        if t == 7:
            end = a[1] + a[2]
            for w in (L.sdbl, L.sdbr, L.sdu, L.md):
                if abs(end - w) <= 2 or end > w:
                    return loaded or wrote or True
        if t == 8:
            for w in (L.sdbl, L.sdbr, L.sdu, L.md):
                if abs(a[2] - w) <= 2 or a[2] > w:
                    return True
    return False


def hist(case):
    cf = sc.cfg_of(case)
    lab = ["role:%s" % ("client", "server")[cf["role"]], "mode:%s" % cf["mode"]]
    for nm, p in (("L", cf["L"]), ("R", cf["R"])):
        vals = (p.sdbl, p.sdbr, p.sdu)
        lab.append("%s.windows:%s" % (nm, "all-equal" if len(set(vals)) == 1 else "unequal"))
        if 0 in vals:
            lab.append("%s.windows:has0" % nm)
        lab.append("%s.md:%s" % (nm, "0" if p.md == 0 else "1" if p.md == 1 else "small" if p.md <= 5000 else "large"))
    loaded = False
    stale = False
    for t, a in case.ops:
        lab.append("op:" + sc.OPS[t])
        if t == 6:
            loaded = True
        if t == 0 and cf["mode"] == 1:
            lab.append("0rtt-handshake:%s%s" % ("rejected" if a[0] else "accepted", "-after-load" if loaded else ""))
            stale = bool(a[0]) and loaded
        if t == 15 and stale:
            lab.append("lose:after-rejected-0rtt")       # candidates for a frame of a rejected 0-RTT packet (finding F70)
    return lab


VALS = [0, 1, 300, 70000, 999]


def gen_param_grid(rng, prefix, stride):
    """all combinations of the three stream-window parameters of the peer (send side) and of ours (receive side) from
    {0,1,small,large,unequal}, crossed with role; the connection windows vary along the diagonal"""
    out = []
    n = 0
    z6 = [0] * 6
    combos = list(itertools.product(VALS, repeat=3))
    for role in (0, 1):
        peer = 1 - role
        for i, (a, b, c) in enumerate(combos):
            for j, (x, y, z) in enumerate(combos):
                if (i * len(combos) + j) % stride != n % stride and stride > 1:
                    n += 1
                    continue
                n += 1
                lmd = VALS[(i + j) % 5] * 3 + 2
                rmd = VALS[(i * 3 + j) % 5] * 3 + 2
                cfg = [role, 0, (i + j) % 2, 2, 2, lmd, a, b, c, 2, 2, rmd, x, y, z] + z6
                lb, lu, pb, pu = sc.sid_of(role, 0, 0), sc.sid_of(role, 1, 0), sc.sid_of(peer, 0, 0), sc.sid_of(peer, 1, 0)
                ops = [(0, [0]), (1, [0]), (1, [1]), (7, [pb, 0, 1, 0]), (5, [0]),
                       (2, [lb, 1200]), (2, [lu, 1200]), (2, [pb, 1200]),
                       (6, [1500]), (6, [1500]), (6, [1500]),
                       (7, [lb, 0, min(a, 4000), 0]), (7, [pu, 0, min(c, 4000), rng.randint(0, 1)]), (7, [pb, 1, max(0, min(b, 4000) - 1), 0]),
                       (7, [rng.choice([lb, pb, pu]), rng.choice([a, b, c]), 1, rng.randint(0, 1)])]
                out.append(Case("%s%d" % (prefix, n), ops, cfg))
    return out


def gen_zero_rtt(rng, prefix, n):
    """0-RTT client: streams opened and written under the remembered parameters, LOADs (incl. a loss), then the handshake -
    rejected with arbitrary new parameters (MAX_DATA below / at / above what was sent, stream windows and stream counts
    smaller or larger) or accepted with parameters that are not smaller - then LOADs, MAX_DATA, a loss and more LOADs"""
    out = []
    for i in range(n):
        rej = 1 if rng.random() < 0.75 else 0
        wins = [rng.choice([200, 700, 5000]) for _ in range(3)]
        Mp = [rng.choice([1, 2, 3, 5]), rng.choice([0, 1, 2, 3]), rng.choice([300, 1000, 1000, 2500, 10 ** 5])] + wins
        nb = rng.randint(1, min(3, Mp[0]))
        nu = rng.randint(0, min(2, Mp[1]))
        sids = [sc.sid_of(0, 0, k) for k in range(nb)] + [sc.sid_of(0, 1, k) for k in range(nu)]
        ops = [(1, [0])] * nb + [(1, [1])] * nu
        total = 0
        for sid in sids:
            w = rng.choice([50, 300, 800, 1200, 3000])
            total += w
            ops.append((2, [sid, w]))
        emitted = 0
        for _ in range(rng.randint(1, 4)):
            ops.append((6, [rng.choice([100, 400, 1200, 1200, 1500])]))
            emitted += 1
            if rng.random() < 0.2:
                ops.append((15, [rng.randint(0, emitted)]))
        sent = min(total, Mp[2])
        if rej:
            md = rng.choice([0, 1, sent // 2, max(0, sent - 1), sent, sent + 1, Mp[2], 2 * Mp[2], rng.randint(0, 3000)])
            Rp = [rng.choice([0, 1, 2, 3, 5]), rng.choice([0, 1, 2, 3]), md] + [rng.choice([0, 100, 200, 700, 5000]) for _ in range(3)]
        else:
            Rp = [x + rng.choice([0, 0, 1, 500]) for x in Mp]
        if rng.random() < 0.3:
            ops.append((2, [rng.choice(sids), rng.choice([10, 500])]))
        ops.append((0, [rej]))
        for _ in range(rng.randint(2, 5)):
            r = rng.random()
            if r < 0.15:
                ops.append((13, [Rp[2] + rng.choice([1, 100, 1000, 5000])]))
            elif r < 0.3:
                ops.append((10, [rng.choice(sids), rng.choice([300, 1000, 6000])]))
            elif r < 0.4:
                # after a rejection the indices 0..emitted-before-the-handshake are frames of rejected 0-RTT packets (F70)
                ops.append((15, [rng.randint(0, emitted + 2)]))
            elif r < 0.5:
                ops.append((2, [rng.choice(sids), rng.choice([1, 200, 2000])]))
            ops.append((6, [rng.choice([200, 1200, 1200, 4000])]))
            emitted += 1
        ops += [(13, [10 ** 6]), (6, [1500]), (6, [1500])]
        cfg = [0, 1, rng.randint(0, 1), 3, 3, 100000, 100, 100, 100] + Rp + Mp
        out.append(Case("%s%d" % (prefix, i), list(ops), cfg))
    return out


def gen(rng, tier):
    cases = sc.scenario_cases()
    cases += gen_zero_rtt(rng, "zrtt-", 800 if tier == "quick" else 15000)
    if tier == "quick":
        cases += gen_param_grid(rng, "grid-", 16)
        cases += sc.directed_cases(rng, 1200)
        cases += [sc.gen_case(rng, "r%d" % i) for i in range(3000)]
        cases += [sc.gen_case(rng, "s%d" % i, hostile=0.05, nops=rng.randint(10, 40)) for i in range(1500)]
    else:
        cases += gen_param_grid(rng, "grid-", 1)
        cases += sc.directed_cases(rng, 20000)
        cases += [sc.gen_case(rng, "r%d" % i) for i in range(50000)]
        cases += [sc.gen_case(rng, "s%d" % i, hostile=0.05, nops=rng.randint(10, 60)) for i in range(30000)]
    return cases


def mutate(rng, case, j):
    import props.C12 as c12
    return c12.mutate(rng, case, j)


# ------------------------------------------------------------------------------------------------ stream `flow`
def flow_oracle(case, obs):
    """direct statement on the public FlowController: credit = min(quota, limit - charged); charged = fresh bytes posted + budget
    still held by live credits, counted since the last rejected handshake (a rejection discards everything sent before it and the
    limit restarts from the server's value), minus `slack` = the budget that Credits taken before that rejection still held at
    that moment (0 unless a Credit is kept across a rejection); DATA_BLOCKED exactly when the limit is reached for the first time
    since it was raised; MAX_DATA never decreases; FlowControl iff over.  The controller itself never panics: the only arithmetic
    panic that is the caller's is returning a Credit that straddled a rejection (slack > 0), cf. c11_conn_no_underflow"""
    if len(obs) != len(case.ops):
        return "abnormal: %d observations for %d ops" % (len(obs), len(case.ops))
    limit = int(case.cfg[0])
    rlimit = int(case.cfg[1])
    posted = 0            # fresh bytes posted since the last rejection
    slack = 0
    credits = []          # available of each credit, None once dropped
    rcvd = 0
    last_md = rlimit
    rejected = False
    for k, ((t, a), line) in enumerate(zip(case.ops, obs)):
        if line.startswith("!"):
            return "abnormal: op %d -> %s" % (k, line)
        v = [int(x) for x in line.split()]
        if v == [-1]:
            break
        outstanding = sum(c for c in credits if c is not None)
        charged = posted + outstanding - slack
        since = " since the rejected 0-RTT handshake" if rejected else ""
        if t == 0:
            if v[0] == -3:
                return ("connlimit: op %d CREDIT: arithmetic panic (max_data - sent_data underflow); %d bytes charged%s, limit %d"
                        % (k, charged, since, limit))
            if charged > limit:
                return "connlimit: op %d: charged %d%s exceeds the limit %d" % (k, charged, since, limit)
            want = min(a[0], limit - charged)
            if v[1] != want:
                return ("connlimit: op %d CREDIT(%d) granted %d; limit %d - posted %d - held by live credits %d + slack %d%s leaves %d"
                        % (k, a[0], v[1], limit, posted, outstanding, slack, since, want))
            credits.append(v[1])
        elif t == 1:
            if v[0] == -3:
                return "abnormal: op %d POST beyond the credit (generator error)" % k
            if v[0] == 1:
                credits[a[0]] -= a[1]
                posted += a[1]
                if v[1] != credits[a[0]]:
                    return "connlimit: op %d POST: credit shows %d, expected %d" % (k, v[1], credits[a[0]])
        elif t == 2:
            if v[0] == -3:
                c = credits[a[0]] if a[0] < len(credits) else None
                if c is not None and slack > 0 and c > charged:
                    break       # the caller returned a Credit that straddled a rejection: its budget is no longer part of the charge
                return "connlimit: op %d DROP: arithmetic panic while returning unused credit" % k
            if v[0] == 1:
                credits[a[0]] = None
        elif t == 3:
            limit = max(limit, a[0])
        elif t == 5:
            if a[0]:
                rejected = True
                limit = a[1]
                posted = 0
                slack = outstanding
            else:
                limit = max(limit, a[1])
        elif t == 4:
            rcvd += a[0]
            if rcvd > last_md:
                if v[0] != 3:
                    return "recvdetect: op %d RCVD: %d bytes received in total, advertised MAX_DATA %d, answer %s" % (k, rcvd, last_md, v)
                break
            if v[0] != 0:
                return "recvaccept: op %d RCVD: %d of %d received, answer %s" % (k, rcvd, last_md, v)
            if v[1] == 1:
                if v[2] < last_md:
                    return "monotone: op %d: MAX_DATA went down from %d to %d" % (k, last_md, v[2])
                last_md = v[2]
        # the property itself: fresh bytes since the last rejection never exceed the limit (+ what straddling credits held then)
        if posted > limit + slack:
            return "connlimit: op %d: %d fresh bytes posted%s, limit %d" % (k, posted, " since the rejected handshake" if rejected else "", limit)
    return None


def _flow_gen(rng, tier):
    """op lists whose POSTs stay within the credit they draw from (the API's contract); everything else is free.
    `charged` follows the controller's sent_data; most rejections come with every credit returned first, some with a
    Credit still alive (its later DROP may then be the caller's underflow, which ends the case)"""
    n = 4000 if tier == "quick" else 60000
    out = []
    for i in range(n):
        limit0 = rng.choice([0, 1, 10, 100, 1000, 10 ** 6, rng.randint(0, 500)])
        rl = rng.choice([0, 1, 2, 3, 10, 100, 1001, 10 ** 6])
        limit = limit0
        ops = []
        credits = []
        charged = 0
        posted = 0
        for _ in range(rng.randint(3, 25)):
            r = rng.random()
            if r < 0.3:
                q = rng.choice([0, 1, 5, 50, 1200, 10 ** 9, rng.randint(0, 300)])
                av = max(0, min(q, limit - charged))
                credits.append(av)
                charged += av
                ops.append((0, [q]))
            elif r < 0.55 and credits:
                i2 = rng.randrange(len(credits))
                if credits[i2] is None:
                    ops.append((1, [i2, 0]))
                else:
                    nn = rng.choice([0, credits[i2], credits[i2] // 2, rng.randint(0, credits[i2])])
                    credits[i2] -= nn
                    posted += nn
                    ops.append((1, [i2, nn]))
            elif r < 0.75 and credits:
                i2 = rng.randrange(len(credits) + 1)
                ops.append((2, [i2]))
                if i2 < len(credits) and credits[i2] is not None:
                    if credits[i2] > charged:
                        break       # a Credit that straddled a rejection: the DROP underflows, the case ends
                    charged -= credits[i2]
                    credits[i2] = None
            elif r < 0.85:
                v = rng.choice([0, limit, limit + 1, limit + 100, limit * 2 + 7, rng.randint(0, 2000)])
                limit = max(limit, v)
                ops.append((3, [v]))
            elif r < 0.92:
                ops.append((4, [rng.choice([0, 1, 2, rl // 2, rl, rl + 1, rng.randint(0, 600)])]))
            else:
                v = rng.choice([limit, limit + 50, charged + 10, charged, charged // 2, max(0, charged - 1), posted, max(0, posted - 1), 0, rng.randint(0, 600)])
                rej = 1 if rng.random() < 0.6 else 0
                if rej and rng.random() < 0.7:
                    for i2, c in enumerate(credits):
                        if c is not None and (c > 0 or rng.random() < 0.5):
                            ops.append((2, [i2]))
                            charged -= c
                            credits[i2] = None
                ops.append((5, [rej, v]))
                if rej:
                    limit = v
                    charged = 0
                    posted = 0
                else:
                    limit = max(limit, v)
        out.append(Case("f%d" % i, ops, [limit0, rl]))
    return out


def flow_classify(case, msg, obs):
    """no open finding of C11 lives on the flow stream (F34 is repaired: its class is an ordinary violation again)"""
    return None


def flow_nontrivial(case):
    limit = int(case.cfg[0])
    charged = 0
    reached = False
    partly = False
    credits = []
    for t, a in case.ops:
        if t == 0:
            av = max(0, min(a[0], limit - charged))
            credits.append(av)
            charged += av
            if charged >= limit:
                reached = True
        elif t == 1 and a[0] < len(credits) and credits[a[0]] is not None:
            credits[a[0]] -= min(a[1], credits[a[0]])
        elif t == 2 and a[0] < len(credits) and credits[a[0]] is not None:
            if credits[a[0]] > 0:
                partly = True
            charged -= credits[a[0]]
            credits[a[0]] = None
        elif t in (3, 5):
            v = a[-1]
            if v > limit and reached and partly:
                return True
            if t == 5 and a[0]:
                # rejected handshake: the limit is replaced and the charge restarts; credits taken before it no longer count
                limit = v
                charged = 0
                credits = [None] * len(credits)
            elif v > limit:
                limit = v
    return False


def flow_hist(case):
    return ["flowop:%s" % ("CREDIT", "POST", "DROP", "MAXDATA", "RCVD", "REVISE")[t] for t, a in case.ops] + ["limit0:%s" % ("0" if int(case.cfg[0]) == 0 else "1" if int(case.cfg[0]) == 1 else "more")]


def flow_mutate(rng, case, j):
    ops = [(t, list(a)) for t, a in case.ops]
    if ops:
        k = rng.randrange(len(ops))
        t, a = ops[k]
        if t in (0, 3, 4):
            a[0] = max(0, a[0] + rng.choice([-1, 1, 10]))
    ops.append((0, [10 ** 9]))
    return Case("m%d" % j, ops, case.cfg)


STREAMS = [{
    "name": "streams", "pkg": "hr", "bin": "impl_streams",
    "gen": gen, "oracle": oracle, "nontrivial": nontrivial, "hist": hist, "mutate": mutate, "classify": classify,
    "profiles": ("debug",), "profiles_thorough": ("debug",), "rule": RULE,
}, {
    "name": "flow", "pkg": "hr", "bin": "impl_flow",
    "gen": _flow_gen, "oracle": flow_oracle, "nontrivial": flow_nontrivial, "hist": flow_hist, "mutate": flow_mutate, "classify": flow_classify,
    "profiles": ("debug",), "profiles_thorough": ("debug",), "rule": RULE,
}]
