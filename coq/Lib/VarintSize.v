(* Size in bytes of a QUIC variable-length integer (qbase/src/varint.rs VarInt::encoding_size).
   Standalone definition shared by the ACK-frame size accounting (C10).
   Values >= 2^62 cannot be a VarInt (construction fails in Rust); the model functions that build
   VarInts carry that check themselves, so the last arm is only reached for valid 8-byte values. *)
From Coq Require Import ZArith.
Local Open Scope Z_scope.

Definition varint_size (v : Z) : Z :=
  if v <? 2^6 then 1 else if v <? 2^14 then 2 else if v <? 2^30 then 4 else 8.

Definition VARINT_LIMIT : Z := 2^62.   (* VARINT_MAX + 1 *)
