"""C17 — closing or failing a connection ends every pending operation."""
import itertools
import json
import os

import extract_state
from vlib import Case, ROOT

PROP_FILE = "Properties/C17.v"
RULE = ("connstate: every sequential order (= every schedule at method granularity) of update/enter_handshaked/enter_closing/"
        "enter_draining calls with distinct error ids, observed through current()/terminated()/handshaked(); exhaustive to length 3 "
        "(quick) / 5 (thorough) plus random longer ones; non-trivial = two or more closers race or an update tries to move backwards. "
        "connerr: histories over streams (open/accept/write/flush/shutdown/read), datagrams, parameters and flow control with "
        "operations of every kind left pending, the connection error injected at EVERY position of the history (also twice with "
        "different errors = closes racing from both sides), followed by one later operation of every kind; non-trivial = at least two "
        "different kinds of operation pending when the error strikes. idle: effective payload, then health checks every 10 ms and at "
        "defer / defer+max_idle -1, +0, +1 ms, with non-effective packets in between and renegotiated max_idle; non-trivial = a health "
        "check within 1 ms of a boundary. Distinct by hash of cfg + op list.")
TRUSTED_BASE = ["coq/Generated/StateTable.v (state codes, enter_* targets, the update comparison) is regenerated from "
                "qconnection/src/state.rs and events.rs by tools/extract_state.py on every run (fail closed)",
                "the connerr harness plays the executor: a parked task is re-polled only after its own counting waker fired"]
MODELLED = ("qconnection/src/state.rs ArcConnState (atomic granularity, any number of racing callers); qbase/src/time.rs IdleConfig/"
            "IdleTimer; the poisoning pattern of qrecovery DataStreams (output/input/listener, Outgoing/Incoming/Writer/Reader, "
            "LocalStreamIds wakers), qdatagram DatagramFlow, qbase ArcParameters and FlowController with every waker slot explicit. "
            "NOT modelled (level partial): tokio::spawn of the closing/draining timers and of send_ccf_packets, Terminator, "
            "RcvdPacketQueue::close_all, path teardown, real sockets, qconnection::tls on_conn_error; try_entry_attempted is modelled "
            "but not driven (it needs a full Components); FlowController::on_conn_error is modelled and driven although nothing in "
            "qconnection calls it")
ASSUMPTIONS = ["Event::Terminated is emitted only by the timer spawned in Components::enter_closing/enter_draining, i.e. after the "
               "state word reached the closing code (guard of CTerminated)",
               "apart from Event::Terminated the code base never calls ArcConnState::update directly with a closing-or-later state",
               "one task per single-waker slot (a Writer/Reader/accept future is polled by one task at a time, as &mut self enforces)",
               "SetOnce::set, AtomicU8 load/compare_exchange and each Mutex-protected section are atomic steps"]
MANIFEST = {
    "text": "Machine-checked Coq theorems (Properties/C17.v). c17_monotone: in the atomic-granularity model of ArcConnState (load / compare_exchange / SetOnce::set are single steps, any number of racing update / enter_handshaked / enter_closing / enter_draining / Terminated callers, every schedule) the state word never decreases, and the codes regenerated from state.rs are ordered attempted < handshake_confirmed < closing < draining < closed. c17_error_once: under every schedule no expect()/unreachable!() fires, the terminating error never changes once set, it is set only at/after the closing code and is set whenever the word reached the closing code and no step is pending. c17_release: after on_conn_error e every task registered in any waker slot (senders' write/flush/shutdown, receivers' read, listener bi/uni, stream-id waiters, parameter waiters, datagram reader) has a pending wake and no slot keeps a sleeper; in every later state every open/accept/datagram/parameter operation returns e, every stream read/write/flush/shutdown returns e or the stream half's own terminal result, none is Pending, no write or datagram is accepted, nothing is emitted and no receive buffer grows. c17_idle_not_before / c17_idle_after (RFC 9000 10.1 terms, repaired IdleTimer): health() answers TimeOut only if the last restart of the idle period (a received effective packet, or the FIRST effective packet sent after a receive) is older than defer+max_idle and no packet at all arrived for max_idle, and always answers TimeOut once a health check has seen defer exceeded and more than max_idle passed with nothing received - whatever is sent meanwhile (retransmission does not postpone the timeout; c17_idle_retransmit_regression keeps the pre-F65 rule as a refuted example). c17_update_public: update() of every public state constant (CLOSED included, F40 repaired) is total and a forward move. c17_flag_constant: no operation writes the model's fix flag; c17_pending_registers: a Pending poll leaves its task in a waker slot. c17_release_all lifts this to whole histories: any error-free history, then the error, then any further history of any operations (a second racing error included) leaves the connection poisoned with the first error. The as-is tree's F23 (pending open_bi/open_uni not woken) is kept as c17_release_refuted + the conditional theorem; the default workspace verifies the repaired tree. Models and the real ArcConnState / DataStreams+DatagramFlow+FlowController+ArcParameters / IdleTimer are driven with the same histories every run, the connection error at every position.",
    "note": "Level partial by design: task spawning (tokio::spawn of the closing/draining timers, send_ccf_packets), the Terminator, RcvdPacketQueue::close_all, path teardown and real sockets are runtime behaviour the model does not exhibit; the TLS handshake object's on_conn_error is not driven. ArcConnState is driven at method granularity only (atomic interleavings are covered by the proof, not by execution). Trusted: Coq kernel, table translator, extraction, harness (which plays the executor), Python oracle.",
    "technique": "Coq proof (inductive invariant over all interleavings of a small-step atomic model; structural lemmas over the poisoned components; invariant over timer histories) tied by a regenerated state table + differential correspondence on three streams",
    "level": "partial",
}


def regen():
    extract_state.regen()


# ======================================================================================== connstate
CODES = [1, 2, 3, 4, 5, 6, 7, 8, 9, 9]  # index -> code as the harness orders the states; index 9 = the CLOSED constant (= closed)


def cs_ops_alphabet():
    return [(1, [0]), (1, [5]), (1, [6]), (1, [8]), (1, [9]), (2, []), (3, [5]), (3, [101]), (4, [6]), (4, [102]), (5, []), (6, []), (7, [])]


def cs_probe():
    return [(5, []), (6, []), (7, [])]


def gen_connstate(rng, tier):
    cases = []
    alpha = cs_ops_alphabet()
    maxlen = 3 if tier == "quick" else 4
    mut = [a for a in alpha if a[0] in (1, 2, 3, 4)]
    n = 0
    for L in range(1, maxlen + 1):
        for seq in itertools.product(mut, repeat=L):
            ops = []
            for o in seq:
                ops.append(o)
                ops += cs_probe()
            cases.append(Case("x%d" % n, ops))
            n += 1
    nrand = 1500 if tier == "quick" else 30000
    for i in range(nrand):
        L = rng.randint(2, 12)
        ops = []
        eid = rng.randint(1, 60)
        for _ in range(L):
            r = rng.random()
            if r < 0.25:
                ops.append((1, [rng.choice([0, 1, 2, 3, 4, 5, 6, 7, 8, 8, 9])]))
            elif r < 0.35:
                ops.append((2, []))
            elif r < 0.5:
                eid += 1
                ops.append((3, [eid if rng.random() < 0.5 else 100 + eid]))
            elif r < 0.65:
                eid += 1
                ops.append((4, [eid if rng.random() < 0.5 else 100 + eid]))
            else:
                ops.append(rng.choice(cs_probe()))
        ops += cs_probe()
        cases.append(Case("r%d" % i, ops))
    return cases


def ints(line):
    return [int(x) for x in line.split()]


def oracle_connstate(case, obs):
    if len(obs) != len(case.ops):
        return "length: %d observations for %d ops (%s)" % (len(obs), len(case.ops), obs[-1] if obs else "")
    for k, line in enumerate(obs):
        if line.startswith("!"):
            return "abnormal: op %d -> %s" % (k, line)
    cur_lo = 0            # a lower bound of the state code known from what the implementation answered
    term = None           # error id that must be the terminating error
    hs = False
    for k, ((tag, args), line) in enumerate(zip(case.ops, obs)):
        v = ints(line)
        if tag in (1, 2, 3, 4):
            if v == [-9]:
                return "panic: op %d (%s %s) panicked" % (k, tag, args)
            if v[0] != -1:
                old = v[0]
                if old < cur_lo and not (cur_lo == 0):
                    return "backwards: op %d reports previous state %d after state %d was reached" % (k, old, cur_lo)
                new = {1: CODES[min(args[0], 9)] if tag == 1 else None, 2: 6, 3: 7, 4: 8}[tag]
                if new is None or new <= old and not (old == 1 and cur_lo == 0):
                    return "backwards: op %d moved the state from %s to %s" % (k, old, new)
                if new < cur_lo:
                    return "backwards: op %d moved the state to %d below %d" % (k, new, cur_lo)
                cur_lo = new
                if tag == 2:
                    hs = True
                if tag in (3, 4) and term is None and not (tag == 4 and old == 7):
                    term = args[0]
                if tag == 1 and new >= 7 and term is None:
                    term = "unset"      # bare update() past closing: the error is never set (outside the real call set)
        elif tag == 5:
            if v[0] < cur_lo:
                return "backwards: current() = %d after %d was reached" % (v[0], cur_lo)
            cur_lo = v[0]
        elif tag == 6:
            if term in (None, "unset"):
                if v != [0]:
                    return "error-early: terminated() resolved (%s) although no close happened" % v
            elif v != [1, term]:
                return "error-once: terminated() = %s, the terminating error must be %s" % (v, term)
        elif tag == 7:
            t = None if term in (None, "unset") else term
            want = [0] if (not hs and t is None) else [1] if (hs and t is None) else [2, t] if not hs else [3, t]
            if v != want:
                return "handshaked: %s, expected %s" % (v, want)
    return None


def nontrivial_connstate(case):
    closers = sum(1 for t, a in case.ops if t in (3, 4))
    ups = [CODES[min(a[0], 9)] for t, a in case.ops if t == 1]
    backwards = any(ups[i] >= ups[j] for i in range(len(ups)) for j in range(i + 1, len(ups)))
    return closers >= 2 or backwards or (closers >= 1 and any(t == 1 for t, _ in case.ops))


def hist_connstate(case):
    names = {1: "update", 2: "handshaked", 3: "closing", 4: "draining", 5: "current", 6: "terminated", 7: "handshaked?"}
    out = [names[t] for t, _ in case.ops if t in (1, 2, 3, 4)]
    out.append("closers:%d" % min(3, sum(1 for t, _ in case.ops if t in (3, 4))))
    return out


def mutate_connstate(rng, case, j):
    ops = list(case.ops)
    if ops and rng.random() < 0.7:
        i = rng.randrange(len(ops))
        ops.insert(i, rng.choice(cs_ops_alphabet()))
    else:
        ops.append(rng.choice(cs_ops_alphabet()))
    return Case("m%d" % j, ops + cs_probe())


# ======================================================================================== idle
def neg(local, remote):
    if remote == 0:
        return local
    if local == 0:
        return remote
    return min(local, remote)


def gen_idle(rng, tier):
    cases = []
    n = 0
    cfgs = [(100, 50), (100, 0), (30, 20), (0, 40), (2000, 1000), (65, 7)]
    for (m, d) in cfgs:
        for delta1 in (-1, 0, 1, 2):
            for delta2 in (-1, 0, 1, 2):
                for noise in (0, 1, 2, 3):
                    ops = [(2, [2]), (4, [])]
                    ops += [(1, [max(0, d + delta1)]), (4, []), (1, [1]), (4, []), (1, [1]), (4, [])]
                    if noise == 1:
                        ops += [(2, [0])]
                    elif noise == 2:
                        ops += [(3, [0])]
                    elif noise == 3:
                        ops += [(5, [max(1, m // 2)])]
                    ops += [(1, [max(0, m + delta2 - 2)]), (4, []), (1, [1]), (4, []), (1, [1]), (4, []), (1, [1]), (4, []), (1, [1]), (4, [])]
                    cases.append(Case("b%d" % n, ops, cfg=[m, d]))
                    n += 1
    # retransmission into a dead network (F65): effective packets every `gap` ms, nothing received,
    # health checks every 10 ms and at the boundary -1 / +0 / +1 ms; optionally one receive in the middle
    for (m, d) in [(20, 0), (100, 50), (30, 20), (250, 10)]:
        for gap in (1, 3, 5, 9):
            for rcv in (None, 0, 2):
                for delta in (-1, 0, 1, 2):
                    ops = [(2, [2]), (1, [d + 1]), (4, [])]          # first send, defer seen exceeded
                    t = 0
                    while t + gap < m + delta:
                        ops += [(1, [gap]), (2, [2])]
                        t += gap
                        if t % 10 < gap:
                            ops.append((4, []))
                        if rcv is not None and m // 2 <= t < m // 2 + gap:
                            ops.append((3, [rcv]))
                    ops += [(1, [max(0, m + delta - t)]), (4, []), (1, [1]), (2, [2]), (4, []), (1, [1]), (4, [])]
                    cases.append(Case("t%d" % n, ops, cfg=[m, d]))
                    n += 1
    nrand = 1500 if tier == "quick" else 40000
    for i in range(nrand):
        m = rng.choice([0, 20, 30, 100, 101, 250, 2000, 4000])
        d = rng.choice([0, 10, 15, 50, 1000])
        ops = []
        for _ in range(rng.randint(5, 40)):
            r = rng.random()
            if r < 0.4:
                ops.append((1, [rng.choice([1, 1, 2, 5, 9, 10, 10, 10, 11, 30, 100, d, m, d + m, d + 1, m + 1, max(0, m - 1), 500, 1000])]))
                ops.append((4, []))
            elif r < 0.55:
                ops.append((2, [rng.choice([0, 1, 2, 2])]))
            elif r < 0.7:
                ops.append((3, [rng.choice([0, 1, 2])]))
            elif r < 0.75:
                ops.append((5, [rng.choice([0, 10, 40, 100, 3000])]))
            else:
                ops.append((4, []))
        cases.append(Case("r%d" % i, ops, cfg=[m, d]))
    return cases


def idle_walk(case):
    """replays the history on the SPECIFICATION side (RFC 9000 10.1 with the defer extension of the code):
    the idle period is restarted by a received packet carrying effective payload and by the FIRST effective
    packet sent after a receive; later sends (retransmissions into a dead network) do not restart it.
    yields (k, tag, args, now, t0 = last restart, last_rcvd, max_idle, defer, armed_at)"""
    m, d = int(case.cfg[0]), int(case.cfg[1])
    now, t0, lr, armed, sent_since_rcvd = 0, None, None, None, False
    for k, (tag, args) in enumerate(case.ops):
        if tag == 1:
            now += args[0]
        elif tag == 2:
            if args[0] >= 2 and not sent_since_rcvd:
                sent_since_rcvd = True
                t0, armed = now, None
        elif tag == 3:
            lr = now
            sent_since_rcvd = False
            armed = None            # any received packet may restart the idle period
            if args[0] >= 2:
                t0 = now
        elif tag == 5:
            m = neg(m, args[0])
            armed = None            # the bound changed: start counting again at the next health check
        yield k, tag, args, now, t0, lr, m, d, armed
        if tag == 4 and t0 is not None and now - t0 > d and armed is None:
            armed = now             # a health check has seen defer exceeded; nothing received from here on
    return


def oracle_idle(case, obs):
    if len(obs) != len(case.ops):
        return "length: %d observations for %d ops (%s)" % (len(obs), len(case.ops), obs[-1] if obs else "")
    for k, line in enumerate(obs):
        if line.startswith("!"):
            return "abnormal: op %d -> %s" % (k, line)
    for (k, tag, args, now, t0, lr, m, d, armed) in idle_walk(case):
        v = ints(obs[k])
        if tag == 1 and v != [now]:
            return "clock: op %d reports %s ms, expected %d" % (k, v, now)
        if tag == 4:
            if v == [2]:
                if m == 0:
                    return "early: op %d TimeOut although idle timeout is disabled" % k
                if t0 is None or not (now - t0 > d + m):
                    return "early: op %d TimeOut at %d ms, idle period last restarted at %s, defer %d + max_idle %d" % (k, now, t0, d, m)
                if lr is not None and not (now - lr > m):
                    return "early: op %d TimeOut at %d ms although a packet was received at %d (max_idle %d)" % (k, now, lr, m)
            elif armed is not None and m != 0 and now - armed > m:
                return "late: op %d at %d ms answers %s: defer was seen exceeded at %d ms and max_idle %d has passed with nothing received (sending does not postpone the timeout)" % (k, now, v, armed, m)
    return None


def nontrivial_idle(case):
    eff_since_rcvd = 0
    for tag, args in case.ops:
        if tag == 3:
            eff_since_rcvd = 0
        elif tag == 2 and args[0] >= 2:
            eff_since_rcvd += 1
            if eff_since_rcvd >= 3 and any(t == 4 for t, _ in case.ops):
                return True
    for (k, tag, args, now, t0, lr, m, d, armed) in idle_walk(case):
        if tag == 4 and t0 is not None:
            if abs(now - t0 - d) <= 1:
                return True
            if armed is not None and abs(now - armed - m) <= 1:
                return True
    return False


def hist_idle(case):
    names = {1: "adv", 2: "sent", 3: "rcvd", 4: "health", 5: "negotiate"}
    out = sorted(set(names[t] for t, _ in case.ops))
    out.append("max_idle:%s" % ("0" if int(case.cfg[0]) == 0 else "set"))
    return out


def mutate_idle(rng, case, j):
    ops = list(case.ops)
    i = rng.randrange(len(ops) + 1)
    ops.insert(i, rng.choice([(1, [1]), (4, []), (3, [0]), (2, [1]), (1, [rng.randint(1, 120)])]))
    return Case("m%d" % j, ops + [(1, [1]), (4, [])], cfg=case.cfg)


# ======================================================================================== connerr
TASK_TAGS = (1, 2, 3, 4, 5, 6, 7, 10)
NAMES = {0: "handshake", 1: "open", 2: "accept", 3: "write", 4: "flush", 5: "shutdown", 6: "read", 7: "dgrecv", 8: "dgsend",
         10: "pready", 11: "peeropen", 12: "data", 13: "fingap", 14: "preset", 15: "pstop", 16: "maxsd", 17: "maxstreams",
         18: "load", 19: "ack", 20: "dgram", 21: "CONNERR", 22: "FLOWERR", 23: "credit"}


def sids_for(role):
    ours = [0 + role, 4 + role, 2 + role, 6 + role]            # bi0 bi1 uni0 uni1
    peer = [0 + (1 - role), 4 + (1 - role), 2 + (1 - role)]     # bi0 bi1 uni0
    return ours, peer


def probe_suite(role):
    ours, peer = sids_for(role)
    return [(1, [0]), (1, [1]), (2, [0]), (2, [1]), (3, [ours[0], 3]), (4, [ours[0]]), (5, [ours[0]]), (6, [ours[0], 8]),
            (3, [peer[0], 2]), (6, [peer[0], 8]), (6, [peer[2], 8]), (3, [ours[2], 1]), (7, []), (8, [5]), (10, []),
            (12, [ours[0], 4, 0]), (12, [peer[0], 4, 0]), (20, [6]), (18, []), (23, [50]), (17, [0, 9]), (17, [1, 9]),
            (6, [ours[0], 8]), (6, [peer[0], 8]), (18, [])]


def history_alphabet(role):
    ours, peer = sids_for(role)
    return [(0, []), (1, [0]), (1, [1]), (2, [0]), (2, [1]), (3, [ours[0], 12]), (4, [ours[0]]), (5, [ours[0]]),
            (6, [ours[0], 8]), (6, [peer[0], 8]), (7, []), (10, []), (11, [0]), (11, [1]), (12, [ours[0], 5, 0]),
            (12, [peer[0], 5, 1]), (18, []), (19, [ours[0]]), (16, [ours[0], 40]), (17, [0, 2]), (15, [ours[0]]), (14, [ours[0]]),
            (13, [peer[0], 3]), (8, [7]), (20, [9]), (3, [ours[2], 12]), (6, [peer[2], 4]),
            (8, [1197]), (8, [1198]), (8, [63]), (8, [64])]


def with_error_at(ops, pos, role, eid, second=None, flowerr=False):
    out = list(ops[:pos]) + [(21, [eid])]
    if flowerr:
        out.append((22, [eid + 1]))
    rest = list(ops[pos:])
    if second is not None:
        rest.insert(min(len(rest), 1), (21, [second]))
    return out + rest + probe_suite(role)


def gen_connerr(rng, tier):
    cases = []
    n = 0
    # exhaustive short histories, the error at every position
    for role in (0, 1):
        alpha = history_alphabet(role)
        # quick: 9 operations, length 2; thorough: 15 operations, every sequence of length 3 (exhaustive at that size)
        small = [alpha[i] for i in ((1, 2, 3, 5, 8, 10, 11, 12, 17) if tier == "quick" else
                                    (1, 2, 3, 5, 6, 7, 8, 9, 10, 11, 12, 15, 16, 19, 20))]
        L = 2 if tier == "quick" else 3
        for mem in ((0, 1) if role == 0 else (0,)):
            for pre_hs in (True, False):
                for seq in itertools.product(small, repeat=L):
                    base = ([(0, [])] if pre_hs else []) + list(seq)
                    for pos in range(len(base) + 1):
                        if tier == "quick" and (n % 3 != 0) and pos not in (len(base),):
                            n += 1
                            continue
                        cases.append(Case("x%d" % n, with_error_at(base, pos, role, 7 + pos), cfg=[role, mem, 1, 1, 10]))
                        n += 1
    nrand = 1200 if tier == "quick" else 25000
    for i in range(nrand):
        role = rng.randint(0, 1)
        mem = rng.randint(0, 1) if role == 0 else 0
        cfg = [role, mem, rng.choice([0, 1, 1, 2, 3]), rng.choice([0, 1, 2]), rng.choice([5, 10, 10, 100])]
        alpha = history_alphabet(role)
        ours, peer = sids_for(role)
        ops = []
        if rng.random() < 0.75:
            ops.append((0, []))
        for _ in range(rng.randint(3, 22)):
            o = rng.choice(alpha)
            if o[0] in (3, 4, 5, 6, 12, 13, 14, 15, 16, 19) and rng.random() < 0.5:
                sid = rng.choice(ours + peer)
                o = (o[0], [sid] + list(o[1][1:]))
            ops.append(o)
        if rng.random() < 0.3 and (0, []) not in ops:
            ops.insert(rng.randrange(len(ops) + 1), (0, []))
        pos = rng.randrange(len(ops) + 1)
        eid = rng.choice([3, 7, 41, 101, 102, 203])
        second = rng.choice([None, None, eid + 1, 150])
        cases.append(Case("r%d" % i, with_error_at(ops, pos, role, eid, second, rng.random() < 0.3), cfg=cfg))
    return cases


def parse_connerr(line):
    """-> (result words, woken tids, [(tid, code, val)])"""
    v = ints(line)
    if -1 not in v:
        return v, [], []
    i = v.index(-1)
    # the marker -1 may also be a result word (`-1 9`): the real marker is followed by a count and later by -2
    cands = [j for j, x in enumerate(v) if x == -1 and j + 1 < len(v) and v[j + 1] >= 0 and j + 2 + v[j + 1] < len(v) and v[j + 2 + v[j + 1]] == -2]
    i = cands[-1] if cands else i
    res = v[:i]
    nw = v[i + 1]
    wok = v[i + 2:i + 2 + nw]
    j = i + 2 + nw
    nc = v[j + 1]
    comp = [tuple(v[j + 2 + 3 * q:j + 5 + 3 * q]) for q in range(nc)]
    return res, wok, comp


def oracle_connerr(case, obs):
    if len(obs) != len(case.ops):
        return "length: %d observations for %d ops (%s)" % (len(obs), len(case.ops), obs[-1] if obs else "")
    for k, line in enumerate(obs):
        if line.startswith("!"):
            return "abnormal: op %d -> %s" % (k, line)
    parked = {}                 # tid -> (tag, args)
    err = None                  # the connection error (first CONNERR)
    ferr = None
    err_at = None
    arrived = {}                # sid -> bytes the peer delivered before the error
    readn = {}                  # sid -> bytes read so far
    send_terminal = set()       # sids whose sending half may be terminal before the error
    recv_terminal = set()
    shut, loaded_after_shut = set(), set()
    for k, ((tag, args), line) in enumerate(zip(case.ops, obs)):
        res, wok, comp = parse_connerr(line)
        for (t, code, val) in comp:
            if t not in parked:
                return "executor: op %d completes task %d which is not parked" % (k, t)
        # ---------------- the clauses
        if tag == 21 and err is None:
            err, err_at = args[0], k
            done = {t: (c, v) for (t, c, v) in comp}
            for t, (ptag, pargs) in sorted(parked.items()):
                if t not in done:
                    what = "hang-open" if ptag == 1 else "hang"
                    return "%s: %s task %d (%s %s) is still pending after the connection error at op %d (woken=%s)" % (
                        what, NAMES[ptag], t, ptag, pargs, k, t in wok)
                if done[t] != (2, err):
                    return "wrong-error: pending %s task %d completed with %s after connection error %d" % (NAMES[ptag], t, done[t], err)
        elif err is not None:
            if tag in TASK_TAGS:
                code, val = res[0], res[1]
                if code == 0:
                    return "blocks: op %d (%s %s) is Pending after the connection error" % (k, NAMES[tag], args)
                if code == 8:
                    return "executor: op %d refused, a task of an earlier op is still parked after the error" % k
                if code == 2 and val != err:
                    return "wrong-error: op %d (%s) answers error %d, the connection error is %d" % (k, NAMES[tag], val, err)
                if code != 2:
                    sid = args[0] if args else None
                    ok = (code == 9) or (tag in (3, 4, 5) and sid in send_terminal and code in (1, 3)) or \
                         (tag == 6 and sid in recv_terminal and code in (1, 3))
                    if tag == 3 and code == 1:
                        ok = False
                    if not ok:
                        return "accepted: op %d (%s %s) answers %s after connection error %d" % (k, NAMES[tag], args, res[:2], err)
                    if tag == 6 and code == 1:
                        readn[sid] = readn.get(sid, 0) + val
                        if readn[sid] > arrived.get(sid, 0):
                            return "accepted: op %d read %d bytes of stream %d, only %d had arrived before the error" % (
                                k, readn[sid], sid, arrived.get(sid, 0))
            elif tag == 8 and res[:2] != [2, err]:
                return "accepted: op %d datagram send answers %s after connection error %d" % (k, res[:2], err)
            elif tag == 18 and res != [0, 0, 0]:
                return "emitted: op %d loaded %s (stream bytes, fins, datagrams) after connection error %d" % (k, res, err)
            elif tag == 20 and res[:2] != [2, err]:
                return "accepted: op %d incoming datagram answers %s after connection error %d" % (k, res, err)
            if comp or wok:
                # only F23-style late completions are possible here; they must carry the error
                for (t, code, val) in comp:
                    if (code, val) != (2, err):
                        return "wrong-error: task %d completed late with %s" % (t, (code, val))
        if tag == 22 and ferr is None:
            ferr = args[0]
        if tag == 23 and ferr is not None and res[:2] != [2, ferr]:
            return "flow: op %d credit answers %s after the flow controller was failed with %d" % (k, res, ferr)
        # ---------------- bookkeeping
        for (t, code, val) in comp:
            ptag, pargs = parked.pop(t)
            if ptag == 6 and code == 1:
                readn[pargs[0]] = readn.get(pargs[0], 0) + val
        if tag in TASK_TAGS and res and res[0] == 0:
            parked[k] = (tag, args)
        if tag == 6 and res and res[0] == 1 and err is None:
            readn[args[0]] = readn.get(args[0], 0) + res[1]
        if err is None:
            if tag == 12 and res and res[0] >= 0:
                arrived[args[0]] = arrived.get(args[0], 0) + res[0]
                if args[2]:
                    recv_terminal.add(args[0])
            if tag in (13, 14):
                recv_terminal.add(args[0])
            if tag == 15:
                send_terminal.add(args[0])
            if tag == 5:
                shut.add(args[0])
            if tag == 18:
                loaded_after_shut |= shut
            if tag == 19 and args[0] in loaded_after_shut:
                send_terminal.add(args[0])
    return None


def known_open(fid):
    try:
        data = json.load(open(os.path.join(ROOT, "known_findings.json")))
    except OSError:
        return False
    return any(e.get("id") == fid and e.get("property") == "C17" and e.get("status", "open") == "open" for e in data.get("findings", []))


def classify_connerr(case, msg, obs):
    # F23 is classified only while it is listed as OPEN; once fixed a reappearance is a violation
    if msg.startswith("hang-open:") and known_open("F23"):
        return "F23"
    return None


def nontrivial_connerr(case):
    kinds = set()
    for tag, args in case.ops:
        if tag == 21:
            break
        if tag in TASK_TAGS:
            kinds.add(tag)
    return len(kinds) >= 2


def hist_connerr(case):
    out = []
    pos = next((i for i, (t, _) in enumerate(case.ops) if t == 21), None)
    out.append("err-at:%s" % ("none" if pos is None else "0" if pos == 0 else "1-3" if pos <= 3 else "4-9" if pos <= 9 else "10+"))
    out.append("errors:%d" % sum(1 for t, _ in case.ops if t == 21))
    before = case.ops[:pos] if pos is not None else case.ops
    out += sorted(set("pre:" + NAMES.get(t, str(t)) for t, _ in before))
    out.append("role:%s mem:%s" % (case.cfg[0], case.cfg[1]))
    return out


def mutate_connerr(rng, case, j):
    role = int(case.cfg[0])
    ops = [o for o in case.ops]
    pos = next((i for i, (t, _) in enumerate(ops) if t == 21), 0)
    ins = rng.choice(history_alphabet(role))
    ops.insert(rng.randrange(pos + 1), ins)
    return Case("m%d" % j, ops, cfg=case.cfg)


STREAMS = [
    {"name": "connstate", "pkg": "hq", "bin": "impl_connstate",
     "gen": gen_connstate, "oracle": oracle_connstate, "nontrivial": nontrivial_connstate, "hist": hist_connstate,
     "mutate": mutate_connstate,
     "profiles": ("debug",), "profiles_thorough": ("debug",), "rule": RULE},
    {"name": "connerr", "pkg": "hr", "bin": "impl_connerr",
     "gen": gen_connerr, "oracle": oracle_connerr, "nontrivial": nontrivial_connerr, "hist": hist_connerr,
     "mutate": mutate_connerr, "classify": classify_connerr,
     "profiles": ("debug",), "profiles_thorough": ("debug", "release"), "rule": RULE},
    {"name": "idle", "pkg": "hb", "bin": "impl_idle",
     "gen": gen_idle, "oracle": oracle_idle, "nontrivial": nontrivial_idle, "hist": hist_idle,
     "mutate": mutate_idle,
     "profiles": ("debug",), "profiles_thorough": ("debug", "release"), "rule": RULE},
]
