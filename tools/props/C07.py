"""C07 — packet numbers are never reused and always decode to the number sent."""
from vlib import Case
from props import _journal as J

PROP_FILE = "Properties/C07.v"
RULE = ("stream pn: cases = one ENCDEC pn largest_acked expected (or DEC width payload expected) each; non-trivial = pn - largest_acked "
        "within 3 of a width boundary (2^15, 2^23, 2^31) or expected within 3 of an edge of the decode window; "
        "stream journal: as C10 (non-trivial = >= 1 multi-frame packet, >= 1 trivial packet, >= 1 abandoned guard, acks out of order, "
        "or the received-side rule); distinct by hash of the op list")
TRUSTED_BASE = ["models coq/Model/Pn.v (u64 arithmetic with explicit overflow/panic outcomes, `&`/`|` as Z.ldiff/Z.lor) and "
                "coq/Model/SentJournal.v transcribe number.rs / sent.rs; equality with the Rust is checked by streams `pn` and `journal`, not proved"]
MODELLED = ("qbase/src/packet/number.rs: PacketNumber::{encode, decode, size}, put_packet_number/take_pn_len as the [wire] map; "
            "qrecovery/src/journal/sent.rs: NewPacketGuard::{pn, record_frame, record_trivial, build_with_time, build_trivial, drop}, "
            "SentRotateGuard calls; qrecovery/src/journal/rcvd.rs: decode_pn (in C10's model). qconnection/src/tx.rs is represented only by "
            "the guard-discipline hypothesis (release-profile wrapping arithmetic is not modelled: debug profile only)")
ASSUMPTIONS = ["guard discipline of qconnection/src/tx.rs: a packet that reaches encrypt_and_protect_packet recorded a frame or record_trivial "
               "(Packages::dump returns Ok only when bytes were written, every written frame goes through record_frame)",
               "guards are serialised by the journal's mutex (each guard life is one atomic step of the history)",
               "the receiver's expected number lies between the sender's largest_acked and the packet itself (property premise)"]

MANIFEST = {
    "text": "Machine-checked Coq theorems (Properties/C07.v): over every history of started / completed / abandoned NewPacketGuard lives "
            "interleaved with acknowledgement processing, the packet numbers of built packets are strictly increasing (under the tx.rs "
            "guard discipline; without it a counterexample is proved); for all pn, largest_acked < 2^62 with pn - largest_acked < 2^31 and "
            "every expected in [largest_acked, pn], PacketNumber::encode does not panic and decoding what is written on the wire gives pn "
            "(also for delayed packets within 2^15), and so does decoding the in-memory value returned by encode (full strength since the "
            "fix of F31, U24 payload reduced to 24 bits); the bound 2^31 is exact. Models tied to the Rust by streams `pn` (exhaustive around width boundaries, "
            "random triples up to 2^62, arbitrary decode inputs) and `journal`.",
    "note": "Trusted: Coq kernel, extraction, OCaml driver, Rust harness, Python generators/oracle. The tx.rs discipline is a hypothesis, "
            "not derived from the Package implementations. Nonce uniqueness follows from number uniqueness only per key; key handling is C06.",
    "technique": "Coq proof (lia over div/mod for the codec, bit lemma lor/ldiff = div/mod, monotonicity invariant over event histories) "
                 "+ differential correspondence model/implementation",
}

U62 = 2**62


def ints(line):
    return [int(x) for x in line.split()]


def pn_oracle(case, obs):
    if len(obs) != len(case.ops):
        return "length: %d observations for %d ops (%s)" % (len(obs), len(case.ops), obs[-1] if obs else "")
    for k, ((tag, args), line) in enumerate(zip(case.ops, obs)):
        if line.startswith("!"):
            return "abnormal: op %d -> %s" % (k, line)
        v = ints(line)
        if tag == 0:
            pn, la, exp = args
            guard = 0 <= la < U62 and la <= exp <= pn and pn - la < 2**31
            if not guard:
                continue
            if v[0] != 0:
                return "encpanic: op %d encode(%d, %d) panicked inside the guard" % (k, pn, la)
            w, x, xw = v[1], v[2], v[3]
            if (w, xw) != J.rfc_encode(pn, la):
                return "encwidth: op %d encode(%d, %d) wrote (%d, %d), expected %s" % (k, pn, la, w, xw, J.rfc_encode(pn, la))
            rest = v[4:]
            direct = rest[1] if rest[0] == 0 else None
            rest = rest[2:] if rest[0] == 0 else rest[1:]
            wire = rest[1] if rest[0] == 0 else None
            if wire != pn:
                return "decode: op %d pn %d (largest_acked %d) written as (%d, %d) decodes to %s at expected %d" % (k, pn, la, w, xw, wire, exp)
            if pn < U62 and J.rfc_decode(w, xw, exp) != pn:
                return "rfcdecode: op %d RFC A.3 reference decodes (%d,%d) at %d to %d, not %d" % (k, w, xw, exp, J.rfc_decode(w, xw, exp), pn)
            if direct != pn:
                return "direct: op %d decode of the in-memory value U%d(%d) at expected %d gives %s, pn is %d" % (k, 8 * w, x, exp, direct, pn)
        elif tag == 1:
            w, x, exp = args
            if exp < U62 - 2**33 and x < 2**(8 * w):
                if v[0] != 0:
                    return "decpanic: op %d decode U%d(%d) at %d panicked" % (k, 8 * w, x, exp)
                if v[1] != J.rfc_decode(w, x, exp):
                    return "decref: op %d decode U%d(%d) at %d = %d, RFC A.3 gives %d" % (k, 8 * w, x, exp, v[1], J.rfc_decode(w, x, exp))
    return None


BOUNDS = [2**15, 2**23, 2**31]


def pn_nontrivial(case):
    for t, a in case.ops:
        if t == 0:
            pn, la, exp = a
            d = pn - la
            if any(abs(d - b) <= 3 for b in BOUNDS):
                return True
            enc = J.rfc_encode(pn, la) if 0 <= d < 2**31 else None
            if enc:
                hwin = 1 << (8 * enc[0] - 1)
                if abs(pn - (exp + hwin)) <= 3 or abs(pn - (exp - hwin)) <= 3 or abs(exp - la) <= 1:
                    return True
        else:
            w, x, exp = a
            hwin = 1 << (8 * w - 1)
            cand = (exp & ~((1 << (8 * w)) - 1)) | (x % (1 << (8 * w)))
            if abs(cand - (exp + hwin)) <= 3 or abs(cand - (exp - hwin)) <= 3:
                return True
    return False


def pn_hist(case):
    lab = []
    for t, a in case.ops:
        if t == 0:
            pn, la, exp = a
            d = pn - la
            lab.append("op:encdec")
            lab.append("dist:%s" % ("neg" if d < 0 else "<2^15" if d < 2**15 else "<2^23" if d < 2**23 else "<2^31" if d < 2**31 else ">=2^31"))
            lab.append("la:%s" % ("0" if la == 0 else "<2^32" if la < 2**32 else "<2^61" if la < 2**61 else "near2^62"))
            lab.append("exp:%s" % ("<la" if exp < la else "=la" if exp == la else "=pn" if exp == pn else "in" if exp < pn else ">pn"))
        else:
            lab.append("op:dec%d" % a[0])
    return lab


def pn_gen(rng, tier):
    triples = []
    las = [0, 1, 2, 255, 256, 65535, 65536, 2**24 - 1, 2**24, 3 * 2**24 + 5, 2**32 - 1, 2**32, 2**40 + 12345,
           U62 - 2**31 - 4, U62 - 2**31, U62 - 2**24, U62 - 40000, U62 - 5, U62 - 1]
    ds = []
    for b in [0, 128, 2**15, 2**16, 2**23, 2**24, 2**31]:
        ds += [b + i for i in range(-3, 4)]
    ds = sorted(set(d for d in ds if d >= -2))
    for la in las:
        for la2 in (la - 1, la, la + 1):
            if la2 < 0:
                continue
            for d in ds:
                pn = la2 + d
                if pn < 0:
                    continue
                enc = J.rfc_encode(pn, la2) if 0 <= d < 2**31 else None
                hwin = (1 << (8 * enc[0] - 1)) if enc else 2**15
                exps = {la2, la2 + 1, pn, pn - 1, (la2 + pn) // 2, pn + 1, pn + hwin - 1, pn + hwin, pn + hwin + 1, max(0, pn - hwin), max(0, pn - hwin + 1)}
                for e in exps:
                    if e >= 0:
                        triples.append((pn, la2, e))
    n_rand = 20000 if tier == "quick" else 1000000
    for _ in range(n_rand):
        r = rng.random()
        la = (rng.randrange(0, 2**16) if r < 0.2 else rng.randrange(0, 2**34) if r < 0.5 else rng.randrange(0, U62) if r < 0.8
              else U62 - 1 - rng.randrange(0, 2**33))
        r2 = rng.random()
        d = (rng.randrange(0, 2**15 + 8) if r2 < 0.3 else rng.randrange(0, 2**23 + 8) if r2 < 0.6 else rng.randrange(0, 2**31) if r2 < 0.95
             else rng.randrange(2**31, 2**33))
        pn = la + d
        r3 = rng.random()
        e = rng.randint(la, pn) if r3 < 0.7 else rng.choice([la, la + 1 if la + 1 <= pn else la, pn]) if r3 < 0.9 else rng.randint(max(0, la - 5), pn + 2**16)
        triples.append((pn, la, e))
    cases = [Case("t%d" % i, [(0, list(t))]) for i, t in enumerate(triples)]
    # malformed / boundary stream for decode alone: any payload, any expectation (also near u64::MAX)
    n_dec = 5000 if tier == "quick" else 200000
    for i in range(n_dec):
        w = rng.randint(1, 4)
        x = rng.randrange(0, 2**(8 * w)) if rng.random() < 0.8 else rng.choice([0, 1, 2**(8 * w) - 1, 2**(8 * w - 1), 2**(8 * w - 1) - 1])
        if w == 3 and rng.random() < 0.2:
            x = rng.randrange(2**24, 2**32)              # un-normalised U24 (what encode returns)
        r = rng.random()
        exp = (rng.randrange(0, 2**(8 * w + 1)) if r < 0.5 else rng.randrange(0, U62) if r < 0.85 else 2**64 - 1 - rng.randrange(0, 2**33) if r < 0.9
               else rng.choice([0, 2**(8 * w - 1), 2**(8 * w), 2**(8 * w) + 2**(8 * w - 1)]) + rng.randint(-2, 2))
        cases.append(Case("d%d" % i, [(1, [w, x, max(0, exp)])]))
    return cases


def pn_mutate(rng, case, j):
    t, a = case.ops[0]
    a = list(a)
    i = rng.randrange(len(a))
    a[i] = max(0, a[i] + rng.choice([-2**31, -2**15, -3, -1, 1, 3, 2**15, 2**23]))
    if t == 1:
        a[0] = min(4, max(1, a[0]))
        a[1] = a[1] % (2**32)
    return Case("mu%d" % j, [(t, a)])


def journal_oracle(case, obs):
    return J.oracle(case, obs, want=("C07",))


STREAMS = [
    {"name": "pn", "pkg": "hb", "bin": "impl_pn",
     "gen": pn_gen, "oracle": pn_oracle, "nontrivial": pn_nontrivial, "hist": pn_hist, "mutate": pn_mutate,
     "profiles": ("debug",), "profiles_thorough": ("debug",), "rule": RULE},
    {"name": "journal", "pkg": "hr", "bin": "impl_journal",
     "gen": J.gen, "oracle": journal_oracle, "nontrivial": J.nontrivial, "hist": J.hist, "mutate": J.mutate,
     "profiles": ("debug",), "profiles_thorough": ("debug",), "rule": RULE},
]
