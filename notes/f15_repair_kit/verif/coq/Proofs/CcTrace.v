(* Trace-level form of "an acknowledged packet is never declared lost": once an accepted ACK frame
   covers a packet number that has been sent in a space, no later operation of any history
   reports that number lost in that space. *)
From Coq Require Import List ZArith Bool Lia.
From GQ Require Import Model.NewReno Model.LossDetect Model.Pto Proofs.NewReno Proofs.LossDetect Proofs.Pto Proofs.CcSteps.
Import ListNotations.
Local Open Scope Z_scope.

Section Fx.
Context {fx : bool}.
Local Notation on_packet_sent_core := (@GQ.Proofs.Pto.on_packet_sent_core fx).
Local Notation InvA_step := (@GQ.Proofs.Pto.InvA_step fx).
Local Notation InvA_ack := (@GQ.Proofs.Pto.InvA_ack fx).
Local Notation InvA_timeout := (@GQ.Proofs.Pto.InvA_timeout fx).

(* no packet numbered pn of space e is Inflight, and pn is not a future number *)
Definition NI (c : cc) (e pn : Z) : Prop :=
  noinfl pn (s_sent (c_sp c e)) /\ pn <= c_lastpn c e.

Lemma space_on_ack_ni s r rs s1 r1 res pn :
  space_on_ack s r rs = (s1, r1, res) ->
  (noinfl pn (s_sent s) -> noinfl pn (s_sent s1)) /\
  (in_ranges pn rs = true -> noinfl pn (s_sent s1)).
Proof.
  unfold space_on_ack. intro Hd.
  destruct (s_sent s) as [|p0 ps0] eqn:Es.
  - inversion Hd; subst. rewrite Es. split; intros _ q [].
  - rewrite <- Es in *. clear Es p0 ps0.
    destruct (ack_walk r (s_sent s) rs) as [[[r0 ps] el] lg] eqn:Ew.
    destruct (ack_walk_states rs _ _ _ _ _ _ Ew) as (A1 & A2 & _).
    assert (G : (noinfl pn (s_sent s) -> noinfl pn (pop_front ps)) /\ (in_ranges pn rs = true -> noinfl pn (pop_front ps))).
    { split; intros H q Hq; apply pop_front_incl in Hq; [now apply (A1 pn H)|now apply (A2 pn H)]. }
    destruct lg; inversion Hd; subst; ccbn; exact G.
Qed.

Lemma cc_on_ack_ni c ri e largest cev rs :
  let '(c1, lost, pers) := cc_on_ack fx c ri e largest cev rs in
  c_lastpn c1 = c_lastpn c /\
  (forall x pn, noinfl pn (s_sent (c_sp c x)) -> noinfl pn (s_sent (c_sp c1 x))) /\
  (forall pn, in_ranges pn rs = true -> noinfl pn (s_sent (c_sp c1 e))) /\
  (forall pn, In pn lost -> ~ noinfl pn (s_sent (c_sp c e)) /\ in_ranges pn rs = false).
Proof.
  unfold cc_on_ack.
  assert (Hu : s_sent (update_la (c_sp c e) largest) = s_sent (c_sp c e)) by reflexivity.
  destruct (space_on_ack (update_la (c_sp c e) largest) (c_reno c) rs) as [[s1 r1] res] eqn:Ea.
  assert (N : forall pn, (noinfl pn (s_sent (c_sp c e)) -> noinfl pn (s_sent s1)) /\
                         (in_ranges pn rs = true -> noinfl pn (s_sent s1))).
  { intro pn. destruct (space_on_ack_ni _ _ _ _ _ _ pn Ea) as (A & B). rewrite Hu in A. auto. }
  destruct res as [[el [ln lt]]|].
  - destruct (detect_lost fx s1 _ (i_ld ri) (c_now c)) as [[[s2 r3] lost] pers] eqn:Ed.
    match goal with |- context [set_loss_detection_timer ?x ri] =>
      destruct (sldt_same x ri) as (A & B & C & D & E & _) end.
    split; [rewrite E; destruct (peer_completed _); reflexivity|].
    assert (B' : c_sp (set_loss_detection_timer
                  (if peer_completed (with_reno_sp c r3 e s2) then with_pto_count (with_reno_sp c r3 e s2) 0
                   else with_reno_sp c r3 e s2) ri) = fset (c_sp c) e s2)
      by (rewrite B; destruct (peer_completed _); reflexivity).
    rewrite B'. unfold fset. split; [|split].
    + intros x pn H. destruct (x =? e) eqn:Ex; [|exact H]. apply Z.eqb_eq in Ex; subst x.
      destruct (detect_lost_only_inflight _ _ _ _ _ _ _ _ pn Ed) as (_ & D2). apply D2. exact (proj1 (N pn) H).
    + intros pn H. rewrite Z.eqb_refl.
      destruct (detect_lost_only_inflight _ _ _ _ _ _ _ _ pn Ed) as (_ & D2). apply D2. exact (proj2 (N pn) H).
    + intros pn H. destruct (detect_lost_only_inflight _ _ _ _ _ _ _ _ pn Ed) as (D1 & _).
      split; [intro X; apply (D1 H); exact (proj1 (N pn) X)|].
      destruct (in_ranges pn rs) eqn:Er; [|reflexivity]. exfalso. apply (D1 H). exact (proj2 (N pn) Er).
  - ccbn. unfold fset. split; [reflexivity|]. split; [|split].
    + intros x pn H. destruct (x =? e) eqn:Ex; [|exact H]. apply Z.eqb_eq in Ex; subst x. exact (proj1 (N pn) H).
    + intros pn H. rewrite Z.eqb_refl. exact (proj2 (N pn) H).
    + intros pn [].
Qed.

Lemma timeout_ni c ri :
  let '(c1, lost, pers) := on_loss_detection_timeout fx c ri in
  c_lastpn c1 = c_lastpn c /\
  (forall x pn, noinfl pn (s_sent (c_sp c x)) -> noinfl pn (s_sent (c_sp c1 x))) /\
  (forall x pn, In (x, pn) lost -> ~ noinfl pn (s_sent (c_sp c x))).
Proof.
  unfold on_loss_detection_timeout.
  destruct (get_loss_time_and_epoch c) as [[t e]|].
  - destruct (detect_lost fx (c_sp c e) (c_reno c) (i_ld ri) (c_now c)) as [[[s r] lost] pers] eqn:Ed.
    match goal with |- context [set_loss_detection_timer ?x ri] =>
      destruct (sldt_same x ri) as (A & B & C & D & E & _) end.
    rewrite B, E. ccbn. unfold fset. split; [reflexivity|]. split.
    + intros x pn H. destruct (x =? e) eqn:Ex; [|exact H]. apply Z.eqb_eq in Ex; subst x.
      destruct (detect_lost_only_inflight _ _ _ _ _ _ _ _ pn Ed) as (_ & D2). now apply D2.
    + intros x pn Hin. apply in_map_iff in Hin. destruct Hin as (pn0 & Hq & Hin). inversion Hq; subst.
      destruct (detect_lost_only_inflight _ _ _ _ _ _ _ _ pn Ed) as (D1 & _). now apply D1.
  - match goal with |- context [set_loss_detection_timer ?x ri] =>
      destruct (sldt_same x ri) as (A & B & C & D & E & _) end.
    rewrite B, E.
    assert (X : forall c0, (c_sp (with_pto_count c0 (c_pto_count c0 + 1)) = c_sp c0) /\
                           c_lastpn (with_pto_count c0 (c_pto_count c0 + 1)) = c_lastpn c0) by (intro; split; reflexivity).
    destruct (all_no_elic c); [ccbn; split; [reflexivity|split; [auto|intros x pn []]]|].
    destruct (get_pto_time_and_epoch c ri) as (r, p). destruct r as [[t e]|]; ccbn;
      (split; [reflexivity|split; [auto|intros x pn []]]).
Qed.

Lemma discard_ni c ri e x pn :
  c_lastpn (discard_epoch c ri e) = c_lastpn c /\
  (noinfl pn (s_sent (c_sp c x)) -> noinfl pn (s_sent (c_sp (discard_epoch c ri e) x))).
Proof.
  destruct (discard_epoch_core c ri e) as (_ & B & _ & _ & E & _). rewrite B, E. split; [reflexivity|].
  unfold fset. destruct (x =? e); [intros _ q []|auto].
Qed.

(* one operation: NI is kept; a covering accepted ACK establishes it; a report contradicts it *)
Lemma NI_step c ri o e pn : NI c e pn -> NI (fst (cc_step fx c ri o)) e pn.
Proof.
  intros (H1 & H2). destruct o; cbn [cc_step].
  - destruct (sent_ok c e0 pn0 elic infl bytes) eqn:Es; [|split; assumption]. cbn [fst].
    assert (Hpn : c_lastpn c e0 < pn0).
    { unfold sent_ok in Es. apply andb_true_iff in Es. destruct Es as (Es & _).
      apply andb_true_iff in Es. destruct Es as (Es & _). apply andb_true_iff in Es. destruct Es as (Es & _).
      now apply Z.ltb_lt in Es. }
    destruct (on_packet_sent_core (with_lastpn c e0 pn0) ri e0 pn0 elic infl bytes) as (_ & B & C & _ & _ & _ & L & _).
    set (c1 := on_packet_sent fx (with_lastpn c e0 pn0) ri e0 pn0 elic infl bytes) in *.
    assert (N1 : NI c1 e pn).
    { split.
      - destruct (e =? e0) eqn:Ee.
        + apply Z.eqb_eq in Ee; subst e0. rewrite C. ccbn. intros q Hq Hpq.
          apply in_app_or in Hq. destruct Hq as [Hq|[<-|[]]]; [now apply H1|]. cbn in Hpq. lia.
        + rewrite (B e Ee). ccbn. exact H1.
      - rewrite L. ccbn. unfold fset. destruct (e =? e0) eqn:Ee; [apply Z.eqb_eq in Ee; subst; lia|exact H2]. }
    destruct ((e0 =? 1) && negb (c_server c1)); [|exact N1].
    destruct N1 as (N1 & N2). destruct (discard_ni c1 ri 0 e pn) as (D1 & D2).
    split; [now apply D2|now rewrite D1].
  - destruct (ack_ok rs); [|split; assumption].
    pose proof (cc_on_ack_ni c ri e0 (fst (hd (0, 0) rs)) cev rs) as X.
    destruct (cc_on_ack fx c ri e0 (fst (hd (0, 0) rs)) cev rs) as [[c1 lost] pers].
    destruct X as (L & P & _). cbn [fst].
    assert (N1 : NI c1 e pn) by (split; [now apply P|now rewrite L]).
    destruct ((e0 =? 1) && c_server c1); [|exact N1].
    destruct N1 as (N1 & N2). destruct (discard_ni c1 ri 0 e pn) as (D1 & D2).
    split; [now apply D2|now rewrite D1].
  - split; assumption.
  - pose proof (timeout_ni c ri) as X.
    destruct (match c_timer c with Some t => t <=? c_now c | None => false end).
    + destruct (on_loss_detection_timeout fx c ri) as [[c1 lost] pers]. destruct X as (L & P & _).
      assert (N1 : NI c1 e pn) by (split; [now apply P|now rewrite L]).
      cbn [andb]. destruct (6 <? c_pto_count c1); [exact N1|].
      destruct (c_pending_burst c1); [|exact N1].
      unfold cc_send_quota. destruct (pacer_schedule _ _ _ _ _) as (p, q). cbn [fst].
      destruct (c_mtu _ <=? _); exact N1.
    + cbn [andb]. destruct (c_pending_burst c); [|split; assumption].
      unfold cc_send_quota. destruct (pacer_schedule _ _ _ _ _) as (p, q). cbn [fst].
      destruct (c_mtu _ <=? _); split; assumption.
  - destruct (which =? 0); [|destruct (which =? 1)]; split; assumption.
  - destruct ((0 <=? e0) && (e0 <=? 1)); [|split; assumption]. cbn [fst].
    destruct (discard_ni c ri e0 e pn) as (D1 & D2). split; [now apply D2|now rewrite D1].
  - unfold cc_send_quota. destruct (pacer_schedule _ _ _ _ _) as (p, q).
    destruct (c_mtu _ <=? _); split; assumption.
  - split; assumption.
  - split; assumption.
Qed.

Lemma NI_no_loss c ri o e pn : NI c e pn -> ~ In (e, pn) (o_lost (snd (cc_step fx c ri o))).
Proof.
  intros (H1 & H2) Hin. destruct o; cbn [cc_step] in Hin.
  - destruct (sent_ok _ _ _ _ _ _); exact Hin.
  - destruct (ack_ok rs); [|exact Hin].
    pose proof (cc_on_ack_ni c ri e0 (fst (hd (0, 0) rs)) cev rs) as X.
    destruct (cc_on_ack fx c ri e0 (fst (hd (0, 0) rs)) cev rs) as [[c1 lost] pers].
    destruct X as (_ & _ & _ & Q). cbn [snd o_lost] in Hin.
    apply in_map_iff in Hin. destruct Hin as (pn0 & Hq & Hin). inversion Hq; subst.
    destruct (Q pn Hin) as (Q1 & _). now apply Q1.
  - exact Hin.
  - pose proof (timeout_ni c ri) as X.
    destruct (match c_timer c with Some t => t <=? c_now c | None => false end).
    + destruct (on_loss_detection_timeout fx c ri) as [[c1 lost] pers]. destruct X as (_ & _ & Q).
      cbn [andb] in Hin.
      assert (Hl : In (e, pn) lost).
      { destruct (6 <? c_pto_count c1); [exact Hin|]. destruct (c_pending_burst c1); [|exact Hin].
        destruct (cc_send_quota c1 ri) as (c2, q). exact Hin. }
      now apply (Q e pn Hl).
    + cbn [andb] in Hin. destruct (c_pending_burst c); [|exact Hin].
      destruct (cc_send_quota c ri) as (c2, q). exact Hin.
  - exact Hin.
  - destruct (_ && _); exact Hin.
  - destruct (cc_send_quota c ri) as (c1, q). destruct (c_mtu c1 <=? _); exact Hin.
  - exact Hin.
  - exact Hin.
Qed.

Lemma ack_establishes_NI c ri e cev rs pn :
  ack_ok rs = true -> in_ranges pn rs = true -> pn <= c_lastpn c e ->
  NI (fst (cc_step fx c ri (OpAck e cev rs))) e pn /\
  ~ In (e, pn) (o_lost (snd (cc_step fx c ri (OpAck e cev rs)))).
Proof.
  intros Hk Hr Hl. cbn [cc_step]. rewrite Hk.
  pose proof (cc_on_ack_ni c ri e (fst (hd (0, 0) rs)) cev rs) as X.
  destruct (cc_on_ack fx c ri e (fst (hd (0, 0) rs)) cev rs) as [[c1 lost] pers].
  destruct X as (L & P & R & Q). cbn [fst snd o_lost]. split.
  - assert (N1 : NI c1 e pn) by (split; [now apply R|now rewrite L]).
    destruct ((e =? 1) && c_server c1); [|exact N1].
    destruct N1 as (N1 & N2). destruct (discard_ni c1 ri 0 e pn) as (D1 & D2).
    split; [now apply D2|now rewrite D1].
  - intro Hin. apply in_map_iff in Hin. destruct Hin as (pn0 & Hq & Hin). inversion Hq; subst.
    destruct (Q pn Hin) as (_ & Q2). congruence.
Qed.

(* histories *)
Fixpoint run_from fx (c : cc) (l : list (rin * cc_op)) : list outcome :=
  match l with
  | [] => []
  | (ri, o) :: rest => snd (cc_step fx c ri o) :: run_from fx (fst (cc_step fx c ri o)) rest
  end.

Lemma NI_run c l e pn : NI c e pn -> Forall (fun out => ~ In (e, pn) (o_lost out)) (run_from fx c l).
Proof.
  revert c. induction l as [|[ri o] rest IH]; intros c H; cbn [run_from]; constructor.
  - now apply NI_no_loss.
  - apply IH. now apply NI_step.
Qed.

(* from ANY state c (in particular any reachable one): if an accepted ACK frame of space e covers a
   number pn already sent there, neither that operation nor any later operation of any
   continuation reports (e, pn) lost *)
Lemma p_c13_acked_never_lost_trace c ri e cev rs pn l :
  ack_ok rs = true -> in_ranges pn rs = true -> pn <= c_lastpn c e ->
  Forall (fun out => ~ In (e, pn) (o_lost out)) (run_from fx c ((ri, OpAck e cev rs) :: l)).
Proof.
  intros Hk Hr Hl. destruct (ack_establishes_NI c ri e cev rs pn Hk Hr Hl) as (A & B).
  cbn [run_from]. constructor; [exact B|]. now apply NI_run.
Qed.

End Fx.
