//! Correspondence stream `wakers_r` (C16): the waiter/notifier protocols that live in qrecovery, driven on the
//! REAL objects, single-threaded, one method call per op, with counting wakers.
//! CASE cfg: `<protocol id> [param]`; ids: 9 stream sender (Writer / Outgoing under DataStreams), 8 LocalStreamIds under DataStreams (param = initial max bidi streams),
//! 10 stream receiver (Reader / Incoming under DataStreams), 11 crypto stream sending side,
//! 12 crypto stream receiving side
use std::pin::Pin;
use std::task::Poll;

use bytes::Bytes;
use hproto::{Obs, Op};
use qbase::cid::ConnectionId;
use qbase::error::{Error, ErrorKind, QuicError};
use qbase::frame::io::{ReceiveFrame, SendFrame};
use qbase::frame::{
    CryptoFrame, MaxStreamsFrame, ResetStreamFrame, StreamCtlFrame, StreamFrame,
};
use qbase::net::tx::ArcSendWakers;
use qbase::param::{ArcParameters, ClientParameters, ParameterId, Parameters, ServerParameters};
use qbase::role::Role;
use qbase::sid::handy::ConsistentConcurrency;
use qbase::sid::StreamId;
use qbase::varint::VarInt;
use qrecovery::crypto::CryptoStream;
use qrecovery::recv::Reader;
use qrecovery::send::Writer;
use qrecovery::streams::{DataStreams, Ext};
use tokio::io::{AsyncRead, AsyncWrite, ReadBuf};

#[path = "../../../hproto/src/wakers_common.rs"]
mod wc;
use wc::{SKIP, Waiters, wid};

/// a packet buffer of limited capacity that the `Package` impls of the frames can be dumped into
struct Pkt(bytes::buf::Limit<Vec<u8>>, Vec<StreamFrame>);
impl Pkt {
    fn new(cap: usize) -> Self {
        use bytes::BufMut;
        Pkt(Vec::with_capacity(cap).limit(cap), Vec::new())
    }
}
unsafe impl bytes::BufMut for Pkt {
    fn remaining_mut(&self) -> usize {
        self.0.remaining_mut()
    }
    unsafe fn advance_mut(&mut self, cnt: usize) {
        unsafe { self.0.advance_mut(cnt) }
    }
    fn chunk_mut(&mut self) -> &mut bytes::buf::UninitSlice {
        self.0.chunk_mut()
    }
}
impl<D: qbase::util::ContinuousData> qbase::packet::io::RecordFrame<qbase::frame::Frame<D>, D> for Pkt {
    fn record_frame(&mut self, frame: &qbase::frame::Frame<D>) {
        if let qbase::frame::Frame::Stream(f, _) = frame {
            self.1.push(f.clone());
        }
    }
}

#[derive(Clone, Default, Debug)]
struct Tx;
impl SendFrame<StreamCtlFrame> for Tx {
    fn send_frame<I: IntoIterator<Item = StreamCtlFrame>>(&self, _iter: I) {}
}
impl SendFrame<qbase::frame::DataBlockedFrame> for Tx {
    fn send_frame<I: IntoIterator<Item = qbase::frame::DataBlockedFrame>>(&self, _iter: I) {}
}

type Streams = DataStreams<Tx>;

fn conn_error() -> Error {
    Error::Quic(QuicError::with_default_fty(ErrorKind::Internal, "verif"))
}

/// a client-side DataStreams whose peer allows `max_bidi` bidirectional streams, and the ArcParameters
/// (remembered server parameters, so that `open_bi` does not wait for the handshake)
fn new_streams(max_bidi: u64) -> (Streams, ArcParameters) {
    let mut local = ClientParameters::default();
    local.set(ParameterId::InitialMaxStreamDataBidiLocal, VarInt::from_u32(1 << 20)).unwrap();
    local.set(ParameterId::InitialMaxStreamDataBidiRemote, VarInt::from_u32(1 << 20)).unwrap();
    let mut remote = ServerParameters::default();
    remote.set(ParameterId::InitialMaxStreamsBidi, VarInt::from_u64(max_bidi).unwrap()).unwrap();
    remote.set(ParameterId::InitialMaxStreamDataBidiRemote, VarInt::from_u32(16)).unwrap();
    remote.set(ParameterId::InitialMaxStreamDataBidiLocal, VarInt::from_u32(16)).unwrap();
    let streams = DataStreams::new(
        Role::Client,
        &local,
        &remote,
        Box::new(ConsistentConcurrency::new(8, 8)),
        Tx,
        ArcSendWakers::default(),
        None,
    );
    let params = ArcParameters::from(Parameters::new_client(
        local,
        Some(remote),
        ConnectionId::from_slice(b"odcid___"),
    ));
    (streams, params)
}

struct SidCase {
    streams: Streams,
    params: ArcParameters,
    // opened streams are kept alive: dropping a Writer would reset the stream
    keep: Vec<(Reader<Ext<Tx>>, Writer<Ext<Tx>>)>,
}

struct RecvCase {
    streams: Streams,
    sid: StreamId,
    reader: Reader<Ext<Tx>>,
    _writer: Writer<Ext<Tx>>,
    next: u64,
    gone: bool,
    /// the frame that was lost on the way (offset, length), until it is retransmitted
    hole: Option<(u64, usize)>,
    /// a FIN frame has been delivered: nothing is lost after it
    fin: Option<u64>,
}

struct SendCase {
    streams: Streams,
    sid: StreamId,
    _reader: Reader<Ext<Tx>>,
    writer: Writer<Ext<Tx>>,
    flow: qbase::flow::ArcSendControler<Tx>,
    inflight: Vec<StreamFrame>,
}

struct CryptoSendCase {
    cs: CryptoStream,
    written: u64,
    sent: u64,
}

struct CryptoRecvCase {
    cs: CryptoStream,
    next: u64,
}

enum Proto {
    Send(SendCase),
    Sid(SidCase),
    Recv(RecvCase),
    CryptoSend(CryptoSendCase),
    CryptoRecv(CryptoRecvCase),
    Unknown,
}

struct St {
    ws: Waiters,
    p: Proto,
}

fn open_one(streams: &Streams, params: &ArcParameters, ws: &Waiters, w: usize)
    -> Poll<Result<Option<(StreamId, (Reader<Ext<Tx>>, Writer<Ext<Tx>>))>, Error>> {
    let mut fut = streams.open_bi(params);
    std::future::Future::poll(Pin::new(&mut fut), &mut ws.cx(w))
}

fn new_case(cfg: &[&str]) -> St {
    let id: u32 = cfg.first().and_then(|s| s.parse().ok()).unwrap_or(0);
    let par: u64 = cfg.get(1).and_then(|s| s.parse().ok()).unwrap_or(0);
    let ws = Waiters::new();
    let p = match id {
        8 => {
            let (streams, params) = new_streams(par);
            Proto::Sid(SidCase { streams, params, keep: Vec::new() })
        }
        9 => {
            let (streams, params) = new_streams(1);
            match open_one(&streams, &params, &ws, 2) {
                Poll::Ready(Ok(Some((sid, (reader, writer))))) => Proto::Send(SendCase {
                    streams,
                    sid,
                    _reader: reader,
                    writer,
                    flow: qbase::flow::ArcSendControler::new(1 << 30, Tx, ArcSendWakers::default()),
                    inflight: Vec::new(),
                }),
                _ => Proto::Unknown,
            }
        }
        10 => {
            let (streams, params) = new_streams(1);
            match open_one(&streams, &params, &ws, 2) {
                Poll::Ready(Ok(Some((sid, (reader, writer))))) => {
                    Proto::Recv(RecvCase { streams, sid, reader, _writer: writer, next: 0, gone: false, hole: None, fin: None })
                }
                _ => Proto::Unknown,
            }
        }
        11 => Proto::CryptoSend(CryptoSendCase {
            cs: CryptoStream::new(ArcSendWakers::default()),
            written: 0,
            sent: 0,
        }),
        12 => Proto::CryptoRecv(CryptoRecvCase { cs: CryptoStream::new(ArcSendWakers::default()), next: 0 }),
        _ => Proto::Unknown,
    };
    St { ws, p }
}

fn step(st: &mut St, op: &Op, _i: usize) -> Obs {
    let ws = &st.ws;
    let code: i64 = match (&mut st.p, op.tag, op.args.len()) {
        (Proto::Unknown, _, _) => SKIP,
        // ---------------- stream ids: POLL w = open_bi().poll / NOTIFY n = MAX_STREAMS(bidi, n) / CLOSE = on_conn_error
        (Proto::Sid(c), 0, 1) => match wid(op, 0) {
            Some(w) => match open_one(&c.streams, &c.params, ws, w) {
                Poll::Pending => 0,
                Poll::Ready(Ok(Some((sid, rw)))) => {
                    c.keep.push(rw);
                    100 + sid.id() as i64
                }
                Poll::Ready(Ok(None)) => 3,
                Poll::Ready(Err(_)) => 2,
            },
            None => SKIP,
        },
        (Proto::Sid(c), 1, 1) if op.args[0] >= 0 && op.args[0] < (1 << 20) => {
            let f = MaxStreamsFrame::Bi(VarInt::from_u64(op.u(0)).unwrap());
            match c.streams.recv_frame(StreamCtlFrame::MaxStreams(f)) {
                Ok(_) => 0,
                Err(_) => 1,
            }
        }
        (Proto::Sid(c), 2, 0) => {
            c.streams.on_conn_error(&conn_error());
            0
        }
        // ---------------- stream sender: POLL 0 k (0 = poll_write 8 bytes, 1 = poll_flush, 2 = poll_shutdown) /
        //                  NOTIFY 0 n = MAX_STREAM_DATA n, 1 = load everything the window allows, 2 = ack every frame in
        //                  flight, 3 = STOP_SENDING / CLOSE = on_conn_error
        (Proto::Send(c), 0, 2) => match (wid(op, 0), op.args[1]) {
            (Some(0), 0) => match c.writer.poll_write(&mut ws.cx(0), Bytes::from_static(&[5u8; 8])) {
                Poll::Pending => 0,
                Poll::Ready(Ok(())) => 1,
                Poll::Ready(Err(_)) => 2,
            },
            (Some(0), 1) => match c.writer.poll_flush(&mut ws.cx(0)) {
                Poll::Pending => 0,
                Poll::Ready(Ok(())) => 1,
                Poll::Ready(Err(_)) => 2,
            },
            (Some(0), 2) => match c.writer.poll_shutdown(&mut ws.cx(0)) {
                Poll::Pending => 0,
                Poll::Ready(Ok(())) => 1,
                Poll::Ready(Err(_)) => 2,
            },
            _ => SKIP,
        },
        (Proto::Send(c), 1, 2) if op.args[0] == 0 && op.args[1] >= 0 && op.args[1] < (1 << 20) => {
            let f = qbase::frame::MaxStreamDataFrame::new(c.sid, VarInt::from_u64(op.u(1)).unwrap());
            match c.streams.recv_frame(StreamCtlFrame::MaxStreamData(f)) {
                Ok(_) => 0,
                Err(_) => 1,
            }
        }
        (Proto::Send(c), 1, 1) => match op.args[0] {
            1 => {
                for _ in 0..64 {
                    let mut p = Pkt::new(1200);
                    let r = c.streams.try_load_data_into(&mut p, &c.flow, false);
                    c.inflight.append(&mut p.1);
                    if r.is_err() {
                        break;
                    }
                }
                0
            }
            2 => {
                for f in c.inflight.drain(..) {
                    c.streams.on_data_acked(f);
                }
                0
            }
            3 => {
                let f = qbase::frame::StopSendingFrame::new(c.sid, VarInt::from_u32(0));
                match c.streams.recv_frame(StreamCtlFrame::StopSending(f)) {
                    Ok(_) => 0,
                    Err(_) => 1,
                }
            }
            _ => SKIP,
        },
        (Proto::Send(c), 2, 0) => {
            c.streams.on_conn_error(&conn_error());
            0
        }
        // ---------------- stream receiver: POLL 0 = Reader::poll_read / NOTIFY 0 len = STREAM frame (next offset),
        //                  NOTIFY 1 len = the same with FIN, NOTIFY 2 len = that frame is lost (a hole), NOTIFY 3 = it is
        //                  retransmitted / CLOSE 0 = on_conn_error, CLOSE 1 = RESET_STREAM, CLOSE 2 = RESET_STREAM with a
        //                  final size beyond the flow-control limit (a connection error)
        (Proto::Recv(c), 0, 1) => match wid(op, 0) {
            Some(0) => {
                let mut buf = Vec::with_capacity(4096);
                match c.reader.poll_read(&mut ws.cx(0), &mut buf) {
                    Poll::Pending => 0,
                    Poll::Ready(Ok(())) => 100 + buf.len() as i64,
                    Poll::Ready(Err(_)) => 2,
                }
            }
            _ => SKIP,
        },
        (Proto::Recv(c), 1, 2) if op.args[1] >= 0 && op.args[1] <= 64 && c.next < 4096 => {
            let len = op.u(1) as usize;
            if op.args[0] == 2 {
                // the frame at the next offset is lost on the way: nothing is delivered now
                if c.hole.is_some() || c.fin.is_some() || len == 0 {
                    return ws.obs(SKIP);
                }
                c.hole = Some((c.next, len));
                c.next += len as u64;
                return ws.obs(0);
            }
            let mut f = StreamFrame::new(c.sid, c.next, len);
            if op.args[0] == 1 {
                f.set_eos_flag(true);
            } else if op.args[0] != 0 {
                return ws.obs(SKIP);
            }
            let _ = c.gone;
            match c.streams.recv_frame((f, Bytes::from(vec![7u8; len]))) {
                Ok(_) => {
                    c.next += len as u64;
                    if op.args[0] == 1 {
                        c.fin = Some(c.next);
                    }
                    0
                }
                Err(_) => 1,
            }
        }
        // NOTIFY 3 = the lost frame is retransmitted
        (Proto::Recv(c), 1, 1) if op.args[0] == 3 => match c.hole.take() {
            None => SKIP,
            Some((off, len)) => {
                let f = StreamFrame::new(c.sid, off, len);
                match c.streams.recv_frame((f, Bytes::from(vec![8u8; len]))) {
                    Ok(_) => 0,
                    Err(_) => 1,
                }
            }
        },
        (Proto::Recv(c), 2, 1) => match op.args[0] {
            0 => {
                c.streams.on_conn_error(&conn_error());
                0
            }
            // RESET_STREAM: 1 = final size consistent with what was sent, 2 = beyond the flow-control limit
            1 | 2 => {
                let size = if op.args[0] == 1 { c.fin.unwrap_or(c.next) } else { (1 << 20) + 1 + c.next };
                let f = ResetStreamFrame::new(c.sid, VarInt::from_u32(0), VarInt::from_u64(size).unwrap());
                c.gone = true;
                match c.streams.recv_frame(StreamCtlFrame::ResetStream(f)) {
                    Ok(_) => 0,
                    Err(_) => 1,
                }
            }
            _ => SKIP,
        },
        // ---------------- crypto send: POLL 0 0 = poll_write(8 bytes), POLL 0 1 = poll_flush /
        //                  NOTIFY 0 = load everything + ack it, 1 = load only, 2 = ack what was loaded
        (Proto::CryptoSend(c), 0, 2) => match (wid(op, 0), op.args[1]) {
            (Some(0), 0) => {
                let mut w = c.cs.writer();
                match Pin::new(&mut w).poll_write(&mut ws.cx(0), &[1u8; 8]) {
                    Poll::Pending => 0,
                    Poll::Ready(Ok(n)) => {
                        c.written += n as u64;
                        1
                    }
                    Poll::Ready(Err(_)) => 2,
                }
            }
            (Some(0), 1) => {
                let mut w = c.cs.writer();
                match Pin::new(&mut w).poll_flush(&mut ws.cx(0)) {
                    Poll::Pending => 0,
                    Poll::Ready(Ok(())) => 1,
                    Poll::Ready(Err(_)) => 2,
                }
            }
            _ => SKIP,
        },
        (Proto::CryptoSend(c), 1, 1) => {
            let k = op.args[0];
            if !(0..=2).contains(&k) {
                return ws.obs(SKIP);
            }
            if k == 0 || k == 1 {
                let out = c.cs.outgoing();
                loop {
                    let mut p = Pkt::new(1200);
                    if out.try_load_data_into(&mut p, false).is_err() {
                        break;
                    }
                }
                c.sent = c.written;
            }
            if (k == 0 || k == 2) && c.sent > 0 {
                let f = CryptoFrame::new(VarInt::from_u32(0), VarInt::from_u64(c.sent).unwrap());
                c.cs.outgoing().on_data_acked(&f);
            }
            0
        }
        // ---------------- crypto recv: POLL 0 = poll_read / NOTIFY len = CRYPTO frame at the next offset
        (Proto::CryptoRecv(c), 0, 1) => match wid(op, 0) {
            Some(0) => {
                let mut r = c.cs.reader();
                let mut space = [0u8; 4096];
                let mut buf = ReadBuf::new(&mut space);
                match Pin::new(&mut r).poll_read(&mut ws.cx(0), &mut buf) {
                    Poll::Pending => 0,
                    Poll::Ready(Ok(())) => 100 + buf.filled().len() as i64,
                    Poll::Ready(Err(_)) => 2,
                }
            }
            _ => SKIP,
        },
        (Proto::CryptoRecv(c), 1, 1) if op.args[0] >= 0 && op.args[0] <= 64 && c.next < 4000 => {
            let len = op.u(0);
            let f = CryptoFrame::new(VarInt::from_u64(c.next).unwrap(), VarInt::from_u64(len).unwrap());
            c.next += len;
            match c.cs.incoming().recv_frame((f, Bytes::from(vec![9u8; len as usize]))) {
                Ok(_) => 0,
                Err(_) => 1,
            }
        }
        // ---------------- DROPW w
        (_, 3, 1) => match wid(op, 0) {
            Some(_) => 0,
            None => SKIP,
        },
        _ => SKIP,
    };
    ws.obs(code)
}

fn main() {
    hproto::run(new_case, step);
}
