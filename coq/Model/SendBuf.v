(* Model of qrecovery/src/send/sndbuf.rs (BufMap + SendBuf).  Definitions only.

   BufMap is a deque of boundaries (offset, colour) sorted by offset plus a total size; the run
   that starts at a boundary extends to the next boundary (the last one to [size]); bytes before
   the first boundary have been shifted out and count as Recved.  The Rust updates the deque in
   place with index arithmetic (binary search, drain_start/drain_end, overwrite-or-insert,
   same_before/same_after walks).  The model performs the same update as list surgery:

     split the boundary list at the range start                  ([split_lt]),
     keep the prefix, merging the new run backwards              ([back_merge] = same_before),
     absorb every boundary below the range end                   ([ack_go]/[loss_go] = the loop),
     re-insert the cut-off tail of the last absorbed run         (need_insert_at_end),
     swallow equal-coloured runs that start at the range end     ([drop_while] = same_after).

   The RAW boundary list is kept (the Rust does not always merge equal neighbours, e.g. after
   resend_flighting, and `pick` looks at raw boundaries), and the correspondence stream `sndbuf`
   compares that raw list after every operation.

   Debug assertions of the Rust (range covers Pending, range end beyond size, window reduced,
   position overflow) and the checked u64 addition in `pick` are explicit [PV] outcomes
   ("precondition violated"): the harness runs the debug profile, catches the panic and reports
   the same observation [-1] for that operation and all later ones of the case.
   Since the repair of finding F70 SendBuf::on_data_acked / may_loss_data cut the reported range down
   to its sent part first, so that BufMap::ack_rcvd / may_loss are only reached with ranges below
   `sent()` (c09_report_total: their assertions are unreachable through SendBuf). *)
From Coq Require Import List NArith ZArith Bool.
From GQ Require Export Lib.Base.
Import ListNotations.
Local Open Scope N_scope.

Inductive colour := Pending | Flighting | Lost | Recved.

Definition colour_eqb (a b : colour) : bool :=
  match a, b with
  | Pending, Pending | Flighting, Flighting | Lost, Lost | Recved, Recved => true
  | _, _ => false
  end.

Definition code (c : colour) : Z :=
  match c with Pending => 0 | Flighting => 1 | Lost => 2 | Recved => 3 end%Z.

Definition run := (N * colour)%type.
Record bufmap := mkmap { runs : list run; size : N }.

Definition empty_map : bufmap := mkmap [] 0.

(* ---- abstraction function: colour of every byte below [size] ---- *)
Fixpoint col_from (cur : colour) (l : list run) (i : N) : colour :=
  match l with
  | [] => cur
  | (o, k) :: r => if i <? o then cur else col_from k r i
  end.

Definition colour_at (m : bufmap) (i : N) : option colour :=
  if i <? size m then Some (col_from Recved (runs m) i) else None.

(* ---- list helpers ---- *)
Fixpoint split_lt (s : N) (l : list run) : list run * list run :=
  match l with
  | [] => ([], [])
  | (o, k) :: r =>
      if o <? s then let '(a, b) := split_lt s r in ((o, k) :: a, b) else ([], l)
  end.

Fixpoint last_colour (d : colour) (l : list run) : colour :=
  match l with
  | [] => d
  | (_, k) :: r => last_colour k r
  end.

Fixpoint all_colour (c : colour) (l : list run) : bool :=
  match l with
  | [] => true
  | (_, k) :: r => colour_eqb k c && all_colour c r
  end.

(* [l ++ [(s,c)]] where the trailing block of c-coloured runs (the new one included) is merged
   into its first run: `same_before(idx, c)` followed by the drain of (first+1 ..= idx) *)
Fixpoint back_merge (c : colour) (s : N) (l : list run) : list run :=
  match l with
  | [] => [(s, c)]
  | (o, k) :: r =>
      if colour_eqb k c && all_colour c r then [(o, k)] else (o, k) :: back_merge c s r
  end.

(* `same_after`: the leading c-coloured runs *)
Fixpoint drop_while (c : colour) (l : list run) : list run :=
  match l with
  | [] => []
  | (o, k) :: r => if colour_eqb k c then drop_while c r else l
  end.

(* ---- BufMap ---- *)
Definition two62 : N := 4611686018427387904.
Definition two64 : N := 18446744073709551616.

Fixpoint last_run (l : list run) : option run :=
  match l with
  | [] => None
  | x :: r => match r with [] => Some x | _ => last_run r end
  end.

Definition sent_of (m : bufmap) : N :=
  match last_run (runs m) with
  | Some (o, Pending) => o
  | _ => size m
  end.

(* None = a debug_assert fails *)
Definition extend_to (m : bufmap) (pos : N) : option bufmap :=
  if (two62 <=? pos) || (pos <? size m) then None
  else if size m <? pos then
    match last_colour Recved (runs m), runs m with
    | Pending, _ :: _ => Some (mkmap (runs m) pos)
    | _, _ => Some (mkmap (runs m ++ [(size m, Pending)]) pos)
    end
  else Some m.

(* the `find` closure of pick: (prefix, chosen run, rest) and the WRITTEN / FLOW_CONTROL bits *)
Fixpoint pick_scan (flow win : N) (l : list run) (w f : bool)
  : option (list run * run * list run) * (bool * bool) :=
  match l with
  | [] => (None, (w, f))
  | (o, k) :: r =>
      let continue w' f' :=
        match pick_scan flow win r w' f' with
        | (Some (p, x, t), s) => (Some ((o, k) :: p, x, t), s)
        | (None, s) => (None, s)
        end in
      if win <=? o then continue w true
      else match k with
           | Pending => if flow =? 0 then continue false true else (Some ([], (o, k), r), (w, f))
           | Lost => (Some ([], (o, k), r), (w, f))
           | _ => continue w f
           end
  end.

Inductive pick_res :=
| PickOk (m : bufmap) (start fin : N) (fresh : bool)
| PickErr (written flowctl congestion : bool)
| PickPV.

Definition is_pending (c : colour) : bool := colour_eqb c Pending.

Definition pick (m : bufmap) (pred : N -> option N) (flow win : N) : pick_res :=
  match pick_scan flow win (runs m) true false with
  | (None, (w, f)) => PickErr w f false
  | (Some (pre, (start, c), rest), (w, f)) =>
      match pred start with
      | None => PickErr w f true
      | Some avail =>
          let allowance := match c with Lost => avail | _ => N.min avail flow end in
          if two64 <=? start + allowance then PickPV
          else
            let end0 := N.min (match rest with (o, _) :: _ => o | [] => size m end) win in
            if start + allowance <? end0 then
              PickOk (mkmap (back_merge Flighting start pre ++ (start + allowance, c) :: rest) (size m))
                     start (start + allowance) (is_pending c)
            else
              PickOk (mkmap (back_merge Flighting start pre ++ drop_while Flighting rest) (size m))
                     start end0 (is_pending c)
      end
  end.

(* the loop of ack_rcvd from the first boundary >= range.start on; [pre] = pre_color *)
Fixpoint ack_go (sz e : N) (pre : colour) (l : list run) : option (list run) :=
  match l with
  | [] => if sz <? e then None
          else Some (if (e <? sz) && negb (colour_eqb pre Recved) then [(e, pre)] else [])
  | (o, k) :: r =>
      if o <? e then
        match k with Pending => None | _ => ack_go sz e k r end
      else if o =? e then Some (drop_while Recved l)
      else Some (if colour_eqb pre Recved then l else (e, pre) :: l)
  end.

(* range.start falls strictly inside a run, or before / after all boundaries (binary search Err) *)
Definition ack_err (sz s e : N) (pfx rest : list run) : option (list run) :=
  match pfx with
  | [] => ack_go sz e Recved rest
  | _ =>
    match last_colour Recved pfx with
    | Pending => None
    | Recved => option_map (app pfx) (ack_go sz e Recved rest)
    | k => option_map (app (pfx ++ [(s, Recved)])) (ack_go sz e k rest)
    end
  end.

Definition ack_rcvd (m : bufmap) (s e : N) : option bufmap :=
  let '(pfx, rest) := split_lt s (runs m) in
  let res :=
    match rest with
    | (o, k) :: rest' =>
        if o =? s then
          match k with
          | Pending => None
          | _ => option_map (app (back_merge Recved s pfx)) (ack_go (size m) e k rest')
          end
        else ack_err (size m) s e pfx rest
    | [] => ack_err (size m) s e pfx rest
    end in
  option_map (fun l => mkmap l (size m)) res.

Definition shift (m : bufmap) : bufmap * N :=
  let l := drop_while Recved (runs m) in
  (mkmap l (size m), match l with (o, _) :: _ => o | [] => size m end).

(* may_lost_from(idx, end) on the suffix starting at idx, and the absorbing loop shared by
   may_loss and may_lost_from ([pre] = pre_color, the head boundary is already emitted) *)
Fixpoint loss_go (sz e : N) (pre : colour) (l : list run) {struct l} : option (list run) :=
  match l with
  | [] => if sz <? e then None
          else Some (if (e <? sz) && colour_eqb pre Flighting then [(e, Flighting)] else [])
  | (o, k) :: r =>
      if o <? e then
        match k with
        | Pending => None
        | Recved => option_map (cons (o, Recved)) (lost_from sz e r)
        | _ => loss_go sz e k r
        end
      else if o =? e then Some (drop_while Lost l)
      else Some (if colour_eqb pre Flighting then (e, Flighting) :: l else l)
  end
with lost_from (sz e : N) (l : list run) {struct l} : option (list run) :=
  match l with
  | [] => if sz <? e then None else Some []
  | (o, k) :: r =>
      if o <? e then
        match k with
        | Pending => None
        | Recved => option_map (cons (o, Recved)) (lost_from sz e r)
        | _ => option_map (cons (o, Lost)) (loss_go sz e k r)
        end
      else if o =? e then
        Some (match k with Lost => (o, k) :: drop_while Lost r | _ => l end)
      else Some l
  end.

Definition loss_err (sz s e : N) (pfx rest : list run) : option (list run) :=
  match pfx with
  | [] => lost_from sz e rest
  | _ =>
    match last_colour Recved pfx with
    | Pending => None
    | Recved => option_map (app pfx) (lost_from sz e rest)
    | Flighting => option_map (app (pfx ++ [(s, Lost)])) (loss_go sz e Flighting rest)
    | Lost => option_map (app pfx) (loss_go sz e Lost rest)
    end
  end.

Definition may_loss (m : bufmap) (s e : N) : option bufmap :=
  let '(pfx, rest) := split_lt s (runs m) in
  let res :=
    match rest with
    | (o, k) :: rest' =>
        if o =? s then
          match k with
          | Pending => None
          | Recved => option_map (fun t => pfx ++ (o, Recved) :: t) (lost_from (size m) e rest')
          | Flighting => option_map (app (back_merge Lost s pfx)) (loss_go (size m) e Flighting rest')
          | Lost => option_map (app (pfx ++ [(s, Lost)])) (loss_go (size m) e Lost rest')
          end
        else loss_err (size m) s e pfx rest
    | [] => loss_err (size m) s e pfx rest
    end in
  option_map (fun l => mkmap l (size m)) res.

Definition resend_flighting (m : bufmap) : bufmap :=
  mkmap (map (fun x : run => match x with (o, Flighting) => (o, Lost) | _ => x end) (runs m)) (size m).

(* ---- SendBuf ---- *)
(* the data deque holds content[base, base + retained) *)
Record sndbuf := mksb { base : N; retained : N; max_data : N; st : bufmap }.

Definition with_capacity (cap : N) : sndbuf := mksb 0 0 cap empty_map.

Definition written (b : sndbuf) : N := base b + retained b.
Definition sent (b : sndbuf) : N := sent_of (st b).
Definition remaining_mut (b : sndbuf) : N := max_data b - written b.
Definition is_all_rcvd (b : sndbuf) : bool := retained b =? 0.

Definition write (b : sndbuf) (len : N) : option sndbuf :=
  if len =? 0 then Some b
  else match extend_to (st b) (N.min (written b + len) (max_data b)) with
       | None => None
       | Some m => Some (mksb (base b) (retained b + len) (max_data b) m)
       end.

Definition extend (b : sndbuf) (max : N) : option sndbuf :=
  if max <? max_data b then None
  else match extend_to (st b) (N.min (written b) max) with
       | None => None
       | Some m => Some (mksb (base b) (retained b) max m)
       end.

Definition forget_sent_state (b : sndbuf) : sndbuf := mksb (base b) (retained b) 0 empty_map.

Inductive pickup_res :=
| UpOk (b : sndbuf) (start fin : N) (fresh : bool) (data : list Z)
| UpErr (written flowctl congestion : bool)
| UpPV.

(* the bytes handed out: the part of [start, fin) still present in the deque *)
Definition data_of (c : N -> Z) (b : sndbuf) (start fin : N) : list Z :=
  let lo := N.max start (base b) in
  let hi := N.min fin (base b + retained b) in
  slice c lo (hi - lo).

Definition pick_up (c : N -> Z) (b : sndbuf) (pred : N -> option N) (flow : N) : pickup_res :=
  match pick (st b) pred flow (max_data b) with
  | PickOk m start fin fresh =>
      UpOk (mksb (base b) (retained b) (max_data b) m) start fin fresh (data_of c b start fin)
  | PickErr w f g => UpErr w f g
  | PickPV => UpPV
  end.

(* [on_data_acked_sent] / [may_loss_data_sent]: the body of the two report functions once the range has
   been cut down to the part that has been sent.  An empty range (`range.is_empty()`, i.e. end <= start:
   the range of a FIN-only frame, or a range that lies completely in the never-sent part) is ignored *)
Definition on_data_acked_sent (b : sndbuf) (s e : N) : option sndbuf :=
  if e <=? s then Some b else
  match ack_rcvd (st b) s e with
  | None => None
  | Some m1 =>
      let '(m2, pos) := shift m1 in
      if base b <? pos then
        Some (mksb pos (retained b - N.min (pos - base b) (retained b)) (max_data b) m2)
      else Some (mksb (base b) (retained b) (max_data b) m2)
  end.

Definition may_loss_data_sent (b : sndbuf) (s e : N) : option sndbuf :=
  if e <=? s then Some b else
  match may_loss (st b) s e with
  | None => None
  | Some m => Some (mksb (base b) (retained b) (max_data b) m)
  end.

(* SendBuf::on_data_acked / may_loss_data (since the repair of finding F70): `range.start..range.end.min(self.sent())`,
   i.e. only data sent since the last forget_sent_state can be acknowledged or lost; the Pending part of a
   report (a frame of a 0-RTT packet that is still in the sent journal after the rejection made the stream
   forget its sent state) is ignored instead of failing BufMap's `covered Pending parts` assertion *)
Definition on_data_acked (b : sndbuf) (s e : N) : option sndbuf :=
  on_data_acked_sent b s (N.min e (sent b)).

Definition may_loss_data (b : sndbuf) (s e : N) : option sndbuf :=
  may_loss_data_sent b s (N.min e (sent b)).

Definition resend (b : sndbuf) : sndbuf :=
  mksb (base b) (retained b) (max_data b) (resend_flighting (st b)).

(* ------------------------------------------------------------------ *)
(* Operation interface shared with the Rust harness (stream `sndbuf`). *)

Inductive sb_op :=
| SbWrite (len : N)
| SbExtend (max : N)
| SbPick (cap flow blk : N)      (* predicate: Some cap below offset blk, None from blk on *)
| SbAck (s e : N)
| SbLoss (s e : N)
| SbResend
| SbForget.

Inductive sb_out :=
| OUnit
| OPick (start fin : N) (fresh : bool) (data : list Z)
| OSig (written flowctl congestion : bool)
| OPV.                               (* a debug assertion / overflow check of the Rust fires *)

Definition pred_of (cap blk : N) (off : N) : option N := if off <? blk then Some cap else None.

(* the harness refuses (reports PV without calling the Rust) a zero capacity: no caller's
   predicate returns Some(0) *)
Definition sb_exec (c : N -> Z) (b : sndbuf) (o : sb_op) : option sndbuf * sb_out :=
  let lift (r : option sndbuf) := match r with Some b' => (Some b', OUnit) | None => (None, OPV) end in
  match o with
  | SbWrite len => lift (write b len)
  | SbExtend max => lift (extend b max)
  | SbPick cap flow blk =>
      if cap =? 0 then (None, OPV)
      else match pick_up c b (pred_of cap blk) flow with
           | UpOk b' s e fr d => (Some b', OPick s e fr d)
           | UpErr w f g => (Some b, OSig w f g)
           | UpPV => (None, OPV)
           end
  | SbAck s e => lift (on_data_acked b s e)
  | SbLoss s e => lift (may_loss_data b s e)
  | SbResend => (Some (resend b), OUnit)
  | SbForget => (Some (forget_sent_state b), OUnit)
  end.

(* once an operation is PV the case is dead: every later operation reports PV as well *)
Fixpoint sb_execs (c : N -> Z) (b : option sndbuf) (ops : list sb_op) : option sndbuf * list sb_out :=
  match ops with
  | [] => (b, [])
  | o :: rest =>
      match b with
      | None => let '(b2, outs) := sb_execs c None rest in (b2, OPV :: outs)
      | Some b0 =>
          let '(b1, out) := sb_exec c b0 o in
          let '(b2, outs) := sb_execs c b1 rest in
          (b2, out :: outs)
      end
  end.

Definition zb (x : bool) : Z := if x then 1%Z else 0%Z.

Fixpoint runs_obs (l : list run) : list Z :=
  match l with
  | [] => []
  | (o, k) :: r => Z.of_N o :: code k :: runs_obs r
  end.

Definition state_obs (b : sndbuf) : list Z :=
  [Z.of_N (written b); Z.of_N (sent b); zb (is_all_rcvd b); Z.of_N (remaining_mut b);
   Z.of_N (base b); Z.of_N (size (st b)); Z.of_N (retained b); Z.of_N (max_data b);
   Z.of_N (lenN (runs (st b)))] ++ runs_obs (runs (st b)).

(* Signals bits: CONGESTION 1, FLOW_CONTROL 2, TRANSPORT 4 (always set), WRITTEN 8 *)
Definition sig_bits (w f g : bool) : Z := (4 + 8 * zb w + 2 * zb f + zb g)%Z.

Definition print_out (o : sb_out) : list Z :=
  match o with
  | OUnit => [0%Z]
  | OPick s e fr d => [1%Z; Z.of_N s; Z.of_N e; zb fr; Z.of_N (lenN d)] ++ d
  | OSig w f g => [2%Z; sig_bits w f g]
  | OPV => [(-1)%Z]
  end.

Fixpoint sb_run (c : N -> Z) (b : option sndbuf) (ops : list sb_op) : list (list Z) :=
  match ops with
  | [] => []
  | o :: rest =>
      match b with
      | None => [(-1)%Z] :: sb_run c None rest
      | Some b0 =>
          let '(b1, out) := sb_exec c b0 o in
          (match b1 with
           | Some b' => print_out out ++ state_obs b'
           | None => [(-1)%Z]
           end) :: sb_run c b1 rest
      end
  end.

Definition sb_decode (t : N) (args : list Z) : option sb_op :=
  match t, args with
  | 0, [len] => Some (SbWrite (Z.to_N len))
  | 1, [max] => Some (SbExtend (Z.to_N max))
  | 2, [cap; flow; blk] => Some (SbPick (Z.to_N cap) (Z.to_N flow) (Z.to_N blk))
  | 3, [s; e] => Some (SbAck (Z.to_N s) (Z.to_N e))
  | 4, [s; e] => Some (SbLoss (Z.to_N s) (Z.to_N e))
  | 5, [] => Some SbResend
  | 6, [] => Some SbForget
  | _, _ => None
  end.

Fixpoint sb_decode_all (l : list (N * list Z)) : list sb_op :=
  match l with
  | [] => []
  | (t, a) :: rest =>
      match sb_decode t a with
      | Some o => o :: sb_decode_all rest
      | None => sb_decode_all rest
      end
  end.

(* CASE-line configuration: [capacity] = SendBuf::with_capacity(capacity) *)
Definition run_sndbuf (cfg : list Z) (l : list (N * list Z)) : list (list Z) :=
  let cap := match cfg with v :: _ => Z.to_N v | [] => 0 end in
  sb_run content (Some (with_capacity cap)) (sb_decode_all l).
