(* Lemmas about Model/Datagram.v; the p_c19_* lemmas carry the property statements of Properties/C19.v. *)
From Coq Require Import List NArith ZArith Bool Lia.
From GQ Require Import Lib.Base Lib.Slice Lib.VarintN Model.Datagram.
Import ListNotations.
Local Open Scope N_scope.

Arguments N.add : simpl never.
Arguments N.sub : simpl never.
Arguments N.min : simpl never.
Arguments N.max : simpl never.
Arguments N.pow : simpl never.

(* ------------------------------------------------------------------ *)
(* the loader's choice                                                  *)
(* ------------------------------------------------------------------ *)

Lemma lenN_repeat {A} (x : A) n : lenN (repeat x (N.to_nat n)) = n.
Proof. unfold lenN. rewrite repeat_length. lia. Qed.

Lemma frame_bytes_length wl d :
  lenN (frame_bytes wl d) = frame_hdr_size wl (lenN d) + lenN d.
Proof.
  unfold frame_bytes, frame_hdr_size. destruct wl.
  - rewrite lenN_app, lenN_cons, varint_enc_length. lia.
  - rewrite lenN_app, lenN_cons, lenN_nil. lia.
Qed.

Lemma wire_bytes_length wl npad d :
  lenN (wire_bytes (LFrame wl npad d)) = npad + frame_hdr_size wl (lenN d) + lenN d.
Proof.
  cbn [wire_bytes]. rewrite lenN_app, lenN_repeat, frame_bytes_length. lia.
Qed.

(* complete description of `try_load_data_into`'s decision for a datagram d and `remaining` bytes of room *)
Definition choice_spec (remaining : N) (d : list Z) (r : load_res) : Prop :=
  let len := lenN d in
  match r with
  | LNoRoom => remaining <= len
  | LFrame true npad d' =>
      d' = d /\ npad = 0 /\ len < remaining /\ 1 + varint_size len <= remaining - len
  | LFrame false npad d' =>
      d' = d /\ len < remaining /\ remaining - len < 1 + varint_size len /\ npad + 1 + len = remaining
  | LClosed | LEmpty | LPanic _ => False
  end.

Lemma load_choice_spec remaining d :
  lenN d < VARINT_MAX -> choice_spec remaining d (load_choice remaining d).
Proof.
  intro Hlen. unfold load_choice, choice_spec, dump_admits, frame_hdr_size.
  pose proof (varint_size_bounds (lenN d)) as Hvs.
  destruct (N.eqb_spec (remaining - lenN d) 0) as [E0 | E0]; [lia |].
  destruct (N.leb_spec VARINT_MAX (lenN d)) as [Hm | Hm]; [lia |].
  destruct (N.leb_spec (1 + varint_size (lenN d)) (remaining - lenN d)) as [Hw | Hw].
  - (* with length *)
    destruct (N.leb_spec 9 remaining) as [H9 | H9];
      destruct (N.leb_spec (1 + varint_size (lenN d)) remaining) as [Hh | Hh]; cbn [orb negb];
      try (exfalso; lia);
      (destruct (N.ltb_spec remaining (1 + varint_size (lenN d) + lenN d)) as [Hp | Hp]; [exfalso; lia |]);
      repeat split; lia.
  - (* without length *)
    destruct (N.leb_spec 9 (remaining - (remaining - lenN d - (1 + 0)))) as [H9 | H9];
      destruct (N.leb_spec (1 + 0) (remaining - (remaining - lenN d - (1 + 0)))) as [Hh | Hh]; cbn [orb negb];
      try (exfalso; lia);
      (destruct (N.ltb_spec (remaining - (remaining - lenN d - (1 + 0))) (1 + lenN d)) as [Hp | Hp]; [exfalso; lia |]);
      repeat split; lia.
Qed.

(* c19_fits *)
Lemma p_c19_fits : forall remaining d, lenN d < VARINT_MAX ->
  let r := load_choice remaining d in
  (forall site, r <> LPanic site) /\
  (r = LNoRoom <-> remaining <= lenN d) /\
  lenN (wire_bytes r) <= remaining /\
  (forall npad d', r = LFrame false npad d' -> lenN (wire_bytes r) = remaining) /\
  (forall wl npad d', r = LFrame wl npad d' ->
     d' = d /\ (wl = true <-> 1 + varint_size (lenN d) + lenN d <= remaining)).
Proof.
  intros remaining d Hlen r.
  pose proof (load_choice_spec remaining d Hlen) as Hs. fold r in Hs.
  pose proof (varint_size_bounds (lenN d)) as Hvs.
  unfold choice_spec in Hs.
  destruct r as [ | | | wl npad d' | site] eqn:Er; try contradiction.
  - (* LNoRoom *)
    split; [intros s; discriminate |]. split; [split; auto |].
    split; [cbn [wire_bytes]; rewrite lenN_nil; lia |].
    split; intros; discriminate.
  - destruct wl.
    + destruct Hs as (-> & -> & H1 & H2).
      split; [intros s; discriminate |].
      split; [split; [discriminate | lia] |].
      split; [rewrite wire_bytes_length; unfold frame_hdr_size; lia |].
      split; [intros ? ? E; discriminate |].
      intros wl1 npad1 d1 E; injection E as <- <- <-. split; [reflexivity | split; [lia | reflexivity]].
    + destruct Hs as (-> & H1 & H2 & H3).
      split; [intros s; discriminate |].
      split; [split; [discriminate | lia] |].
      split; [rewrite wire_bytes_length; unfold frame_hdr_size; lia |].
      split; [intros ? ? E; injection E as <- <-; rewrite wire_bytes_length; unfold frame_hdr_size; lia |].
      intros wl1 npad1 d1 E; injection E as <- <- <-. split; [reflexivity | split; [discriminate | lia]].
Qed.

(* ------------------------------------------------------------------ *)
(* writer: refusal                                                      *)
(* ------------------------------------------------------------------ *)

Lemma send_len_size_short len : len < VARINT_MAX -> send_len_size len = varint_size len.
Proof. intro H. unfold send_len_size. destruct (N.leb_spec VARINT_MAX len); [lia | reflexivity]. Qed.

Lemma p_c19_refuse : forall s d,
  wq s <> None -> lenN d < VARINT_MAX ->
  (snd (send s d) = SendOk <-> 1 + varint_size (lenN d) + lenN d <= peer_max s) /\
  (snd (send s d) = SendOk -> wq (fst (send s d)) = option_map (fun q => q ++ [d]) (wq s)) /\
  (snd (send s d) <> SendOk -> fst (send s d) = s).
Proof.
  intros s d Hopen Hlen. unfold send. rewrite (send_len_size_short _ Hlen).
  pose proof (varint_size_bounds (lenN d)) as Hvs.
  destruct (N.eqb_spec (peer_max s) 0) as [E | E].
  - cbn [snd fst]. split; [split; [discriminate | lia] |]. split; [discriminate | reflexivity].
  - destruct (wq s) as [q |] eqn:Eq; [| contradiction].
    destruct (N.ltb_spec (peer_max s) (1 + varint_size (lenN d) + lenN d)) as [H | H]; cbn [snd fst].
    + split; [split; [discriminate | lia] |]. split; [discriminate | reflexivity].
    + split; [split; [lia | reflexivity] |]. split; [reflexivity | congruence].
Qed.

(* ------------------------------------------------------------------ *)
(* reader: limit                                                        *)
(* ------------------------------------------------------------------ *)

Lemma p_c19_recv_limit : forall s wl d q,
  rq s = Some q ->
  (local_max s < frame_hdr_size wl (lenN d) + lenN d ->
     recv_datagram s wl d = (s, RecvViolation)) /\
  (frame_hdr_size wl (lenN d) + lenN d <= local_max s ->
     snd (recv_datagram s wl d) = RecvOk /\ rq (fst (recv_datagram s wl d)) = Some (q ++ [d])).
Proof.
  intros s wl d q Hq. unfold recv_datagram. rewrite Hq.
  destruct (N.ltb_spec (local_max s) (frame_hdr_size wl (lenN d) + lenN d)) as [H | H].
  - split; [reflexivity | lia].
  - split; [lia | intros _; split; reflexivity].
Qed.

(* ------------------------------------------------------------------ *)
(* histories: FIFO, whole, never merged                                 *)
(* ------------------------------------------------------------------ *)

(* datagrams the writer accepted / datagrams put on the wire, read off the outputs *)
Definition accepted1 (o : dg_op) (out : dg_out) : list (list Z) :=
  match o, out with DSend d, OSend SendOk => [d] | _, _ => [] end.
Definition payloads (rs : list load_res) : list (list Z) :=
  flat_map (fun r => match r with LFrame _ _ d => [d] | _ => [] end) rs.
Definition wired1 (out : dg_out) : list (list Z) :=
  match out with
  | OLoad (LFrame _ _ d) _ => [d]
  | OLoadAll rs _ _ => payloads rs
  | _ => []
  end.

Fixpoint accepted (ops : list dg_op) (outs : list dg_out) : list (list Z) :=
  match ops, outs with
  | o :: ops', out :: outs' => accepted1 o out ++ accepted ops' outs'
  | _, _ => []
  end.
Fixpoint wired (outs : list dg_out) : list (list Z) :=
  match outs with out :: outs' => wired1 out ++ wired outs' | [] => [] end.

Definition all_short (q : list (list Z)) : Prop := Forall (fun d => lenN d < VARINT_MAX) q.

Definition op_short (o : dg_op) : Prop :=
  match o with DSend d => lenN d < VARINT_MAX | _ => True end.

Lemma load_all_q_spec : forall q rem, all_short q ->
  let '(rs, qf, last) := load_all_q q rem in payloads rs ++ qf = q /\ all_short qf.
Proof.
  induction q as [| d q' IH]; intros rem Hsh; cbn [load_all_q].
  - split; [reflexivity | constructor].
  - inversion Hsh as [| ? ? Hd Hq']; subst.
    pose proof (load_choice_spec rem d Hd) as Hs.
    destruct (load_choice rem d) as [ | | | wl npad d' | site] eqn:Ec; cbn [choice_spec] in Hs; try contradiction.
    + split; [reflexivity | exact Hsh].
    + assert (d' = d) as -> by (destruct wl; destruct Hs as [Hs _]; exact Hs).
      specialize (IH (rem - lenN (wire_bytes (LFrame wl npad d))) Hq').
      destruct (load_all_q q' (rem - lenN (wire_bytes (LFrame wl npad d)))) as [[rs qf] last].
      destruct IH as [I1 I2]. split; [| exact I2].
      unfold payloads in *. cbn [flat_map app]. rewrite I1. reflexivity.
Qed.

Lemma recv_all_wq s fs : wq (fst (recv_all s fs)) = wq s /\ peer_max (fst (recv_all s fs)) = peer_max s.
Proof.
  revert s. induction fs as [| [wl d] fs IH]; intro s; cbn [recv_all]; [split; reflexivity |].
  destruct (recv_datagram s wl d) as [s1 r] eqn:E1.
  destruct (recv_all s1 fs) as [s2 rs] eqn:E2. cbn [fst].
  specialize (IH s1). rewrite E2 in IH. cbn [fst] in IH.
  assert (wq s1 = wq s /\ peer_max s1 = peer_max s) as [Hw Hp].
  { unfold recv_datagram in E1. destruct (rq s); [destruct (_ <? _) |]; injection E1 as <- _; split; reflexivity. }
  destruct IH as [IH1 IH2]. split; congruence.
Qed.

Lemma deliver_bytes_wq s bs : wq (fst (deliver_bytes s bs)) = wq s /\ peer_max (fst (deliver_bytes s bs)) = peer_max s.
Proof.
  unfold deliver_bytes. destruct (parse bs) as [[ok npad] fs].
  pose proof (recv_all_wq s fs) as H. destruct (recv_all s fs) as [s' rs]. exact H.
Qed.

(* one step: the outgoing queue is extended by what was accepted and shortened by what was wired *)
Lemma dg_exec_queue s o s' out q :
  dg_exec s o = (s', out) -> wq s = Some q -> all_short q -> op_short o ->
  peer_max s' = peer_max s /\
  match wq s' with
  | Some q' => wired1 out ++ q' = q ++ accepted1 o out /\ all_short q'
  | None => o = DConnErr
  end /\
  (forall wl npad d, out = OLoad (LFrame wl npad d) None \/ (exists dv, out = OLoad (LFrame wl npad d) (Some dv)) ->
     exists rem dl, o = DLoad rem dl /\ choice_spec rem d (LFrame wl npad d) /\ exists q0, q = d :: q0).
Proof.
  intros E Hq Hsh Hop. destruct o as [d | rem dl | rem dl | wl d | | ]; cbn [dg_exec] in E.
  - (* send *)
    unfold send in E. rewrite Hq in E.
    destruct (peer_max s =? 0); [| destruct (peer_max s <? 1 + send_len_size (lenN d) + lenN d)]; injection E as <- <-;
      cbn [wq peer_max accepted1 wired1 app]; rewrite ?Hq; cbn beta iota;
      (split; [reflexivity |]); (split; [| intros ? ? ? [H | [? H]]; discriminate]).
    + rewrite ?app_nil_r; auto.
    + rewrite ?app_nil_r; auto.
    + split; [reflexivity |]. apply Forall_app; split; [assumption | constructor; [exact Hop | constructor]].
  - (* load *)
    unfold load in E. rewrite Hq in E. destruct q as [| d q0].
    + injection E as <- <-. cbn [wired1 accepted1 app]. rewrite Hq.
      split; [reflexivity |]. split; [rewrite ?app_nil_r; auto | intros ? ? ? [H | [? H]]; discriminate].
    + inversion Hsh as [| ? ? Hd Hq0]; subst.
      pose proof (load_choice_spec rem d Hd) as Hs.
      destruct (load_choice rem d) as [ | | | wl npad d' | site] eqn:Ec; cbn [choice_spec] in Hs; try contradiction.
      * injection E as <- <-. cbn [wired1 accepted1 app]. rewrite Hq.
        split; [reflexivity |]. split; [rewrite ?app_nil_r; split; [reflexivity | assumption] | intros ? ? ? [H | [? H]]; discriminate].
      * assert (d' = d) as -> by (destruct wl; destruct Hs as [Hs _]; exact Hs).
        set (s1 := mkdg (peer_max s) (local_max s) (Some q0) (rq s)) in *.
        destruct dl.
        -- pose proof (deliver_bytes_wq s1 (wire_bytes (LFrame wl npad d))) as [Hw Hp].
           destruct (deliver_bytes s1 (wire_bytes (LFrame wl npad d))) as [s2 dv]. injection E as <- <-.
           cbn [fst] in Hw, Hp. rewrite Hw, Hp. cbn [wq peer_max s1 wired1 accepted1 app].
           split; [reflexivity |]. split; [rewrite ?app_nil_r; split; [reflexivity | assumption] |].
           intros wl' npad' d'' [H | [dv' H]]; [discriminate |]. injection H as <- <- <- _.
           exists rem, true. split; [reflexivity |]. split; [rewrite <- Ec; rewrite Ec; exact Hs | eauto].
        -- injection E as <- <-. cbn [wq peer_max s1 wired1 accepted1 app].
           split; [reflexivity |]. split; [rewrite ?app_nil_r; split; [reflexivity | assumption] |].
           intros wl' npad' d'' [H | [dv' H]]; [| discriminate]. injection H as <- <- <-.
           exists rem, false. split; [reflexivity |]. split; [exact Hs | eauto].
  - (* load all *)
    unfold load_all in E. rewrite Hq in E.
    pose proof (load_all_q_spec q rem Hsh) as Hs.
    destruct (load_all_q q rem) as [[rs qf] last]. destruct Hs as [Hs1 Hs2].
    set (s1 := mkdg (peer_max s) (local_max s) (Some qf) (rq s)) in *.
    assert (Hgoal : forall s2, wq s2 = wq s1 -> peer_max s2 = peer_max s1 ->
              peer_max s2 = peer_max s /\
              match wq s2 with
              | Some q' => wired1 (OLoadAll rs last None) ++ q' = q ++ [] /\ all_short q'
              | None => DLoadAll rem dl = DConnErr
              end).
    { intros s2 Hw Hp. rewrite Hw, Hp. cbn [s1 wq peer_max wired1]. rewrite app_nil_r. auto. }
    destruct rs as [| r rs']; [| destruct dl].
    + injection E as <- <-. destruct (Hgoal s1 eq_refl eq_refl) as [G1 G2].
      split; [exact G1 |]. split; [exact G2 | intros ? ? ? [H | [? H]]; discriminate].
    + pose proof (deliver_bytes_wq s1 (flat_map wire_bytes (r :: rs'))) as [Hw Hp].
      destruct (deliver_bytes s1 (flat_map wire_bytes (r :: rs'))) as [s2 dv]. injection E as <- <-.
      cbn [fst] in Hw, Hp. destruct (Hgoal s2 Hw Hp) as [G1 G2].
      split; [exact G1 |]. split; [exact G2 | intros ? ? ? [H | [? H]]; discriminate].
    + injection E as <- <-. destruct (Hgoal s1 eq_refl eq_refl) as [G1 G2].
      split; [exact G1 |]. split; [exact G2 | intros ? ? ? [H | [? H]]; discriminate].
  - (* recv frame *)
    pose proof (deliver_bytes_wq s (frame_bytes wl d)) as [Hw Hp].
    destruct (deliver_bytes s (frame_bytes wl d)) as [s2 [[ok npad] rs]]. injection E as <- <-.
    cbn [fst] in Hw, Hp. rewrite Hw, Hp, Hq. cbn [wired1 accepted1 app].
    split; [reflexivity |]. split; [rewrite ?app_nil_r; auto | intros ? ? ? [H | [? H]]; discriminate].
  - (* read *)
    unfold read in E. destruct (local_max s =? 0); [| destruct (rq s) as [[| d q1] |]]; injection E as <- <-;
      cbn [wq peer_max wired1 accepted1 app]; rewrite ?Hq;
      (split; [reflexivity |]); (split; [rewrite ?app_nil_r; auto | intros ? ? ? [H | [? H]]; discriminate]).
  - injection E as <- <-. cbn [conn_error wq peer_max].
    split; [reflexivity |]. split; [reflexivity | intros ? ? ? [H | [? H]]; discriminate].
Qed.

Definition prefix {A} (l1 l2 : list A) : Prop := exists rest, l2 = l1 ++ rest.

Lemma wired_closed s ops s' outs :
  dg_execs s ops = (s', outs) -> wq s = None -> wired outs = [] /\ accepted ops outs = [] /\ wq s' = None.
Proof.
  revert s s' outs. induction ops as [| o ops IH]; intros s s' outs E Hc; cbn [dg_execs] in E.
  - injection E as <- <-. auto.
  - destruct (dg_exec s o) as [s1 out] eqn:E1. destruct (dg_execs s1 ops) as [s2 outs2] eqn:E2.
    injection E as <- <-.
    assert (wq s1 = None /\ wired1 out = [] /\ accepted1 o out = []) as (Hc1 & Hw1 & Ha1).
    { destruct o as [d | rem dl | rem dl | wl d | | ]; cbn [dg_exec] in E1.
      - unfold send in E1. rewrite Hc in E1. destruct (peer_max s =? 0); injection E1 as <- <-; auto.
      - unfold load in E1. rewrite Hc in E1. injection E1 as <- <-; auto.
      - unfold load_all in E1. rewrite Hc in E1. injection E1 as <- <-; auto.
      - pose proof (deliver_bytes_wq s (frame_bytes wl d)) as [Hw _].
        destruct (deliver_bytes s (frame_bytes wl d)) as [s2' [[ok npad] rs]]. injection E1 as <- <-.
        cbn [fst] in Hw. rewrite Hw. auto.
      - unfold read in E1. destruct (local_max s =? 0); [| destruct (rq s) as [[| d q1] |]]; injection E1 as <- <-; auto.
      - injection E1 as <- <-. auto. }
    destruct (IH _ _ _ E2 Hc1) as (Hw & Ha & Hc2).
    cbn [wired accepted]. rewrite Hw1, Ha1, Hw, Ha. auto.
Qed.

(* the FIFO law for an arbitrary starting queue *)
Lemma dg_execs_fifo s ops s' outs q :
  dg_execs s ops = (s', outs) -> wq s = Some q -> all_short q -> Forall op_short ops ->
  prefix (wired outs) (q ++ accepted ops outs) /\
  (forall q', wq s' = Some q' -> wired outs ++ q' = q ++ accepted ops outs).
Proof.
  revert s s' outs q. induction ops as [| o ops IH]; intros s s' outs q E Hq Hsh Hops; cbn [dg_execs] in E.
  - injection E as <- <-. cbn [wired accepted]. split.
    + exists q. rewrite app_nil_r. reflexivity.
    + intros q' Hq'. rewrite Hq in Hq'. injection Hq' as <-. rewrite app_nil_r. reflexivity.
  - destruct (dg_exec s o) as [s1 out] eqn:E1. destruct (dg_execs s1 ops) as [s2 outs2] eqn:E2.
    injection E as <- <-. inversion Hops as [| ? ? Ho Hops']; subst.
    destruct (dg_exec_queue _ _ _ _ _ E1 Hq Hsh Ho) as (_ & Hstep & _).
    cbn [wired accepted].
    destruct (wq s1) as [q1 |] eqn:Eq1.
    + destruct Hstep as [Hstep Hsh1].
      destruct (IH _ _ _ _ E2 Eq1 Hsh1 Hops') as [[rest Hp] Hfin].
      split.
      * exists rest. rewrite (app_assoc q), <- Hstep, <- (app_assoc (wired1 out) q1), Hp, (app_assoc (wired1 out)). reflexivity.
      * intros q' Hq'. specialize (Hfin q' Hq').
        rewrite <- (app_assoc (wired1 out)), Hfin, (app_assoc (wired1 out)), Hstep, <- app_assoc. reflexivity.
    + subst o. destruct (wired_closed _ _ _ _ E2 Eq1) as (Hw & Ha & Hc2).
      injection E1 as <- <-. rewrite Hw, Ha. cbn [wired1 accepted1 app].
      split; [exists q; rewrite app_nil_r; reflexivity |].
      intros q' Hq'. rewrite Hc2 in Hq'. discriminate.
Qed.

(* c19_refuse_or_whole, history part: starting from the initial state, what has been put on the wire is
   a prefix of what was accepted, in order, one frame per datagram; while the connection is open the
   difference is exactly the queue *)
Lemma p_c19_whole : forall pm lm ops s' outs,
  Forall op_short ops ->
  dg_execs (dg_init pm lm) ops = (s', outs) ->
  prefix (wired outs) (accepted ops outs) /\
  (forall q', wq s' = Some q' -> wired outs ++ q' = accepted ops outs).
Proof.
  intros pm lm ops s' outs Hops E.
  apply (dg_execs_fifo _ _ _ _ [] E); [reflexivity | constructor | exact Hops].
Qed.

(* ------------------------------------------------------------------ *)
(* size of the emitted frame against the peer's limit                   *)
(* ------------------------------------------------------------------ *)

(* whatever form the loader chooses, the frame of an accepted datagram is within the peer's limit *)
Lemma p_c19_wire_limit : forall s d wl,
  wq s <> None -> lenN d < VARINT_MAX ->
  snd (send s d) = SendOk ->
  lenN (frame_bytes wl d) <= peer_max s.
Proof.
  intros s d wl Ho Hl Hs. destruct (p_c19_refuse s d Ho Hl) as [[Hiff _] _]. apply Hiff in Hs.
  rewrite frame_bytes_length. unfold frame_hdr_size. destruct wl; lia.
Qed.
