(* C19 — datagrams are carried whole, within the peer's size limit, or not at all.
   Only the property theorems live here (closed by lemmas of Proofs/Datagram.v, DatagramRT.v, DatagramSources.v).
   The model is the REPAIRED qdatagram (send_bytes checks the length form of the frame, finding F35 fixed).

   Status: everything holds in full strength; c19_offered holds for every source list containing the
   datagram source, and the list regenerated from Components::packages contains it (finding F21 fixed). *)
From Coq Require Import List NArith ZArith Bool.
From GQ Require Import Lib.Base Lib.VarintN Model.Datagram Model.DatagramSources
                       Proofs.Datagram Proofs.DatagramSources Proofs.VarintRT Proofs.DatagramRT Proofs.DatagramReads.
Import ListNotations.
Local Open Scope N_scope.

(* refused iff the largest frame the loader can build for it (the length form, 1 + varint(len) + len) does not fit
   the peer's max_datagram_frame_size (0 = disabled: everything is refused); an accepted datagram is appended to the
   queue, a refused one changes nothing *)
Theorem c19_refuse : forall s d,
  wq s <> None -> lenN d < VARINT_MAX ->
  (snd (send s d) = SendOk <-> 1 + varint_size (lenN d) + lenN d <= peer_max s) /\
  (snd (send s d) = SendOk -> wq (fst (send s d)) = option_map (fun q => q ++ [d]) (wq s)) /\
  (snd (send s d) <> SendOk -> fst (send s d) = s).
Proof. exact p_c19_refuse. Qed.

(* for every operation list from the initial state (single loads and repeated loads into one packet): the payloads
   put on the wire, one DATAGRAM frame per successful load, are a prefix of the accepted datagrams in the order sent (never split, never merged,
   never reordered); while the connection is open the rest is exactly the outgoing queue *)
Theorem c19_whole : forall pm lm ops s' outs,
  Forall op_short ops ->
  dg_execs (dg_init pm lm) ops = (s', outs) ->
  prefix (wired outs) (accepted ops outs) /\
  (forall q', wq s' = Some q' -> wired outs ++ q' = accepted ops outs).
Proof. exact p_c19_whole. Qed.

(* for every remaining-space value: no unwrap/put-past-the-end is reachable, the load is declined iff not
   even the payload plus one byte fits, the chosen form fits, the no-length form fills the packet exactly,
   the length form is chosen iff it fits, and the payload is the datagram *)
Theorem c19_fits : forall remaining d, lenN d < VARINT_MAX ->
  let r := load_choice remaining d in
  (forall site, r <> LPanic site) /\
  (r = LNoRoom <-> remaining <= lenN d) /\
  lenN (wire_bytes r) <= remaining /\
  (forall npad d', r = LFrame false npad d' -> lenN (wire_bytes r) = remaining) /\
  (forall wl npad d', r = LFrame wl npad d' ->
     d' = d /\ (wl = true <-> 1 + varint_size (lenN d) + lenN d <= remaining)).
Proof. exact p_c19_fits. Qed.

(* the bytes of every successful load re-parse (FrameReader) to npad PADDING frames and exactly ONE DATAGRAM frame
   whose payload is the datagram, in either form; delivering them hands exactly that frame to the incoming side *)
Theorem c19_roundtrip : forall wl npad d,
  lenN d < VARINT_MAX -> parse (wire_bytes (LFrame wl npad d)) = (true, npad, [PDatagram wl d]).
Proof. exact p_c19_roundtrip. Qed.

Theorem c19_deliver_one : forall s wl npad d,
  lenN d < VARINT_MAX ->
  deliver_bytes s (wire_bytes (LFrame wl npad d)) =
    (fst (recv_datagram s wl d), (true, npad, [snd (recv_datagram s wl d)])).
Proof. exact p_c19_deliver_one. Qed.

(* for every operation list: what the application reads is, in order, a prefix of what the incoming side accepted
   (the frames FrameReader finds in each delivered packet that pass the local limit), and while the connection is open
   the rest is exactly the incoming queue - nothing is reordered, duplicated or lost between recv_frame and the reader *)
Theorem c19_reads_in_order : forall pm lm ops s' outs,
  dg_execs (dg_init pm lm) ops = (s', outs) ->
  prefix (reads outs) (arrivals lm ops outs) /\
  (forall q', rq s' = Some q' -> reads outs ++ q' = arrivals lm ops outs).
Proof. exact p_c19_reads_in_order. Qed.

(* a delivered load contributes exactly its datagram if the frame is within the local maximum, and nothing otherwise *)
Theorem c19_arrival_single : forall lm wl npad d,
  lenN d < VARINT_MAX ->
  pushed lm (frames (wire_bytes (LFrame wl npad d))) =
    if lm <? frame_hdr_size wl (lenN d) + lenN d then [] else [d].
Proof. exact p_c19_arrival_single. Qed.

(* a received DATAGRAM frame larger than the local maximum is a ProtocolViolation and leaves the state
   unchanged; any other frame is queued for the application *)
Theorem c19_recv_limit : forall s wl d q,
  rq s = Some q ->
  (local_max s < frame_hdr_size wl (lenN d) + lenN d ->
     recv_datagram s wl d = (s, RecvViolation)) /\
  (frame_hdr_size wl (lenN d) + lenN d <= local_max s ->
     snd (recv_datagram s wl d) = RecvOk /\ rq (fst (recv_datagram s wl d)) = Some (q ++ [d])).
Proof. exact p_c19_recv_limit. Qed.

(* whatever form the loader chooses, the frame emitted for an accepted datagram is within the peer's limit *)
Theorem c19_wire_limit : forall s d wl,
  wq s <> None -> lenN d < VARINT_MAX -> snd (send s d) = SendOk ->
  lenN (frame_bytes wl d) <= peer_max s.
Proof. exact p_c19_wire_limit. Qed.

(* if the datagram source is among the sources of a space, an accepted datagram is put on the wire as soon
   as a packet of that space has room for it *)
Theorem c19_offered : forall srcs s d q rem,
  In SrcDatagram srcs ->
  wq s = Some (d :: q) -> lenN d < VARINT_MAX -> lenN d < rem ->
  exists rest, emitted (snd (assemble_sources srcs s rem)) = d :: rest.
Proof. exact p_c19_offered. Qed.

(* the datagram queue IS among the packet sources regenerated from Components::packages (the repaired
   code: finding F21, "accepted datagrams are never offered to the assembler", is fixed), so c19_offered
   applies to the 1-RTT and 0-RTT spaces of the real source table *)
Theorem c19_offered_table :
  In SrcDatagram (sources SpOneRtt) /\ In SrcDatagram (sources SpZeroRtt) /\ (1 <= datagram_package_impls)%nat.
Proof. vm_compute; intuition. Qed.

(* non-vacuity: sizes around the limit, both forms, padding, loss, FIFO order, repeated loads into one packet,
   a frame over the local limit *)
Example c19_nonvacuous :
  let ops := [DSend (slice content 0 9); DSend (slice content 20 10); DSend (slice content 40 3); DSend (slice content 50 0);
              DLoad 9 true; DLoad 12 false; DLoad 12 true; DRead; DLoad 4 true; DLoad 1 true; DRead; DRead; DRead;
              DSend (slice content 60 2); DSend (slice content 70 2); DSend (slice content 80 2); DLoadAll 11 true;
              DRead; DRead; DRead; DRead;
              DRecvFrame true (slice content 0 10); DRecvFrame false (slice content 0 10); DRead] in
  let '(s, outs) := dg_execs (dg_init 11 11) ops in
  accepted ops outs = [slice content 0 9; slice content 40 3; slice content 50 0;
                       slice content 60 2; slice content 70 2; slice content 80 2] /\
  wired outs = accepted ops outs /\ wq s = Some [] /\
  map (fun o => match o with ORead (ReadSome d) => lenN d | _ => 99 end)
      (filter (fun o => match o with ORead _ => true | _ => false end) outs) = [3; 0; 99; 99; 2; 2; 2; 99; 10].
Proof. vm_compute. repeat split; reflexivity. Qed.

Print Assumptions c19_refuse.
Print Assumptions c19_whole.
Print Assumptions c19_fits.
Print Assumptions c19_roundtrip.
Print Assumptions c19_deliver_one.
Print Assumptions c19_reads_in_order.
Print Assumptions c19_arrival_single.
Print Assumptions c19_recv_limit.
Print Assumptions c19_wire_limit.
Print Assumptions c19_offered.
Print Assumptions c19_offered_table.
Print Assumptions c19_nonvacuous.
