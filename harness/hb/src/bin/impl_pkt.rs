//! Correspondence stream `pkt` (C05, C03, C18): packet headers, datagram splitting and transport
//! parameters through the real qbase code.  ops: see coq/Model/PacketsIO.v
use std::{
    net::{Ipv4Addr, Ipv6Addr, SocketAddrV4, SocketAddrV6},
    time::Duration,
};

use bytes::{Bytes, BytesMut};
use hproto::{Obs, Op};
use qbase::{
    cid::ConnectionId,
    packet::{
        DataHeader, GetDcid, GetScid, Packet, PacketReader, SpinBit,
        error::Error as PErr,
        header::{EncodeHeader, OneRttHeader, io::WriteHeader, long},
        io::be_packet,
    },
    param::{
        ClientParameters, ParameterId, ParameterValue, ParameterValueType, ServerParameters, WriteParameters,
        be_raw_parameter, preferred_address::PreferredAddress,
    },
    token::ResetToken,
    varint::VarInt,
};

fn pbytes(o: &mut Obs, b: &[u8]) {
    o.push_usize(b.len());
    o.push_bytes(b);
}

fn perr(o: &mut Obs, e: &PErr, short: bool) {
    match e {
        PErr::UnsupportedVersion(v) => {
            o.push(0u8);
            if !short {
                o.push(*v);
            }
        }
        PErr::InvalidFixedBit => {
            o.push(1u8);
        }
        PErr::IncompleteType(_) => {
            o.push(2u8);
        }
        PErr::IncompleteHeader(..) => {
            o.push(3u8);
        }
        PErr::UnderSampling(_, n) => {
            o.push(4u8);
            if !short {
                o.push_usize(*n);
            }
        }
        _ => {
            o.push(9u8);
        }
    }
}

fn kind_and_fields(p: &Packet, o: &mut Obs, with_fields: bool) -> u8 {
    match p {
        Packet::VN(h) => {
            if with_fields {
                pbytes(o, h.dcid());
                pbytes(o, h.scid());
                o.push_usize(h.versions().len());
                for v in h.versions() {
                    o.push(*v);
                }
            }
            0
        }
        Packet::Retry(h) => {
            if with_fields {
                pbytes(o, h.dcid());
                pbytes(o, h.scid());
                pbytes(o, h.token());
                pbytes(o, h.integrity());
            }
            1
        }
        Packet::Data(d) => match &d.header {
            DataHeader::Long(long::DataHeader::Initial(h)) => {
                if with_fields {
                    pbytes(o, h.dcid());
                    pbytes(o, h.scid());
                    pbytes(o, h.token());
                }
                2
            }
            DataHeader::Long(long::DataHeader::ZeroRtt(h)) => {
                if with_fields {
                    pbytes(o, h.dcid());
                    pbytes(o, h.scid());
                }
                3
            }
            DataHeader::Long(long::DataHeader::Handshake(h)) => {
                if with_fields {
                    pbytes(o, h.dcid());
                    pbytes(o, h.scid());
                }
                4
            }
            DataHeader::Short(h) => {
                if with_fields {
                    o.push_bool(h.spin() == SpinBit::One);
                    pbytes(o, h.dcid());
                }
                5
            }
        },
    }
}

fn total_offset(p: &Packet, before: usize, after: usize) -> (usize, usize) {
    match p {
        Packet::Data(d) => (d.bytes.len(), d.offset),
        _ => (before - after, before - after),
    }
}

fn take_bytes(a: &[i128], pos: &mut usize) -> Vec<u8> {
    let n = a[*pos] as usize;
    let v: Vec<u8> = a[*pos + 1..*pos + 1 + n].iter().map(|x| *x as u8).collect();
    *pos += 1 + n;
    v
}

const ALL_IDS: [ParameterId; 20] = [
    ParameterId::OriginalDestinationConnectionId,
    ParameterId::MaxIdleTimeout,
    ParameterId::StatelessResetToken,
    ParameterId::MaxUdpPayloadSize,
    ParameterId::InitialMaxData,
    ParameterId::InitialMaxStreamDataBidiLocal,
    ParameterId::InitialMaxStreamDataBidiRemote,
    ParameterId::InitialMaxStreamDataUni,
    ParameterId::InitialMaxStreamsBidi,
    ParameterId::InitialMaxStreamsUni,
    ParameterId::AckDelayExponent,
    ParameterId::MaxAckDelay,
    ParameterId::DisableActiveMigration,
    ParameterId::PreferredAddress,
    ParameterId::ActiveConnectionIdLimit,
    ParameterId::InitialSourceConnectionId,
    ParameterId::RetrySourceConnectionId,
    ParameterId::MaxDatagramFrameSize,
    ParameterId::GreaseQuicBit,
    ParameterId::ClientName,
];

trait Getter {
    fn has(&self, id: ParameterId) -> bool;
    fn val<V: TryFrom<ParameterValue>>(&self, id: ParameterId) -> Option<V>;
}
impl<R> Getter for qbase::param::core::Parameters<R> {
    fn has(&self, id: ParameterId) -> bool {
        self.contains(id)
    }
    fn val<V: TryFrom<ParameterValue>>(&self, id: ParameterId) -> Option<V> {
        self.get(id)
    }
}

fn print_params(p: &impl Getter, o: &mut Obs) {
    let mut ids: Vec<ParameterId> = ALL_IDS.iter().copied().filter(|id| p.has(*id)).collect();
    ids.sort_by_key(|id| VarInt::from(*id).into_u64());
    for id in ids {
        o.push(VarInt::from(id).into_u64());
        match id.value_type() {
            ParameterValueType::VarInt => {
                o.push(0u8).push(p.val::<VarInt>(id).unwrap().into_u64());
            }
            ParameterValueType::Boolean => {
                o.push(1u8);
            }
            ParameterValueType::Bytes => {
                o.push(2u8);
                pbytes(o, &p.val::<Bytes>(id).unwrap());
            }
            ParameterValueType::Duration => {
                o.push(3u8).push(p.val::<Duration>(id).unwrap().as_millis() as u64);
            }
            ParameterValueType::ResetToken => {
                o.push(4u8);
                pbytes(o, p.val::<ResetToken>(id).unwrap().as_slice());
            }
            ParameterValueType::ConnectionId => {
                o.push(5u8);
                pbytes(o, &p.val::<ConnectionId>(id).unwrap());
            }
            ParameterValueType::PreferredAddress => {
                o.push(6u8);
                let a = p.val::<PreferredAddress>(id).unwrap();
                let mut a4 = a.address_v4().ip().octets().to_vec();
                a4.extend_from_slice(&a.address_v4().port().to_be_bytes());
                let mut a6 = a.address_v6().ip().octets().to_vec();
                a6.extend_from_slice(&a.address_v6().port().to_be_bytes());
                pbytes(o, &a4);
                pbytes(o, &a6);
                pbytes(o, &a.connection_id());
                pbytes(o, a.stateless_reset_token().as_slice());
            }
        }
    }
}

/// (id, value) entries from the flat field list
fn entries(a: &[i128]) -> Vec<(ParameterId, ParameterValue)> {
    let mut out = Vec::new();
    let mut p = 0;
    while p < a.len() {
        let id = ParameterId::try_from(VarInt::from_u64(a[p] as u64).unwrap()).expect("known parameter id");
        let ty = a[p + 1];
        p += 2;
        let v = match ty {
            0 => {
                p += 1;
                ParameterValue::VarInt(VarInt::from_u64(a[p - 1] as u64).unwrap())
            }
            1 => ParameterValue::True,
            2 => ParameterValue::Bytes(Bytes::from(take_bytes(a, &mut p))),
            3 => {
                p += 1;
                ParameterValue::Duration(Duration::from_millis(a[p - 1] as u64))
            }
            4 => ParameterValue::ResetToken(ResetToken::new(&take_bytes(a, &mut p))),
            5 => ParameterValue::ConnectionId(ConnectionId::from_slice(&take_bytes(a, &mut p))),
            6 => {
                let a4 = take_bytes(a, &mut p);
                let a6 = take_bytes(a, &mut p);
                let cid = take_bytes(a, &mut p);
                let tok = take_bytes(a, &mut p);
                let ip4 = Ipv4Addr::new(a4[0], a4[1], a4[2], a4[3]);
                let mut ip6 = [0u8; 16];
                ip6.copy_from_slice(&a6[..16]);
                ParameterValue::PreferredAddress(PreferredAddress::new(
                    SocketAddrV4::new(ip4, u16::from_be_bytes([a4[4], a4[5]])),
                    SocketAddrV6::new(Ipv6Addr::from(ip6), u16::from_be_bytes([a6[16], a6[17]]), 0, 0),
                    ConnectionId::from_slice(&cid),
                    ResetToken::new(&tok),
                ))
            }
            _ => panic!("bad value type"),
        };
        out.push((id, v));
    }
    out
}

fn raw_view(buf: &[u8], o: &mut Obs) {
    let mut raws: Vec<(u64, Vec<u8>)> = Vec::new();
    let mut rest = buf;
    while !rest.is_empty() {
        match be_raw_parameter(rest) {
            Ok((r, (id, d))) => {
                raws.push((id.into_u64(), d.to_vec()));
                rest = r;
            }
            Err(_) => break,
        }
    }
    raws.sort_by_key(|x| x.0);
    for (id, d) in raws {
        o.push(id).push(2u8);
        pbytes(o, &d);
    }
}

fn step(_: &mut (), op: &Op, _i: usize) -> Obs {
    let mut o = Obs::new();
    match op.tag {
        10 => {
            let mut dg = BytesMut::from(&op.bytes_from(1)[..]);
            let before = dg.len();
            match be_packet(&mut dg, op.u(0) as usize) {
                Ok(p) => {
                    let (total, off) = total_offset(&p, before, dg.len());
                    let mut f = Obs::new();
                    let k = kind_and_fields(&p, &mut f, true);
                    o.push(0u8).push(k).push_usize(total).push_usize(off);
                    o.0.extend(f.0);
                }
                Err(e) => {
                    o.push(1u8);
                    perr(&mut o, &e, false);
                }
            }
        }
        11 => {
            let dg = BytesMut::from(&op.bytes_from(1)[..]);
            let n = dg.len();
            let mut left = n;
            let mut reader = PacketReader::new(dg, op.u(0) as usize);
            for _ in 0..=n + 1 {
                match reader.next() {
                    None => break,
                    Some(Ok(p)) => {
                        // the reader owns the rest of the datagram; data packets carry their own bytes
                        let (total, off) = match &p {
                            Packet::Data(d) => (d.bytes.len(), d.offset),
                            _ => (left, left),
                        };
                        left -= total;
                        let k = kind_and_fields(&p, &mut Obs::new(), false);
                        o.push(0u8).push(k).push_usize(total).push_usize(off);
                    }
                    Some(Err(e)) => {
                        o.push(1u8);
                        perr(&mut o, &e, true);
                    }
                }
            }
        }
        12 => {
            let a = &op.args[1..];
            let mut buf: Vec<u8> = Vec::new();
            let kind = op.u(0);
            let size: i128;
            if kind == 5 {
                let mut p = 1;
                let d = take_bytes(a, &mut p);
                let h = OneRttHeader::new(if a[0] != 0 { SpinBit::One } else { SpinBit::Zero }, ConnectionId::from_slice(&d));
                buf.put_header(&h);
                size = h.size() as i128;
            } else {
                let mut p = 0;
                let d = ConnectionId::from_slice(&take_bytes(a, &mut p));
                let s = ConnectionId::from_slice(&take_bytes(a, &mut p));
                let b = long::io::LongHeaderBuilder::with_cid(d, s);
                match kind {
                    0 => {
                        let n = a[p] as usize;
                        let vs: Vec<u32> = a[p + 1..p + 1 + n].iter().map(|x| *x as u32).collect();
                        buf.put_header(&b.vn(vs));
                        size = -1;
                    }
                    1 => {
                        let t = take_bytes(a, &mut p);
                        let i = take_bytes(a, &mut p);
                        let mut integ = [0u8; 16];
                        integ.copy_from_slice(&i);
                        buf.put_header(&b.retry(t, integ));
                        size = -1;
                    }
                    2 => {
                        let h = b.initial(take_bytes(a, &mut p));
                        buf.put_header(&h);
                        size = h.size() as i128;
                    }
                    3 => {
                        let h = b.zero_rtt();
                        buf.put_header(&h);
                        size = h.size() as i128;
                    }
                    _ => {
                        let h = b.handshake();
                        buf.put_header(&h);
                        size = h.size() as i128;
                    }
                }
            }
            o.push(0u8).push(size);
            o.push_bytes(&buf);
        }
        13 => {
            let b = op.bytes_from(1);
            if op.u(0) == 0 {
                match ClientParameters::parse_from_bytes(&b) {
                    Ok(p) => {
                        o.push(0u8);
                        print_params(&p, &mut o);
                    }
                    Err(e) => {
                        o.push(1u8).push(VarInt::from(e.kind()).into_u64());
                    }
                }
            } else {
                match ServerParameters::parse_from_bytes(&b) {
                    Ok(p) => {
                        o.push(0u8);
                        print_params(&p, &mut o);
                    }
                    Err(e) => {
                        o.push(1u8).push(VarInt::from(e.kind()).into_u64());
                    }
                }
            }
        }
        14 => {
            let es = entries(&op.args[1..]);
            let mut buf: Vec<u8> = Vec::new();
            let ok = if op.u(0) == 0 {
                let mut p = ClientParameters::new();
                let ok = es.into_iter().all(|(id, v)| p.set(id, v).is_ok());
                if ok {
                    buf.put_parameters(&p);
                }
                ok
            } else {
                let mut p = ServerParameters::new();
                let ok = es.into_iter().all(|(id, v)| p.set(id, v).is_ok());
                if ok {
                    buf.put_parameters(&p);
                }
                ok
            };
            if ok {
                o.push(0u8);
                raw_view(&buf, &mut o);
            } else {
                o.push(1u8);
            }
        }
        15 => match ServerParameters::try_from_remembered_bytes(&op.bytes_from(0)) {
            Ok(p) => {
                o.push(0u8);
                print_params(&p, &mut o);
            }
            Err(e) => {
                o.push(1u8).push(VarInt::from(e.kind()).into_u64());
            }
        },
        _ => {
            o.push(-99);
        }
    }
    o
}

fn main() {
    hproto::run(|_| (), step);
}
