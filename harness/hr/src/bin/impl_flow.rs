//! Correspondence stream `flow` (C11): drives the public `qbase::flow::FlowController`.
//! CASE cfg: peer_initial_max_data local_initial_max_data
//! ops: 0 CREDIT quota | 1 POST i n | 2 DROP i | 3 MAXDATA v | 4 RCVD n | 5 REVISE rejected v
//! obs: CREDIT -> 1 available blocked? value ; POST -> 1 available | 0 ; DROP -> 1 | 0 ;
//!      MAXDATA/REVISE -> 1 ; RCVD -> 0 maxdata? value rcvd_total(-) .. see below ; 3 = FlowControl
//! An arithmetic panic inside the controller (u64 underflow, debug profile) is reported as -3 and
//! ends the case (-1 afterwards), like the model's explicit underflow outcome.
use std::panic::{AssertUnwindSafe, catch_unwind};
use std::sync::{Arc, Mutex};

use hproto::{Obs, Op};
use qbase::{
    error::ErrorKind,
    flow::{Credit, FlowController},
    frame::{DataBlockedFrame, FrameType, MaxDataFrame, io::{ReceiveFrame, SendFrame}},
    net::tx::ArcSendWakers,
    varint::VarInt,
};

#[derive(Clone, Default, Debug)]
struct Tx(Arc<Mutex<Vec<(u8, u64)>>>);
impl SendFrame<MaxDataFrame> for Tx {
    fn send_frame<I: IntoIterator<Item = MaxDataFrame>>(&self, iter: I) {
        let mut g = self.0.lock().unwrap();
        for f in iter {
            g.push((7, f.max_data()));
        }
    }
}
impl SendFrame<DataBlockedFrame> for Tx {
    fn send_frame<I: IntoIterator<Item = DataBlockedFrame>>(&self, iter: I) {
        let mut g = self.0.lock().unwrap();
        for f in iter {
            g.push((8, f.limit()));
        }
    }
}

struct St {
    flow: &'static FlowController<Tx>,
    tx: Tx,
    credits: Vec<Option<Credit<'static, Tx>>>,
    rcvd: u64,
    dead: bool,
}

impl Drop for St {
    /// outstanding credits are returned one by one; a credit whose return panics (F34) must not
    /// take the process down with a second panic during unwinding
    fn drop(&mut self) {
        let mut failed = false;
        for c in std::mem::take(&mut self.credits) {
            if failed {
                std::mem::forget(c);
            } else if catch_unwind(AssertUnwindSafe(|| drop(c))).is_err() {
                failed = true;
            }
        }
    }
}

fn new_case(w: &[&str]) -> St {
    let c: Vec<u64> = w.iter().map(|x| x.parse().unwrap()).collect();
    let tx = Tx::default();
    let flow: &'static FlowController<Tx> =
        Box::leak(Box::new(FlowController::new(c[0], c[1], tx.clone(), ArcSendWakers::default())));
    St { flow, tx, credits: Vec::new(), rcvd: 0, dead: false }
}

fn take(tx: &Tx, ty: u8) -> Option<u64> {
    let mut g = tx.0.lock().unwrap();
    let v = g.iter().find(|f| f.0 == ty).map(|f| f.1);
    g.clear();
    v
}
fn zopt(o: &mut Obs, v: Option<u64>) {
    match v {
        Some(x) => o.push(1).push(x),
        None => o.push(0).push(0),
    };
}

fn step(st: &mut St, op: &Op, _i: usize) -> Obs {
    let mut o = Obs::new();
    if st.dead {
        o.push(-1);
        return o;
    }
    st.tx.0.lock().unwrap().clear();
    let r = catch_unwind(AssertUnwindSafe(|| {
        let mut o = Obs::new();
        match op.tag {
            0 => {
                let c = st.flow.send_limit(op.u(0) as usize).unwrap();
                o.push(1).push_usize(c.available());
                zopt(&mut o, take(&st.tx, 8));
                st.credits.push(Some(c));
            }
            1 => match st.credits.get_mut(op.u(0) as usize) {
                Some(Some(c)) => {
                    c.post_sent(op.u(1) as usize);
                    o.push(1).push_usize(c.available());
                }
                _ => {
                    o.push(0);
                }
            },
            2 => match st.credits.get_mut(op.u(0) as usize) {
                Some(slot @ Some(_)) => {
                    drop(slot.take());
                    o.push(1);
                }
                _ => {
                    o.push(0);
                }
            },
            3 => {
                st.flow.sender.recv_frame(MaxDataFrame::new(VarInt::from_u64(op.u(0)).unwrap())).unwrap();
                o.push(1);
            }
            4 => match st.flow.on_new_rcvd(FrameType::ResetStream, op.u(0) as usize) {
                Ok(_) => {
                    st.rcvd += op.u(0);
                    o.push(0);
                    zopt(&mut o, take(&st.tx, 7));
                }
                Err(e) => {
                    st.dead = true;
                    o.push(if e.kind() == ErrorKind::FlowControl { 3 } else { 99 });
                }
            },
            5 => {
                st.flow.sender.revise_max_data(op.u(0) != 0, op.u(1));
                o.push(1);
            }
            _ => {
                o.push(-99);
            }
        }
        o
    }));
    match r {
        Ok(obs) => obs,
        Err(_) => {
            // a Credit that panicked inside post_sent/drop must not run its Drop again
            for c in st.credits.drain(..) {
                std::mem::forget(c);
            }
            st.dead = true;
            o.push(-3);
            o
        }
    }
}

fn main() {
    hproto::run(new_case, step);
}
