(* C13 — loss detection and congestion control follow RFC 9002.
   Only the property theorems live here: each is closed by a lemma of Proofs/{NewReno,LossDetect,
   Pto,CcSteps}.v and its assumptions are printed for the audit.

   [reach fx c] : c is the state of the controller model after ANY list of operations (sends in three
   spaces with any sizes/flags, ACK frames with any ranges/ECN counts, clock advances, ticks,
   handshake flags, discards, quota requests) on either role, any positive MTU and max_ack_delay,
   with ANY values of the RTT-filter inputs (loss_delay, smoothed_rtt, rttvar, pacer refill) at
   every step.  The floating-point RTT filter is an input by design (level: partial).

   [fx] is the variant flag of finding F15 (Model/LossDetect.v, Model/Pto.v): [true] = the code after
   the `fix:` commit for F15 (what stream `cc` runs, [run_cc = run_cc_with true]; tools/props/C13.py
   regen() fails closed when the checked-out qcongestion is anything else), [false] = the code as it
   was.  The invariants are proved for BOTH variants ([forall fx]); the loss rule of RFC 9002 6.1 is
   proved at full strength for the repaired variant ([c13_loss_rule], [c13_loss_needs_later_ack])
   and [c13_loss_rule_refuted] keeps the witness for the variant as it was.

   One clause of the property is still refuted on the faithful model (F25: open finding), with a
   [_refuted] witness (the same history replays on the real controller, corpus/C13/cc) and a
   conditional theorem.  F15, F16 and F17 were repaired (`fix:` commits); their clauses are proved
   at full strength on the model of the fixed code and the former witnesses are regression cases. *)
From Coq Require Import List ZArith Bool.
From GQ Require Import Model.NewReno Model.LossDetect Model.Pto
  Proofs.NewReno Proofs.LossDetect Proofs.Pto Proofs.CcSteps Proofs.CcTrace Proofs.CcOnce Proofs.CcRun
  Proofs.CcLossRule.
Import ListNotations.
Local Open Scope Z_scope.

(* bytes_in_flight = sum of the sizes of the counted Inflight packets over the three spaces, after
   every history; no saturating_sub saturated; no checked subtraction/division panicked *)
Theorem c13_bif_exact : forall fx c, reach fx c ->
  bif (c_reno c) = total_flight c /\ r_sat (c_reno c) = false /\ r_panic (c_reno c) = false.
Proof. intro fx. exact p_c13_bif_exact. Qed.

(* the window never falls below two datagrams (max_datagram_size constant = the path MTU) *)
Theorem c13_cwnd_min : forall fx c, reach fx c -> mds (c_reno c) = c_mtu c /\ 2 * c_mtu c <= cwnd (c_reno c).
Proof. intro fx. exact p_c13_cwnd_min. Qed.

(* the window grows only in an accepted ACK that newly acknowledges a counted packet sent after
   the start of the current recovery period *)
Theorem c13_grow_only_on_ack_outside_recovery : forall fx c ri o, reach fx c -> op_ok o ->
  cwnd (c_reno c) < cwnd (c_reno (fst (cc_step fx c ri o))) ->
  exists e cev rs p, o = OpAck e cev rs /\ ack_ok rs = true /\
    In p (s_sent (c_sp c e)) /\ in_ranges (p_pn p) rs = true /\ is_acked p = false /\
    p_cc p = true /\ in_recovery (c_reno c) (p_time p) = false.
Proof. intro fx. exact p_c13_grow_only_on_ack. Qed.

(* once per recovery period, at the congestion controller: an event for a packet sent no later
   than the recovery start changes nothing; a firing event takes one datagram off (floor two
   datagrams) and opens a recovery period, after which events for earlier packets are ignored;
   a loss report without the `persistent` flag reduces at most once, and not at all when every
   lost packet was sent before the recovery start *)
Theorem c13_once_per_rtt : forall m r,
  reno_ok m r ->
  (forall t now, in_recovery r t = true -> on_congestion_event r t now = r) /\
  (forall t now t' now', in_recovery r t = false -> t' <= now ->
     on_congestion_event (on_congestion_event r t now) t' now' = on_congestion_event r t now) /\
  (forall lost now,
     let r' := on_packets_lost r lost false now in
     Z.max (cwnd r - m) (2 * m) <= cwnd r' /\
     ((forall s, rstart r = Some s -> forall p, In p lost -> p_time p <= s) -> rstart r <> None -> cwnd r' = cwnd r) /\
     (cwnd r' < cwnd r -> rstart r' = Some now)).
Proof.
  intros m r H. split; [intros; now apply congestion_event_in_recovery|].
  split; [intros; now apply congestion_event_once|]. intros lost now. exact (on_packets_lost_single m r lost now H).
Qed.

(* per operation, over every history: in every reachable state an operation whose detection pass
   does not raise the `persistent` flag (outside the class of F25) takes at most ONE datagram off the
   window — also when the same ACK carries a new ECN-CE mark and triggers losses *)
Theorem c13_once_per_rtt_step : forall fx c ri o, reach fx c -> op_ok o ->
  o_pers (snd (cc_step fx c ri o)) = false ->
  Z.max (cwnd (c_reno c) - c_mtu c) (2 * c_mtu c) <= cwnd (c_reno (fst (cc_step fx c ri o))).
Proof. intro fx. exact p_c13_once_per_rtt_step. Qed.

(* every Inflight packet was sent no later than the current time (the invariant used above) *)
Theorem c13_sent_in_the_past : forall fx c, reach fx c ->
  forall e p, In p (s_sent (c_sp c e)) -> is_inflight p = true -> p_time p <= c_now c.
Proof. intro fx. exact reach_InvD. Qed.

(* the stream entry point: every state visited by run_cc (= run_cc_with true, the repaired code; the
   same for run_cc_asis = run_cc_with false) on a wire-form operation list (clock advances not
   negative, positive MTU) is reachable, so every theorem here applies to the state behind every
   observation line the extracted model prints *)
Theorem c13_run_reach : forall fx cfg l,
  (match cfg with [_; mtu; mad_us] => 0 < mtu /\ 0 <= mad_us | _ => True end) ->
  Forall wire_ok l ->
  let c0 := match cfg with
            | [role; mtu; mad_us] => cc_new (negb (role =? 0)) mtu (mad_us * 1000)
            | _ => cc_new false 1200 25000000
            end in
  run_cc_with fx cfg l = cc_run fx c0 l /\ reach fx c0 /\ Forall (reach fx) (cc_states fx c0 l).
Proof. intro fx. exact p_c13_run_reach. Qed.

Theorem c13_run_cc_is_repaired : run_cc = run_cc_with true /\ run_cc_asis = run_cc_with false.
Proof. split; reflexivity. Qed.

(* F25 — REFUTED at full strength (on the repaired loss rule): with the `persistent` flag (3
   index-consecutive losses in one pass: six packets, the ACK of the last one) the same loss event
   reduces twice (13200 after the ACK -> 12000 -> 6000) and closes the recovery period *)
Theorem c13_once_per_rtt_refuted :
  let '(c, outs) := run_ops true (cc_new true 1200 0) f25_history in
  exists out, nth_error outs 8 = Some out /\ o_pers out = true /\ o_lost out = [(2, 0); (2, 1); (2, 2)] /\
              cwnd (c_reno c) = 6000 /\ 6000 < Z.max (12000 - 1200) (2 * 1200) /\ rstart (c_reno c) = None.
Proof. exact p_c13_once_per_rtt_refuted. Qed.

(* an acknowledged packet is never declared lost: the ACK walk leaves no packet of the ranges
   Inflight and never makes a packet Inflight; a detection pass reports only Inflight packets and
   never makes a packet Inflight *)
Theorem c13_acked_never_lost :
  (forall rs ps r r1 ps' e l, ack_walk r ps rs = (r1, ps', e, l) ->
     (forall pn, in_ranges pn rs = true -> noinfl pn ps') /\ (forall pn, noinfl pn ps -> noinfl pn ps')) /\
  (forall fx s r ld now s' r' lost pers pn, detect_lost fx s r ld now = (s', r', lost, pers) ->
     (In pn lost -> ~ noinfl pn (s_sent s)) /\ (noinfl pn (s_sent s) -> noinfl pn (s_sent s'))) /\
  (forall ps p, In p (pop_front ps) -> In p ps).
Proof.
  split; [|split].
  - intros rs ps r r1 ps' e l H. destruct (ack_walk_states rs ps r r1 ps' e l H) as (A & B & _). auto.
  - intros fx s r ld now s' r' lost pers pn H. now apply (detect_lost_only_inflight (fx:=fx) s r ld now s' r' lost pers).
  - exact pop_front_incl.
Qed.

(* trace form: from ANY controller state (so from every reachable one), once an accepted ACK frame
   of space e covers a number pn already sent in e, neither that operation nor any operation of
   any continuation (any ops, any RTT inputs) reports (e, pn) lost *)
Theorem c13_acked_never_lost_trace : forall fx c ri e cev rs pn l,
  ack_ok rs = true -> in_ranges pn rs = true -> pn <= c_lastpn c e ->
  Forall (fun out => ~ In (e, pn) (o_lost out)) (run_from fx c ((ri, OpAck e cev rs) :: l)).
Proof. intro fx. exact p_c13_acked_never_lost_trace. Qed.

(* the loss rule of RFC 9002 6.1 at the detection pass of the repaired code, for ANY space state: a
   reported packet is numbered below the largest acknowledged number recorded in the space (there
   is one: a LATER packet has been acknowledged), was Inflight, and is older than loss_delay +
   max_ack_delay of its space or sits at least 3 deque positions below the position of that number *)
Theorem c13_loss_rule : forall s r ld now s' r' lost pers pn,
  detect_lost true s r ld now = (s', r', lost, pers) -> In pn lost ->
  exists la i p, s_la s = Some la /\ pn < la /\
    nth_error (s_sent s) (Z.to_nat i) = Some p /\ 0 <= i /\ p_pn p = pn /\ is_inflight p = true /\
    (p_time p < now - ld - s_mad s \/ i + PACKET_THRESHOLD <= bsearch_idx (s_sent s) la).
Proof. exact p_c13_loss_rule. Qed.

(* over histories, in packet NUMBERS (the deques of every reachable state carry strictly increasing
   numbers, so three positions are at least three numbers): whatever the history, the operation
   and the RTT inputs, every packet the repaired controller reports lost (the argument of
   Feedback::may_loss) was Inflight in its space before the operation, is numbered below the
   largest acknowledged number n of that space, and is at least kPacketThreshold = 3 numbers below
   n or was sent more than loss_delay + max_ack_delay ago *)
Theorem c13_loss_needs_later_ack : forall c ri o e pn, reach true c ->
  In (e, pn) (o_lost (snd (cc_step true c ri o))) ->
  exists n p, s_la (c_sp (fst (cc_step true c ri o)) e) = Some n /\ pn < n /\
    In p (s_sent (c_sp c e)) /\ p_pn p = pn /\ is_inflight p = true /\
    (pn + PACKET_THRESHOLD <= n \/ p_time p + i_ld ri + s_mad (c_sp c e) < c_now c).
Proof. exact p_c13_loss_needs_later_ack. Qed.

(* the invariant behind it, for both variants: packet numbers strictly increase along every deque
   and stay at or below the last number handed out *)
Theorem c13_deque_sorted : forall fx c, reach fx c ->
  forall e, Sorted.StronglySorted Z.lt (map p_pn (s_sent (c_sp c e))) /\
            Forall (fun n => n <= c_lastpn c e) (map p_pn (s_sent (c_sp c e))).
Proof. intro fx. exact reach_InvS. Qed.

(* F15 — the clause "only when a later packet has been acknowledged" was REFUTED on the code as it
   was (variant false): the age disjunct did not look at largest_acked; one packet, no ACK ever,
   declared lost by a tick.  What that variant did satisfy is the coded rule without the bound: *)
Theorem c13_loss_rule_refuted :
  let '(c, outs) := run_ops false (cc_new true 1200 25000000) f15_history in
  exists out, nth_error outs 3 = Some out /\ o_lost out = [(2, 0)] /\
              s_la (c_sp c 2) = None /\ cwnd (c_reno c) = 10800.
Proof. exact p_c13_loss_needs_later_ack_refuted. Qed.

Theorem c13_loss_rule_asis : forall s r ld now s' r' lost pers pn,
  detect_lost false s r ld now = (s', r', lost, pers) -> In pn lost ->
  exists i p, nth_error (s_sent s) (Z.to_nat i) = Some p /\ 0 <= i /\ p_pn p = pn /\ is_inflight p = true /\
    (p_time p < now - ld - s_mad s \/
     i + PACKET_THRESHOLD <= bsearch_idx (s_sent s) (match s_la s with Some n => n | None => 0 end)).
Proof. exact p_c13_loss_rule_asis. Qed.

(* the former F15 witness on the repaired code, as a regression: nothing is reported lost *)
Example c13_f15_regression :
  let '(c, outs) := run_ops true (cc_new true 1200 25000000) f15_history in
  Forall (fun out => o_lost out = []) outs /\ s_la (c_sp c 2) = None /\ cwnd (c_reno c) = 12000 /\
  bif (c_reno c) = 1200.
Proof. exact p_c13_f15_regression. Qed.

(* successive PTO intervals double, for every value of the RTT inputs (F17 fixed by b1af7bb:
   base_pto = (smoothed_rtt + max(4*rttvar, 1ms)) * 2^pto_count), and are positive and strictly growing *)
Theorem c13_pto_doubles : forall ri k, 0 <= k -> base_pto ri (k + 1) = 2 * base_pto ri k.
Proof. exact p_c13_pto_doubles. Qed.

Theorem c13_pto_backoff : forall ri k, 0 <= k -> 0 <= i_srtt ri ->
  0 < base_pto ri k /\ base_pto ri k < base_pto ri (k + 1).
Proof. exact p_c13_pto_backoff. Qed.

(* an expired timer either reports every over-age Inflight packet of the earliest-loss-time space
   (repaired variant: every such packet numbered below the largest acknowledged of that space; and
   only Inflight packets of that space), or — no loss time armed — increments pto_count and,
   when no ack-eliciting packet is in flight, requests exactly one probe *)
Theorem c13_probe_or_resolve : forall fx c ri,
  let '(c', lost, pers) := on_loss_detection_timeout fx c ri in
  match get_loss_time_and_epoch c with
  | Some (_, e) =>
      In e epochs /\ c_pto_count c' = c_pto_count c /\
      (forall p, In p (s_sent (c_sp c e)) -> is_inflight p = true ->
                 (fx = true -> exists la, s_la (c_sp c e) = Some la /\ p_pn p < la) ->
                 p_time p + i_ld ri + s_mad (c_sp c e) < c_now c -> In (e, p_pn p) lost) /\
      (forall x pn, In (x, pn) lost -> x = e /\ ~ noinfl pn (s_sent (c_sp c e)))
  | None =>
      lost = [] /\ c_pto_count c' = c_pto_count c + 1 /\
      (all_no_elic c = true -> need_total c' = need_total c + 1) /\
      (forall e, s_sent (c_sp c' e) = s_sent (c_sp c e))
  end.
Proof. intro fx. exact p_c13_probe_or_resolve. Qed.

(* the connection is abandoned (TooManyPtos) exactly when an expiry leaves pto_count above 6 *)
Theorem c13_too_many_ptos : forall fx c ri,
  let '(c', out) := cc_step fx c ri OpTick in
  (o_result out = 1 <-> (exists t, c_timer c = Some t /\ t <= c_now c) /\ 6 < c_pto_count c') /\
  (o_result out = 1 -> c_dead c' = true).
Proof. intro fx. exact p_c13_too_many_ptos. Qed.

(* the sender does not add in-flight bytes beyond the window (F16 fixed: send_quota =
   min(pacer tokens, cwnd - bytes_in_flight)): after any history, if send_quota grants a positive
   quota while no PTO probe is pending, every burst whose in-flight bytes fit in the quota leaves
   bytes_in_flight <= cwnd *)
Theorem c13_send_within_window : forall fx c ri ri' l, reach fx c -> probe_pending c = false ->
  0 < o_result (snd (cc_step fx c ri OpQuota)) ->
  Forall (fun x => In (fst (fst (fst (fst x)))) epochs) l ->
  burst_bytes l <= o_result (snd (cc_step fx c ri OpQuota)) ->
  let c' := burst fx (fst (cc_step fx c ri OpQuota)) ri' l in
  bif (c_reno c') <= cwnd (c_reno c').
Proof. intro fx. exact p_c13_send_within_window. Qed.

(* except probes (RFC 9002 7.5): with a probe pending the overshoot is at most one datagram *)
Theorem c13_probe_overshoot : forall fx c ri ri' l, reach fx c ->
  0 < o_result (snd (cc_step fx c ri OpQuota)) ->
  Forall (fun x => In (fst (fst (fst (fst x)))) epochs) l ->
  burst_bytes l <= o_result (snd (cc_step fx c ri OpQuota)) ->
  let c' := burst fx (fst (cc_step fx c ri OpQuota)) ri' l in
  bif (c_reno c') <= Z.max (cwnd (c_reno c')) (bif (c_reno c) + c_mtu c).
Proof. intro fx. exact p_c13_probe_overshoot. Qed.

Theorem c13_quota_bound : forall c ri,
  snd (cc_send_quota c ri) <= window_room c /\
  snd (cc_send_quota c ri) <= pc_tokens (c_pacer (fst (cc_send_quota c ri))) /\
  c_reno (fst (cc_send_quota c ri)) = c_reno c.
Proof. exact quota_bound. Qed.

(* the former F16 witness as a regression: the second quota request is refused *)
Example c13_f16_regression :
  let '(c, outs) := run_ops true (cc_new true 1200 25000000) f16_history in
  exists o1 o13, nth_error outs 1 = Some o1 /\ o_result o1 = 12000 /\
              nth_error outs 13 = Some o13 /\ o_result o13 = -1 /\
              bif (c_reno c) = 12000 /\ cwnd (c_reno c) = 12000 /\ pc_tokens (c_pacer c) = 12000.
Proof. exact p_c13_f16_regression. Qed.

(* non-vacuity: a history over three spaces with an ACK of two ranges, a packet-threshold loss, a
   discard and a tick is reachable and satisfies the invariants *)
Example c13_nonvacuous :
  let '(c, outs) := run_ops true (cc_new true 1200 25000000) nonvac_history in
  bif (c_reno c) = total_flight c /\ 2 * 1200 <= cwnd (c_reno c) /\
  (exists out, nth_error outs 11 = Some out /\ o_lost out = [(2, 0); (2, 1)]) /\ r_sat (c_reno c) = false.
Proof. exact p_c13_nonvacuous. Qed.

Print Assumptions c13_bif_exact.
Print Assumptions c13_cwnd_min.
Print Assumptions c13_grow_only_on_ack_outside_recovery.
Print Assumptions c13_once_per_rtt.
Print Assumptions c13_once_per_rtt_step.
Print Assumptions c13_sent_in_the_past.
Print Assumptions c13_run_reach.
Print Assumptions c13_run_cc_is_repaired.
Print Assumptions c13_once_per_rtt_refuted.
Print Assumptions c13_acked_never_lost.
Print Assumptions c13_acked_never_lost_trace.
Print Assumptions c13_loss_rule.
Print Assumptions c13_loss_needs_later_ack.
Print Assumptions c13_deque_sorted.
Print Assumptions c13_loss_rule_refuted.
Print Assumptions c13_loss_rule_asis.
Print Assumptions c13_f15_regression.
Print Assumptions c13_pto_doubles.
Print Assumptions c13_pto_backoff.
Print Assumptions c13_probe_or_resolve.
Print Assumptions c13_too_many_ptos.
Print Assumptions c13_send_within_window.
Print Assumptions c13_probe_overshoot.
Print Assumptions c13_quota_bound.
Print Assumptions c13_f16_regression.
Print Assumptions c13_nonvacuous.
