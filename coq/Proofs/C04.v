(* C04 — proofs about the handler cost models of Model/C04Handlers.v (ACK consumers, packet-number
   jump, implicit stream open) and their link to the list models they abbreviate. *)
From Coq Require Import List ZArith NArith Bool Lia.
From GQ Require Import Model.RcvdJournal Model.SentJournal Model.C04Cid Model.C04Handlers Proofs.C04Cid.
From GQ Require Lib.Wire Lib.FrameTypes Model.Varint Model.Frames Model.StreamCtl Model.Sid.
Import ListNotations.
Local Open Scope Z_scope.

(* ------------------------------------------------------------------ AckFrame::iter *)
Fixpoint ranges_nonneg (rs : list (Z * Z)) : Prop :=
  match rs with [] => True | (g, a) :: r => 0 <= g /\ 0 <= a /\ ranges_nonneg r end.

Definition range_ok (top : Z) (r : Z * Z) : Prop := 0 <= fst r <= snd r /\ snd r <= top.

Lemma iter_tail_covered : forall rs left t, ranges_nonneg rs -> iter_tail left rs = Some t ->
  0 <= covered t <= Z.max 0 (left - 1) /\ Forall (range_ok (left - 2)) t.
Proof.
  induction rs as [|[g a] r IH]; intros left t Hn H; cbn [iter_tail] in H.
  - inversion H; subst. cbn. split; [lia|constructor].
  - destruct Hn as (Hg & Ha & Hr).
    destruct (left <? g) eqn:E1; [discriminate|]. apply Z.ltb_ge in E1.
    destruct (left - g <? 2) eqn:E2; [discriminate|]. apply Z.ltb_ge in E2.
    destruct (left - g - 2 <? a) eqn:E3; [discriminate|]. apply Z.ltb_ge in E3.
    destruct (iter_tail (left - g - 2 - a) r) as [t'|] eqn:E; [|discriminate].
    inversion H; subst. destruct (IH _ _ Hr E) as [C F]. cbn [covered]. split; [lia|].
    constructor.
    + unfold range_ok; cbn [fst snd]. lia.
    + eapply Forall_impl; [|exact F]. intros [lo hi] [A B]. unfold range_ok in *. cbn [fst snd] in *. lia.
Qed.

(* a frame whose iteration succeeds covers at most largest + 1 numbers, all in [0, largest] *)
Lemma ack_iter_covered : forall f rs, 0 <= a_first f -> ranges_nonneg (a_ranges f) ->
  ack_iter f = Some rs ->
  0 <= covered rs <= a_largest f + 1 /\ Forall (range_ok (a_largest f)) rs.
Proof.
  intros f rs Hf Hn H. unfold ack_iter in H.
  destruct (a_largest f <? a_first f) eqn:E; [discriminate|]. apply Z.ltb_ge in E.
  destruct (iter_tail (a_largest f - a_first f) (a_ranges f)) as [t|] eqn:T; [|discriminate].
  inversion H; subst. destruct (iter_tail_covered _ _ _ Hn T) as [C F]. cbn [covered]. split; [lia|].
  constructor.
  - unfold range_ok; cbn [fst snd]. lia.
  - eapply Forall_impl; [|exact F]. intros [lo hi] [A B]. unfold range_ok in *. cbn [fst snd] in *. lia.
Qed.

(* the parser's check is exactly "the iteration succeeds" *)
Lemma ranges_valid_iter : forall rs left,
  Frames.ack_ranges_valid left rs = true <-> iter_tail left rs <> None.
Proof.
  induction rs as [|[g a] r IH]; intro left; cbn [Frames.ack_ranges_valid iter_tail].
  - split; [discriminate|reflexivity].
  - destruct (left <? g); [split; [discriminate|intro H; now elim H]|].
    destruct (left - g <? 2); [split; [discriminate|intro H; now elim H]|].
    destruct (left - g - 2 <? a); [split; [discriminate|intro H; now elim H]|].
    rewrite IH. destruct (iter_tail (left - g - 2 - a) r); split; intro H; try discriminate; auto.
Qed.

Lemma ack_valid_iter : forall l d fr rs,
  Frames.ack_valid l fr rs = true <-> ack_iter (mkack l d fr rs) <> None.
Proof.
  intros l d fr rs. unfold Frames.ack_valid, ack_iter. cbn [a_largest a_first a_ranges].
  destruct (l <? fr); [split; [discriminate|intro H; now elim H]|].
  rewrite ranges_valid_iter. destruct (iter_tail (l - fr) rs); split; intro H; try discriminate; auto.
Qed.

(* complete_frame's ACK arm only delivers frames that pass the check … *)
Lemma be_body_ack_valid : forall ecn bs f rest,
  Frames.be_body (FrameTypes.TAck ecn) bs = Wire.Ok f rest ->
  match f with Frames.Ack l d fr rs _ => ack_iter (mkack l d fr rs) <> None | _ => True end.
Proof.
  intros ecn bs f rest. cbn [Frames.be_body]. unfold Wire.bind at 1.
  destruct (Frames.be_ack ecn bs) as [f' r'| | |]; try discriminate.
  unfold Frames.ack_verify. destruct f'; unfold Wire.ret; intro H; try (inversion H; subst; exact I).
  destruct (Frames.ack_valid largest first ranges) eqn:V; [|discriminate].
  inversion H; subst. apply (ack_valid_iter largest delay first ranges). exact V.
Qed.

(* … and rejects the others with nom's Verify *)
Lemma be_body_ack_rejects : forall ecn bs l d fr rs e rest,
  Frames.be_ack ecn bs = Wire.Ok (Frames.Ack l d fr rs e) rest ->
  ack_iter (mkack l d fr rs) = None ->
  Frames.be_body (FrameTypes.TAck ecn) bs = Wire.Bad Wire.EK_Verify.
Proof.
  intros ecn bs l d fr rs e rest H N. cbn [Frames.be_body]. unfold Wire.bind at 1. rewrite H.
  cbn [Frames.ack_verify]. destruct (Frames.ack_valid l fr rs) eqn:V; [|reflexivity].
  apply (ack_valid_iter l d fr rs) in V. now elim V.
Qed.

Lemma be_frame_ack_valid : forall p bs c f ecn,
  Frames.be_frame p bs = Frames.FOk c f (FrameTypes.TAck ecn) ->
  match f with Frames.Ack l d fr rs _ => ack_iter (mkack l d fr rs) <> None | _ => True end.
Proof.
  intros p bs c f ecn. unfold Frames.be_frame.
  destruct (Varint.be_varint bs) as [code rest| | |s']; try discriminate.
  destruct (Frames.ft_of_code code) as [t'|]; [|discriminate].
  destruct (negb (Frames.belongs t' p)); [discriminate|].
  destruct (Frames.be_body t' rest) as [f' r| | |s'] eqn:Eb; try discriminate.
  intro H. inversion H; subst. eapply be_body_ack_valid. exact Eb.
Qed.

(* ------------------------------------------------------------------ the sent-side walk *)
Lemma tri_le : forall n, 0 <= n -> 0 <= tri n <= n * n.
Proof.
  intros n H. unfold tri. destruct (Z.eq_dec n 0) as [->|N]; [cbn; lia|].
  assert (0 <= n * (n - 1)) by nia.
  split; [apply Z.div_pos; lia|].
  apply Z.div_le_upper_bound; nia.
Qed.

Lemma walk_range_bound : forall off len lo hi, 0 <= len -> lo <= hi ->
  0 <= walk_range off len lo hi <= (hi - lo + 1) * len.
Proof.
  intros off len lo hi Hl Hr. unfold walk_range.
  set (a := Z.max lo off). set (b2 := Z.min hi (off + len - 1)).
  set (n2 := Z.max 0 (b2 - a + 1)). set (c := Z.max lo (off + len)). set (n3 := Z.max 0 (hi - c + 1)).
  assert (Hn2 : 0 <= n2) by (unfold n2; lia). assert (Hn3 : 0 <= n3) by (unfold n3; lia).
  assert (Hsum : n2 + n3 <= hi - lo + 1) by (unfold n2, n3, a, b2, c; lia).
  assert (Ha : 0 <= a - off) by (unfold a; lia).
  assert (H2 : n2 = 0 \/ a - off + (n2 - 1) <= len - 1) by (unfold n2, a, b2; lia).
  clearbody n2 n3 a b2 c.
  assert (Z2 : 0 <= n2 * (a - off) + tri n2 <= n2 * len).
  { destruct (Z.eq_dec n2 0) as [E|E].
    - rewrite E. unfold tri. cbn. lia.
    - destruct H2 as [H2|H2]; [contradiction|].
      assert (P0 : 0 <= n2 * (n2 - 1)) by (apply Z.mul_nonneg_nonneg; lia).
      assert (T : 0 <= tri n2 <= n2 * (n2 - 1)).
      { unfold tri. split; [apply Z.div_pos; lia|apply Z.div_le_upper_bound; lia]. }
      assert (P1 : 0 <= n2 * (a - off)) by (apply Z.mul_nonneg_nonneg; lia).
      assert (P2 : n2 * (a - off + (n2 - 1)) <= n2 * (len - 1)) by (apply Z.mul_le_mono_nonneg_l; lia).
      assert (P3 : n2 * (len - 1) <= n2 * len) by (apply Z.mul_le_mono_nonneg_l; lia).
      rewrite Z.mul_add_distr_l in P2. lia. }
  assert (M : (n2 + n3) * len <= (hi - lo + 1) * len) by (apply Z.mul_le_mono_nonneg_r; lia).
  assert (P : 0 <= n3 * len) by (apply Z.mul_nonneg_nonneg; lia).
  rewrite Z.mul_add_distr_r in M. lia.
Qed.

Lemma walk_bound : forall off len rs top, 0 <= len -> Forall (range_ok top) rs ->
  0 <= walk off len rs <= covered rs * len /\ 0 <= covered rs.
Proof.
  intros off len rs top Hl. induction 1 as [|[lo hi] r [A B] F IH]; cbn [walk covered].
  - lia.
  - cbn [fst snd] in A. pose proof (walk_range_bound off len lo hi Hl ltac:(lia)) as Wr.
    destruct IH as [[I0 I1] I2]. rewrite Z.mul_add_distr_r. lia.
Qed.

(* ------------------------------------------------------------------ resize keeps the next number *)
Lemma resize_count_le : forall now l n f, resize_count now l = (n, f) -> (n <= length l)%nat.
Proof.
  induction l as [|s r IH]; intros n f H; cbn [resize_count] in H.
  - inversion H; subst. cbn. lia.
  - destruct (should_remain_after now s).
    + inversion H; subst. cbn. lia.
    + destruct (resize_count now r) as [n1 f1] eqn:E. inversion H; subst. specialize (IH _ _ eq_refl). cbn. lia.
Qed.

Lemma resize_or_next : forall j now,
  s_next (resize_or j now) = s_next j /\ sj_len (resize_or j now) <= sj_len j /\ s_off j <= s_off (resize_or j now).
Proof.
  intros j now. unfold resize_or, resize.
  destruct (resize_count now (s_recs j)) as [n f] eqn:E. pose proof (resize_count_le _ _ _ _ E) as L.
  destruct (length (s_queue j) <? f)%nat; [unfold sj_len; lia|].
  unfold s_next, sj_len. cbn [s_off s_recs]. rewrite skipn_length. lia.
Qed.

(* ------------------------------------------------------------------ the ACK theorems *)
(* fixed dispatcher, fixed comparison *)
Definition deliver := deliver_ack true true.

Lemma p_c04_ack_unsent_rejected : forall cc_len now rj sj f,
  s_next sj <= a_largest f ->
  deliver cc_len now rj sj f = mkao false E_PROTOCOL_VIOLATION 0 0 0 1 0 0 /\
  apply_ack true true now rj sj f = (rj, sj).
Proof.
  intros cc_len now rj sj f H.
  assert (D : forall c, deliver_ack true true c now rj sj f = mkao false E_PROTOCOL_VIOLATION 0 0 0 1 0 0).
  { intro c. unfold deliver_ack, upd_largest.
    assert (E : (s_next sj <=? a_largest f) = true) by (apply Z.leb_le; lia). rewrite E. reflexivity. }
  split; [apply D|]. unfold apply_ack. rewrite D. reflexivity.
Qed.

Lemma upd_largest_recs : forall f8 j l, s_recs (fst (upd_largest f8 j l)) = s_recs j /\
  s_off (fst (upd_largest f8 j l)) = s_off j /\ s_queue (fst (upd_largest f8 j l)) = s_queue j.
Proof. intros. unfold upd_largest. destruct (if f8 then _ else _); cbn; auto. Qed.

Lemma p_c04_ack_cost : forall cc_len now rj sj f rs,
  0 <= cc_len -> 0 <= a_first f -> ranges_nonneg (a_ranges f) -> 0 <= s_off sj ->
  ack_iter f = Some rs ->
  let o := deliver cc_len now rj sj f in
  ao_panic o = false /\
  (ao_err o = 0 \/ ao_err o = E_PROTOCOL_VIOLATION /\ ao_ticks o = 0 /\ ao_collected o = 0) /\
  ao_cost o <= s_next sj * (sj_len sj + 4) + 2 * (sj_len sj + cc_len + r_len rj) + zlen (r_incl rj) + 6.
Proof.
  intros cc_len now rj sj f rs Hcc Hf Hn Hoff Hit. cbn zeta. unfold deliver, deliver_ack.
  assert (HL : 0 <= sj_len sj) by (unfold sj_len; lia).
  assert (HR : 0 <= r_len rj) by (unfold r_len; lia).
  assert (HI : 0 <= zlen (r_incl rj)) by apply zlen_nonneg.
  assert (HN : 0 <= s_next sj) by (unfold s_next; lia).
  destruct (snd (upd_largest true sj (a_largest f))) eqn:U; cbn [negb].
  2:{ cbn [ao_panic ao_err ao_ticks ao_collected ao_cost]. split; [reflexivity|]. split; [right; auto|].
      assert (0 <= s_next sj * (sj_len sj + 4)) by (apply Z.mul_nonneg_nonneg; lia). lia. }
  rewrite Hit.
  assert (Hlt : a_largest f < s_next sj).
  { unfold upd_largest in U. destruct (s_next sj <=? a_largest f) eqn:E; [discriminate|]. now apply Z.leb_gt in E. }
  destruct (ack_iter_covered f rs Hf Hn Hit) as [[C0 C1] F].
  set (sj1 := resize_or (fst (upd_largest true sj (a_largest f))) now).
  destruct (resize_or_next (fst (upd_largest true sj (a_largest f))) now) as (R1 & R2 & R3).
  destruct (upd_largest_recs true sj (a_largest f)) as (Q1 & Q2 & Q3).
  assert (L1 : sj_len sj1 <= sj_len sj) by (unfold sj1; unfold sj_len in *; rewrite Q1 in R2; lia).
  assert (L0 : 0 <= sj_len sj1) by (unfold sj_len; lia).
  assert (Tk : 0 <= cc_ticks cc_len rs <= covered rs) by (unfold cc_ticks; destruct (cc_len =? 0); lia).
  destruct (walk_bound (s_off sj1) (sj_len sj1) rs (a_largest f) L0 F) as [[W0 W1] _].
  assert (U2 : snd (upd_largest true sj1 (a_largest f)) = true).
  { unfold upd_largest at 1. assert (E : s_next sj1 = s_next sj).
    { unfold sj1. rewrite R1. unfold s_next. now rewrite Q1, Q2. }
    rewrite E. destruct (s_next sj <=? a_largest f) eqn:E3; [apply Z.leb_le in E3; lia|reflexivity]. }
  rewrite U2. cbn [negb ao_panic ao_err ao_ticks ao_collected ao_cost].
  split; [reflexivity|]. split; [left; reflexivity|].
  unfold cost_cc, cost_rj, cost_sent. unfold zlen in *.
  assert (M1 : covered rs * sj_len sj1 <= s_next sj * sj_len sj) by (apply Z.mul_le_mono_nonneg; lia).
  rewrite Z.mul_add_distr_l. lia.
Qed.

(* ------------------------------------------------------------------ frame level: negative numbers *)
(* with the parser check in place the ACK arm of the dispatcher never meets the underflow *)
Lemma p_c04_ack_negative_no_panic : forall bs c l d fr rs e t,
  parse_frame true bs = Frames.FOk c (Frames.Ack l d fr rs e) t ->
  (match t with FrameTypes.TAck _ => True | _ => False end) ->
  ack_iter (mkack l d fr rs) <> None.
Proof.
  intros bs c l d fr rs e t H Ht. unfold parse_frame in H.
  destruct (Frames.be_frame FrameTypes.POneRtt bs) as [c' f' t'|e'|s'] eqn:B; try discriminate.
  - inversion H; subst. destruct t; try contradiction.
    exact (be_frame_ack_valid _ _ _ _ _ B).
  - destruct e'; discriminate.
Qed.

(* a frame the parser refuses costs one unit, reports FRAME_ENCODING_ERROR and leaves every handler's
   state as it was *)
Lemma p_c04_parse_error : forall s cc_len bs e,
  parse_frame (h_f7 s) bs = Frames.FErr e ->
  frame_outcome s cc_len bs = mko [0; E_FRAME_ENCODING] 1 0 0 true 0 /\ frame_apply s bs = s.
Proof.
  intros s cc_len bs e H. unfold frame_outcome, frame_apply. rewrite H. auto.
Qed.

(* an ACK-typed frame with a negative computed number is such a frame *)
Lemma p_c04_ack_negative_rejected : forall p code ecn bs rest l d fr rs e r,
  Varint.be_varint bs = Wire.Ok code rest ->
  Frames.ft_of_code code = Some (FrameTypes.TAck ecn) ->
  Frames.belongs (FrameTypes.TAck ecn) p = true ->
  Frames.be_ack ecn rest = Wire.Ok (Frames.Ack l d fr rs e) r ->
  ack_iter (mkack l d fr rs) = None ->
  Frames.be_frame p bs = Frames.FErr FrameTypes.EParseError.
Proof.
  intros p code ecn bs rest l d fr rs e r Hv Hc Hb Ha Hn. unfold Frames.be_frame.
  rewrite Hv, Hc, Hb. cbn [negb]. rewrite (be_body_ack_rejects _ _ _ _ _ _ _ _ Ha Hn). reflexivity.
Qed.

(* ------------------------------------------------------------------ the variants before the fixes *)
Definition sj5 : sjournal := send_n 5 sj_new 0.

(* F8: `>` accepted an acknowledgement of the next, unsent, packet number *)
Lemma p_c04_f8_refuted :
  exists sj f, s_next sj <= a_largest f /\ ao_err (deliver_ack true false 1 0 (rj_new None) sj f) = 0.
Proof. exists sj5, (mkack 5 0 0 []). split; vm_compute; [discriminate|reflexivity]. Qed.

(* F22: in the old order the controller steps through 2^62 numbers before the frame is rejected *)
Lemma p_c04_f22_refuted :
  exists sj f, s_next sj <= a_largest f /\
    let o := deliver_ack false true 1 0 (rj_new None) sj f in
    ao_err o = E_PROTOCOL_VIOLATION /\ ao_ticks o = 2^62 /\ 2^62 < ao_cost o.
Proof.
  exists sj5, (mkack (2^62 - 1) 0 (2^62 - 1) []). split; [vm_compute; discriminate|].
  vm_compute. repeat split; reflexivity.
Qed.

(* F7: without the parser check the frame `02 03 00 00 0a` reaches the consumers and AckFrame::iter
   underflows *)
Definition after_5_sent (cfg : list Z) : hst := fst (h_step (h_init cfg) 1%N [0; 0; 0; 5]).
Lemma p_c04_f7_refuted :
  exists bs, parse_frame false bs <> parse_frame true bs /\
    o_words (frame_outcome (after_5_sent [1; 2; 3; 3; 0; 1]) 1 bs) = [PANIC_W] /\
    o_words (frame_outcome (after_5_sent [1; 2; 3; 3; 1; 1]) 1 bs) = [0; E_FRAME_ENCODING].
Proof. exists [2; 3; 0; 0; 10]. vm_compute. split; [discriminate|split; reflexivity]. Qed.

(* ------------------------------------------------------------------ packet-number jump *)
Lemma set_nth_length {A} : forall n (x : A) l, length (set_nth n x l) = length l.
Proof. induction n; destruct l; cbn; auto. Qed.

(* the cells counted are the cells the journal model appends *)
Lemma p_c04_pn_cells : forall j now pn el pto j',
  0 <= r_off j -> on_rcvd_pn j now pn el pto = Some j' ->
  r_len j' = r_len j + pn_cells j pn /\ r_off j' = r_off j.
Proof.
  intros j now pn el pto j' Hoff. unfold on_rcvd_pn, pn_cells.
  destruct ((r_off j <=? pn) && (pn <? r_next j)) eqn:C.
  - intro H; inversion H; subst. unfold r_len; cbn [r_recs r_off]. rewrite set_nth_length. lia.
  - destruct (LIMIT <? pn); [discriminate|].
    destruct (pn <? r_off j) eqn:E.
    + intro H; inversion H; subst. unfold r_len; cbn [r_recs r_off]. lia.
    + apply Z.ltb_ge in E. intro H; inversion H; subst. unfold r_len, r_next, r_len in *; cbn [r_recs r_off].
      rewrite !app_length, repeat_length. cbn [length].
      apply andb_false_iff in C. destruct C as [C|C]; [apply Z.leb_gt in C; lia|apply Z.ltb_ge in C].
      unfold r_next, r_len in C. lia.
Qed.

Lemma p_c04_pn_jump_value_bound : forall j pn, pn_cost j pn <= Z.max 0 (pn - r_next j + 1) + 2.
Proof.
  intros j pn. unfold pn_cost, pn_cells.
  destruct ((r_off j <=? pn) && (pn <? r_next j)); [lia|]. destruct (pn <? r_off j); lia.
Qed.

Lemma p_c04_pn_jump_cost : forall K j pn, 0 <= K -> pn - r_next j <= K -> pn_cost j pn <= K + 3.
Proof. intros K j pn HK H. pose proof (p_c04_pn_jump_value_bound j pn). lia. Qed.

(* REFUTED: a 4-byte packet number is 4 bytes on the wire, the fresh journal holds nothing *)
Lemma p_c04_pn_jump_cost_refuted : forall c c', 0 <= c -> 0 <= c' ->
  exists pn, 0 <= pn /\ c * (4 + r_len (rj_new None)) + c' < pn_cost (rj_new None) pn.
Proof.
  intros c c' Hc Hc'. exists (c * 4 + c'). split; [lia|].
  unfold pn_cost, pn_cells, r_next, r_len, rj_new; cbn [r_off r_recs length].
  change (Z.of_nat 0) with 0.
  destruct ((0 <=? c * 4 + c') && (c * 4 + c' <? 0 + 0)) eqn:E.
  - apply andb_true_iff in E. destruct E as [_ E]. apply Z.ltb_lt in E. lia.
  - destruct (c * 4 + c' <? 0) eqn:E2; [apply Z.ltb_lt in E2; lia|]. lia.
Qed.

(* the concrete witness replayed on the implementation: after packets 0 and 1 a 4-byte number
   65536 is accepted by decode_pn and costs 65535 new records *)
Definition rj01 : rjournal :=
  match on_rcvd_pn (rj_new (Some 25)) 0 0 true 100 with
  | Some j => match on_rcvd_pn j 0 1 true 100 with Some j' => j' | None => j end
  | None => rj_new None
  end.
Lemma p_c04_f9_witness :
  decode_pn rj01 (U32 65536) = DpnOk 65536 /\ pn_cells rj01 65536 = 65535 /\
  decode_pn rj01 (U32 (2^31 - 1)) = DpnOk (2^31 - 1) /\ pn_cells rj01 (2^31 - 1) = 2^31 - 2.
Proof. vm_compute. repeat split; reflexivity. Qed.

(* ------------------------------------------------------------------ streams *)
Lemma range_nat_length : forall n start, length (Sid.range_nat start n) = n.
Proof. induction n; intro; cbn; auto. Qed.

(* the implicit open creates at most (our own limit + 1) streams, whatever the stream id says *)
Lemma p_c04_implicit_open_cost : forall d f,
  streams_created d f <=
    Z.of_N (N.max (fst (Sid.r_max (StreamCtl.d_r d))) (snd (Sid.r_max (StreamCtl.d_r d)))) + 1.
Proof.
  intros d f. unfold streams_created.
  destruct (stream_target f) as [[sid side]|]; [|lia].
  destruct (Sid.role_eqb _ _); [lia|].
  destruct (negb side && Sid.dir_eqb (Sid.sid_dir sid) Sid.Uni); [lia|].
  unfold Sid.try_accept_sid.
  set (mx := Sid.pget (Sid.r_max (StreamCtl.d_r d)) (Sid.sid_dir sid)).
  assert (Hmx : (mx <= N.max (fst (Sid.r_max (StreamCtl.d_r d))) (snd (Sid.r_max (StreamCtl.d_r d))))%N).
  { unfold mx, Sid.pget. destruct (Sid.sid_dir sid); lia. }
  destruct (Sid.over_limit false (Sid.sid_idx sid) mx) eqn:O; [lia|].
  unfold Sid.over_limit in O. apply N.ltb_ge in O.
  destruct (Sid.sid_idx sid <? Sid.pget (Sid.r_next (StreamCtl.d_r d)) (Sid.sid_dir sid))%N eqn:L; [lia|].
  cbn [Sid.ctrl_on_accept]. destruct (Sid.apply_up _ _ _ _) as [mx' adv]. unfold Sid.need_create. rewrite range_nat_length. lia.
Qed.

(* a stream id beyond the limit: STREAM_LIMIT_ERROR, nothing created *)
Lemma p_c04_stream_limit : forall d sid off len fin,
  StreamCtl.d_closed d = false ->
  Sid.role_eqb (Sid.sid_role sid) (StreamCtl.d_role d) = false ->
  (Sid.pget (Sid.r_max (StreamCtl.d_r d)) (Sid.sid_dir sid) < Sid.sid_idx sid)%N ->
  hd 0 (snd (StreamCtl.ds_step StreamCtl.fixed d (StreamCtl.OStream sid off len fin))) = E_STREAM_LIMIT /\
  StreamCtl.d_closed (fst (StreamCtl.ds_step StreamCtl.fixed d (StreamCtl.OStream sid off len fin))) = true.
Proof.
  intros d sid off len fin Hc Hr Hl. unfold StreamCtl.ds_step. rewrite Hc.
  unfold StreamCtl.ds_recv_stream, StreamCtl.ds_check_sid. rewrite Hr. cbn [negb].
  unfold StreamCtl.ds_try_accept, Sid.try_accept_sid, Sid.over_limit.
  apply N.ltb_lt in Hl. rewrite Hl. cbn. auto.
Qed.

(* MAX_STREAMS above 2^60 - 1 never leaves the parser *)
Lemma p_c04_max_streams_limit : forall u bs f rest,
  Frames.be_body (FrameTypes.TMaxStreams u) bs = Wire.Ok f rest ->
  match f with Frames.MaxStreams _ v => v <= Frames.MAX_STREAMS_LIMIT | _ => True end.
Proof.
  intros u bs f rest. cbn [Frames.be_body]. unfold Wire.bind.
  destruct (Varint.be_varint bs) as [v r| | |]; try discriminate.
  destruct (Frames.MAX_STREAMS_LIMIT <? v) eqn:E; [discriminate|].
  unfold Wire.ret. intro H; inversion H; subst. now apply Z.ltb_ge in E.
Qed.

(* ------------------------------------------------------------------ [covered] counts the numbers iterated *)
(* `ack_frame.iter().flat_map(|r| r.rev())`: every packet number of every range, largest first *)
Fixpoint expand (rs : list (Z * Z)) : list Z :=
  match rs with
  | [] => []
  | (lo, hi) :: r => down_from hi (Z.to_nat (hi - lo + 1)) ++ expand r
  end.

Lemma down_from_length : forall n hi, length (down_from hi n) = n.
Proof. induction n; intro; cbn; auto. Qed.

Lemma p_c04_covered_is_expansion : forall rs top, Forall (range_ok top) rs ->
  Z.of_nat (length (expand rs)) = covered rs.
Proof.
  intros rs top. induction 1 as [|[lo hi] r [A B] F IH]; cbn [expand covered]; [reflexivity|].
  cbn [fst snd] in A. rewrite app_length, down_from_length, Nat2Z.inj_add, IH. rewrite Z2Nat.id by lia. reflexivity.
Qed.

(* the state transformer expands only the part of the ranges inside the tracked window *)
Lemma window_pns_length : forall off next rs top, off <= next -> Forall (range_ok top) rs ->
  Z.of_nat (length (window_pns off next rs)) <= Z.of_nat (length rs) * (next - off).
Proof.
  intros off next rs top Hon. induction 1 as [|[lo hi] r [A B] F IH]; cbn [window_pns length]; [lia|].
  rewrite app_length, down_from_length. rewrite Nat2Z.inj_add, Nat2Z.inj_succ.
  assert (Z.of_nat (Z.to_nat (Z.min hi (next - 1) - Z.max lo off + 1)) <= next - off) by lia.
  lia.
Qed.
