//! Correspondence stream `streams` (C12, C11): drives the REAL `qrecovery::streams::DataStreams`
//! together with the public `qbase::flow::FlowController`, glued exactly like
//! `qconnection::space::FlowControlledDataStreams` (recv_* then `on_new_rcvd(fresh)`).
//!
//! CASE cfg: role mode ctrl  L[6]  R[6]  M[6]
//!   role 0 client / 1 server; mode 1 = client holding remembered (0-RTT) parameters M;
//!   ctrl 0 ConsistentConcurrency / 1 DemandConcurrency;
//!   each parameter block = max_streams_bidi max_streams_uni max_data sd_bidi_local sd_bidi_remote sd_uni
//!   (L = ours, R = the peer's real ones, delivered by HANDSHAKE)
//! ops:
//!   0 HANDSHAKE rejected        peer parameters arrive; revise_params + revise_max_data
//!   1 OPEN dir                  poll open_bi/open_uni once
//!   2 WRITE sid len             Writer::poll_write once
//!   3 SHUTDOWN sid              Writer::poll_shutdown once
//!   4 READ sid n                Reader::poll_read once into n bytes
//!   5 ACCEPT dir                poll accept_bi/accept_uni once
//!   6 LOAD cap                  try_load_data_into a packet of `cap` bytes
//!   7 STREAM sid off len fin | 8 RESET sid err final | 9 STOP sid err | 10 MAXSD sid v
//!   11 MAXSTREAMS dir v | 12 SBLOCKED dir v | 13 MAXDATA v | 14 SDBLOCKED sid v   (peer frames)
//!   15 LOSE k                   k-th emitted STREAM frame declared lost
//! observation: op-specific result words, then the frames emitted during the op, 5 words each:
//!   1 STREAM sid off len fin | 2 RESET sid err final | 3 STOP sid err | 4 MAXSD sid v
//!   5 MAXSTREAMS dir v | 6 SBLOCKED dir v | 7 MAXDATA v | 8 DATABLOCKED v | 9 SDBLOCKED sid v
//! After the first connection error every later op answers `-1` (the connection is gone).
use std::collections::BTreeMap;
use std::future::Future;
use std::pin::Pin;
use std::sync::{Arc, Mutex};
use std::task::{Context, Poll};

use bytes::{BufMut, Bytes, buf::UninitSlice};
use hproto::{Obs, Op, content_slice};
use qbase::{
    cid::ConnectionId,
    error::{Error, ErrorKind},
    flow::FlowController,
    frame::{
        DataBlockedFrame, Frame, GetFrameType, MaxDataFrame, MaxStreamDataFrame, MaxStreamsFrame,
        ResetStreamFrame, StopSendingFrame, StreamCtlFrame, StreamDataBlockedFrame, StreamFrame,
        StreamsBlockedFrame,
        io::{ReceiveFrame, SendFrame},
    },
    net::tx::ArcSendWakers,
    packet::RecordFrame,
    param::{ArcParameters, ClientParameters, ParameterId, Parameters, ServerParameters},
    role::Role,
    sid::{
        ControlStreamsConcurrency, Dir, StreamId,
        handy::{ConsistentConcurrency, DemandConcurrency},
    },
    util::ContinuousData,
    varint::VarInt,
};
use qrecovery::{
    recv::Reader,
    send::Writer,
    streams::{DataStreams, Ext},
};

type W = [i128; 5];

#[derive(Clone, Default, Debug)]
struct Tx(Arc<Mutex<Vec<W>>>);

fn sid_u(s: StreamId) -> i128 {
    u64::from(s) as i128
}

impl SendFrame<StreamCtlFrame> for Tx {
    fn send_frame<I: IntoIterator<Item = StreamCtlFrame>>(&self, iter: I) {
        let mut g = self.0.lock().unwrap();
        for f in iter {
            g.push(match f {
                StreamCtlFrame::ResetStream(r) => [
                    2,
                    sid_u(r.stream_id()),
                    r.app_error_code() as i128,
                    r.final_size() as i128,
                    0,
                ],
                StreamCtlFrame::StopSending(r) => {
                    [3, sid_u(r.stream_id()), r.app_err_code() as i128, 0, 0]
                }
                StreamCtlFrame::MaxStreamData(r) => {
                    [4, sid_u(r.stream_id()), r.max_stream_data() as i128, 0, 0]
                }
                StreamCtlFrame::MaxStreams(MaxStreamsFrame::Bi(v)) => {
                    [5, 0, v.into_u64() as i128, 0, 0]
                }
                StreamCtlFrame::MaxStreams(MaxStreamsFrame::Uni(v)) => {
                    [5, 1, v.into_u64() as i128, 0, 0]
                }
                StreamCtlFrame::StreamsBlocked(StreamsBlockedFrame::Bi(v)) => {
                    [6, 0, v.into_u64() as i128, 0, 0]
                }
                StreamCtlFrame::StreamsBlocked(StreamsBlockedFrame::Uni(v)) => {
                    [6, 1, v.into_u64() as i128, 0, 0]
                }
                StreamCtlFrame::StreamDataBlocked(r) => {
                    [9, sid_u(r.stream_id()), r.maximum_stream_data() as i128, 0, 0]
                }
            });
        }
    }
}
impl SendFrame<MaxDataFrame> for Tx {
    fn send_frame<I: IntoIterator<Item = MaxDataFrame>>(&self, iter: I) {
        let mut g = self.0.lock().unwrap();
        for f in iter {
            g.push([7, f.max_data() as i128, 0, 0, 0]);
        }
    }
}
impl SendFrame<DataBlockedFrame> for Tx {
    fn send_frame<I: IntoIterator<Item = DataBlockedFrame>>(&self, iter: I) {
        let mut g = self.0.lock().unwrap();
        for f in iter {
            g.push([8, f.limit() as i128, 0, 0, 0]);
        }
    }
}

/// packet stand-in: a bounded byte sink that records the STREAM frames written into it
struct Cap {
    left: usize,
    buf: Vec<u8>,
    frames: Vec<StreamFrame>,
}
unsafe impl BufMut for Cap {
    fn remaining_mut(&self) -> usize {
        self.left
    }
    unsafe fn advance_mut(&mut self, cnt: usize) {
        assert!(cnt <= self.left);
        self.left -= cnt;
        unsafe { self.buf.advance_mut(cnt) };
        if self.buf.len() > 1 << 16 {
            self.buf.clear();
        }
    }
    fn chunk_mut(&mut self) -> &mut UninitSlice {
        if self.buf.capacity() == self.buf.len() {
            self.buf.reserve(4096);
        }
        let c = self.buf.chunk_mut();
        let n = c.len().min(self.left);
        &mut c[..n]
    }
}
impl<D: ContinuousData> RecordFrame<Frame<D>, D> for Cap {
    fn record_frame(&mut self, frame: &Frame<D>) {
        if let Frame::Stream(f, _) = frame {
            self.frames.push(*f);
        }
    }
}

struct St {
    role: Role,
    ds: DataStreams<Tx>,
    flow: &'static FlowController<Tx>,
    params: ArcParameters,
    remote: [u64; 6],
    tx: Tx,
    hs_done: bool,
    closed: bool,
    writers: BTreeMap<u64, Writer<Ext<Tx>>>,
    readers: BTreeMap<u64, Reader<Ext<Tx>>>,
    emitted: Vec<StreamFrame>,
    /// set while an operation runs: still set when the state is dropped = the operation panicked
    in_op: bool,
}

/// A panic inside an operation (caught by `hproto::run`, reported as `! panic <op>`) can leave a
/// sender / receiver mutex poisoned; `Writer::drop` / `Reader::drop` lock it and would panic a second
/// time, outside `catch_unwind`, when the case state is dropped.  After a panic the stream handles
/// are leaked instead of dropped, so that the process goes on with the next case.
impl Drop for St {
    fn drop(&mut self) {
        if self.in_op {
            std::mem::forget(std::mem::take(&mut self.writers));
            std::mem::forget(std::mem::take(&mut self.readers));
        }
    }
}

fn vi(v: u64) -> VarInt {
    VarInt::from_u64(v).expect("varint")
}

fn fill<R: qbase::role::IntoRole + Default>(p: &mut qbase::param::core::Parameters<R>, v: &[u64]) {
    use ParameterId::*;
    p.set(InitialMaxStreamsBidi, vi(v[0])).unwrap();
    p.set(InitialMaxStreamsUni, vi(v[1])).unwrap();
    p.set(InitialMaxData, vi(v[2])).unwrap();
    p.set(InitialMaxStreamDataBidiLocal, vi(v[3])).unwrap();
    p.set(InitialMaxStreamDataBidiRemote, vi(v[4])).unwrap();
    p.set(InitialMaxStreamDataUni, vi(v[5])).unwrap();
}

fn new_case(words: &[&str]) -> St {
    let c: Vec<u64> = words.iter().map(|w| w.parse::<u64>().expect("cfg")).collect();
    assert!(c.len() >= 21, "cfg needs 21 words");
    let role = if c[0] == 0 { Role::Client } else { Role::Server };
    let mode = c[1];
    let local = &c[3..9];
    let remote: [u64; 6] = c[9..15].try_into().unwrap();
    let remem = &c[15..21];
    let ctrl: Box<dyn ControlStreamsConcurrency> = if c[2] == 0 {
        Box::new(ConsistentConcurrency::new(local[0], local[1]))
    } else {
        Box::new(DemandConcurrency)
    };
    let tx = Tx::default();
    let wakers = ArcSendWakers::default();
    let cid_c = ConnectionId::from_slice(b"client__");
    let cid_s = ConnectionId::from_slice(b"server__");
    let odcid = ConnectionId::from_slice(b"odcid___");
    let (ds, params, peer_md) = match role {
        Role::Client => {
            let mut lp = ClientParameters::default();
            fill(&mut lp, local);
            lp.set(ParameterId::InitialSourceConnectionId, cid_c).unwrap();
            let remembered = if mode == 1 {
                let mut m = ServerParameters::default();
                fill(&mut m, remem);
                Some(m)
            } else {
                None
            };
            let rp0 = remembered.clone().unwrap_or_default();
            let ds = DataStreams::new(role, &lp, &rp0, ctrl, tx.clone(), wakers.clone(), None);
            let md = if mode == 1 { remem[2] } else { 0 };
            (ds, ArcParameters::from(Parameters::new_client(lp, remembered, odcid)), md)
        }
        Role::Server => {
            let mut lp = ServerParameters::default();
            fill(&mut lp, local);
            lp.set(ParameterId::InitialSourceConnectionId, cid_s).unwrap();
            lp.set(ParameterId::OriginalDestinationConnectionId, odcid).unwrap();
            let rp0 = ClientParameters::default();
            let ds = DataStreams::new(role, &lp, &rp0, ctrl, tx.clone(), wakers.clone(), None);
            (ds, ArcParameters::from(Parameters::new_server(lp)), 0)
        }
    };
    let flow: &'static FlowController<Tx> =
        Box::leak(Box::new(FlowController::new(peer_md, local[2], tx.clone(), wakers)));
    St {
        role,
        ds,
        flow,
        params,
        remote,
        tx,
        hs_done: false,
        closed: false,
        writers: BTreeMap::new(),
        readers: BTreeMap::new(),
        emitted: Vec::new(),
        in_op: false,
    }
}

fn kind_code(k: ErrorKind) -> i128 {
    match k {
        ErrorKind::FlowControl => 3,
        ErrorKind::StreamLimit => 4,
        ErrorKind::StreamState => 5,
        ErrorKind::FinalSize => 6,
        ErrorKind::Internal => 1,
        ErrorKind::ProtocolViolation => 10,
        _ => 99,
    }
}

fn poll_once<F: Future>(f: F) -> Poll<F::Output> {
    let waker = futures::task::noop_waker();
    let mut cx = Context::from_waker(&waker);
    let mut f = std::pin::pin!(f);
    Pin::new(&mut f).poll(&mut cx)
}

fn handshake(st: &mut St, rejected: bool) {
    let cid_c = ConnectionId::from_slice(b"client__");
    let cid_s = ConnectionId::from_slice(b"server__");
    let odcid = ConnectionId::from_slice(b"odcid___");
    match st.role {
        Role::Client => {
            let mut rp = ServerParameters::default();
            fill(&mut rp, &st.remote);
            rp.set(ParameterId::InitialSourceConnectionId, cid_s).unwrap();
            rp.set(ParameterId::OriginalDestinationConnectionId, odcid).unwrap();
            {
                let mut g = st.params.lock_guard().unwrap();
                g.recv_remote_params(rp.clone()).unwrap();
                g.initial_scid_from_peer_need_equal(cid_s).unwrap();
            }
            st.ds.revise_params(rejected, &rp);
        }
        Role::Server => {
            let mut rp = ClientParameters::default();
            fill(&mut rp, &st.remote);
            rp.set(ParameterId::InitialSourceConnectionId, cid_c).unwrap();
            {
                let mut g = st.params.lock_guard().unwrap();
                g.recv_remote_params(rp.clone()).unwrap();
                g.initial_scid_from_peer_need_equal(cid_c).unwrap();
            }
            st.ds.revise_params(rejected, &rp);
        }
    }
    st.flow.sender.revise_max_data(rejected, st.remote[2]);
    st.hs_done = true;
}

fn inject_result(st: &mut St, o: &mut Obs, r: Result<usize, Error>, ft: qbase::frame::FrameType) {
    match r {
        Ok(fresh) => match st.flow.on_new_rcvd(ft, fresh) {
            Ok(_) => {
                o.push(0).push_usize(fresh);
            }
            Err(e) => {
                st.closed = true;
                o.push(kind_code(e.kind())).push_usize(fresh);
            }
        },
        Err(e) => {
            st.closed = true;
            o.push(kind_code(e.kind())).push(0);
        }
    }
}

fn step(st: &mut St, op: &Op, i: usize) -> Obs {
    st.in_op = true;
    let o = step_op(st, op, i);
    st.in_op = false;
    o
}

fn step_op(st: &mut St, op: &Op, _i: usize) -> Obs {
    let mut o = Obs::new();
    if st.closed {
        o.push(-1);
        return o;
    }
    st.tx.0.lock().unwrap().clear();
    let mut stream_frames: Vec<StreamFrame> = Vec::new();
    match op.tag {
        0 => {
            if st.hs_done {
                o.push(-2);
            } else {
                handshake(st, op.u(0) != 0);
                o.push(1);
            }
        }
        1 => {
            if op.u(0) == 0 {
                match poll_once(st.ds.open_bi(&st.params)) {
                    Poll::Pending => {
                        o.push(0).push(0);
                    }
                    Poll::Ready(Ok(Some((sid, (r, w))))) => {
                        o.push(1).push(sid_u(sid));
                        st.readers.insert(sid.into(), r);
                        st.writers.insert(sid.into(), w);
                    }
                    Poll::Ready(Ok(None)) => {
                        o.push(2).push(0);
                    }
                    Poll::Ready(Err(_)) => {
                        o.push(3).push(0);
                    }
                }
            } else {
                match poll_once(st.ds.open_uni(&st.params)) {
                    Poll::Pending => {
                        o.push(0).push(0);
                    }
                    Poll::Ready(Ok(Some((sid, w)))) => {
                        o.push(1).push(sid_u(sid));
                        st.writers.insert(sid.into(), w);
                    }
                    Poll::Ready(Ok(None)) => {
                        o.push(2).push(0);
                    }
                    Poll::Ready(Err(_)) => {
                        o.push(3).push(0);
                    }
                }
            }
        }
        2 => {
            let waker = futures::task::noop_waker();
            let mut cx = Context::from_waker(&waker);
            match st.writers.get_mut(&op.u(0)) {
                None => {
                    o.push(9);
                }
                Some(w) => {
                    // position-derived content is not needed on the send side: zeros
                    match w.poll_write(&mut cx, Bytes::from(vec![0u8; op.u(1) as usize])) {
                        Poll::Pending => o.push(0),
                        Poll::Ready(Ok(())) => o.push(1),
                        Poll::Ready(Err(_)) => o.push(2),
                    };
                }
            }
        }
        3 => {
            let waker = futures::task::noop_waker();
            let mut cx = Context::from_waker(&waker);
            match st.writers.get_mut(&op.u(0)) {
                None => {
                    o.push(9);
                }
                Some(w) => {
                    match w.poll_shutdown(&mut cx) {
                        Poll::Pending => o.push(0),
                        Poll::Ready(Ok(())) => o.push(1),
                        Poll::Ready(Err(_)) => o.push(2),
                    };
                }
            }
        }
        4 => {
            let waker = futures::task::noop_waker();
            let mut cx = Context::from_waker(&waker);
            match st.readers.get_mut(&op.u(0)) {
                None => {
                    o.push(9).push(0);
                }
                Some(r) => {
                    let mut dst = vec![0u8; op.u(1) as usize];
                    let n = {
                        let mut slice: &mut [u8] = &mut dst[..];
                        let before = slice.remaining_mut();
                        let res = r.poll_read(&mut cx, &mut slice);
                        let n = before - slice.remaining_mut();
                        match res {
                            Poll::Pending => o.push(0),
                            Poll::Ready(Ok(())) => o.push(1),
                            Poll::Ready(Err(_)) => o.push(2),
                        };
                        n
                    };
                    o.push_usize(n);
                }
            }
        }
        5 => {
            if op.u(0) == 0 {
                match poll_once(st.ds.accept_bi(&st.params)) {
                    Poll::Pending => {
                        o.push(0).push(0);
                    }
                    Poll::Ready(Ok((sid, (r, w)))) => {
                        o.push(1).push(sid_u(sid));
                        st.readers.insert(sid.into(), r);
                        st.writers.insert(sid.into(), w);
                    }
                    Poll::Ready(Err(_)) => {
                        o.push(3).push(0);
                    }
                }
            } else {
                match poll_once(st.ds.accept_uni()) {
                    Poll::Pending => {
                        o.push(0).push(0);
                    }
                    Poll::Ready(Ok((sid, r))) => {
                        o.push(1).push(sid_u(sid));
                        st.readers.insert(sid.into(), r);
                    }
                    Poll::Ready(Err(_)) => {
                        o.push(3).push(0);
                    }
                }
            }
        }
        6 => {
            let mut cap = Cap { left: op.u(0) as usize, buf: Vec::new(), frames: Vec::new() };
            match st.ds.try_load_data_into(&mut cap, &st.flow.sender, !st.hs_done) {
                Ok(()) => {
                    o.push(1).push(0);
                }
                Err(s) => {
                    let _ = s; // signal bits are not part of the compared abstraction
                    o.push(0).push(0);
                }
            }
            o.push_usize(cap.left);
            stream_frames = cap.frames;
        }
        7 => {
            let sid = StreamId::from(vi(op.u(0)));
            let mut f = StreamFrame::new(sid, op.u(1), op.u(2) as usize);
            f.set_eos_flag(op.u(3) != 0);
            let ft = f.frame_type();
            let body = Bytes::from(content_slice(op.u(1), op.u(2)));
            let r = st.ds.recv_frame((f, body));
            inject_result(st, &mut o, r, ft);
        }
        8..=14 if op.tag != 13 => {
            let f = match op.tag {
                8 => StreamCtlFrame::ResetStream(ResetStreamFrame::new(
                    StreamId::from(vi(op.u(0))),
                    vi(op.u(1)),
                    vi(op.u(2)),
                )),
                9 => StreamCtlFrame::StopSending(StopSendingFrame::new(
                    StreamId::from(vi(op.u(0))),
                    vi(op.u(1)),
                )),
                10 => StreamCtlFrame::MaxStreamData(MaxStreamDataFrame::new(
                    StreamId::from(vi(op.u(0))),
                    vi(op.u(1)),
                )),
                11 => StreamCtlFrame::MaxStreams(MaxStreamsFrame::with(
                    if op.u(0) == 0 { Dir::Bi } else { Dir::Uni },
                    vi(op.u(1)),
                )),
                12 => StreamCtlFrame::StreamsBlocked(StreamsBlockedFrame::with(
                    if op.u(0) == 0 { Dir::Bi } else { Dir::Uni },
                    vi(op.u(1)),
                )),
                _ => StreamCtlFrame::StreamDataBlocked(StreamDataBlockedFrame::new(
                    StreamId::from(vi(op.u(0))),
                    vi(op.u(1)),
                )),
            };
            let ft = f.frame_type();
            let r = st.ds.recv_frame(f);
            inject_result(st, &mut o, r, ft);
        }
        13 => {
            let _ = st.flow.sender.recv_frame(MaxDataFrame::new(vi(op.u(0))));
            o.push(0).push(0);
        }
        15 => {
            let k = op.u(0) as usize;
            if k < st.emitted.len() {
                let f = st.emitted[k];
                st.ds.may_loss_data(&f);
                o.push(1);
            } else {
                o.push(0);
            }
        }
        _ => {
            o.push(-99);
            return o;
        }
    }
    let mut n = 0usize;
    let ctl: Vec<W> = st.tx.0.lock().unwrap().drain(..).collect();
    n += ctl.len() + stream_frames.len();
    o.push_usize(n);
    for f in &stream_frames {
        o.push(1).push(sid_u(f.stream_id())).push(f.offset()).push_usize(f.len()).push_bool(f.is_fin());
        st.emitted.push(*f);
    }
    for w in ctl {
        for v in w {
            o.push(v);
        }
    }
    o
}

fn main() {
    let rt = tokio::runtime::Builder::new_current_thread()
        .enable_time()
        .start_paused(true)
        .build()
        .unwrap();
    let _g = rt.enter();
    hproto::run(new_case, step);
}
