(* Stream `txpn` (C07): model of the two packet writers of qconnection/src/tx.rs on top of the
   sent-journal model (Model/SentJournal.v).  Definitions only.

   tx::PacketWriter          = NewPacketGuard + QEvent/base PacketWriter; RecordFrame: a frame that
                               converts into the journal's frame type goes to record_frame, any other
                               frame to record_trivial; encrypt_and_protect_packet = build_with_time.
   tx::TrivialPacketWriter   = the same pair; RecordFrame: debug_assert!(NonAckEliciting), then
                               record_trivial; encrypt_and_protect_packet = build_trivial.
   Frames reach RecordFrame through the `Package` impls of qbase/src/packet/io.rs: a frame that does
   not fit in the remaining buffer is skipped (Err(Signals)), a list of packages is Ok iff something
   was written; the caller finishes the packet on Ok and drops the writer (and with it the guard)
   on Err.  `PacketInfo::record_frame` debug-asserts that the frame belongs to the packet type.
   A panic while the guard is alive poisons the journal's mutex.

   One journal per packet-number space: 0 Initial, 1 Handshake (frame type CryptoFrame), 2 Data
   (frame type GuaranteedFrame, shared by 0-RTT and 1-RTT packets). *)
From Coq Require Import List ZArith Bool.
From GQ Require Export Model.SentJournal Model.Journal.
Import ListNotations.
Local Open Scope Z_scope.

(* packet type: 0 Initial, 1 Handshake, 2 0-RTT, anything else 1-RTT *)
Definition pk (ty : Z) : Z := if ty =? 0 then 0 else if ty =? 1 then 1 else if ty =? 2 then 2 else 3.
Definition space_of_ty (ty : Z) : Z := if pk ty <? 2 then pk ty else 2.

(* bytes before the packet-number field (8-byte connection ids, empty token, 2-byte Length) *)
Definition hdr_len (ty : Z) : Z :=
  if pk ty =? 0 then 26 else if pk ty =? 3 then 9 else 25.

Definition vlen (v : Z) : Z := if v <? 64 then 1 else if v <? 16384 then 2 else if v <? 2^30 then 4 else 8.

(* frame vocabulary: 1 MAX_DATA(v) 2 PING 3 PADDING 4 CONNECTION_CLOSE(quic, no reason) 5 PUNCH_HELLO(1,2,3)
   6 ACK(0,0,0) other CRYPTO(offset v, empty) *)
Definition fsize (k v : Z) : Z :=
  if k =? 1 then 1 + vlen v else if k =? 2 then 1 else if k =? 3 then 1 else if k =? 4 then 4
  else if k =? 5 then 7 else if k =? 6 then 5 else 1 + vlen v + 1.

(* FrameType::belongs_to *)
Definition belongs (ty k : Z) : bool :=
  if k =? 1 then 2 <=? pk ty
  else if (k =? 2) || (k =? 3) || (k =? 4) then true
  else if k =? 5 then 2 <=? pk ty
  else negb (pk ty =? 2).                              (* ACK, CRYPTO: i | h | l *)

(* Spec::NonAckEliciting *)
Definition nonacke (k : Z) : bool := (k =? 3) || (k =? 4) || (k =? 5) || (k =? 6).

(* `&Frame: TryInto<journal frame type>`: CryptoFrame for Initial / Handshake, GuaranteedFrame for Data *)
Definition reliable (ty k : Z) : bool :=
  if k =? 1 then 2 <=? pk ty
  else if (k =? 2) || (k =? 3) || (k =? 4) || (k =? 5) || (k =? 6) then false
  else true.

Inductive walk_res := WPanic | WDone (recorded : list Z) (trivial written : bool).

(* the packages, in order; [rem] = remaining_mut() of the writer *)
Fixpoint tx_walk (trivw : bool) (ty : Z) (fr : list (Z * Z)) (rem : Z) (rec : list Z) (triv wr : bool) : walk_res :=
  match fr with
  | [] => WDone rec triv wr
  | (k, v) :: r =>
      let sz := fsize k v in
      if rem <? sz then tx_walk trivw ty r rem rec triv wr              (* Err(Signals::CONGESTION) *)
      else if trivw && negb (nonacke k) then WPanic                     (* debug_assert! of TrivialPacketWriter *)
      else if negb (belongs ty k) then WPanic                           (* debug_assert! of PacketInfo *)
      else if trivw then tx_walk trivw ty r (rem - sz) rec true true
      else if reliable ty k then tx_walk trivw ty r (rem - sz) (rec ++ [v]) triv true
      else tx_walk trivw ty r (rem - sz) rec true true
  end.

(* what one writer life does to its NewPacketGuard, as a guard script of Model/SentJournal.v;
   None = a panic while the guard is alive.  [w] is the width of the encoded packet number *)
Definition tx_script (trivw : bool) (ty bufsz retran expire : Z) (fr : list (Z * Z)) (w : Z) : option np_script :=
  if bufsz <? hdr_len ty + 20 then Some (mknp [] false NpAbandon retran expire)    (* new_long/new_short: Err *)
  else
    match tx_walk trivw ty fr (bufsz - 16 - hdr_len ty - w) [] false false with
    | WPanic => None
    | WDone rec triv wr =>
        Some (mknp rec triv (if wr then (if trivw then NpBuildTrivial else NpBuildTime) else NpAbandon) retran expire)
    end.

(* remaining_mut() after the packages: a frame that does not fit is skipped *)
Fixpoint tx_fit (fr : list (Z * Z)) (rem : Z) : Z :=
  match fr with
  | [] => rem
  | (k, v) :: r => if rem <? fsize k v then tx_fit r rem else tx_fit r (rem - fsize k v)
  end.

(* `assert!(payload_len + tag_len >= 20)` of encrypt_and_protect_packet: a caller that does not add
   PadTo20 may finish a packet that is too short to be sampled; the guard has been built (and
   released) by then: the number is consumed, the journal is not poisoned, no packet leaves *)
Definition tx_too_short (pad : bool) (ty bufsz : Z) (fr : list (Z * Z)) (w : Z) : bool :=
  let rem0 := bufsz - 16 - hdr_len ty - w in
  negb pad && (w + (rem0 - tx_fit fr rem0) + 16 <? 20).

Definition tx_created (ty bufsz : Z) : bool := negb (bufsz <? hdr_len ty + 20).

Definition tx_life (trivw pad : bool) (j : sjournal) (now ty bufsz retran expire : Z) (fr : list (Z * Z))
  : option sjournal * list Z :=
  let pn := s_next j in
  match encode pn (s_la j) with
  | EncOk e =>
      match tx_script trivw ty bufsz retran expire fr (width e) with
      | None => (None, [PANIC])
      | Some sc =>
          match new_packet j now sc with
          | (Some j', Some _, _) =>
              (Some j',
               match np_mode_ sc with
               | NpAbandon => if tx_created ty bufsz then [2; pn; s_next j'] else [1; s_next j']
               | _ => if tx_too_short pad ty bufsz fr (width e) then [PANIC]
                      else [0; pn; width (wire e); payload (wire e); pn; s_next j']
               end)
          | _ => (None, [PANIC])
          end
      end
  | _ => (None, [PANIC])
  end.

(* ---- the stream ---- *)
Record txstate := mktx { x_now : Z; x_i : option sjournal; x_h : option sjournal; x_d : option sjournal }.

Definition x_get (s : txstate) (sp : Z) : option sjournal :=
  if sp =? 0 then x_i s else if sp =? 1 then x_h s else x_d s.
Definition x_set (s : txstate) (sp : Z) (j : option sjournal) : txstate :=
  if sp =? 0 then mktx (x_now s) j (x_h s) (x_d s)
  else if sp =? 1 then mktx (x_now s) (x_i s) j (x_d s)
  else mktx (x_now s) (x_i s) (x_h s) j.

Fixpoint pairs (l : list Z) : list (Z * Z) :=
  match l with k :: v :: r => (k, v) :: pairs r | _ => [] end.

Definition tx_step (s : txstate) (t : N) (a : list Z) : txstate * list Z :=
  match t, a with
  | 0%N, [dt] => (mktx (x_now s + dt) (x_i s) (x_h s) (x_d s), [x_now s + dt])
  | 1%N, ty :: bufsz :: pad :: retran :: expire :: fr =>
      let sp := space_of_ty ty in
      match x_get s sp with
      | None => (s, [PANIC])
      | Some j => let '(j', out) := tx_life false (negb (pad =? 0)) j (x_now s) ty bufsz retran expire (pairs fr) in (x_set s sp j', out)
      end
  | 2%N, ty :: bufsz :: pad :: fr =>
      let sp := space_of_ty ty in
      match x_get s sp with
      | None => (s, [PANIC])
      | Some j => let '(j', out) := tx_life true (negb (pad =? 0)) j (x_now s) ty bufsz 0 0 (pairs fr) in (x_set s sp j', out)
      end
  | 3%N, sp :: l =>
      match x_get s sp with
      | None => (s, [PANIC])
      | Some j =>
          match rotate j (x_now s) (rot_decode l) with
          | (Some j', outs) => (x_set s sp (Some j'), outs)
          | (None, _) => (x_set s sp None, [PANIC])
          end
      end
  | 4%N, [sp] =>
      match x_get s sp with None => (s, [PANIC]) | Some j => (s, dump_sj j) end
  | _, _ => (s, [-99])
  end.

Fixpoint tx_run (s : txstate) (l : list (N * list Z)) : list (list Z) :=
  match l with
  | [] => []
  | (t, a) :: r => let '(s', o) := tx_step s t a in o :: tx_run s' r
  end.

Definition run_txpn (_cfg : list Z) (l : list (N * list Z)) : list (list Z) :=
  tx_run (mktx 0 (Some sj_new) (Some sj_new) (Some sj_new)) l.
