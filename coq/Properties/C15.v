(* C15 — an unvalidated address never receives more than 3x what it sent.
   Only the property theorems live here (closed by lemmas of Proofs/Burst.v, AntiAmp.v, AntiAmpRatio.v).
   The model is the REPAIRED AntiAmplifier (on_sent saturates, finding F19w fixed).

   Status: c15_no_underflow, c15_no_panic, c15_resume, c15_ratio_interleaved hold in full strength.  c15_ratio is
   REFUTED on the faithful model at the burst level (finding F19, open: multi-segment bursts, Initial padding, reserved
   forward header; witnesses below, replayed by corpus/C15/aa/f19_*.case) and proved for every history without an
   operation of `known_class`. *)
From Coq Require Import List NArith ZArith Bool.
From GQ Require Import Lib.Base Generated.Sources Model.AntiAmp Model.Burst Proofs.Burst Proofs.AntiAmp Proofs.AntiAmpRatio Proofs.AntiAmpRace.
Import ListNotations.
Local Open Scope N_scope.

(* every prefix of every history without an op of the known class (multi-segment burst, reserved forward
   header, Initial-bearing datagram with credit below the buffer, over-debit): before grant, bytes handed to
   IO <= 3 x bytes received *)
Theorem c15_ratio : forall minpkt ops,
  clean minpkt g0 ops ->
  Forall (fun gw : gst * bool => st (ga (fst gw)) <> 1 -> gHv (fst gw) <= 3 * gRv (fst gw)) (gtrace minpkt g0 ops).
Proof.
  intros minpkt ops Hc. eapply Forall_impl; [| exact (p_c15_clean minpkt ops g0 Inv_g0 Hc)].
  intros gw (_ & _ & H & _). exact H.
Qed.

(* on those histories no debit saturates and the counter is exactly 3R - H *)
Theorem c15_credit_exact : forall minpkt ops,
  clean minpkt g0 ops ->
  Forall (fun gw : gst * bool => snd gw = false /\
            (st (ga (fst gw)) = 0 -> credit (ga (fst gw)) = 3 * gRv (fst gw) - gHv (fst gw)))
         (gtrace minpkt g0 ops).
Proof.
  intros minpkt ops Hc. eapply Forall_impl; [| exact (p_c15_clean minpkt ops g0 Inv_g0 Hc)].
  intros gw (_ & Hw & _ & H). split; assumption.
Qed.

(* FULL strength - EVERY history (multi-segment bursts, padded Initials, over-debits included): the credit of an
   unvalidated path is at most 3 x the bytes received so far; it cannot underflow into an effectively unlimited
   allowance.  (Hypothesis: fewer than 2^64/3 bytes are received, so that the counter itself cannot overflow.) *)
Theorem c15_no_underflow : forall minpkt ops,
  3 * fold_right N.add 0 (map rcvd1 ops) < W ->
  Forall (fun gw : gst * bool => st (ga (fst gw)) = 0 -> credit (ga (fst gw)) <= 3 * gRv (fst gw))
         (gtrace minpkt g0 ops).
Proof.
  intros minpkt ops H. apply p_c15_no_underflow; [vm_compute; discriminate | intros _; vm_compute; discriminate | exact H].
Qed.

(* F19, burst level: 100 bytes received; a burst of two segments hands 600 bytes to IO (the debit saturates: the
   credit is 0 afterwards) *)
Theorem c15_ratio_refuted :
  exists ops, let '(g, over) := last (gtrace 40 g0 ops) (g0, false) in
    st (ga g) = 0 /\ 3 * gRv g < gHv g /\ over = true /\ credit (ga g) = 0.
Proof.
  exists [ARcvd 100; ABurst 1200 0 [mkseg 100000 0 1200; mkseg 100000 0 1200]].
  vm_compute. repeat split; reflexivity.
Qed.

(* F19, padding: an Initial packet of 200 bytes (within the credit of 300) is padded to the 1200-byte buffer *)
Theorem c15_ratio_refuted_initial :
  exists ops, let '(g, over) := last (gtrace 40 g0 ops) (g0, false) in
    st (ga g) = 0 /\ gHv g = 1200 /\ gRv g = 100 /\ over = true.
Proof.
  exists [ARcvd 100; ABurst 1200 0 [mkseg 100000 200 0]].
  vm_compute. repeat split; reflexivity.
Qed.

(* regression of F19w: on_rcvd(100); on_sent(400) leaves a balance of 0 (Err(CREDIT)), not 2^64 - 100 *)
Example c15_over_debit_saturates :
  snd (balance (on_sent (on_rcvd aa0 100) 400)) = BErr /\
  snd (balance (on_rcvd (on_sent (on_rcvd aa0 100) 400) 100)) = BSome 300.
Proof. vm_compute. split; reflexivity. Qed.

(* balance()'s `unreachable!()` is unreachable, in every history *)
Theorem c15_no_panic : forall minpkt ops,
  Forall (fun gw : gst * bool => st (ga (fst gw)) <= 2 /\ snd (balance (ga (fst gw))) <> BPanic) (gtrace minpkt g0 ops).
Proof. intros. apply p_c15_no_panic. vm_compute. discriminate. Qed.

(* for EVERY interleaving of the atomic steps: a sender parked in wait_for(CREDIT) while there is credit (or
   the path was granted / aborted) and no wake_by is still in flight has been woken, and its next step is enabled *)
Theorem c15_resume : forall y w0,
  sreach y -> spcv y = SParked w0 -> ~ In NWake (pend y) ->
  credit (sa y) <> 0 \/ st (sa y) <> 0 ->
  w0 < wakes (sa y) /\ sender_step y 0 <> None.
Proof. exact p_c15_resume. Qed.

(* for EVERY interleaving of the atomic steps (arrivals, grant, abort racing with the sender's loads, its
   single-segment in-budget send and its debit): while the path is unvalidated, bytes handed to IO <= 3 x bytes
   received, and the credit is at most 3 x bytes received *)
Theorem c15_ratio_interleaved : forall y,
  sreach y -> 3 * gR y < W -> st (sa y) = 0 ->
  gH y <= 3 * gR y /\ credit (sa y) <= 3 * gR y.
Proof. exact p_c15_ratio_interleaved. Qed.

(* one datagram = any number of coalesced packets written through ONE Constraints value, in flight or not (an ACK-only
   packet is charged against the credit like any other): it stays within the credit its assembler read, unless it
   carries an Initial packet and is padded to the whole buffer (class F19) *)
Theorem c15_segment_within_credit : forall minpkt c buf r n,
  load_segment minpkt (BSome c) buf r = SegOk n -> (sg_wi r = 0 \/ buf <= c) -> n <= c.
Proof. exact p_c15_segment_within_credit. Qed.

(* 50 bytes received; an ACK-only Handshake packet of 45 bytes followed by a 1-RTT packet: the datagram is cut at 150 *)
Example c15_segment_nonvacuous :
  load_segment 40 (BSome 150) 1200 (mksegp 100000 (mkpk 0 true) [mkpk 0 true; mkpk 45 false; mkpk 1200 true]) = SegOk 150.
Proof. vm_compute. reflexivity. Qed.

(* two calls racing on two threads, one atomic operation at a time (stream op RACE, run on the real methods through
   the instrumented atomics): every race finishes with both calls returned ... *)
Theorem c15_race_finishes : forall a ca cb sched,
  let '(_, pa, pb, _, _) := race_calls a ca cb sched in pdone pa = true /\ pdone pb = true.
Proof. exact p_c15_race_finishes. Qed.

(* ... a call running alone is the composite operation of the sequential histories above ... *)
Theorem c15_call_alone : forall a c,
  fst (mrun_alone a c) = composite a c /\ pdone (snd (mrun_alone a c)) = true /\
  (c = CBalance -> snd (mrun_alone a c) = PDone (RBal (snd (balance a)))).
Proof. exact p_mrun_alone. Qed.

(* ... and for EVERY schedule an arrival racing with a debit is one of the two sequential orders: neither the deposit
   nor the debit is lost (on_rcvd and on_sent are each ONE read-modify-write of the credit) *)
Theorem c15_race_rcvd_sent_linearizable : forall a n m sched,
  let '(a', _, _, _, _) := race_calls a (CRcvd n) (CSent m) sched in
  a' = on_sent (on_rcvd a n) m \/ a' = on_rcvd (on_sent a m) n.
Proof. exact p_c15_race_rcvd_sent. Qed.

Theorem c15_race_conserves : forall a n m sched,
  st a = 0 -> m <= credit a -> credit a + 3 * n < W ->
  let '(a', _, _, _, _) := race_calls a (CRcvd n) (CSent m) sched in
  st a' = 0 /\ credit a' = credit a + 3 * n - m.
Proof. exact p_c15_race_conserves. Qed.

(* the schedule that loses the debit when the deposit is a separate load and store: here the debit lands in between *)
Example c15_race_nonvacuous :
  let '(a', pa, pb, na, nb) := race_calls (on_rcvd aa0 1200) (CRcvd 50) (CSent 3600) [false; true; true; false] in
  credit a' = 150 /\ na = 2 /\ nb = 2.
Proof. vm_compute. repeat split; reflexivity. Qed.

Theorem c15_resume_progress : forall y i n,
  nth_error (pend y) i = Some (NAdd n) ->
  exists y', sstep y (LNotif i) = Some y' /\ In NWake (pend y').
Proof. exact p_c15_resume_progress. Qed.

(* the shape of the real send path the model's BURST relies on, re-extracted from burst.rs / path.rs / aa.rs
   on every run: one balance() per segment and no debit inside burst.rs; Initial-bearing datagrams padded to the
   whole buffer; one on_sent(sum) per burst; on_sent is a saturating fetch_update *)
Theorem c15_glue_shape :
  burst_shape_balance_per_segment = true /\ burst_shape_pad_initial_to_full = true /\
  burst_shape_debit_sum_after_burst = true /\ aa_shape_on_sent_saturating = true.
Proof. repeat split; reflexivity. Qed.

(* non-vacuity: a clean history with arrivals, an Initial-bearing burst with enough credit, a burst cut by the
   credit, exhaustion, resumption, a grant *)
Example c15_nonvacuous :
  let ops := [ARcvd 1200; ABurst 1200 0 [mkseg 100000 300 0]; ABurst 1200 0 [mkseg 100000 0 1200];
              ABurst 1452 0 [mkseg 100000 0 1452]; ABurst 1200 0 [mkseg 100000 0 1200]; APollWait;
              ARcvd 50; APollWait; ABurst 1200 0 [mkseg 100 0 1200]; AOnSent 50; AGrant; ABurst 1200 0 [mkseg 100000 0 1200; mkseg 100000 0 1200]] in
  clean 40 g0 ops /\
  map (fun gw : gst * bool => (gRv (fst gw), gHv (fst gw))) (gtrace 40 g0 ops) =
    [(1200, 0); (1200, 1200); (1200, 2400); (1200, 3600); (1200, 3600); (1200, 3600);
     (1250, 3600); (1250, 3600); (1250, 3700); (1250, 3750); (1250, 3750); (1250, 6150)].
Proof. vm_compute. repeat split; try reflexivity; try discriminate. Qed.

Print Assumptions c15_ratio.
Print Assumptions c15_credit_exact.
Print Assumptions c15_no_underflow.
Print Assumptions c15_ratio_refuted.
Print Assumptions c15_ratio_refuted_initial.
Print Assumptions c15_over_debit_saturates.
Print Assumptions c15_no_panic.
Print Assumptions c15_resume.
Print Assumptions c15_ratio_interleaved.
Print Assumptions c15_resume_progress.
Print Assumptions c15_glue_shape.
Print Assumptions c15_nonvacuous.
Print Assumptions c15_segment_within_credit.
Print Assumptions c15_segment_nonvacuous.
Print Assumptions c15_race_finishes.
Print Assumptions c15_call_alone.
Print Assumptions c15_race_rcvd_sent_linearizable.
Print Assumptions c15_race_conserves.
Print Assumptions c15_race_nonvacuous.
