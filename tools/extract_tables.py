#!/usr/bin/env python3
"""Translator: regenerates coq/Generated/*.v from the Rust sources of /repo on every run.

Deliberately dumb: match-arm regexes + a tokenizer for a handful of known right-hand-side
shapes.  Anything it does not understand raises TableError (fail closed) — the check then
reports the table it could not regenerate.  Files are written only when their content changes,
so unchanged tables do not trigger Coq recompilation."""
import os
import re
import sys

HERE = os.path.dirname(os.path.abspath(__file__))
ROOT = os.path.dirname(HERE)
REPO = os.environ.get("VERIF_REPO") or os.path.realpath(os.path.join(ROOT, "rp"))
GEN = os.path.join(ROOT, "coq", "Generated")


class TableError(Exception):
    pass


def read(rel):
    with open(os.path.join(REPO, rel)) as f:
        return f.read()


def strip_comments(src):
    src = re.sub(r"/\*.*?\*/", "", src, flags=re.S)
    return re.sub(r"//[^\n]*", "", src)


def write_if_changed(name, text):
    os.makedirs(GEN, exist_ok=True)
    path = os.path.join(GEN, name)
    try:
        if open(path).read() == text:
            return False
    except OSError:
        pass
    with open(path, "w") as f:
        f.write(text)
    return True


def block_after(src, header_re, what):
    """text of the {...} block that follows the first match of header_re"""
    m = re.search(header_re, src)
    if not m:
        raise TableError("cannot find %s" % what)
    i = src.index("{", m.end() - 1)
    depth = 0
    for j in range(i, len(src)):
        if src[j] == "{":
            depth += 1
        elif src[j] == "}":
            depth -= 1
            if depth == 0:
                return src[i + 1:j]
    raise TableError("unbalanced braces in %s" % what)


def split_arms(body):
    """splits a match body into (pattern, rhs) at top-level commas"""
    arms = []
    depth = 0
    cur = ""
    for ch in body:
        if ch in "({[":
            depth += 1
        elif ch in ")}]":
            depth -= 1
        if ch == "," and depth == 0:
            arms.append(cur)
            cur = ""
        else:
            cur += ch
            if ch == "}" and depth == 0 and "=>" in cur:
                arms.append(cur)
                cur = ""
    if cur.strip():
        arms.append(cur)
    out = []
    for a in arms:
        a = a.strip()
        if not a:
            continue
        if "=>" not in a:
            raise TableError("match arm without => : %r" % a[:60])
        p, r = a.split("=>", 1)
        out.append((p.strip(), r.strip()))
    return out


# ----------------------------------------------------------------------------------------
# frame types
# ----------------------------------------------------------------------------------------

FT_CTOR = {
    "Padding": "TPadding", "Ping": "TPing", "Ack": "TAck", "ResetStream": "TResetStream",
    "StopSending": "TStopSending", "Crypto": "TCrypto", "NewToken": "TNewToken", "Stream": "TStream",
    "MaxData": "TMaxData", "MaxStreamData": "TMaxStreamData", "MaxStreams": "TMaxStreams",
    "DataBlocked": "TDataBlocked", "StreamDataBlocked": "TStreamDataBlocked", "StreamsBlocked": "TStreamsBlocked",
    "NewConnectionId": "TNewConnectionId", "RetireConnectionId": "TRetireConnectionId",
    "PathChallenge": "TPathChallenge", "PathResponse": "TPathResponse", "ConnectionClose": "TConnectionClose",
    "HandshakeDone": "THandshakeDone", "Datagram": "TDatagram", "AddAddress": "TAddAddress",
    "RemoveAddress": "TRemoveAddress", "PunchMeNow": "TPunchMeNow", "PunchHello": "TPunchHello",
    "PunchDone": "TPunchDone",
}
FT_ARITY = {"Ack": 1, "Stream": 3, "MaxStreams": 1, "StreamsBlocked": 1, "ConnectionClose": 1, "Datagram": 1,
            "AddAddress": 1, "PunchMeNow": 1}
ARG_BOOL = {"Ecn::None": False, "Ecn::Exist": True, "Dir::Bi": False, "Dir::Uni": True,
            "Layer::Quic": False, "Layer::App": True, "Family::V4": False, "Family::V6": True}


def coq_bool(b):
    return "true" if b else "false"


def ft_term(name, args):
    if name not in FT_CTOR:
        raise TableError("unknown FrameType variant %s" % name)
    if len(args) != FT_ARITY.get(name, 0):
        raise TableError("FrameType::%s arity changed" % name)
    if not args:
        return FT_CTOR[name]
    return "(%s %s)" % (FT_CTOR[name], " ".join(coq_bool(a) for a in args))


def all_frame_types():
    out = []
    for name in FT_CTOR:
        n = FT_ARITY.get(name, 0)
        for k in range(2 ** n):
            out.append((name, tuple(bool((k >> (n - 1 - i)) & 1) for i in range(n))))
    return out


def flag_mask(src, ty, ctor_true):
    """parses `impl From<u64> for <ty>` : match value & MASK { 0 => A, _ => B } ; returns (mask, true_is_nonzero)"""
    body = block_after(src, r"impl\s+From<u64>\s+for\s+%s\b" % ty, "From<u64> for " + ty)
    m = re.search(r"match\s+value\s*&\s*(0x[0-9a-fA-F]+|\d+)\s*\{\s*0\s*=>\s*%s::(\w+)\s*,\s*_\s*=>\s*%s::(\w+)" % (ty, ty), body)
    if not m:
        raise TableError("unexpected shape of From<u64> for %s" % ty)
    mask = int(m.group(1), 0)
    zero, nonzero = m.group(2), m.group(3)
    if nonzero == ctor_true:
        return mask, True
    if zero == ctor_true:
        return mask, False
    raise TableError("From<u64> for %s does not mention %s" % (ty, ctor_true))


def flag_bits(src, ty, ctor_true):
    """parses `impl From<ty> for u8`: value written for the `true` constructor and for the other"""
    body = block_after(src, r"impl\s+From<%s>\s+for\s+u8\b" % ty, "From<%s> for u8" % ty)
    vals = dict((m.group(1), int(m.group(2), 0)) for m in re.finditer(r"%s::(\w+)\s*=>\s*(0x[0-9a-fA-F]+|\d+)" % ty, body))
    if ctor_true not in vals or len(vals) != 2:
        raise TableError("unexpected shape of From<%s> for u8" % ty)
    other = [v for k, v in vals.items() if k != ctor_true][0]
    return vals[ctor_true], other


def gen_frame_table():
    src = strip_comments(read("qbase/src/frame.rs"))
    ssrc = strip_comments(read("qbase/src/frame/stream.rs"))
    # --- decode: TryFrom<VarInt> for FrameType
    body = block_after(src, r"impl\s+TryFrom<VarInt>\s+for\s+FrameType", "TryFrom<VarInt> for FrameType")
    body = block_after(body, r"match\s+frame_type\.into_u64\(\)\s*", "match in TryFrom<VarInt> for FrameType")
    rows = []   # (code, name, args)
    for pat, rhs in split_arms(body):
        rhs = re.sub(r"\s+", " ", rhs)
        if pat == "_":
            if "Err(" not in rhs or "InvalidType" not in rhs:
                raise TableError("fallback arm of frame type decoding changed: %s" % rhs)
            continue
        m = re.fullmatch(r"(0x[0-9a-fA-F]+|\d+)", pat)
        if m:
            m2 = re.fullmatch(r"FrameType::(\w+)(?:\((.*)\))?", rhs)
            if not m2:
                raise TableError("frame type arm not understood: %s => %s" % (pat, rhs))
            args = []
            if m2.group(2):
                for a in m2.group(2).split(","):
                    a = a.strip()
                    if a not in ARG_BOOL:
                        raise TableError("frame type argument not understood: %s" % a)
                    args.append(ARG_BOOL[a])
            rows.append((int(pat, 0), m2.group(1), tuple(args)))
            continue
        m = re.fullmatch(r"ty @ (0x[0-9a-fA-F]+)\.\.=(0x[0-9a-fA-F]+)", pat)
        if m and rhs == "FrameType::Stream(Offset::from(ty), Len::from(ty), Fin::from(ty))":
            om, ot = flag_mask(ssrc, "Offset", "NonZero")
            lm, lt = flag_mask(ssrc, "Len", "Explicit")
            fm, ftv = flag_mask(ssrc, "Fin", "Yes")
            for code in range(int(m.group(1), 0), int(m.group(2), 0) + 1):
                rows.append((code, "Stream", (bool(code & om) == ot, bool(code & lm) == lt, bool(code & fm) == ftv)))
            continue
        m = re.fullmatch(r"ty @ \((0x[0-9a-fA-F]+) \| (0x[0-9a-fA-F]+)\)", pat)
        if m and rhs == "FrameType::Datagram(ty as u8 & 1)":
            for code in (int(m.group(1), 0), int(m.group(2), 0)):
                rows.append((code, "Datagram", (bool(code & 1),)))
            continue
        raise TableError("frame type arm not understood: %s => %s" % (pat, rhs))
    # --- encode: From<FrameType> for VarInt
    body = block_after(src, r"impl\s+From<FrameType>\s+for\s+VarInt", "From<FrameType> for VarInt")
    body = block_after(body, r"match\s+frame_type\s*", "match in From<FrameType> for VarInt")
    enc = {}
    for pat, rhs in split_arms(body):
        rhs = re.sub(r"\s+", " ", rhs)
        m = re.fullmatch(r"FrameType::(\w+)(?:\((.*)\))?", pat)
        if not m:
            raise TableError("encode arm pattern not understood: %s" % pat)
        name, pargs = m.group(1), (m.group(2) or "")
        pargs = [a.strip() for a in pargs.split(",")] if pargs else []
        mm = re.fullmatch(r"VarInt::from_u32\((0x[0-9a-fA-F]+|\d+)\)", rhs)
        if mm and all(a in ARG_BOOL for a in pargs):
            enc[(name, tuple(ARG_BOOL[a] for a in pargs))] = int(mm.group(1), 0)
            continue
        if name == "Stream" and pargs == ["offset", "len", "fin"] and \
                re.search(r"VarInt::from\((0x[0-9a-fA-F]+)u8 \| offset \| len \| fin\)", rhs) and \
                "let offset: u8 = offset.into();" in rhs and "let len: u8 = len.into();" in rhs and "let fin: u8 = fin.into();" in rhs:
            base = int(re.search(r"VarInt::from\((0x[0-9a-fA-F]+)u8", rhs).group(1), 0)
            ob = flag_bits(ssrc, "Offset", "NonZero")
            lb = flag_bits(ssrc, "Len", "Explicit")
            fb = flag_bits(ssrc, "Fin", "Yes")
            for o in (False, True):
                for l in (False, True):
                    for f in (False, True):
                        enc[("Stream", (o, l, f))] = base | (ob[0] if o else ob[1]) | (lb[0] if l else lb[1]) | (fb[0] if f else fb[1])
            continue
        mm = re.fullmatch(r"VarInt::from\((0x[0-9a-fA-F]+) \| with_len\)", rhs)
        if name == "Datagram" and pargs == ["with_len"] and mm:
            for w in (False, True):
                enc[("Datagram", (w,))] = int(mm.group(1), 0) | int(w)
            continue
        mm = re.fullmatch(r"VarInt::from_u32\((0x[0-9a-fA-F]+) \| family as u32\)", rhs)
        if name in ("AddAddress", "PunchMeNow") and pargs == ["family"] and mm:
            fam = block_after(strip_comments(read("qbase/src/net.rs")), r"pub\s+enum\s+Family", "enum Family")
            fv = dict((m3.group(1), int(m3.group(2))) for m3 in re.finditer(r"(V4|V6)\s*=\s*(\d+)", fam))
            if set(fv) != {"V4", "V6"}:
                raise TableError("enum Family changed")
            enc[(name, (False,))] = int(mm.group(1), 0) | fv["V4"]
            enc[(name, (True,))] = int(mm.group(1), 0) | fv["V6"]
            continue
        raise TableError("encode arm not understood: %s => %s" % (pat, rhs))
    # --- belongs_to and specs
    body = block_after(src, r"impl\s+FrameFeature\s+for\s+FrameType", "impl FrameFeature for FrameType")
    bt = block_after(body, r"fn\s+belongs_to", "belongs_to")
    letters = {}
    for m in re.finditer(r"let\s+(\w)\s*=\s*matches!\(packet_type,\s*Type::(Long\(V1\(Ver1::(\w+)\)\)|Short\(OneRtt\(_\)\))\)", bt):
        letters[m.group(1)] = m.group(3) or "ONE_RTT"
    if letters != {"i": "INITIAL", "h": "HANDSHAKE", "o": "ZERO_RTT", "l": "ONE_RTT"}:
        raise TableError("belongs_to packet-type letters changed: %s" % letters)
    mb = block_after(bt, r"match\s+self\s*", "match in belongs_to")
    belongs = {}

    def letset(s, allowed):
        parts = [x.strip() for x in s.split("|")]
        if not parts or any(p not in allowed for p in parts):
            raise TableError("cannot parse flag set %r" % s)
        return set(parts)

    for pat, rhs in split_arms(mb):
        m = re.fullmatch(r"FrameType::(\w+)(?:\((?:_|\.\.|layer)\))?", pat)
        if not m:
            raise TableError("belongs_to arm not understood: %s" % pat)
        name = m.group(1)
        n = FT_ARITY.get(name, 0)
        if rhs.startswith("match layer"):
            inner = block_after(rhs, r"match\s+layer\s*", "match layer")
            for p2, r2 in split_arms(inner):
                if p2 not in ("Layer::App", "Layer::Quic"):
                    raise TableError("belongs_to layer arm not understood: %s" % p2)
                belongs[(name, (ARG_BOOL[p2],))] = letset(r2, "ihol")
        else:
            s = letset(rhs, "ihol")
            for k in range(2 ** n):
                belongs[(name, tuple(bool((k >> (n - 1 - i)) & 1) for i in range(n)))] = s
    sp = block_after(body, r"fn\s+specs", "specs")
    bits = dict((m.group(1), int(m.group(2))) for m in re.finditer(r"(\w+)\s*=\s*(\d+)\s*,", block_after(src, r"pub\s+enum\s+Spec\b", "enum Spec")))
    tup = re.search(r"let\s*\(n,\s*c,\s*p,\s*f\)\s*=\s*\(\s*Spec::(\w+) as u8,\s*Spec::(\w+) as u8,\s*Spec::(\w+) as u8,\s*Spec::(\w+) as u8,?\s*\)", sp)
    if not tup:
        raise TableError("specs letter tuple changed")
    lv = {"n": bits[tup.group(1)], "c": bits[tup.group(2)], "p": bits[tup.group(3)], "f": bits[tup.group(4)]}
    ms = block_after(sp, r"match\s+self\s*", "match in specs")
    specs = {}
    default = None
    for pat, rhs in split_arms(ms):
        if pat == "_":
            if rhs.strip() != "0":
                raise TableError("specs default arm changed")
            default = 0
            continue
        m = re.fullmatch(r"FrameType::(\w+)(?:\((?:_|\.\.)\))?", pat)
        if not m:
            raise TableError("specs arm not understood: %s" % pat)
        specs[m.group(1)] = sum(lv[x] for x in letset(rhs, "ncpf"))
    if default is None:
        raise TableError("specs has no default arm")
    # --- consistency of what we parsed
    allft = all_frame_types()
    for ft in allft:
        if ft not in enc:
            raise TableError("no encoding arm for %s%s" % ft)
        if ft not in belongs:
            raise TableError("no belongs_to arm for %s%s" % ft)
    out = ["(* GENERATED by tools/extract_tables.py from qbase/src/frame.rs, frame/stream.rs, net.rs — do not edit *)",
           "From Coq Require Import List ZArith Bool.", "From GQ Require Import Lib.FrameTypes.", "Import ListNotations.",
           "Local Open Scope Z_scope.", "",
           "(* TryFrom<VarInt> for FrameType : code -> type, in source order *)",
           "Definition ft_decode_table : list (Z * ftype) := ["]
    out.append(";\n".join("  (%d, %s)" % (code, ft_term(name, args)) for code, name, args in rows))
    out += ["].", "", "(* From<FrameType> for VarInt *)", "Definition code_of_ft (t : ftype) : Z :=", "  match t with"]
    for name, args in allft:
        out.append("  | %s => %d" % (ft_term(name, args).strip("()"), enc[(name, args)]))
    out += ["  end.", "", "(* FrameFeature::belongs_to : (initial, handshake, zero_rtt, one_rtt) *)",
            "Definition ft_belongs (t : ftype) : bool * bool * bool * bool :=", "  match t with"]
    for name, args in allft:
        s = belongs[(name, args)]
        out.append("  | %s => (%s, %s, %s, %s)" % (ft_term(name, args).strip("()"), coq_bool("i" in s), coq_bool("h" in s), coq_bool("o" in s), coq_bool("l" in s)))
    out += ["  end.", "", "(* FrameFeature::specs bit set: NonAckEliciting=%d CongestionControlFree=%d ProbeNewPath=%d FlowControlled=%d *)" % (lv["n"], lv["c"], lv["p"], lv["f"]),
            "Definition ft_specs (t : ftype) : Z :=", "  match t with"]
    for name, args in allft:
        out.append("  | %s => %d" % (ft_term(name, args).strip("()"), specs.get(name, default)))
    out += ["  end.", "", "Definition SPEC_NON_ACK_ELICITING : Z := %d." % lv["n"], "Definition SPEC_CC_FREE : Z := %d." % lv["c"],
            "Definition SPEC_PROBE : Z := %d." % lv["p"], "Definition SPEC_FLOW_CONTROLLED : Z := %d." % lv["f"], ""]
    return write_if_changed("FrameTable.v", "\n".join(out))


# ----------------------------------------------------------------------------------------
# error kinds and the frame-error -> connection-error mapping
# ----------------------------------------------------------------------------------------

def error_kind_codes():
    src = strip_comments(read("qbase/src/error.rs"))
    body = block_after(src, r"impl\s+From<ErrorKind>\s+for\s+VarInt", "From<ErrorKind> for VarInt")
    body = block_after(body, r"match\s+value\s*", "match in From<ErrorKind> for VarInt")
    codes = {}
    for pat, rhs in split_arms(body):
        m = re.fullmatch(r"ErrorKind::(\w+)(?:\((\w+)\))?", pat)
        if not m:
            raise TableError("ErrorKind arm not understood: %s" % pat)
        mm = re.fullmatch(r"VarInt::from\((0x[0-9a-fA-F]+)u(?:8|16)\)", rhs)
        if mm and not m.group(2):
            codes[m.group(1)] = int(mm.group(1), 0)
            continue
        mm = re.fullmatch(r"VarInt::from\((0x[0-9a-fA-F]+)u16 \| x as u16\)", rhs)
        if mm and m.group(1) == "Crypto":
            codes["Crypto"] = int(mm.group(1), 0)
            continue
        raise TableError("ErrorKind arm not understood: %s => %s" % (pat, rhs))
    # decoding ranges: TryFrom<VarInt> for ErrorKind
    body = block_after(src, r"impl\s+TryFrom<VarInt>\s+for\s+ErrorKind", "TryFrom<VarInt> for ErrorKind")
    body = block_after(body, r"match\s+value\.into_u64\(\)\s*", "match in TryFrom<VarInt> for ErrorKind")
    valid = []
    for pat, rhs in split_arms(body):
        if pat == "other":
            continue
        m = re.fullmatch(r"(0x[0-9a-fA-F]+)", pat)
        if m:
            name = re.fullmatch(r"ErrorKind::(\w+)", rhs)
            if not name or codes.get(name.group(1)) != int(pat, 0):
                raise TableError("ErrorKind decode arm %s => %s disagrees with the encode table" % (pat, rhs))
            valid.append((int(pat, 0), int(pat, 0)))
            continue
        m = re.fullmatch(r"(0x[0-9a-fA-F]+)\.\.=(0x[0-9a-fA-F]+)", pat)
        if m and rhs.startswith("ErrorKind::Crypto("):
            valid.append((int(m.group(1), 0), int(m.group(2), 0)))
            continue
        raise TableError("ErrorKind decode arm not understood: %s => %s" % (pat, rhs))
    return codes, valid


FERR = {"NoFrames": "ENoFrames", "IncompleteType": "EIncompleteType", "InvalidType": "EInvalidType",
        "WrongType": "EWrongType", "IncompleteFrame": "EIncompleteFrame", "ParseError": "EParseError"}


def gen_error_table():
    codes, valid = error_kind_codes()
    src = strip_comments(read("qbase/src/frame/error.rs"))
    body = block_after(src, r"impl\s+From<Error>\s+for\s+QuicError", "From<frame::Error> for QuicError")
    body = block_after(body, r"match\s+e\s*", "match in From<frame::Error> for QuicError")
    mapping = {}
    for pat, rhs in split_arms(body):
        m = re.fullmatch(r"Error::(\w+)(?:\(.*\))?", pat)
        if not m or m.group(1) not in FERR:
            raise TableError("frame error arm not understood: %s" % pat)
        kinds = set(re.findall(r"QuicErrorKind::(\w+)", rhs))
        if len(kinds) != 1:
            raise TableError("frame error arm %s does not name exactly one QuicErrorKind" % pat)
        k = kinds.pop()
        if k not in codes:
            raise TableError("unknown error kind %s" % k)
        mapping[m.group(1)] = (k, codes[k])
    if set(mapping) != set(FERR):
        raise TableError("frame error variants changed: %s" % sorted(mapping))
    out = ["(* GENERATED by tools/extract_tables.py from qbase/src/error.rs and frame/error.rs — do not edit *)",
           "From Coq Require Import List ZArith Bool.", "From GQ Require Import Lib.FrameTypes.", "Import ListNotations.",
           "Local Open Scope Z_scope.", ""]
    for name, code in sorted(codes.items(), key=lambda kv: kv[1]):
        out.append("Definition EK_%s : Z := %d." % (re.sub(r"(?<!^)(?=[A-Z])", "_", name).upper(), code))
    out += ["", "(* TryFrom<VarInt> for ErrorKind: accepted code ranges *)",
            "Definition error_kind_ranges : list (Z * Z) := [%s]." % "; ".join("(%d, %d)" % r for r in valid), "",
            "(* From<frame::Error> for QuicError: kind of the connection error *)",
            "Definition quic_error_of (e : ferr) : Z :=", "  match e with"]
    for name in FERR:
        out.append("  | %s => %d  (* %s *)" % (FERR[name], mapping[name][1], mapping[name][0]))
    out += ["  end.", ""]
    return write_if_changed("ErrorTable.v", "\n".join(out))


# ----------------------------------------------------------------------------------------
# transport parameters
# ----------------------------------------------------------------------------------------

PVT = {"VarInt": "VTVarInt", "Boolean": "VTBoolean", "Bytes": "VTBytes", "Duration": "VTDuration",
       "ResetToken": "VTResetToken", "ConnectionId": "VTConnectionId", "PreferredAddress": "VTPreferredAddress"}


def const_value(name):
    """numeric constants that may appear in `bound = a..=b`"""
    if name == "VARINT_MAX":
        src = strip_comments(read("qbase/src/varint.rs"))
        m = re.search(r"pub\s+const\s+VARINT_MAX\s*:\s*u64\s*=\s*(0x[0-9a-fA-F_]+)", src)
        if not m:
            raise TableError("VARINT_MAX not found")
        return int(m.group(1).replace("_", ""), 0)
    if name == "MAX_STREAMS_LIMIT":
        src = strip_comments(read("qbase/src/sid.rs"))
        m = re.search(r"pub\s+const\s+MAX_STREAMS_LIMIT\s*:\s*u64\s*=\s*\(1\s*<<\s*(\d+)\)\s*-\s*1", src)
        if not m:
            raise TableError("MAX_STREAMS_LIMIT not found")
        return (1 << int(m.group(1))) - 1
    raise TableError("unknown constant %s in a parameter bound" % name)


def num(tok):
    tok = tok.strip()
    if re.fullmatch(r"(0x[0-9a-fA-F_]+|\d[\d_]*)(u32|u64)?", tok):
        return int(re.sub(r"(u32|u64)$", "", tok).replace("_", ""), 0)
    if re.fullmatch(r"[A-Z_]+", tok):
        return const_value(tok)
    raise TableError("cannot evaluate %r" % tok)


def gen_param_table():
    src = strip_comments(read("qbase/src/param/core.rs"))
    body = block_after(src, r"pub\s+enum\s+ParameterId", "enum ParameterId")
    rows = []
    for m in re.finditer(r"#\[param\(([^\]]*)\)\]\s*(\w+)\s*=\s*(0x[0-9a-fA-F]+|\d+)\s*,", body):
        attrs, name, code = m.group(1), m.group(2), int(m.group(3), 0)
        vt = re.search(r"value_type\s*=\s*(\w+)", attrs)
        if not vt or vt.group(1) not in PVT:
            raise TableError("parameter %s: value_type not understood" % name)
        bound = None
        mb = re.search(r"bound\s*=\s*([^,]+?)\.\.=([^,]+)$", attrs.strip())
        if not mb:
            mb = re.search(r"bound\s*=\s*([^,]+?)\.\.=([^,]+),", attrs)
        if "bound" in attrs:
            if not mb:
                raise TableError("parameter %s: bound not understood: %s" % (name, attrs))
            bound = (num(mb.group(1)), num(mb.group(2)))
        default = None
        md = re.search(r"default\s*=\s*(Duration::ZERO|Duration::from_millis\((\d+)\)|(\d+)u32)", attrs)
        if "default" in attrs:
            if not md:
                raise TableError("parameter %s: default not understood: %s" % (name, attrs))
            default = 0 if md.group(1) == "Duration::ZERO" else int(md.group(2) or md.group(3))
        rows.append((name, code, vt.group(1), default, bound))
    nvariants = len(re.findall(r"^\s*(\w+)\s*=\s*(?:0x[0-9a-fA-F]+|\d+)\s*,", body, re.M))
    if not rows or len(rows) != nvariants:
        raise TableError("could not parse every ParameterId variant (%d of %d)" % (len(rows), nvariants))
    # belong_to
    bt = block_after(src, r"pub\s+fn\s+belong_to", "ParameterId::belong_to")
    mb = block_after(bt, r"match\s+self\s*", "match in belong_to")
    server_only, client_only = set(), set()
    seen_default = False
    for pat, rhs in split_arms(mb):
        pat = re.sub(r"\s+", " ", pat)
        if pat == "_":
            if re.sub(r"\s+", "", rhs) != "Ok(())":
                raise TableError("belong_to default arm changed")
            seen_default = True
            continue
        m = re.fullmatch(r"((?:ParameterId::\w+\s*\|?\s*)+) if role != Role::(Server|Client)", pat)
        if not m or "Err(Error::InvalidParameterId" not in rhs:
            raise TableError("belong_to arm not understood: %s" % pat)
        names = re.findall(r"ParameterId::(\w+)", m.group(1))
        (server_only if m.group(2) == "Server" else client_only).update(names)
    if not seen_default:
        raise TableError("belong_to has no default arm")
    known = set(r[0] for r in rows)
    if not (server_only | client_only) <= known:
        raise TableError("belong_to names unknown parameters")
    # required parameters per role
    rsrc = strip_comments(read("qbase/src/role.rs"))
    req = {}
    for role in ("Client", "Server"):
        b = block_after(rsrc, r"impl\s+RequiredParameters\s+for\s+%s" % role, "RequiredParameters for " + role)
        req[role] = re.findall(r"ParameterId::(\w+)", b)
        if not req[role] or not set(req[role]) <= known:
            raise TableError("required parameters of %s not understood" % role)
    # error -> QuicError kind
    esrc = strip_comments(read("qbase/src/param/error.rs"))
    eb = block_after(esrc, r"impl\s+From<Error>\s+for\s+QuicError", "From<param::Error> for QuicError")
    kinds = set(re.findall(r"QuicErrorKind::(\w+)", eb))
    if len(kinds) != 1:
        raise TableError("param error mapping names %d kinds" % len(kinds))
    codes, _ = error_kind_codes()
    kind = kinds.pop()

    def opt(v):
        return "None" if v is None else "(Some %d)" % v

    out = ["(* GENERATED by tools/extract_tables.py from qbase/src/param/core.rs, param/error.rs, role.rs — do not edit *)",
           "From Coq Require Import List ZArith Bool String.", "From GQ Require Import Lib.ParamTypes.", "Import ListNotations.",
           "Local Open Scope Z_scope.", "",
           "(* (id, value type, default, bound) in declaration order *)",
           "Definition param_table : list param_row := ["]
    out.append(";\n".join('  mk_param %d %s %s %s  (* %s *)' % (code, PVT[vt], opt(d), ("None" if b is None else "(Some (%d, %d))" % b), name)
                          for name, code, vt, d, b in rows).replace(")  (*", ") (*"))
    # fix: comments must not sit before the separators
    body_rows = []
    for name, code, vt, d, b in rows:
        body_rows.append("  (* %s *) mk_param %d %s %s %s" % (name, code, PVT[vt], opt(d), ("None" if b is None else "(Some (%d, %d))" % b)))
    out[-1] = ";\n".join(body_rows)
    out += ["].", ""]
    byname = dict((r[0], r[1]) for r in rows)
    for name, code, vt, d, b in rows:
        out.append("Definition PID_%s : Z := %d." % (re.sub(r"(?<!^)(?=[A-Z])", "_", name).upper(), code))
    out += ["", "(* ParameterId::belong_to: ids only a server / only a client may send *)",
            "Definition server_only_params : list Z := [%s]." % "; ".join(str(byname[n]) for n in sorted(server_only, key=lambda n: byname[n])),
            "Definition client_only_params : list Z := [%s]." % "; ".join(str(byname[n]) for n in sorted(client_only, key=lambda n: byname[n])),
            "", "(* RequiredParameters: ids that must be present in the parameters sent by a client / by a server *)",
            "Definition required_client : list Z := [%s]." % "; ".join(str(byname[n]) for n in req["Client"]),
            "Definition required_server : list Z := [%s]." % "; ".join(str(byname[n]) for n in req["Server"]),
            "", "(* From<param::Error> for QuicError: %s *)" % kind,
            "Definition param_error_kind : Z := %d." % codes[kind], ""]
    return write_if_changed("ParamTable.v", "\n".join(out))


GENERATORS = [("FrameTable.v", gen_frame_table), ("ErrorTable.v", gen_error_table), ("ParamTable.v", gen_param_table)]


def regen_all(only=None):
    changed = []
    for name, fn in GENERATORS:
        if only and name not in only:
            continue
        try:
            if fn():
                changed.append(name)
        except TableError as e:
            raise TableError("%s: %s" % (name, e))
    return changed


if __name__ == "__main__":
    try:
        ch = regen_all()
        print("regenerated:", ch if ch else "(nothing changed)")
    except TableError as e:
        print("TABLE ERROR:", e)
        sys.exit(2)
