#!/bin/sh
# mkmut.sh <name>: scratch git worktree of /repo for a seeded-change sub-agent (nothing from /verif)
set -e
D=/tmp/mut_$1
rm -rf $D; mkdir -p $D/out
git -C /repo worktree add --detach $D/repo HEAD >/dev/null 2>&1
echo $D
