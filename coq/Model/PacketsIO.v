(* Operation interface of the `pkt` correspondence stream: packet headers, datagram splitting,
   transport parameters. *)
From Coq Require Import List ZArith NArith Bool.
From GQ Require Export Model.FramesIO Model.Packets Model.Params.
Import ListNotations.
Local Open Scope Z_scope.

Definition header_kind (h : header) : Z :=
  match h with HVN _ _ _ => 0 | HRetry _ _ _ _ => 1 | HInitial _ _ _ => 2 | HZeroRtt _ _ => 3
             | HHandshake _ _ => 4 | HOneRtt _ _ => 5 end.

Definition header_fields (h : header) : list Z :=
  match h with
  | HVN d s vs => pbytes d ++ pbytes s ++ pbytes vs
  | HRetry d s t i => pbytes d ++ pbytes s ++ pbytes t ++ pbytes i
  | HInitial d s t => pbytes d ++ pbytes s ++ pbytes t
  | HZeroRtt d s | HHandshake d s => pbytes d ++ pbytes s
  | HOneRtt spin d => b2z spin :: pbytes d
  end.

Definition perr_code (e : perr) : list Z :=
  match e with
  | PEUnsupportedVersion v => [0; v]
  | PEInvalidFixedBit => [1]
  | PEIncompleteType => [2]
  | PEIncompleteHeader => [3]
  | PEUnderSampling n => [4; n]
  end.

Definition print_pres (r : pres) : list Z :=
  match r with
  | POk h total off => [0; header_kind h; total; off] ++ header_fields h
  | PErr e => 1 :: perr_code e
  | PPanic s => [2; Z.of_N s]
  end.

Fixpoint print_packets (rs : list pres) : list Z :=
  match rs with
  | [] => []
  | POk h total off :: r => 0 :: header_kind h :: total :: off :: print_packets r
  | PErr e :: r => 1 :: hd 9 (perr_code e) :: print_packets r
  | PPanic s :: r => 2 :: Z.of_N s :: print_packets r
  end.

Definition header_of_fields (kind : Z) (l : list Z) : option header :=
  if kind =? 5 then
    match l with
    | spin :: r => match take_bytes r with Some (d, []) => Some (HOneRtt (z2b spin) d) | _ => None end
    | [] => None
    end
  else
    match take_bytes l with
    | Some (d, r1) =>
      match take_bytes r1 with
      | Some (s, r2) =>
        if kind =? 0 then match take_bytes r2 with Some (vs, []) => Some (HVN d s vs) | _ => None end
        else if kind =? 1 then
          match take_bytes r2 with
          | Some (t, r3) => match take_bytes r3 with Some (i, []) => Some (HRetry d s t i) | _ => None end
          | None => None
          end
        else if kind =? 2 then match take_bytes r2 with Some (t, []) => Some (HInitial d s t) | _ => None end
        else if kind =? 3 then match r2 with [] => Some (HZeroRtt d s) | _ => None end
        else if kind =? 4 then match r2 with [] => Some (HHandshake d s) | _ => None end
        else None
      | None => None
      end
    | None => None
    end.

(* ---- transport parameters ---- *)
Definition pvalue_fields (v : pvalue) : list Z :=
  match v with
  | PVVarInt x => [0; x]
  | PVTrue => [1]
  | PVBytes b => 2 :: pbytes b
  | PVDuration ms => [3; ms]
  | PVResetToken t => 4 :: pbytes t
  | PVCid c => 5 :: pbytes c
  | PVPrefAddr a4 a6 cid tok => 6 :: pbytes a4 ++ pbytes a6 ++ pbytes cid ++ pbytes tok
  end.

Fixpoint insert_sorted (x : Z * pvalue) (l : pmap_t) : pmap_t :=
  match l with
  | [] => [x]
  | y :: r => if fst x <=? fst y then x :: l else y :: insert_sorted x r
  end.
Definition sort_params (m : pmap_t) : pmap_t := fold_right insert_sorted [] m.

Fixpoint print_params (m : pmap_t) : list Z :=
  match m with
  | [] => []
  | (id, v) :: r => id :: pvalue_fields v ++ print_params r
  end.

Definition print_pares (r : pares) : list Z :=
  match r with
  | PaOk m => 0 :: print_params (sort_params m)
  | PaErr => [1; param_error_kind]
  | PaPanic s => [2; Z.of_N s]
  end.

Definition role_of (v : Z) : role := if v =? 0 then Client else Server.

(* (id, value) list from a flat field list: id, type code, fields *)
Definition value_of_fields (l : list Z) : option (pvalue * list Z) :=
  match l with
  | 0 :: x :: r => Some (PVVarInt x, r)
  | 1 :: r => Some (PVTrue, r)
  | 2 :: r => match take_bytes r with Some (b, r') => Some (PVBytes b, r') | None => None end
  | 3 :: x :: r => Some (PVDuration x, r)
  | 4 :: r => match take_bytes r with Some (b, r') => Some (PVResetToken b, r') | None => None end
  | 5 :: r => match take_bytes r with Some (b, r') => Some (PVCid b, r') | None => None end
  | 6 :: r =>
      match take_bytes r with
      | Some (a4, r1) => match take_bytes r1 with
        | Some (a6, r2) => match take_bytes r2 with
          | Some (cid, r3) => match take_bytes r3 with
            | Some (tok, r4) => Some (PVPrefAddr a4 a6 cid tok, r4)
            | None => None end
          | None => None end
        | None => None end
      | None => None
      end
  | _ => None
  end.

Fixpoint params_of_fields (fuel : nat) (l : list Z) : option pmap_t :=
  match l with
  | [] => Some []
  | id :: r =>
    match fuel with
    | O => None
    | S f => match value_of_fields r with
             | Some (v, r') => match params_of_fields f r' with Some m => Some ((id, v) :: m) | None => None end
             | None => None
             end
    end
  end.

(* Parameters::set for each entry in order (belong_to + validate), then the encoding of every entry *)
Fixpoint set_all (r : role) (m : pmap_t) (l : pmap_t) : option pmap_t :=
  match l with
  | [] => Some m
  | (id, v) :: t =>
    match param_row_of id with
    | None => None
    | Some row => if belong_to id r && in_bound row v then set_all r (pm_set m id v) t else None
    end
  end.

(* the raw (id, value bytes) view of an encoding, sorted by id: what the harness can observe of put_parameters,
   whose HashMap iteration order is arbitrary *)
Fixpoint raw_params (fuel : nat) (bs : list Z) : list (Z * pvalue) :=
  match bs with
  | [] => []
  | _ => match fuel with
         | O => []
         | S f => match be_raw_parameter bs with
                  | Ok (id, d) rest => (id, PVBytes d) :: raw_params f rest
                  | _ => []
                  end
         end
  end.

(* ops: 10 dcid_len bytes…   be_packet
        11 dcid_len bytes…   PacketReader
        12 kind fields…      put_header: declared size, bytes
        13 role bytes…       Parameters::parse_from_bytes
        14 role fields…      set every (id,value), put_parameters, raw view sorted by id
        15 bytes…            ServerParameters::try_from_remembered_bytes *)
Definition pkt_step (t : N) (args : list Z) : list Z :=
  match t, args with
  | 10%N, n :: bs => print_pres (be_packet n bs)
  | 11%N, n :: bs => print_packets (packets_of n bs)
  | 12%N, kind :: fields =>
      match header_of_fields kind fields with
      | Some h => 0 :: (match h with HVN _ _ _ | HRetry _ _ _ _ => -1 | _ => header_size h end) :: put_header h
      | None => [-2]
      end
  | 13%N, r :: bs => print_pares (parse_params (role_of r) bs)
  | 14%N, r :: fields =>
      match params_of_fields (S (length fields)) fields with
      | Some l => match set_all (role_of r) [] l with
                  | Some m => let bs := put_params m in 0 :: print_params (sort_params (raw_params (S (length bs)) bs))
                  | None => [1]
                  end
      | None => [-2]
      end
  | 15%N, bs => print_pares (parse_remembered bs)
  | _, _ => [-99]
  end.

Definition run_pkt (cfg : list Z) (ops : list (N * list Z)) : list (list Z) :=
  map (fun o => pkt_step (fst o) (snd o)) ops.
