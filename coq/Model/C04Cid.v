(* C04 cost model of qbase/src/cid/remote_cid.rs (RemoteCids::{recv_new_cid_frame, retire_prior_to,
   arrange_idle_cid}), qbase/src/cid/local_cid.rs (LocalCids::{set_limit, recv_retire_cid_frame,
   issue_new_cid}) and the part of qbase/src/util/index_deque.rs they use (insert with gap filling,
   drain_to, advance, reset_offset).  Definitions only.

   RemoteCids.  The handler itself is NOT modelled again here: it is Model.RemoteCid (the model
   property C14 proves its invariants about), in the variant of the repaired code
   [recv_new_cid no_pre post_count]: no test before the frame is processed, the ACTIVE connection
   IDs are counted afterwards (`fix: enforce active_connection_id_limit on the count of active
   peer connection IDs`).  What this file adds is the COST of one call:
     * [rc_gap], [rc_gap_frames] : the two value-driven quantities, computed by ARITHMETIC on the
       fields of the frame and the offsets/lengths of the state, so that a NEW_CONNECTION_ID with
       sequence number 2^62-1 can be costed without building anything: the default cells
       `IndexDeque::insert` appends between the old end of cid_deque and the sequence number, and
       the RETIRE_CONNECTION_ID frames `retire_prior_to` queues for sequence NUMBERS no cell ever
       used;
     * [rc_new_cost] : the work units of the whole call, read off the shared model's input and
       output states (cells appended, cells drained, ready cells popped, frames queued, pending
       cells looked at, and the two counting passes of the limit check over ready_cells and over
       the WHOLE cid_deque).
   Proofs/C04Cid.v shows that the shared model allocates exactly [rc_gap] (+1) cells and queues
   exactly [rc_gap_frames] + (frames of CidCell::assign) frames, and bounds the cost from both sides.

   LocalCids.  A connection ID is its presence bit; an IndexDeque is (offset, list of cells).
   Every handler comes in two forms that share all their arithmetic: [.._cost]/[.._frames]/[.._err]
   (integers computed WITHOUT building the new state) and [.._apply] (the new state).

   Cost unit: one loop iteration or one allocated cell or one frame pushed to the send queue. *)
From Coq Require Import List ZArith NArith Bool.
From GQ Require Import Lib.Base Model.RemoteCid.
Import ListNotations.

Definition b2z (b : bool) : Z := if b then 1%Z else 0%Z.
Definition zlen {A} (l : list A) : Z := Z.of_nat (length l).

(* error kinds as printed by the harness *)
Definition E_NONE : Z := 0.
Definition E_FRAME_ENCODING : Z := 7.
Definition E_TRANSPORT_PARAMETER : Z := 8.
Definition E_CONNECTION_ID_LIMIT : Z := 9.
Definition E_PROTOCOL_VIOLATION : Z := 10.
Definition E_STREAM_LIMIT : Z := 4.

(* ------------------------------------------------------------------ RemoteCids *)
Local Open Scope N_scope.

(* new(limit); apply_dcid (the handshake path, cell 0); apply_initial_dcid(initial dcid, cell 0) *)
Definition rc_init (limit : N) : rcids := remote_init limit 1 0 0.

(* recv_new_cid_frame of the repaired code; the connection ID itself is irrelevant here: its
   sequence number stands for it *)
Definition rc_recv (s : rcids) (seq rpt : N) : rcids * list N * newcid_res :=
  recv_new_cid no_pre post_count s seq rpt seq.

(* apply_dcid: a path applies for a connection ID (the frames CidCell::assign may queue are not
   observed by the harness operation) *)
Definition rc_apply_dcid (s : rcids) : rcids := fst (fst (apply_dcid s)).

(* connection IDs the paths' cells hold: Σ |allocated_cids| *)
Fixpoint allocs (cs : list cell) : N :=
  match cs with
  | [] => 0
  | c :: r => lenN (a_alloc c) + allocs r
  end.

(* the state RemoteCids holds, in cells *)
Definition rc_size (s : rcids) : N :=
  lenN (r_cids s) + lenN (r_ready s) + lenN (r_pending s) + allocs (r_cells s).

(* -- the arithmetic of recv_new_cid_frame(seq, retire_prior_to) -- *)
Definition rc_end (s : rcids) : N := r_coff s + lenN (r_cids s).               (* cid_deque.largest() *)
Definition rc_discards (s : rcids) (seq : N) : bool := seq <? r_coff s.
(* IndexDeque::insert: cells default-filled between the old end and seq (`resize(pos, default)`) *)
Definition rc_gap (s : rcids) (seq : N) : N := seq - rc_end s.
Definition rc_len_ins (s : rcids) (seq : N) : N := N.max (lenN (r_cids s)) (seq - r_coff s + 1).
Definition rc_retires (s : rcids) (rpt : N) : bool := r_roff s <? rpt.
Definition rc_applied (s : rcids) : N := r_roff s + lenN (r_ready s).          (* ready_cells.largest() *)
(* drain_to(rpt): cells dropped from the front *)
Definition rc_coff_after (s : rcids) (seq rpt : N) : N :=
  if rc_retires s rpt then N.min (N.max rpt (r_coff s)) (r_coff s + rc_len_ins s seq) else r_coff s.
Definition rc_drained (s : rcids) (seq rpt : N) : N := rc_coff_after s seq rpt - r_coff s.
(* ready cells popped (the live ones are pushed back to pending_cells) *)
Definition rc_popped (s : rcids) (rpt : N) : N :=
  if rc_retires s rpt then N.min (rc_applied s) rpt - r_roff s else 0.
(* RETIRE_CONNECTION_ID frames for sequence numbers no cell ever used: one frame per NUMBER
   (`(ready_cells.offset()..tomb_seq)` when ready_cells is empty, `(actual_applied..tomb_seq)` otherwise:
   the same range, since an empty ready_cells has largest() = offset()) *)
Definition rc_gap_frames (s : rcids) (rpt : N) : N :=
  if rc_retires s rpt then rpt - rc_applied s else 0.

(* retire_prior_to alone: the test, drain_to, the pop loop, one frame per unused number *)
Definition rc_retire_cost (s : rcids) (seq rpt : N) : N :=
  1 + rc_drained s seq rpt + rc_popped s rpt + rc_gap_frames s rpt.

(* the value-driven part: cells and frames whose number is a difference of field VALUES *)
Definition rc_new_cells (s : rcids) (seq : N) : N := if rc_discards s seq then 0 else rc_gap s seq.
Definition rc_new_drv (s : rcids) (seq rpt : N) : N :=
  if rc_discards s seq then 0 else rc_gap s seq + rc_gap_frames s rpt.

(* debug_assert! in drain_to: end >= offset (its other half, end <= offset+len, holds after the
   insert because rpt <= seq); C14 proves it unreachable (the two deques stay aligned) *)
Definition rc_new_panics (s : rcids) (seq rpt : N) : bool :=
  negb (rc_discards s seq) && rc_retires s rpt && (rpt <? r_coff s).

Definition rc_res_err (r : newcid_res) : Z :=
  match r with NErrLimit => E_CONNECTION_ID_LIMIT | _ => E_NONE end.

(* work units of one call, read off the shared model:
     1                               the `seq < offset` test
     gap + 1                         insert: default cells appended, the ID stored
     1 + drained + popped            retire_prior_to: the test, drain_to, the pop loop
     |frames|                        RETIRE_CONNECTION_ID frames queued (retire_prior_to and CidCell::assign)
     |pending| + popped + 1          arrange_idle_cid looks at every pending cell at most once
     |ready'| + |cid_deque'|         the limit check counts the retired ready cells and walks the whole deque *)
Definition rc_new_cost (s : rcids) (seq rpt : N) : N :=
  if rc_discards s seq then 1
  else
    let '(s', fr, _) := rc_recv s seq rpt in
    1 + (rc_gap s seq + 1) + (1 + rc_drained s seq rpt + rc_popped s rpt) + lenN fr
    + (lenN (r_pending s) + rc_popped s rpt + 1) + (lenN (r_ready s') + lenN (r_cids s')).

Local Close Scope N_scope.
Local Open Scope Z_scope.

(* ------------------------------------------------------------------ LocalCids *)
(* IndexDeque::get(i) is Some(Some _) *)
Definition cells_has (off : Z) (cells : list bool) (i : Z) : bool :=
  (off <=? i) && (i <? off + zlen cells) && nth (Z.to_nat (i - off)) cells false.

Record lcst := mklc { lc_off : Z; lc_cells : list bool; lc_limit : option Z }.
Definition lc_init : lcst := mklc 0 [true; true] None.
Definition lc_len (s : lcst) : Z := zlen (lc_cells s).
Definition lc_next (s : lcst) : Z := lc_off s + lc_len s.      (* IndexDeque::largest *)

(* set_limit(n): issues one connection ID (one NEW_CONNECTION_ID frame, one deque cell) per number
   between the next sequence number and n *)
Definition lc_set_err (s : lcst) (n : Z) : Z := if n <? 2 then E_TRANSPORT_PARAMETER else E_NONE.
Definition lc_set_frames (s : lcst) (n : Z) : Z := if n <? 2 then 0 else Z.max 0 (n - lc_next s).
Definition lc_set_cost (s : lcst) (n : Z) : Z := 1 + lc_set_frames s n.
Definition lc_set_apply (s : lcst) (n : Z) : lcst :=
  if n <? 2 then s
  else mklc (lc_off s) (lc_cells s ++ repeat true (Z.to_nat (lc_set_frames s n))) (Some n).

(* recv_retire_cid_frame(seq) *)
Fixpoint lead_none (l : list bool) : nat :=
  match l with false :: r => S (lead_none r) | _ => O end.
Fixpoint clear_nth (n : nat) (l : list bool) : list bool :=
  match l, n with
  | [], _ => []
  | _ :: r, O => false :: r
  | y :: r, S k => y :: clear_nth k r
  end.

(* [rfc_kind] = true is RFC 9000 19.16 (PROTOCOL_VIOLATION): the code since `fix: RETIRE_CONNECTION_ID for a
   sequence number never issued is a PROTOCOL_VIOLATION`; false is the code before it (CONNECTION_ID_LIMIT_ERROR, F55) *)
Definition lc_retire_err (rfc_kind : bool) (s : lcst) (seq : Z) : Z :=
  if lc_next s <=? seq then (if rfc_kind then E_PROTOCOL_VIOLATION else E_CONNECTION_ID_LIMIT) else E_NONE.
Definition lc_retire_hits (s : lcst) (seq : Z) : bool :=
  (seq <? lc_next s) && cells_has (lc_off s) (lc_cells s) seq.
Definition lc_retire_frames (s : lcst) (seq : Z) : Z := if lc_retire_hits s seq then 1 else 0.
Definition lc_retire_advance (s : lcst) (seq : Z) : nat :=
  lead_none (clear_nth (Z.to_nat (seq - lc_off s)) (lc_cells s)).
Definition lc_retire_cost (s : lcst) (seq : Z) : Z :=
  if lc_retire_hits s seq then 2 + Z.of_nat (lc_retire_advance s seq) else 1.
Definition lc_retire_apply (s : lcst) (seq : Z) : lcst :=
  if lc_retire_hits s seq then
    let n := lc_retire_advance s seq in
    mklc (lc_off s + Z.of_nat n)
         (skipn n (clear_nth (Z.to_nat (seq - lc_off s)) (lc_cells s)) ++ [true]) (lc_limit s)
  else s.
