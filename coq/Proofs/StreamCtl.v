(* Proofs about Model/StreamCtl.v: window table, direction checks, final size, receive-side
   detection, per-stream send window, the charge of one packet-loading step. *)
From Coq Require Import List NArith ZArith Bool Lia.
From GQ Require Import Model.StreamCtl Proofs.Sid Proofs.Flow.
Import ListNotations.
Local Open Scope N_scope.
Arguments N.add : simpl never.
Arguments N.sub : simpl never.
Arguments N.mul : simpl never.
Arguments N.min : simpl never.
Arguments N.max : simpl never.
Arguments N.pow : simpl never.
Arguments N.div : simpl never.
Arguments N.modulo : simpl never.

(* ---------------------------------------------------------------- window table (RFC 9000 18.2) *)
(* the send window of a stream is the PEER's parameter for that kind seen from the peer:
   a stream we open is "remote" for the peer; a stream the peer opened is "local" for it *)
Definition rfc_send_window (we_opened : bool) (d : dir) (peer : params) : N :=
  match we_opened, d with
  | true, Bi => p_sdbr peer
  | true, Uni => p_sdu peer
  | false, _ => p_sdbl peer
  end.
(* the receive window we grant is OUR parameter for that kind seen from us *)
Definition rfc_recv_window (we_opened : bool) (d : dir) (loc : params) : N :=
  match we_opened, d with
  | true, _ => p_sdbl loc
  | false, Bi => p_sdbr loc
  | false, Uni => p_sdu loc
  end.

Lemma p_c11_window_table_recv loc d :
  open_recv_window loc = rfc_recv_window true Bi loc
  /\ accept_recv_window loc d = rfc_recv_window false d loc.
Proof. destruct d; split; reflexivity. Qed.

Lemma p_c11_window_table_send_fixed d mem remote peer :
  (mem = Some peer \/ (mem = None /\ remote = Some peer)) ->
  open_send_window fixed d mem remote = Some (rfc_send_window true d peer)
  /\ accept_send_window peer = rfc_send_window false Bi peer
  /\ revise_send_window peer d = rfc_send_window true d peer.
Proof. intros [-> | [-> ->]]; destruct d; repeat split; reflexivity. Qed.

(* as coded: right for bidirectional streams, for 0-RTT, and whenever the two values coincide *)
Lemma p_c11_window_table_send_asis d mem remote peer :
  (mem = Some peer \/ (mem = None /\ remote = Some peer)) ->
  ~ (mem = None /\ d = Uni /\ p_sdu peer <> p_sdbr peer) ->
  open_send_window as_is d mem remote = Some (rfc_send_window true d peer).
Proof.
  intros [-> | [-> ->]] NK; destruct d; try reflexivity.
  cbn. f_equal. destruct (N.eq_dec (p_sdu peer) (p_sdbr peer)) as [E|E]; [congruence|].
  exfalso. apply NK. auto.
Qed.

Lemma p_c11_window_table_refuted :
  exists peer, open_send_window as_is Uni None (Some peer) <> Some (rfc_send_window true Uni peer).
Proof. exists (mkp 0 0 0 0 1000 0). vm_compute. discriminate. Qed.

(* F26: the repaired revise_params leaves peer-initiated streams alone; the code does not *)
Lemma p_c11_revise_scope_fixed s rej sid sn :
  In (sid, sn) (revise_outs fixed s rej) -> sid_role sid <> d_role s -> In (sid, sn) (d_outs s).
Proof.
  unfold revise_outs. intros Hin Hr. apply in_map_iff in Hin. destruct Hin as ([k x] & E & Hin).
  cbn [fst snd] in E. cbn [fix26 fixed negb orb] in E.
  destruct (role_eqb (sid_role k) (d_role s)) eqn:R.
  - destruct (sid_idx k <? _); cbn [andb] in E; inversion E; subst.
    + exfalso. apply Hr. destruct (sid_role sid), (d_role s); cbn in R; congruence.
    + exact Hin.
  - rewrite andb_false_r in E. inversion E; subst. exact Hin.
Qed.

(* ---------------------------------------------------------------- direction *)
(* frames only the sending half emits, on a stream we alone may send on *)
Lemma p_c12_direction_local_uni v s sid :
  sid_role sid = d_role s -> sid_dir sid = Uni -> ds_check_sid v s sid true = inr EStreamState.
Proof.
  intros Hr Hd. unfold ds_check_sid. rewrite Hr, Hd.
  destruct (d_role s); reflexivity.
Qed.
(* frames only the receiving half emits, on a stream the peer alone may send on *)
Lemma p_c12_direction_remote_uni v s sid :
  sid_role sid <> d_role s -> sid_dir sid = Uni -> ds_check_sid v s sid false = inr EStreamState.
Proof.
  intros Hr Hd. unfold ds_check_sid. rewrite Hd.
  destruct (sid_role sid), (d_role s); try reflexivity; exfalso; apply Hr; reflexivity.
Qed.
(* and StreamState is produced in no other situation *)
Lemma p_c12_direction_only v s sid side :
  ds_check_sid v s sid side = inr EStreamState ->
  sid_dir sid = Uni /\ (if side then sid_role sid = d_role s else sid_role sid <> d_role s).
Proof.
  unfold ds_check_sid, ds_try_accept.
  destruct (role_eqb (sid_role sid) (d_role s)) eqn:R; cbn [negb].
  - destruct side; [|discriminate]. destruct (sid_dir sid); [discriminate|]. intros _. split; [reflexivity|].
    destruct (sid_role sid), (d_role s); cbn in R; congruence.
  - assert (sid_role sid <> d_role s) by (destruct (sid_role sid), (d_role s); cbn in R; congruence).
    destruct side.
    + destruct (try_accept_sid false (fix27 v) (d_r s) (sid_dir sid) (sid_idx sid)) as [[r' res] up].
      destruct res; discriminate.
    + destruct (sid_dir sid); [|auto].
      destruct (try_accept_sid false (fix27 v) (d_r s) Bi (sid_idx sid)) as [[r' res] up].
      destruct res; discriminate.
Qed.

(* at the level of whole operations: the connection is closed with StreamState (kind 5) *)
Lemma p_c12_direction_step v s sid :
  d_closed s = false -> sid_dir sid = Uni ->
  (sid_role sid = d_role s ->
     forall off len fin final err w,
       ds_step v s (OStream sid off len fin) = (set_closed s, [5; 0; 0]%Z)
       /\ ds_step v s (OReset sid err final) = (set_closed s, [5; 0; 0]%Z)
       /\ ds_step v s (OSDBlocked sid w) = (set_closed s, [5; 0; 0]%Z))
  /\ (sid_role sid <> d_role s ->
     forall err w,
       ds_step v s (OStop sid err) = (set_closed s, [5; 0; 0]%Z)
       /\ ds_step v s (OMaxSD sid w) = (set_closed s, [5; 0; 0]%Z)).
Proof.
  intros Hc Hd. split; intros Hr; intros.
  - unfold ds_step. rewrite Hc. unfold ds_recv_stream, ds_recv_reset, ds_recv_sdblocked.
    rewrite (p_c12_direction_local_uni v s sid Hr Hd). repeat split; reflexivity.
  - unfold ds_step. rewrite Hc. unfold ds_recv_stop, ds_recv_maxsd.
    rewrite (p_c12_direction_remote_uni v s sid Hr Hd). repeat split; reflexivity.
Qed.

(* ---------------------------------------------------------------- final size *)
Definition final_or_flow (v : variant) (x : recver + rerr) : Prop :=
  x = inr EFinalSize \/ (fix13 v = true /\ x = inr EFlowControl).

(* the final size is known: data beyond it, or a FIN that moves it *)
Lemma p_c12_final_size_known v r f off len fin :
  rc_phase r = PSizeKnown f ->
  (f < off + len \/ (fin = true /\ off + len <> f)) ->
  rc_recv_data v r off len fin = inr EFinalSize.
Proof.
  intros Hp H. unfold rc_recv_data. rewrite Hp.
  destruct (N.ltb_spec f (off + len)); [reflexivity|].
  destruct H as [H | [-> H]]; [lia|]. cbn [andb].
  destruct (N.eqb_spec (off + len) f); [contradiction|reflexivity].
Qed.
(* a FIN that would cut off data already received *)
Lemma p_c12_final_size_shrink v r off len :
  rc_phase r = PRecv -> off + len < largest (rc_buf r) ->
  final_or_flow v (rc_recv_data v r off len true).
Proof.
  intros Hp H. unfold rc_recv_data, final_or_flow. rewrite Hp.
  destruct (fix13 v && (rc_maxsd r <? off + len)) eqn:E.
  - right. apply andb_true_iff in E. tauto.
  - left. destruct (N.ltb_spec (off + len) (largest (rc_buf r))); [reflexivity|lia].
Qed.
(* RESET_STREAM: a different final size, or one below what was received *)
Lemma p_c12_final_size_reset v r final :
  match rc_phase r with
  | PSizeKnown f => final <> f -> rc_recv_reset v r final = inr EFinalSize
  | PRecv => final < rc_largest r ->
             rc_recv_reset v r final = inr EFinalSize
             \/ (fix13 v = true /\ rc_recv_reset v r final = inr EFlowControl)
  | _ => True
  end.
Proof.
  unfold rc_recv_reset. destruct (rc_phase r); auto.
  - intro H. destruct (fix13 v && (rc_maxsd r <? final)) eqn:E.
    + right. apply andb_true_iff in E. tauto.
    + left. destruct (N.ltb_spec final (rc_largest r)); [reflexivity|lia].
  - intro H. destruct (N.eqb_spec final final0); [contradiction|reflexivity].
Qed.
(* FinalSize is raised in no other situation *)
Lemma p_c12_final_size_only v r off len fin :
  rc_recv_data v r off len fin = inr EFinalSize ->
  match rc_phase r with
  | PRecv => fin = true /\ off + len < largest (rc_buf r)
  | PSizeKnown f => f < off + len \/ (fin = true /\ off + len <> f)
  | _ => False
  end.
Proof.
  unfold rc_recv_data. destruct (rc_phase r); try discriminate.
  - destruct fin.
    + destruct (fix13 v && _); [discriminate|].
      destruct (N.ltb_spec (off + len) (largest (rc_buf r))); [auto|].
      destruct (recv _ _ _) as [b' fr]. destruct (all_rcvd _ _); discriminate.
    + destruct (_ <? _); [discriminate|]. destruct (recv _ _ _); discriminate.
  - destruct (N.ltb_spec final (off + len)); [auto|].
    destruct fin; cbn [andb].
    + destruct (N.eqb_spec (off + len) final); cbn [negb].
      * destruct (recv _ _ _) as [b' fr]. destruct (all_rcvd _ _); discriminate.
      * auto.
    + destruct (recv _ _ _) as [b' fr]. destruct (all_rcvd _ _); discriminate.
Qed.
(* once known, the final size never changes while the stream stays in the receiving set *)
Lemma p_c12_final_size_stable v r f off len fin r' :
  rc_phase r = PSizeKnown f -> rc_recv_data v r off len fin = inl r' ->
  rc_phase r' = PSizeKnown f \/ (rc_phase r' = PDataRcvd /\ rc_inset r' = false).
Proof.
  intros Hp. unfold rc_recv_data. rewrite Hp.
  destruct (f <? off + len); [discriminate|]. destruct (fin && _); [discriminate|].
  destruct (recv _ _ _) as [b' fr]. destruct (all_rcvd _ _); intro H; inversion H; subst; cbn; auto.
Qed.

(* ---------------------------------------------------------------- receive-side detection (stream level) *)
(* repaired model: anything that ends beyond the advertised stream limit, FIN or not, RESET included *)
Lemma p_c11_recv_detects_stream_fixed r off len fin final :
  rc_phase r = PRecv ->
  (rc_maxsd r < off + len -> rc_recv_data fixed r off len fin = inr EFlowControl)
  /\ (rc_maxsd r < final -> rc_recv_reset fixed r final = inr EFlowControl).
Proof.
  intros Hp. unfold rc_recv_data, rc_recv_reset. rewrite Hp. cbn [fix13 fixed andb].
  split; intro H.
  - destruct (N.ltb_spec (rc_maxsd r) (off + len)); [|lia]. destruct fin; reflexivity.
  - destruct (N.ltb_spec (rc_maxsd r) final); [reflexivity|lia].
Qed.
(* as coded: only frames without FIN are checked (known class F13 = FIN-bearing frame or RESET) *)
Lemma p_c11_recv_detects_stream_asis r off len :
  rc_phase r = PRecv -> rc_maxsd r < off + len ->
  rc_recv_data as_is r off len false = inr EFlowControl.
Proof.
  intros Hp H. unfold rc_recv_data. rewrite Hp.
  destruct (N.ltb_spec (rc_maxsd r) (off + len)); [reflexivity|lia].
Qed.
Lemma p_c11_recv_detects_refuted :
  exists r off len final,
    rc_phase r = PRecv /\ rc_maxsd r < off + len /\ rc_maxsd r < final
    /\ (exists r', rc_recv_data as_is r off len true = inl r')
    /\ (exists r' n, rc_recv_reset as_is r final = inl (r', n)).
Proof.
  exists (new_recver 100 false), 5000, 10, 5010. vm_compute.
  split; [reflexivity|]. split; [reflexivity|]. split; [reflexivity|]. split; eauto.
Qed.
(* FlowControl (stream level) is raised only for something beyond the limit *)
Lemma p_c11_recv_flow_only v r off len fin :
  rc_recv_data v r off len fin = inr EFlowControl -> rc_phase r = PRecv /\ rc_maxsd r < off + len.
Proof.
  unfold rc_recv_data. destruct (rc_phase r); try discriminate.
  - destruct fin.
    + destruct (fix13 v); cbn [andb].
      * destruct (N.ltb_spec (rc_maxsd r) (off + len)); [auto|].
        destruct (_ <? _); [discriminate|]. destruct (recv _ _ _). destruct (all_rcvd _ _); discriminate.
      * destruct (_ <? _); [discriminate|]. destruct (recv _ _ _). destruct (all_rcvd _ _); discriminate.
    + destruct (N.ltb_spec (rc_maxsd r) (off + len)); [auto|]. destruct (recv _ _ _); discriminate.
  - destruct (_ <? _); [discriminate|]. destruct (fin && _); [discriminate|].
    destruct (recv _ _ _). destruct (all_rcvd _ _); discriminate.
Qed.

(* MAX_STREAM_DATA only ever grows, and a frame is sent only when it does *)
Lemma p_c11_maxsd_monotone r room :
  let '(r', _, _, m) := rc_read r room in
  rc_maxsd r <= rc_maxsd r' /\ match m with Some x => x = rc_maxsd r' /\ rc_maxsd r < x | None => rc_maxsd r' = rc_maxsd r end.
Proof.
  unfold rc_read. destruct (rc_phase r); cbn.
  - destruct (is_readable (rc_buf r)); [|cbn; split; [lia|reflexivity]].
    destruct (try_read (rc_buf r) room) as [b' out].
    destruct (N.ltb_spec (rc_maxsd r) (nread b' + 1000000)); cbn [andb].
    + destruct (N.ltb_spec (rc_maxsd r) (N.min (nread b' + 2000000) VARINT_MAX)); cbn; split; try lia; auto.
    + cbn. split; [lia|reflexivity].
  - destruct (is_readable (rc_buf r)); [|cbn; split; [lia|reflexivity]].
    destruct (try_read (rc_buf r) room) as [b' out]. cbn. split; [lia|reflexivity].
  - destruct (try_read (rc_buf r) room) as [b' out]. cbn. split; [lia|reflexivity].
  - split; [lia|reflexivity].
  - split; [lia|reflexivity].
  - split; [lia|reflexivity].
Qed.

(* ---------------------------------------------------------------- send window of one stream *)
Lemma lenN_app {A} (a b : list A) : lenN (a ++ b) = lenN a + lenN b.
Proof. unfold lenN. rewrite app_length. lia. Qed.
Lemma lenN_repeat {A} (x : A) n : lenN (repeat x n) = N.of_nat n.
Proof. unfold lenN. rewrite repeat_length. reflexivity. Qed.
Lemma lenN_cons {A} (x : A) l : lenN (x :: l) = lenN l + 1.
Proof. unfold lenN. cbn [length]. lia. Qed.

Lemma col_extend_len col t : lenN (col_extend col t) = N.max (lenN col) t.
Proof. unfold col_extend. rewrite lenN_app, lenN_repeat. lia. Qed.

Lemma recolour_len l a b i p c : lenN (recolour l a b i p c) = lenN l.
Proof. revert i. induction l as [|x t IH]; intro i; cbn [recolour]; [reflexivity|]. rewrite !lenN_cons, IH. reflexivity. Qed.

Lemma first_idx_bound p l i k : first_idx p l i = Some k -> i <= k < i + lenN l.
Proof.
  revert i. induction l as [|x t IH]; intro i; cbn [first_idx]; [discriminate|].
  rewrite lenN_cons. destruct (p x).
  - intro H; inversion H; subst. lia.
  - intro H. apply IH in H. lia.
Qed.

Lemma run_end_bound p l i : i <= run_end p l i <= i + lenN l.
Proof.
  revert i. induction l as [|x t IH]; intro i; cbn [run_end].
  - unfold lenN; cbn. lia.
  - rewrite lenN_cons. destruct (p x); [specialize (IH (i + 1)); lia|lia].
Qed.

Lemma dropN_len {A} n (l : list A) : lenN (dropN n l) = lenN l - n.
Proof. unfold dropN, lenN. rewrite skipn_length. lia. Qed.

Lemma col_sent_le col : col_sent col <= lenN col.
Proof.
  unfold col_sent. destruct (first_idx is_pending col 0) eqn:E; [|lia].
  apply first_idx_bound in E. lia.
Qed.

(* what BufMap::pick hands out lies inside the coloured region, is no longer than what the
   predicate allows, and fresh data is no longer than the flow-control allowance *)
Lemma pick_spec col fl av col' st e fresh :
  pick col fl av = Some (col', st, e, fresh) ->
  lenN col' = lenN col /\ st <= e <= lenN col
  /\ (exists a, av st = Some a /\ e - st <= a)
  /\ (fresh = true -> e - st <= fl).
Proof.
  unfold pick.
  set (choice := match first_idx is_lost col 0 with
                 | Some i => Some (i, Lost)
                 | None => if (col_sent col <? lenN col) && negb (fl =? 0) then Some (col_sent col, Pending) else None
                 end).
  assert (HC : forall s c, choice = Some (s, c) -> s < lenN col /\ (c = Lost \/ c = Pending)).
  { unfold choice. intros s c. destruct (first_idx is_lost col 0) eqn:E.
    - intro H; inversion H; subst. apply first_idx_bound in E. split; [lia|auto].
    - destruct (N.ltb_spec (col_sent col) (lenN col)) as [Hlt|Hge]; cbn [andb]; [|discriminate].
      destruct (negb _); [|discriminate]. intro HH; inversion HH; subst. auto. }
  destruct choice as [[s c]|]; [|discriminate].
  destruct (HC s c eq_refl) as [Hs Hc].
  destruct (av s) as [a|] eqn:Ea; [|discriminate].
  intro H. inversion H; subst. clear H.
  pose proof (run_end_bound (col_eqb c) (dropN st col) st) as RB. rewrite dropN_len in RB.
  rewrite recolour_len. split; [reflexivity|].
  set (allow := if is_lost c then a else N.min a fl) in *.
  set (e0 := run_end (col_eqb c) (dropN st col) st) in *.
  assert (Ha : allow <= a) by (unfold allow; destruct (is_lost c); lia).
  destruct (N.ltb_spec (st + allow) e0).
  - split; [lia|]. split; [exists a; split; [exact Ea|lia]|].
    intro Hf. destruct Hc as [-> | ->]; cbn in Hf; [discriminate|]. unfold allow. cbn. lia.
  - split; [lia|]. split; [exists a; split; [exact Ea|lia]|].
    intro Hf. destruct Hc as [-> | ->]; cbn in Hf; [discriminate|]. unfold allow in *. cbn in *. lia.
Qed.

(* invariant of one sender: the coloured region never reaches past the stream window or past
   what was written; once the FIN has gone out everything written is inside the window *)
Definition Winv (s : sender) : Prop :=
  lenN (sn_col s) <= sn_window s /\ lenN (sn_col s) <= sn_written s
  /\ (sn_state s = SDataSent -> lenN (sn_col s) = sn_written s).

Lemma Winv_new w h : Winv (new_sender w h).
Proof. unfold Winv, new_sender; cbn. unfold lenN; cbn. split; [lia|split; [lia|discriminate]]. Qed.

(* every frame taken from a stream ends within that stream's current window, and a fresh one is
   no longer than the connection-level allowance it was offered *)
Lemma p_c11_stream_limit_step s fl av s' st e fresh eos :
  Winv s -> snd_try_load s fl av = (s', Some (st, e, fresh, eos)) ->
  Winv s' /\ sn_window s' = sn_window s /\ st <= e <= sn_window s
  /\ (fresh = true -> e - st <= fl).
Proof.
  intros (W1 & W2 & W3) H. unfold snd_try_load in H.
  destruct (sn_state s) eqn:St.
  1,2:
    (cbn [with_state sn_col sn_shut sn_written sn_state] in H;
     destruct (pick (sn_col s) fl av) as [[[[col' st0] e0] fr0]|] eqn:P;
     [ pose proof (pick_spec _ _ _ _ _ _ _ P) as (L & B & _ & F);
       cbn [with_col with_state sn_col sn_shut sn_written sn_state sn_window sn_finlost sn_handed] in H;
       destruct (sn_shut s && (e0 =? sn_written s)) eqn:EO;
       inversion H; subst; clear H;
       (split; [unfold Winv; cbn [with_col with_state sn_col sn_written sn_window sn_state];
                rewrite L; split; [lia|split; [lia|]];
                try (intros _; apply andb_true_iff in EO; destruct EO as [_ EO]; apply N.eqb_eq in EO; lia);
                try discriminate
               |cbn [with_col with_state sn_window]; split; [reflexivity|split; [lia|exact F]]])
     | destruct (sn_shut s && (sn_written s =? col_sent (sn_col s))) eqn:EO; [|discriminate];
       destruct (av (col_sent (sn_col s))); [|discriminate];
       cbn [with_col with_state sn_col sn_shut sn_written sn_state sn_window sn_finlost sn_handed] in H;
       inversion H; subst; clear H;
       pose proof (col_sent_le (sn_col s));
       apply andb_true_iff in EO; destruct EO as [_ EO]; apply N.eqb_eq in EO;
       (split; [unfold Winv; cbn [with_state sn_col sn_written sn_window sn_state]; split; [lia|split; [lia|intros _; lia]]
               |cbn [with_state sn_window]; split; [reflexivity|split; [lia|discriminate]]]) ]).
  - destruct (pick (sn_col s) fl av) as [[[[col' st0] e0] fr0]|] eqn:P.
    + pose proof (pick_spec _ _ _ _ _ _ _ P) as (L & B & _ & F).
      inversion H; subst; clear H.
      split; [unfold Winv; cbn [with_col sn_col sn_written sn_window sn_state]; rewrite L, St; auto|].
      cbn [with_col sn_window]. split; [reflexivity|split; [lia|exact F]].
    + destruct (sn_finlost s); [|discriminate]. inversion H; subst; clear H.
      specialize (W3 eq_refl).
      split; [unfold Winv; cbn [sn_col sn_written sn_window sn_state]; auto|].
      cbn [sn_window]. split; [reflexivity|split; [lia|discriminate]].
  - discriminate.
Qed.

(* the window itself only moves up, to the value supplied (MAX_STREAM_DATA, accept, revise) *)
Lemma p_c11_window_update s v :
  Winv s -> Winv (snd_update_window s v) /\ sn_window (snd_update_window s v) = N.max (sn_window s) v.
Proof.
  intros (W1 & W2 & W3). unfold snd_update_window.
  destruct (N.ltb_spec (sn_window s) v).
  - split; [|cbn; lia]. unfold Winv. cbn [sn_col sn_window sn_written sn_state].
    rewrite col_extend_len. split; [lia|split; [lia|]]. intro HH. specialize (W3 HH). lia.
  - split; [repeat split; auto|lia].
Qed.
Lemma p_c11_window_write s len :
  Winv s -> sn_state s <> SDataSent -> Winv (snd_write s len) /\ sn_window (snd_write s len) = sn_window s.
Proof.
  intros (W1 & W2 & W3) NS. unfold snd_write. destruct (len =? 0); [repeat split; auto|].
  split; [|reflexivity]. unfold Winv. cbn [sn_col sn_window sn_written sn_state].
  rewrite col_extend_len. split; [lia|split; [lia|]]. intro H. contradiction.
Qed.
Lemma p_c11_window_loss s a b f : Winv s -> Winv (snd_may_loss s a b f) /\ sn_window (snd_may_loss s a b f) = sn_window s.
Proof.
  intros I. pose proof I as (W1 & W2 & W3). unfold snd_may_loss. destruct (sn_state s) eqn:St; try (split; [exact I|reflexivity]).
  - split; [|reflexivity]. unfold Winv. cbn [with_col sn_col sn_window sn_written sn_state]. rewrite recolour_len, St.
    split; [lia|split; [lia|discriminate]].
  - split; [|reflexivity]. unfold Winv. cbn [sn_col sn_window sn_written sn_state]. rewrite recolour_len. auto.
Qed.

(* ---------------------------------------------------------------- one packet-loading step *)
Lemma try_load_none s fl av s' : Winv s -> snd_try_load s fl av = (s', None) -> Winv s'.
Proof.
  intros I H. pose proof I as (W1 & W2 & W3). unfold snd_try_load in H.
  destruct (sn_state s) eqn:St; cbn [with_state sn_col sn_shut sn_written sn_state] in H;
  repeat match type of H with
         | context [match ?x with _ => _ end] => destruct x eqn:?
         end;
  inversion H; subst; try exact I;
  unfold Winv; cbn [with_state with_col sn_col sn_window sn_written sn_state];
  (split; [lia|split; [lia|try discriminate; try (rewrite St; exact W3)]]).
Qed.

Lemma aupdate_lookup (l : list (N * sender)) k0 v0 k1 s1 :
  alookup (aupdate l k0 v0) k1 = Some s1 -> s1 = v0 \/ alookup l k1 = Some s1.
Proof.
  induction l as [|[kk vv] tl IHl]; cbn [aupdate alookup]; [discriminate|].
  destruct (N.eqb_spec kk k0).
  - cbn [alookup]. destruct (N.eqb_spec k0 k1).
    + intro E; inversion E; auto.
    + subst. destruct (N.eqb_spec k0 k1); [contradiction|]. auto.
  - cbn [alookup]. destruct (N.eqb_spec kk k1); [auto|]. apply IHl.
Qed.

(* whichever stream the round-robin settles on, the frame ends within that stream's window and
   a fresh frame is no longer than the credit drawn from the connection-level controller *)
Lemma try_streams_spec order cap fl outs outs' sid tok st e fresh eos :
  (forall k sn, alookup outs k = Some sn -> Winv sn) ->
  try_streams outs order cap fl = (outs', Some (sid, tok, (st, e, fresh, eos))) ->
  exists sn, Winv sn /\ st <= e <= sn_window sn /\ (fresh = true -> e - st <= fl).
Proof.
  revert outs. induction order as [|[k t] rest IH]; intros outs HW H; cbn [try_streams] in H; [discriminate|].
  destruct (alookup outs k) as [sn|] eqn:L; [|eapply IH; eauto].
  destruct (snd_try_load sn fl _) as [sn' r] eqn:T.
  destruct r as [[[[st0 e0] fr0] eos0]|].
  - inversion H; subst. pose proof (p_c11_stream_limit_step _ _ _ _ _ _ _ _ (HW _ _ L) T) as (_ & _ & B & F).
    exists sn. split; [eauto|]. auto.
  - eapply IH; [|exact H]. intros k' sn0 L0.
    destruct (aupdate_lookup _ _ _ _ _ L0) as [-> | L1]; [|eauto].
    eapply try_load_none; [|exact T]. eauto.
Qed.

