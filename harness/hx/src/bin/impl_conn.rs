//! C02 harness: runs REAL `dquic::{QuicClient, QuicListeners}` endpoints over the in-memory,
//! fault-injecting network of `hx::net` under PAUSED tokio time with a seeded fault schedule,
//! records the application-level history (`hx::rec`) and prints it, followed by the harness'
//! own verdict line `V …`.  The history is then validated by the extracted, proved monitor
//! (stream `conn_monitor`) and by the Python oracle (tools/props/C02.py).
//!
//! input :  CASE <name> / `0 seed profile k maxsize ndgrams idle_c idle_s drop dup delay trunc flip
//!                          maxextra latency budget blackout_after blackout_dir stall_ms bound_ms` / END
//! output:  CASE <name> / one history event per line / `V ok code nevents vtime sent delivered dropped
//!                          duplicated delayed truncated flipped blackholed streams_done_c streams_done_s
//!                          extra_conns dgram_sent dgram_rcvd` / END
use std::{
    io::{BufRead, Write},
    sync::{
        Arc, Mutex,
        atomic::{AtomicBool, AtomicU64, Ordering},
    },
    time::Duration,
};

use dquic::{
    prelude::{handy::*, *},
    qinterface::{component::route::QuicRouter, manager::InterfaceManager},
    qresolve::Source,
};
use hx::{
    Rng,
    net::{Factory, Faults, Net},
    rec::{CLIENT, Rec, SERVER},
};
use rustls::pki_types::{CertificateDer, pem::PemObject};
use tokio::{
    io::{AsyncReadExt, AsyncWriteExt},
    sync::{Notify, mpsc},
    task::JoinSet,
};

const CA_CERT: &[u8] = include_bytes!("../../../../rp/tests/keychain/localhost/ca.cert");
const SERVER_CERT: &[u8] = include_bytes!("../../../../rp/tests/keychain/localhost/server.cert");
const SERVER_KEY: &[u8] = include_bytes!("../../../../rp/tests/keychain/localhost/server.key");

const DONE_IDX: u8 = 255;
const HDR: usize = 9;

#[derive(Clone, Debug)]
struct Cfg {
    seed: u64,
    profile: u64,
    k: u64,
    max_size: u64,
    ndgrams: u64,
    idle_c: u64,
    idle_s: u64,
    faults: Faults,
    stall_ms: u64,
    bound_ms: u64,
}

#[derive(Clone, Debug)]
struct Plan {
    idx: u8,
    opener: u64,
    bidi: bool,
    up: u32,
    down: u32,
    chunk_w: usize,
    chunk_r: usize,
}

fn plans(cfg: &Cfg) -> Vec<Plan> {
    let mut rng = Rng::new(cfg.seed ^ 0x706c_616e);
    (0..cfg.k)
        .map(|i| {
            let size = |rng: &mut Rng| -> u32 {
                match rng.below(10) {
                    0 => 0,
                    1 => rng.below(4) as u32,
                    2..=5 => rng.below(cfg.max_size.min(3000) + 1) as u32,
                    _ => rng.below(cfg.max_size + 1) as u32,
                }
            };
            let opener = if rng.chance(650) { CLIENT } else { SERVER };
            let bidi = rng.chance(600);
            let up = size(&mut rng);
            let down = if bidi { size(&mut rng) } else { 0 };
            let chunk_w = [1usize, 7, 100, 1000, 1200, 4096, 16384][rng.below(7) as usize];
            let chunk_r = [1usize, 64, 1000, 1500, 4096, 65536][rng.below(6) as usize];
            // one-byte chunks only on small transfers (otherwise the history explodes)
            let chunk_w = if chunk_w < 100 && up.max(down) > 2000 { 1000 } else { chunk_w };
            let chunk_r = if chunk_r < 64 && up.max(down) > 2000 { 1500 } else { chunk_r };
            Plan { idx: i as u8, opener, bidi, up, down, chunk_w, chunk_r }
        })
        .collect()
}

/// content of stream `idx`, direction `dir` (0 opener->acceptor, 1 acceptor->opener), position j
fn body(idx: u8, dir: u64, off: u64, len: u64) -> Vec<u8> {
    let salt = 7919 * (2 * idx as u64 + dir + 1);
    (0..len).map(|j| hproto::content(off + j + salt)).collect()
}

fn header(p: &Plan) -> [u8; HDR] {
    let mut h = [0u8; HDR];
    h[0] = p.idx;
    h[1..5].copy_from_slice(&p.up.to_be_bytes());
    h[5..9].copy_from_slice(&p.down.to_be_bytes());
    h
}

/// 0 application close, 1 no viable path (idle timeout / too many PTOs / io) or NO_ERROR,
/// 2+code any other QUIC transport error, 9999 not a connection error we can name
fn err_kind(e: &Error) -> u64 {
    match e {
        Error::App(_) => 0,
        Error::Quic(q) => match q.kind() {
            ErrorKind::Application => 0,
            ErrorKind::NoViablePath | ErrorKind::None => 1,
            k => 2 + VarInt::from(k).into_u64(),
        },
    }
}

struct Side {
    side: u64,
    conn: Connection,
    rec: Arc<Rec>,
    err_noted: AtomicBool,
    mismatch: AtomicBool,
    resets: AtomicU64,
    done: AtomicU64,
    done_tx: mpsc::UnboundedSender<u8>,
    peer_done: Notify,
    peer_done_flag: AtomicBool,
    dgram_rcvd: AtomicU64,
    dgram_sent: AtomicU64,
}

impl Side {
    fn note_conn_err(&self, e: &Error) {
        if !self.err_noted.swap(true, Ordering::Relaxed) {
            if std::env::var("VERIF_SHOW_ERRS").is_ok() {
                eprintln!("side {} told at {} ms: {e:?}", self.side, self.rec.now_ms());
            }
            self.rec.conn_error(self.side, err_kind(e));
        }
    }
    fn note_io_err(&self, e: &std::io::Error) {
        if let Some(inner) = e.get_ref() {
            if let Some(se) = inner.downcast_ref::<StreamError>() {
                match se {
                    StreamError::Connection(ce) => self.note_conn_err(ce),
                    StreamError::Reset(_) => {
                        self.resets.fetch_add(1, Ordering::Relaxed);
                    }
                    StreamError::EosSent => {
                        self.mismatch.store(true, Ordering::Relaxed);
                    }
                }
                return;
            }
            if let Some(ce) = inner.downcast_ref::<Error>() {
                self.note_conn_err(ce);
                return;
            }
        }
        if !self.err_noted.swap(true, Ordering::Relaxed) {
            self.rec.conn_error(self.side, 9999);
        }
    }

    /// writes `data` in chunks, recording what the stack accepted; then shuts the stream down
    async fn write_all(&self, sid: u64, w: &mut StreamWriter, data: &[u8], chunk: usize, shutdown: bool) -> bool {
        let mut off = 0;
        while off < data.len() {
            let end = (off + chunk).min(data.len());
            let op = self.rec.op_pending(self.side);
            match AsyncWriteExt::write(&mut *w, &data[off..end]).await {
                Ok(n) => {
                    self.rec.app_write(self.side, sid, &data[off..off + n]);
                    self.rec.op_completed(self.side, op, 0);
                    off += n;
                }
                Err(e) => {
                    self.rec.app_stream_err(self.side, sid, 1);
                    self.note_io_err(&e);
                    self.rec.op_completed(self.side, op, 1);
                    return false;
                }
            }
        }
        if shutdown {
            // recorded BEFORE the call: the peer may see the FIN before shutdown() returns here
            self.rec.app_shutdown(self.side, sid);
            let op = self.rec.op_pending(self.side);
            match AsyncWriteExt::shutdown(&mut *w).await {
                Ok(()) => self.rec.op_completed(self.side, op, 0),
                Err(e) => {
                    self.rec.app_stream_err(self.side, sid, 1);
                    self.note_io_err(&e);
                    self.rec.op_completed(self.side, op, 1);
                    return false;
                }
            }
        }
        true
    }

    /// reads until EOS, recording every read; compares with `expect(off,len)`; returns bytes read if EOS
    async fn read_all(
        &self,
        sid: u64,
        r: &mut StreamReader,
        chunk: usize,
        start: u64,
        expect: impl Fn(u64, u64) -> Vec<u8>,
    ) -> Option<u64> {
        let mut buf = vec![0u8; chunk.max(1)];
        let mut off = start;
        loop {
            let op = self.rec.op_pending(self.side);
            match AsyncReadExt::read(&mut *r, &mut buf).await {
                Ok(0) => {
                    self.rec.app_eos(self.side, sid);
                    self.rec.op_completed(self.side, op, 0);
                    return Some(off);
                }
                Ok(n) => {
                    self.rec.app_read(self.side, sid, &buf[..n]);
                    self.rec.op_completed(self.side, op, 0);
                    if expect(off, n as u64) != buf[..n] {
                        self.mismatch.store(true, Ordering::Relaxed);
                    }
                    off += n as u64;
                }
                Err(e) => {
                    self.rec.app_stream_err(self.side, sid, 0);
                    self.note_io_err(&e);
                    self.rec.op_completed(self.side, op, 1);
                    return None;
                }
            }
        }
    }

    async fn read_header(&self, sid: u64, r: &mut StreamReader) -> Option<[u8; HDR]> {
        let mut h = [0u8; HDR];
        let mut got = 0;
        while got < HDR {
            let op = self.rec.op_pending(self.side);
            match AsyncReadExt::read(&mut *r, &mut h[got..]).await {
                Ok(0) => {
                    self.rec.app_eos(self.side, sid);
                    self.rec.op_completed(self.side, op, 0);
                    self.mismatch.store(true, Ordering::Relaxed);
                    return None;
                }
                Ok(n) => {
                    self.rec.app_read(self.side, sid, &h[got..got + n]);
                    self.rec.op_completed(self.side, op, 0);
                    got += n;
                }
                Err(e) => {
                    self.rec.app_stream_err(self.side, sid, 0);
                    self.note_io_err(&e);
                    self.rec.op_completed(self.side, op, 1);
                    return None;
                }
            }
        }
        Some(h)
    }

    /// the opener's half of one planned stream
    async fn open_stream(self: Arc<Self>, p: Plan) {
        let op = self.rec.op_pending(self.side);
        let mut data = header(&p).to_vec();
        data.extend(body(p.idx, 0, 0, p.up as u64));
        let ok;
        if p.bidi {
            let (sid, (mut r, mut w)) = match self.conn.open_bi_stream().await {
                Ok(Some(x)) => x,
                Ok(None) => {
                    self.rec.op_completed(self.side, op, 1);
                    self.mismatch.store(true, Ordering::Relaxed);
                    return;
                }
                Err(e) => {
                    self.note_conn_err(&e);
                    self.rec.op_completed(self.side, op, 1);
                    return;
                }
            };
            self.rec.op_completed(self.side, op, 0);
            let sid = u64::from(sid);
            let (a, b) = tokio::join!(
                self.write_all(sid, &mut w, &data, p.chunk_w, true),
                self.read_all(sid, &mut r, p.chunk_r, 0, |o, l| body(p.idx, 1, o, l))
            );
            ok = a && b == Some(p.down as u64);
        } else {
            let (sid, mut w) = match self.conn.open_uni_stream().await {
                Ok(Some(x)) => x,
                Ok(None) => {
                    self.rec.op_completed(self.side, op, 1);
                    self.mismatch.store(true, Ordering::Relaxed);
                    return;
                }
                Err(e) => {
                    self.note_conn_err(&e);
                    self.rec.op_completed(self.side, op, 1);
                    return;
                }
            };
            self.rec.op_completed(self.side, op, 0);
            ok = self.write_all(u64::from(sid), &mut w, &data, p.chunk_w, true).await;
        }
        if ok {
            _ = self.done_tx.send(p.idx);
        }
    }

    /// the acceptor's half of one incoming stream (whatever the peer opened)
    async fn serve_stream(self: Arc<Self>, sid: u64, mut r: StreamReader, w: Option<StreamWriter>) {
        let Some(h) = self.read_header(sid, &mut r).await else { return };
        let idx = h[0];
        let up = u32::from_be_bytes(h[1..5].try_into().unwrap());
        let down = u32::from_be_bytes(h[5..9].try_into().unwrap()).min(1 << 22);
        let rd = self.read_all(sid, &mut r, 1500, HDR as u64, |o, l| body(idx, 0, o - HDR as u64, l));
        let ok = match w {
            Some(mut w) => {
                let data = body(idx, 1, 0, down as u64);
                let (a, b) = tokio::join!(rd, self.write_all(sid, &mut w, &data, 1200, true));
                a == Some(HDR as u64 + up as u64) && b
            }
            None => rd.await == Some(HDR as u64 + up as u64),
        };
        if ok {
            if idx == DONE_IDX {
                self.peer_done_flag.store(true, Ordering::Relaxed);
                self.peer_done.notify_waiters();
            } else {
                _ = self.done_tx.send(idx);
            }
        }
    }

    async fn accept_bi_loop(self: Arc<Self>, tasks: Arc<Mutex<JoinSet<()>>>) {
        loop {
            let op = self.rec.op_pending(self.side);
            match self.conn.accept_bi_stream().await {
                Ok((sid, (r, w))) => {
                    self.rec.op_completed(self.side, op, 0);
                    tasks.lock().unwrap().spawn(self.clone().serve_stream(u64::from(sid), r, Some(w)));
                }
                Err(e) => {
                    self.note_conn_err(&e);
                    self.rec.op_completed(self.side, op, 1);
                    return;
                }
            }
        }
    }

    async fn accept_uni_loop(self: Arc<Self>, tasks: Arc<Mutex<JoinSet<()>>>) {
        loop {
            let op = self.rec.op_pending(self.side);
            match self.conn.accept_uni_stream().await {
                Ok((sid, r)) => {
                    self.rec.op_completed(self.side, op, 0);
                    tasks.lock().unwrap().spawn(self.clone().serve_stream(u64::from(sid), r, None));
                }
                Err(e) => {
                    self.note_conn_err(&e);
                    self.rec.op_completed(self.side, op, 1);
                    return;
                }
            }
        }
    }

    #[allow(deprecated)]
    async fn dgram_recv_loop(self: Arc<Self>) {
        let Ok(Ok(mut reader)) = self.conn.datagram_reader() else { return };
        loop {
            let op = self.rec.op_pending(self.side);
            match reader.recv().await {
                Ok(b) => {
                    self.rec.dgram_recv(self.side, &b);
                    self.dgram_rcvd.fetch_add(1, Ordering::Relaxed);
                    self.rec.op_completed(self.side, op, 0);
                }
                Err(e) => {
                    self.note_io_err(&e);
                    self.rec.op_completed(self.side, op, 1);
                    return;
                }
            }
        }
    }

    #[allow(deprecated)]
    async fn dgram_send_all(self: Arc<Self>, n: u64, seed: u64) {
        let op = self.rec.op_pending(self.side);
        let writer = match self.conn.datagram_writer().await {
            Ok(Ok(w)) => {
                self.rec.op_completed(self.side, op, 0);
                w
            }
            Ok(Err(_)) => {
                // the peer does not accept datagrams / not negotiated: not a connection error
                self.rec.op_completed(self.side, op, 1);
                return;
            }
            Err(e) => {
                self.note_conn_err(&e);
                self.rec.op_completed(self.side, op, 1);
                return;
            }
        };
        let mut rng = Rng::new(seed ^ 0x6467 ^ self.side);
        for i in 0..n {
            let len = 1 + rng.below(600);
            let mut d = vec![0xD0 | self.side as u8, i as u8];
            d.extend(body(200 + self.side as u8, 0, i * 1000, len));
            if writer.send(&d).is_ok() {
                self.rec.dgram_send(self.side, &d);
                self.dgram_sent.fetch_add(1, Ordering::Relaxed);
            }
            tokio::time::sleep(Duration::from_millis(1 + rng.below(20))).await;
        }
    }
}

struct Outcome {
    done: u64,
    all_done: bool,
    mismatch: bool,
    resets: u64,
    terminated: bool,
    leftover: usize,
    dgram_sent: u64,
    dgram_rcvd: u64,
}

/// everything one application does with its connection
async fn side_main(side: u64, conn: Connection, rec: Arc<Rec>, cfg: Cfg) -> Outcome {
    let (done_tx, mut done_rx) = mpsc::unbounded_channel();
    let s = Arc::new(Side {
        side,
        conn: conn.clone(),
        rec: rec.clone(),
        err_noted: AtomicBool::new(false),
        mismatch: AtomicBool::new(false),
        resets: AtomicU64::new(0),
        done: AtomicU64::new(0),
        done_tx,
        peer_done: Notify::new(),
        peer_done_flag: AtomicBool::new(false),
        dgram_rcvd: AtomicU64::new(0),
        dgram_sent: AtomicU64::new(0),
    });
    let terminated = Arc::new(AtomicBool::new(false));
    let term_notify = Arc::new(Notify::new());
    let tasks: Arc<Mutex<JoinSet<()>>> = Arc::new(Mutex::new(JoinSet::new()));
    // the application is told about termination here at the latest
    let watcher = tokio::spawn({
        let (s, terminated, term_notify) = (s.clone(), terminated.clone(), term_notify.clone());
        async move {
            let e = s.conn.terminated().await;
            s.note_conn_err(&e);
            s.rec.closed(s.side);
            terminated.store(true, Ordering::Relaxed);
            term_notify.notify_waiters();
        }
    });
    let wait_term = || {
        let (terminated, term_notify) = (terminated.clone(), term_notify.clone());
        async move {
            loop {
                let n = term_notify.notified();
                if terminated.load(Ordering::Relaxed) {
                    return;
                }
                n.await;
            }
        }
    };

    // handshake
    let op = rec.op_pending(side);
    let hs = conn.handshaked().await;
    match hs {
        Ok(()) => {
            rec.established(side);
            rec.op_completed(side, op, 0);
        }
        Err(e) => {
            s.note_conn_err(&e);
            rec.op_completed(side, op, 1);
        }
    }
    let mut all_done = false;
    if hs_ok(&s) {
        {
            let mut t = tasks.lock().unwrap();
            t.spawn(s.clone().accept_bi_loop(tasks.clone()));
            t.spawn(s.clone().accept_uni_loop(tasks.clone()));
            if cfg.ndgrams > 0 {
                t.spawn(s.clone().dgram_recv_loop());
                t.spawn(s.clone().dgram_send_all(cfg.ndgrams, cfg.seed));
            }
            for p in plans(&cfg).into_iter().filter(|p| p.opener == side) {
                t.spawn(s.clone().open_stream(p));
            }
        }
        // wait until this side's half of all k streams is finished (or the connection died)
        let mut seen = std::collections::BTreeSet::new();
        let work = async {
            while (seen.len() as u64) < cfg.k {
                match done_rx.recv().await {
                    Some(i) => {
                        seen.insert(i);
                        s.done.store(seen.len() as u64, Ordering::Relaxed);
                    }
                    None => break,
                }
            }
        };
        tokio::select! { _ = work => {}, _ = wait_term() => {} }
        if seen.len() as u64 == cfg.k && !terminated.load(Ordering::Relaxed) {
            // done-protocol: C sends DONE; S (finished, and having read C's DONE) answers DONE; C closes
            let done_plan = Plan { idx: DONE_IDX, opener: side, bidi: false, up: 0, down: 0, chunk_w: 64, chunk_r: 64 };
            let wait_peer = || async {
                loop {
                    let n = s.peer_done.notified();
                    if s.peer_done_flag.load(Ordering::Relaxed) {
                        return;
                    }
                    n.await;
                }
            };
            if side == CLIENT {
                tasks.lock().unwrap().spawn(s.clone().open_stream(done_plan));
                tokio::select! { _ = wait_peer() => {
                    all_done = true;
                    _ = conn.close("done", 0);
                }, _ = wait_term() => {} }
            } else {
                tokio::select! { _ = wait_peer() => {
                    all_done = true;
                    tasks.lock().unwrap().spawn(s.clone().open_stream(done_plan));
                }, _ = wait_term() => {} }
            }
        }
    }
    // every operation must now end: either normally or by being told about the termination
    wait_term().await;
    _ = watcher.await;
    let drain = async {
        loop {
            let next = {
                let mut t = tasks.lock().unwrap();
                if t.is_empty() {
                    break;
                }
                // poll once without holding the lock across an await
                t.try_join_next()
            };
            if next.is_none() {
                tokio::time::sleep(Duration::from_millis(10)).await;
            }
        }
    };
    _ = tokio::time::timeout(Duration::from_millis(cfg.bound_ms + 1000), drain).await;
    let leftover = tasks.lock().unwrap().len();
    Outcome {
        done: s.done.load(Ordering::Relaxed),
        all_done,
        mismatch: s.mismatch.load(Ordering::Relaxed),
        resets: s.resets.load(Ordering::Relaxed),
        terminated: terminated.load(Ordering::Relaxed),
        leftover,
        dgram_sent: s.dgram_sent.load(Ordering::Relaxed),
        dgram_rcvd: s.dgram_rcvd.load(Ordering::Relaxed),
    }
}

fn hs_ok(s: &Side) -> bool {
    !s.err_noted.load(Ordering::Relaxed)
}

static CURRENT: Mutex<Option<Arc<Rec>>> = Mutex::new(None);
static WALL_TICK: AtomicU64 = AtomicU64::new(0);

async fn run_case(cfg: Cfg, rec: Arc<Rec>) -> String {
    let net = Net::new(cfg.seed, cfg.faults.clone());
    let factory: Arc<Factory> = Arc::new(Factory(net.clone()));
    let router = Arc::new(QuicRouter::default());
    let mgr = Arc::new(InterfaceManager::new());
    let mut sp = server_parameters();
    let mut cp = client_parameters();
    sp.set(ParameterId::MaxIdleTimeout, Duration::from_millis(cfg.idle_s)).unwrap();
    cp.set(ParameterId::MaxIdleTimeout, Duration::from_millis(cfg.idle_c)).unwrap();
    if cfg.ndgrams > 0 {
        sp.set(ParameterId::MaxDatagramFrameSize, 1200u32).unwrap();
        cp.set(ParameterId::MaxDatagramFrameSize, 1200u32).unwrap();
    }
    let listeners = QuicListeners::builder()
        .with_router(router.clone())
        .with_iface_factory(factory.clone())
        .with_iface_manager(mgr.clone())
        .without_client_cert_verifier()
        .with_parameters(sp)
        .listen(16)
        .unwrap();
    listeners
        .add_server("localhost", SERVER_CERT, SERVER_KEY, [BindUri::from("inet://127.0.0.1:0").alloc_port()], None)
        .await
        .unwrap();
    let server_addr = listeners
        .get_server("localhost")
        .unwrap()
        .bind_interfaces()
        .into_iter()
        .next()
        .unwrap()
        .1
        .borrow()
        .bound_addr()
        .unwrap();
    net.set_server_addr(server_addr);

    // server application: the first connection whose handshake completes is THE connection
    let extra_conns = Arc::new(AtomicU64::new(0));
    let server = tokio::spawn({
        let (listeners, rec, cfg, extra) = (listeners.clone(), rec.clone(), cfg.clone(), extra_conns.clone());
        async move {
            let (tx, mut rx) = mpsc::unbounded_channel::<Result<Connection, Error>>();
            let acceptor = tokio::spawn(async move {
                while let Ok((conn, _name, _pathway, _link)) = listeners.accept().await {
                    let tx = tx.clone();
                    tokio::spawn(async move {
                        match conn.handshaked().await {
                            Ok(()) => _ = tx.send(Ok(conn)),
                            Err(e) => _ = tx.send(Err(e)),
                        }
                    });
                }
            });
            let mut failed: Option<Error> = None;
            let r = loop {
                match rx.recv().await {
                    Some(Ok(conn)) => break Some(side_main(SERVER, conn, rec.clone(), cfg).await),
                    Some(Err(e)) => {
                        extra.fetch_add(1, Ordering::Relaxed);
                        failed.get_or_insert(e);
                    }
                    None => break None,
                }
            };
            acceptor.abort();
            r
        }
    });

    let mut roots = rustls::RootCertStore::empty();
    roots.add_parsable_certificates(CertificateDer::pem_slice_iter(CA_CERT).map(Result::unwrap));
    let client = QuicClient::builder()
        .with_router(router.clone())
        .with_iface_factory(factory.clone())
        .with_iface_manager(mgr.clone())
        .with_root_certificates(roots)
        .with_parameters(cp)
        .without_cert()
        .bind([BindUri::from("inet://127.0.0.1:0").alloc_port()])
        .await
        .build();
    let conn = client
        .connected_to_with_source("localhost", [(Source::System, server_addr.into())])
        .await
        .expect("in-memory bind cannot fail");

    // watchdog on VIRTUAL time: no application-level progress for stall_ms while operations are pending
    let stalled = Arc::new(AtomicBool::new(false));
    let watchdog = tokio::spawn({
        let (rec, stalled, stall_ms) = (rec.clone(), stalled.clone(), cfg.stall_ms);
        async move {
            let mut last = rec.progress.load(Ordering::Relaxed);
            let mut since = rec.now_ms();
            loop {
                tokio::time::sleep(Duration::from_millis(250)).await;
                WALL_TICK.fetch_add(1, Ordering::Relaxed);
                let cur = rec.progress.load(Ordering::Relaxed);
                if cur != last {
                    last = cur;
                    since = rec.now_ms();
                } else if rec.pending.load(Ordering::Relaxed) > 0 && rec.now_ms() - since > stall_ms {
                    rec.stall();
                    stalled.store(true, Ordering::Relaxed);
                    return;
                }
            }
        }
    });

    let client_fut = side_main(CLIENT, conn, rec.clone(), cfg.clone());
    let stall_wait = async {
        while !stalled.load(Ordering::Relaxed) {
            tokio::time::sleep(Duration::from_millis(250)).await;
        }
    };
    let mut co: Option<Outcome> = None;
    let mut so: Option<Outcome> = None;
    let both = async {
        let c = client_fut.await;
        // once the client is gone the server must be told by its own idle timer at the latest; if it
        // never is, the watchdog records the Stall (the select below then ends the run)
        let s = tokio::time::timeout(Duration::from_millis(cfg.stall_ms + cfg.idle_s + cfg.bound_ms + 5000), server).await;
        (c, s)
    };
    tokio::select! {
        (c, s) = both => {
            co = Some(c);
            so = match s { Ok(Ok(x)) => x, _ => None };
        }
        _ = stall_wait => {}
    }
    watchdog.abort();
    listeners.shutdown();

    // ---- harness verdict (independent of the monitor: content is compared inside the tasks)
    let st = net.stats();
    let mut code = 0u64;
    let stalled = stalled.load(Ordering::Relaxed);
    if stalled {
        code = 1;
    }
    let chk = |o: &Option<Outcome>, base: u64, code: &mut u64| {
        if let Some(o) = o {
            if *code == 0 && o.mismatch {
                *code = base + 1; // an application read something the peer did not write
            }
            if *code == 0 && o.resets > 0 {
                *code = base + 2; // a stream was reset although nobody resets streams
            }
            if *code == 0 && !o.terminated {
                *code = base + 3; // never told about the end of the connection
            }
            if *code == 0 && o.leftover > 0 {
                *code = base + 4; // an operation is still pending after the termination bound
            }
        }
    };
    chk(&co, 10, &mut code);
    chk(&so, 20, &mut code);
    if code == 0 && co.is_none() {
        code = 2;
    }
    if cfg.profile == 0 && code == 0 {
        // liveness clause of the BOUNDED profile
        match (&co, &so) {
            (Some(c), Some(s)) => {
                if !(c.all_done && s.all_done && c.done == cfg.k && s.done == cfg.k) {
                    code = 30;
                }
            }
            _ => code = 31,
        }
    }
    let (cd, sd) = (co.as_ref().map_or(0, |o| o.done), so.as_ref().map_or(0, |o| o.done));
    let (ds, dr) = (
        co.as_ref().map_or(0, |o| o.dgram_sent) + so.as_ref().map_or(0, |o| o.dgram_sent),
        co.as_ref().map_or(0, |o| o.dgram_rcvd) + so.as_ref().map_or(0, |o| o.dgram_rcvd),
    );
    format!(
        "V {} {} {} {} {} {} {} {} {} {} {} {} {} {} {} {} {}",
        (code == 0) as u64,
        code,
        rec.len(),
        rec.now_ms(),
        st.sent,
        st.delivered,
        st.dropped,
        st.duplicated,
        st.delayed,
        st.truncated,
        st.flipped,
        st.blackholed,
        cd,
        sd,
        extra_conns.load(Ordering::Relaxed),
        ds,
        dr
    )
}

fn parse_cfg(a: &[i128]) -> Option<Cfg> {
    if a.len() < 19 {
        return None;
    }
    let u = |i: usize| a[i].max(0) as u64;
    let profile = u(1);
    Some(Cfg {
        seed: u(0),
        profile,
        k: u(2).min(200),
        max_size: u(3).min(1 << 22),
        ndgrams: u(4),
        idle_c: u(5),
        idle_s: u(6),
        faults: Faults {
            drop: u(7),
            dup: u(8),
            delay: u(9),
            trunc: u(10),
            flip: u(11),
            max_extra_delay_ms: u(12),
            latency_ms: u(13),
            budget: if profile == 0 { Some(u(14)) } else { None },
            blackout_after: if a[15] < 0 { None } else { Some(u(15)) },
            blackout_dir: u(16),
        },
        stall_ms: u(17).max(1000),
        bound_ms: u(18).max(100),
    })
}

fn main() {
    // process-wide panic hook: a panic anywhere (stack tasks included) becomes a Panic event
    std::panic::set_hook(Box::new(|info| {
        if let Ok(g) = CURRENT.lock()
            && let Some(rec) = g.as_ref()
        {
            rec.panic(2);
        }
        if std::env::var("VERIF_SHOW_PANICS").is_ok() {
            eprintln!("panic: {info}");
        }
    }));
    // wall-clock watchdog: paused time cannot hang, a busy loop or a lost wake-up of the whole runtime can
    let wall_limit: u64 = std::env::var("VERIF_CASE_TIMEOUT_MS").ok().and_then(|s| s.parse().ok()).unwrap_or(120_000);
    let in_case = Arc::new(AtomicBool::new(false));
    {
        let in_case = in_case.clone();
        std::thread::spawn(move || {
            let mut last = 0;
            let mut since = std::time::Instant::now();
            loop {
                std::thread::sleep(Duration::from_millis(200));
                let cur = WALL_TICK.load(Ordering::Relaxed);
                if cur != last || !in_case.load(Ordering::Relaxed) {
                    last = cur;
                    since = std::time::Instant::now();
                } else if since.elapsed().as_millis() as u64 > wall_limit {
                    let out = std::io::stdout();
                    let mut out = out.lock();
                    if let Ok(g) = CURRENT.lock()
                        && let Some(rec) = g.as_ref()
                    {
                        for l in rec.take() {
                            let _ = writeln!(out, "{l}");
                        }
                    }
                    let _ = writeln!(out, "! hang");
                    let _ = writeln!(out, "END");
                    let _ = out.flush();
                    std::process::exit(3);
                }
            }
        });
    }
    let stdin = std::io::stdin();
    let stdout = std::io::stdout();
    let mut out = std::io::BufWriter::new(stdout.lock());
    for line in stdin.lock().lines() {
        let line = line.unwrap();
        let line = line.trim();
        if line.is_empty() || line.starts_with('#') {
            continue;
        }
        if let Some(rest) = line.strip_prefix("CASE") {
            let name = rest.split_ascii_whitespace().next().unwrap_or("");
            writeln!(out, "CASE {name}").unwrap();
            out.flush().unwrap();
            continue;
        }
        if line == "END" {
            writeln!(out, "END").unwrap();
            out.flush().unwrap();
            continue;
        }
        let Some(op) = hproto::parse_op(line) else {
            writeln!(out, "! badline").unwrap();
            continue;
        };
        let Some(cfg) = (op.tag == 0).then(|| parse_cfg(&op.args)).flatten() else {
            writeln!(out, "! badline").unwrap();
            continue;
        };
        let rt = tokio::runtime::Builder::new_current_thread().enable_all().start_paused(true).build().unwrap();
        in_case.store(true, Ordering::Relaxed);
        let rec = rt.block_on(async { Rec::new() });
        *CURRENT.lock().unwrap() = Some(rec.clone());
        let deadline = Duration::from_millis(4 * cfg.stall_ms + 600_000);
        let verdict = rt.block_on(async {
            let r = tokio::spawn(tokio::time::timeout(deadline, run_case(cfg, rec.clone()))).await;
            match r {
                Ok(Ok(v)) => v,
                Ok(Err(_)) => {
                    rec.stall();
                    format!("V 0 3 {} {}", rec.len(), rec.now_ms())
                }
                Err(_) => format!("V 0 4 {} {}", rec.len(), rec.now_ms()), // the driver itself panicked
            }
        });
        in_case.store(false, Ordering::Relaxed);
        drop(rt);
        *CURRENT.lock().unwrap() = None;
        for l in rec.take() {
            writeln!(out, "{l}").unwrap();
        }
        writeln!(out, "{verdict}").unwrap();
        out.flush().unwrap();
    }
}
