(* Invariants of the controller model over every operation history, and the lemmas p_c13_*
   that carry the statements of Properties/C13.v. *)
From Coq Require Import List ZArith Bool Lia.
From GQ Require Import Model.NewReno Model.LossDetect Model.Pto Proofs.NewReno Proofs.LossDetect.
Import ListNotations.
Local Open Scope Z_scope.

Ltac ccbn := cbn [c_reno c_sp c_pto_count c_timer c_pending_burst c_pacer c_need c_server c_hs_key
  c_hs_ack c_hs_conf c_amp c_mad c_mtu c_now c_lastpn c_dead c_panic with_reno_sp with_timer
  with_pto_count with_need with_pacer with_flags with_now with_lastpn with_dead fst snd
  s_la s_tolae s_loss_time s_sent s_mad].
Tactic Notation "ccbn" "in" hyp(H) := cbn [c_reno c_sp c_pto_count c_timer c_pending_burst c_pacer
  c_need c_server c_hs_key c_hs_ack c_hs_conf c_amp c_mad c_mtu c_now c_lastpn c_dead c_panic
  with_reno_sp with_timer with_pto_count with_need with_pacer with_flags with_now with_lastpn
  with_dead fst snd s_la s_tolae s_loss_time s_sent s_mad] in H.

(* ------------------------------------------------------------------ *)
(* histories *)

Definition op_ok (o : cc_op) : Prop :=
  match o with
  | OpAdv dt => 0 <= dt
  | OpSent e _ _ _ _ => In e epochs
  | OpAck e _ _ => In e epochs
  | _ => True
  end.

(* every state the controller can be in: any role, any positive MTU, any max_ack_delay, any list of
   operations, any values of the RTT-filter inputs at every step *)
(* [fx]: the variant flag of finding F15 (Model/LossDetect.v); true = the repaired code.  Every lemma of
   this file holds for both variants. *)
Inductive reach (fx : bool) : cc -> Prop :=
| reach0 server mtu mad : 0 < mtu -> 0 <= mad -> reach fx (cc_new server mtu mad)
| reachS c ri o : reach fx c -> op_ok o -> reach fx (fst (cc_step fx c ri o)).
Arguments reach0 {fx}.
Arguments reachS {fx}.

Section Fx.
Context {fx : bool}.

(* the decoder only produces epochs 0..2 *)
Lemma clamp_epoch_in e : In (clamp_epoch e) epochs.
Proof.
  unfold clamp_epoch, epochs. destruct (e <? 0) eqn:E; [cbn; auto|]. apply Z.ltb_ge in E.
  destruct (Z.min_spec e 2) as [(A & ->)|(A & ->)]; cbn; [|auto].
  assert (e = 0 \/ e = 1) by lia. intuition.
Qed.

(* ------------------------------------------------------------------ *)
(* core projections preserved by the timer function *)

Definition same_core (c c' : cc) : Prop :=
  c_reno c' = c_reno c /\ c_sp c' = c_sp c /\ c_mtu c' = c_mtu c /\ c_now c' = c_now c /\
  c_lastpn c' = c_lastpn c /\ c_pto_count c' = c_pto_count c /\ c_need c' = c_need c /\
  c_dead c' = c_dead c /\ c_pacer c' = c_pacer c /\ c_pending_burst c' = c_pending_burst c /\
  c_server c' = c_server c /\ c_mad c' = c_mad c.

Lemma sldt_same c ri : same_core c (set_loss_detection_timer c ri).
Proof.
  unfold set_loss_detection_timer, same_core.
  destruct (get_loss_time_and_epoch c) as [[t e]|]; [ccbn; repeat split|].
  destruct (c_amp c); [ccbn; repeat split|].
  destruct (all_no_elic c && peer_completed c); [ccbn; repeat split|].
  destruct (get_pto_time_and_epoch c ri) as (r, p). ccbn. repeat split.
Qed.

(* ------------------------------------------------------------------ *)
(* Invariant A: arithmetic of the congestion state *)

Definition total_flight (c : cc) : Z :=
  flight (s_sent (c_sp c 0)) + flight (s_sent (c_sp c 1)) + flight (s_sent (c_sp c 2)).

Definition InvA (c : cc) : Prop :=
  reno_ok (c_mtu c) (c_reno c) /\ bif (c_reno c) = total_flight c /\ r_sat (c_reno c) = false /\
  (forall e, sizes_ok (s_sent (c_sp c e))).

Lemma InvA_frame c c' :
  c_reno c' = c_reno c -> c_sp c' = c_sp c -> c_mtu c' = c_mtu c -> InvA c -> InvA c'.
Proof. intros A B C (H1 & H2 & H3 & H4). unfold InvA, total_flight. rewrite A, B, C. auto. Qed.

Lemma flight_le_total c e : In e epochs -> InvA c -> flight (s_sent (c_sp c e)) <= bif (c_reno c).
Proof.
  intros He (H1 & H2 & H3 & H4). rewrite H2. unfold total_flight.
  pose proof (flight_nonneg _ (H4 0)). pose proof (flight_nonneg _ (H4 1)). pose proof (flight_nonneg _ (H4 2)).
  destruct He as [<-|[<-|[<-|[]]]]; lia.
Qed.

Lemma InvA_update c r e s :
  InvA c -> In e epochs -> reno_ok (c_mtu c) r -> r_sat r = false -> sizes_ok (s_sent s) ->
  bif r = bif (c_reno c) - flight (s_sent (c_sp c e)) + flight (s_sent s) ->
  InvA (with_reno_sp c r e s).
Proof.
  intros (H1 & H2 & H3 & H4) He Hr Hs Hz Hb. unfold InvA, total_flight. ccbn. unfold fset.
  split; [exact Hr|]. split; [|split; [exact Hs|]].
  - rewrite Hb, H2. unfold total_flight.
    destruct He as [<-|[<-|[<-|[]]]]; cbn [Z.eqb Pos.eqb]; lia.
  - intro x. destruct (x =? e); [exact Hz|apply H4].
Qed.

Lemma InvA_init server mtu mad : 0 < mtu -> InvA (cc_new server mtu mad).
Proof.
  intro H. unfold InvA, total_flight, cc_new. ccbn.
  split; [now apply reno_new_ok|]. split; [reflexivity|]. split; [reflexivity|].
  intro e. destruct (e =? 2); constructor.
Qed.

(* --- discard_epoch --- *)
Lemma discard_epoch_core c ri e :
  let c' := discard_epoch c ri e in
  c_reno c' = remove_from_bif (c_reno c) (filter is_inflight (s_sent (c_sp c e))) /\
  c_sp c' = fset (c_sp c) e (mkspace (s_la (c_sp c e)) None None [] (s_mad (c_sp c e))) /\
  c_mtu c' = c_mtu c /\ c_now c' = c_now c /\ c_lastpn c' = c_lastpn c /\ c_dead c' = c_dead c /\
  c_server c' = c_server c.
Proof.
  cbn zeta. unfold discard_epoch, space_discard.
  match goal with |- context [set_loss_detection_timer ?x ri] =>
    destruct (sldt_same x ri) as (A & B & C & D & E & F & G & H & I & J & K & L) end.
  rewrite A, B, C, D, E, H, K. ccbn. repeat split.
Qed.

Lemma InvA_discard c ri e : In e epochs -> InvA c -> InvA (discard_epoch c ri e).
Proof.
  intros He H. destruct (discard_epoch_core c ri e) as (A & B & C & _).
  pose proof (flight_le_total c e He H) as Hle. pose proof H as (H1 & H2 & H3 & H4).
  assert (Hf : sizes_ok (filter is_inflight (s_sent (c_sp c e)))) by (apply filter_sizes; apply H4).
  destruct (remove_from_bif_exact (c_reno c) _ Hf) as (R1 & R2 & R3 & R4 & R5 & R6 & R7);
    [rewrite discard_sum_flight; exact Hle|].
  rewrite discard_sum_flight in R1.
  set (s' := mkspace (s_la (c_sp c e)) None None [] (s_mad (c_sp c e))) in *.
  assert (HI : InvA (with_reno_sp c (remove_from_bif (c_reno c) (filter is_inflight (s_sent (c_sp c e)))) e s')).
  { apply InvA_update; auto.
    - destruct H1 as (P1 & P2 & P3 & P4 & P5). unfold reno_ok. rewrite R4, R5, R3, R1.
      split; [exact P1|]. split; [exact P2|]. split; [exact P3|]. split; [lia|exact P5].
    - congruence.
    - constructor.
    - subst s'. ccbn. cbn [flight]. lia. }
  revert HI. apply InvA_frame; ccbn; auto.
Qed.

(* --- on_packet_sent fx --- *)
Lemma on_packet_sent_core c ri e pn elic infl bytes :
  let c' := on_packet_sent fx c ri e pn elic infl bytes in
  let p := mkpkt pn (c_now c) elic infl bytes Inflight in
  c_reno c' = (if infl then on_packet_sent_cc (c_reno c) bytes else c_reno c) /\
  (forall x, (x =? e) = false -> c_sp c' x = c_sp c x) /\
  s_sent (c_sp c' e) = s_sent (c_sp c e) ++ [p] /\
  s_la (c_sp c' e) = s_la (c_sp c e) /\
  c_mtu c' = c_mtu c /\ c_now c' = c_now c /\ c_lastpn c' = c_lastpn c /\ c_dead c' = c_dead c /\
  c_server c' = c_server c.
Proof.
  cbn zeta. unfold on_packet_sent.
  destruct infl.
  - match goal with |- context [set_loss_detection_timer ?x ri] =>
      destruct (sldt_same x ri) as (A & B & C & D & E & F & G & H & I & J & K & L);
      set (c1 := set_loss_detection_timer x ri) in * end.
    ccbn. rewrite A, B, C, D, E, H, K. destruct elic; ccbn; unfold fset; rewrite Z.eqb_refl; ccbn;
      (split; [reflexivity|]); (split; [intros x Hx; now rewrite Hx|]); repeat split.
  - ccbn. unfold fset. rewrite Z.eqb_refl. ccbn.
    split; [reflexivity|]. split; [intros x Hx; now rewrite Hx|]. repeat split.
Qed.

Lemma fset_ext (c c' : cc) e s :
  (forall x, (x =? e) = false -> c_sp c' x = c_sp c x) -> c_sp c' e = s ->
  forall x, c_sp c' x = fset (c_sp c) e s x.
Proof. intros H1 H2 x. unfold fset. destruct (x =? e) eqn:E; [apply Z.eqb_eq in E; now subst|now apply H1]. Qed.

Lemma total_flight_change c c' e :
  In e epochs -> (forall x, (x =? e) = false -> c_sp c' x = c_sp c x) ->
  total_flight c' = total_flight c - flight (s_sent (c_sp c e)) + flight (s_sent (c_sp c' e)).
Proof.
  intros He H. unfold total_flight.
  destruct He as [<-|[<-|[<-|[]]]];
    rewrite ?(H 0), ?(H 1), ?(H 2) by reflexivity; lia.
Qed.

Lemma InvA_sent c ri e pn elic infl bytes :
  In e epochs -> 0 <= bytes -> InvA c -> InvA (on_packet_sent fx c ri e pn elic infl bytes).
Proof.
  intros He Hb H. destruct (on_packet_sent_core c ri e pn elic infl bytes) as (A & B & C & _ & D & _).
  set (c' := on_packet_sent fx c ri e pn elic infl bytes) in *.
  destruct H as (H1 & H2 & H3 & H4). unfold InvA.
  rewrite D, A, (total_flight_change c c' e He B), C, flight_app. cbn [flight].
  unfold flight1, is_inflight. cbn [p_cc p_st p_size pstate_eqb].
  destruct H1 as (P1 & P2 & P3 & P4 & P5).
  destruct infl; cbn [andb]; unfold on_packet_sent_cc, set_bif, reno_ok; cbn [mds cwnd bif r_panic r_sat].
  - split; [repeat split; auto; lia|]. split; [lia|]. split; [now rewrite H3|].
    intro x. destruct (x =? e) eqn:E; [apply Z.eqb_eq in E; subst x; rewrite C|rewrite (B x E); apply H4].
    apply Forall_app. split; [apply H4|constructor; [exact Hb|constructor]].
  - split; [repeat split; auto|]. split; [lia|]. split; [exact H3|].
    intro x. destruct (x =? e) eqn:E; [apply Z.eqb_eq in E; subst x; rewrite C|rewrite (B x E); apply H4].
    apply Forall_app. split; [apply H4|constructor; [exact Hb|constructor]].
Qed.

(* --- detect_lost fx at the space level --- *)
Lemma detect_pass_A m la s r ld now s' r' lost pers :
  detect_pass fx la s r ld now = (s', r', lost, pers) ->
  sizes_ok (s_sent s) -> flight (s_sent s) <= bif r -> reno_ok m r -> r_sat r = false ->
  reno_ok m r' /\ r_sat r' = false /\ sizes_ok (s_sent s') /\
  bif r' = bif r - flight (s_sent s) + flight (s_sent s') /\ cwnd r' <= cwnd r /\
  s_la s' = s_la s /\ s_tolae s' = s_tolae s /\ s_mad s' = s_mad s.
Proof.
  unfold detect_pass. intros Hd Hs Hb Hok Hsat.
  destruct (detect_walk fx la (s_sent s) 0 (now - ld - s_mad s) ld _) as [[ps lost0] lt] eqn:Hw.
  destruct (detect_walk_spec _ _ _ _ _ _ _ _ _ _ Hw Hs) as (A1 & A2 & A3 & A4 & A5).
  inversion Hd; subst; clear Hd. ccbn.
  destruct lost0 as [|x rest].
  - cbn [map counted_sum] in *. repeat split; auto; try lia. apply Hok. apply Hok. apply Hok. apply Hok.
  - set (l := x :: rest) in *.
    destruct (on_packets_lost_bif r (map snd l) (persistent_fold (map fst l) None 0) now A4) as (B1 & B2); [lia|].
    split; [now apply on_packets_lost_ok|]. split; [congruence|]. split; [exact A3|].
    split; [lia|]. split; [now apply (on_packets_lost_le m)|]. auto.
Qed.

(* detect_lost is a detection pass with the largest acknowledged number of the space (as it was: 0
   when there is none), or (repaired code, nothing acknowledged yet in the space) only clears the
   loss time *)
Definition la_of (s : space) (la : Z) : Prop :=
  match s_la s with Some n => la = n | None => fx = false /\ la = 0 end.

Lemma detect_lost_cases s r ld now :
  (exists la, detect_lost fx s r ld now = detect_pass fx la s r ld now /\ la_of s la) \/
  (fx = true /\ s_la s = None /\
   detect_lost fx s r ld now = (mkspace (s_la s) (s_tolae s) None (s_sent s) (s_mad s), r, [], false)).
Proof.
  unfold detect_lost, la_of. destruct (s_la s) as [n|].
  - left. exists n. split; reflexivity.
  - destruct fx; [right; auto|]. left. exists 0. split; [reflexivity|auto].
Qed.

Lemma detect_lost_A m s r ld now s' r' lost pers :
  detect_lost fx s r ld now = (s', r', lost, pers) ->
  sizes_ok (s_sent s) -> flight (s_sent s) <= bif r -> reno_ok m r -> r_sat r = false ->
  reno_ok m r' /\ r_sat r' = false /\ sizes_ok (s_sent s') /\
  bif r' = bif r - flight (s_sent s) + flight (s_sent s') /\ cwnd r' <= cwnd r /\
  s_la s' = s_la s /\ s_tolae s' = s_tolae s /\ s_mad s' = s_mad s.
Proof.
  intros Hd Hs Hb Hok Hsat.
  destruct (detect_lost_cases s r ld now) as [(la & E & _)|(_ & _ & E)]; rewrite E in Hd.
  - now apply (detect_pass_A m la s r ld now s' r' lost pers).
  - inversion Hd; subst; clear Hd. ccbn.
    split; [exact Hok|]. split; [exact Hsat|]. split; [exact Hs|]. split; [lia|]. split; [lia|]. auto.
Qed.

Lemma epoch_of_loss_time c es best t e :
  loss_time_min c es best = Some (t, e) ->
  (forall t0 e0, best = Some (t0, e0) -> In e0 epochs /\ s_loss_time (c_sp c e0) <> None) ->
  (forall x, In x es -> In x epochs) ->
  In e epochs /\ s_loss_time (c_sp c e) <> None.
Proof.
  revert best. induction es as [|x rest IH]; intros best H Hb Hes; cbn [loss_time_min] in H.
  - now apply (Hb t e).
  - assert (Hx : In x epochs) by (apply Hes; now left).
    assert (Hr : forall y, In y rest -> In y epochs) by (intros y Hy; apply Hes; now right).
    destruct (s_loss_time (c_sp c x)) as [tx|] eqn:Ex.
    + destruct best as [[bt be]|].
      * destruct (tx <? bt); apply (IH _ H); auto.
        intros t0 e0 E; inversion E; subst. split; [exact Hx|congruence].
      * apply (IH _ H); auto. intros t0 e0 E; inversion E; subst. split; [exact Hx|congruence].
    + apply (IH _ H); auto.
Qed.

Lemma get_loss_epoch c t e : get_loss_time_and_epoch c = Some (t, e) -> In e epochs /\ s_loss_time (c_sp c e) <> None.
Proof.
  intro H. apply (epoch_of_loss_time c epochs None t e H); [intros ? ? E; discriminate|auto].
Qed.

(* --- on_loss_detection_timeout fx --- *)
Lemma InvA_timeout c ri : InvA c -> InvA (fst (fst (on_loss_detection_timeout fx c ri))).
Proof.
  intro H. unfold on_loss_detection_timeout.
  destruct (get_loss_time_and_epoch c) as [[t e]|] eqn:Eg.
  - destruct (get_loss_epoch c t e Eg) as (He & _).
    destruct (detect_lost fx (c_sp c e) (c_reno c) (i_ld ri) (c_now c)) as [[[s r] lost] pers] eqn:Ed.
    cbn [fst].
    pose proof (flight_le_total c e He H) as Hle. pose proof H as (H1 & H2 & H3 & H4).
    destruct (detect_lost_A (c_mtu c) _ _ _ _ _ _ _ _ Ed (H4 e) Hle H1 H3) as (D1 & D2 & D3 & D4 & _).
    match goal with |- InvA (set_loss_detection_timer ?x ri) =>
      destruct (sldt_same x ri) as (A & B & C & _); apply (InvA_frame x _ A B C) end.
    apply InvA_update; auto.
  - cbn [fst].
    match goal with |- InvA (set_loss_detection_timer ?x ri) =>
      destruct (sldt_same x ri) as (A & B & C & _); apply (InvA_frame x _ A B C) end.
    destruct (all_no_elic c).
    + revert H. apply InvA_frame; ccbn; auto.
    + destruct (get_pto_time_and_epoch c ri) as (r, p). destruct r as [[t e]|]; revert H; apply InvA_frame; ccbn; auto.
Qed.

(* --- on_ack_rcvd --- *)
Lemma space_on_ack_A m s r rs s1 r1 res :
  space_on_ack s r rs = (s1, r1, res) ->
  sizes_ok (s_sent s) -> flight (s_sent s) <= bif r -> reno_ok m r -> r_sat r = false ->
  reno_ok m r1 /\ r_sat r1 = false /\ sizes_ok (s_sent s1) /\
  bif r1 = bif r - flight (s_sent s) + flight (s_sent s1) /\ cwnd r <= cwnd r1 /\
  rstart r1 = rstart r /\ s_la s1 = s_la s /\ s_tolae s1 = s_tolae s /\ s_loss_time s1 = s_loss_time s /\
  s_mad s1 = s_mad s.
Proof.
  unfold space_on_ack. intros Hd Hs Hb Hok Hsat.
  destruct (s_sent s) as [|p0 ps0] eqn:Es.
  - inversion Hd; subst. rewrite Es. repeat split; auto; try lia; apply Hok.
  - rewrite <- Es in *. clear Es p0 ps0.
    destruct (ack_walk r (s_sent s) rs) as [[[r0 ps] el] lg] eqn:Ew.
    destruct (ack_walk_spec rs _ _ _ _ _ _ Ew Hs Hb) as (B1 & B2 & B3 & B4 & B5 & B6 & B7 & B8 & B9).
    destruct (ack_walk_ok m rs _ _ _ _ _ _ Ew Hs Hok) as (B10 & B11).
    assert (G : reno_ok m r0 /\ r_sat r0 = false /\ sizes_ok (pop_front ps) /\
                bif r0 = bif r - flight (s_sent s) + flight (pop_front ps) /\ cwnd r <= cwnd r0 /\
                rstart r0 = rstart r).
    { split; [exact B10|]. split; [congruence|]. split; [now apply pop_front_sizes|].
      split; [rewrite pop_front_flight; lia|]. split; [exact B11|exact B7]. }
    destruct G as (G1 & G2 & G3 & G4 & G5 & G6).
    destruct lg as [lg|]; inversion Hd; subst; ccbn; repeat split; auto; apply G1.
Qed.

Lemma InvA_ack c ri e largest cev rs :
  In e epochs -> InvA c -> InvA (fst (fst (cc_on_ack fx c ri e largest cev rs))).
Proof.
  intros He H. unfold cc_on_ack.
  pose proof (flight_le_total c e He H) as Hle. pose proof H as (H1 & H2 & H3 & H4).
  assert (Hu : s_sent (update_la (c_sp c e) largest) = s_sent (c_sp c e)) by reflexivity.
  destruct (space_on_ack (update_la (c_sp c e) largest) (c_reno c) rs) as [[s1 r1] res] eqn:Ea.
  destruct (space_on_ack_A (c_mtu c) _ _ _ _ _ _ Ea) as (G1 & G2 & G3 & G4 & G5 & G6 & _);
    try rewrite Hu; auto.
  rewrite Hu in G4.
  assert (HI1 : InvA (with_reno_sp c r1 e s1)) by (apply InvA_update; auto).
  destruct res as [[el [ln lt]]|]; [|cbn [fst]; exact HI1].
  set (r2 := process_ecn r1 cev lt e (c_now c)).
  destruct (detect_lost fx s1 r2 (i_ld ri) (c_now c)) as [[[s2 r3] lost] pers] eqn:Ed.
  cbn [fst].
  match goal with |- InvA (set_loss_detection_timer ?x ri) =>
    destruct (sldt_same x ri) as (A & B & C & _); apply (InvA_frame x _ A B C) end.
  destruct (process_ecn_fields r1 cev lt e (c_now c)) as (F1 & F2 & F3). fold r2 in F1, F2, F3.
  assert (Hok2 : reno_ok (c_mtu c) r2) by (subst r2; now apply process_ecn_ok).
  assert (Hf1 : flight (s_sent s1) <= bif r2).
  { rewrite F2, G4. pose proof (flight_nonneg _ G3). lia. }
  destruct (detect_lost_A (c_mtu c) _ _ _ _ _ _ _ _ Ed G3 Hf1 Hok2 ltac:(congruence))
    as (D1 & D2 & D3 & D4 & _).
  assert (HI3 : InvA (with_reno_sp c r3 e s2)).
  { apply InvA_update; auto. rewrite D4, F2. lia. }
  destruct (peer_completed (with_reno_sp c r3 e s2)); [|exact HI3].
  revert HI3. apply InvA_frame; ccbn; auto.
Qed.

(* --- one operation --- *)
Lemma InvA_step c ri o : op_ok o -> InvA c -> InvA (fst (cc_step fx c ri o)).
Proof.
  intros Ho H. destruct o; cbn [cc_step op_ok] in *.
  - (* SENT *)
    destruct (sent_ok c e pn elic infl bytes) eqn:Es; [|exact H]. cbn [fst].
    unfold sent_ok in Es. apply andb_true_iff in Es. destruct Es as (Es & _).
    apply andb_true_iff in Es. destruct Es as (Es & _). apply andb_true_iff in Es. destruct Es as (_ & Es).
    apply Z.leb_le in Es.
    assert (HI : InvA (on_packet_sent fx (with_lastpn c e pn) ri e pn elic infl bytes)).
    { apply InvA_sent; auto; try (revert H; apply InvA_frame; ccbn; auto). }
    destruct ((e =? 1) && negb (c_server _)); [|exact HI].
    apply InvA_discard; [cbn; auto|exact HI].
  - (* ACK *)
    destruct (ack_ok rs); [|exact H].
    pose proof (InvA_ack c ri e (fst (hd (0, 0) rs)) cev rs Ho H) as HI.
    destruct (cc_on_ack fx c ri e (fst (hd (0, 0) rs)) cev rs) as [[c1 lost] pers]. cbn [fst] in *.
    destruct ((e =? 1) && c_server c1); [|exact HI]. apply InvA_discard; [cbn; auto|exact HI].
  - revert H. apply InvA_frame; ccbn; auto.
  - (* TICK *)
    set (fire := match c_timer c with Some t => t <=? c_now c | None => false end).
    pose proof (InvA_timeout c ri H) as HI.
    destruct fire.
    + destruct (on_loss_detection_timeout fx c ri) as [[c1 lost] pers]. cbn [fst] in HI.
      cbn [andb]. destruct (6 <? c_pto_count c1); cbn [fst]; [revert HI; apply InvA_frame; ccbn; auto|].
      destruct (c_pending_burst c1); [|exact HI].
      unfold cc_send_quota. destruct (pacer_schedule _ _ _ _ _) as (p, q). cbn [fst].
      destruct (c_mtu _ <=? _); revert HI; apply InvA_frame; ccbn; auto.
    + cbn [andb]. destruct (c_pending_burst c); [|exact H].
      unfold cc_send_quota. destruct (pacer_schedule _ _ _ _ _) as (p, q). cbn [fst].
      destruct (c_mtu _ <=? _); revert H; apply InvA_frame; ccbn; auto.
  - destruct (which =? 0); [|destruct (which =? 1)]; revert H; apply InvA_frame; ccbn; auto.
  - destruct ((0 <=? e) && (e <=? 1)) eqn:Ee; [|exact H]. cbn [fst].
    apply andb_true_iff in Ee. destruct Ee as (E1 & E2). apply Z.leb_le in E1, E2.
    apply InvA_discard; [|exact H]. assert (e = 0 \/ e = 1) by lia. cbn. intuition.
  - unfold cc_send_quota. destruct (pacer_schedule _ _ _ _ _) as (p, q). ccbn.
    destruct (c_mtu c <=? _); revert H; apply InvA_frame; ccbn; auto.
  - revert H. apply InvA_frame; ccbn; auto.
  - exact H.
Qed.

Lemma reach_mtu c : reach fx c -> 0 < c_mtu c.
Proof.
  induction 1; [ccbn; assumption|].
  assert (forall c ri o, c_mtu (fst (cc_step fx c ri o)) = c_mtu c) as Hm; [|now rewrite Hm].
  clear. intros c ri o. destruct o; cbn [cc_step].
  - destruct (sent_ok _ _ _ _ _ _); [|reflexivity]. cbn [fst].
    destruct (on_packet_sent_core (with_lastpn c e pn) ri e pn elic infl bytes) as (_ & _ & _ & _ & A & _).
    destruct (_ && _); [|exact A].
    match goal with |- context [discard_epoch ?x ri 0] => destruct (discard_epoch_core x ri 0) as (_ & _ & B & _) end.
    now rewrite B, A.
  - destruct (ack_ok rs); [|reflexivity].
    assert (A : c_mtu (fst (fst (cc_on_ack fx c ri e (fst (hd (0, 0) rs)) cev rs))) = c_mtu c).
    { unfold cc_on_ack. destruct (space_on_ack _ _ _) as [[s1 r1] res].
      destruct res as [[el [ln lt]]|]; [|reflexivity].
      destruct (detect_lost fx _ _ _ _) as [[[s2 r3] lost] pers]. cbn [fst].
      match goal with |- context [set_loss_detection_timer ?x ri] => destruct (sldt_same x ri) as (_ & _ & C & _) end.
      rewrite C. destruct (peer_completed _); reflexivity. }
    destruct (cc_on_ack fx _ _ _ _ _ _) as [[c1 lost] pers]. cbn [fst] in *.
    destruct (_ && _); [|exact A].
    destruct (discard_epoch_core c1 ri 0) as (_ & _ & B & _). now rewrite B, A.
  - reflexivity.
  - assert (A : c_mtu (fst (fst (on_loss_detection_timeout fx c ri))) = c_mtu c).
    { unfold on_loss_detection_timeout. destruct (get_loss_time_and_epoch c) as [[t e]|].
      - destruct (detect_lost fx _ _ _ _) as [[[s r] lost] pers]. cbn [fst].
        match goal with |- context [set_loss_detection_timer ?x ri] => destruct (sldt_same x ri) as (_ & _ & C & _) end.
        now rewrite C.
      - cbn [fst].
        match goal with |- context [set_loss_detection_timer ?x ri] => destruct (sldt_same x ri) as (_ & _ & C & _) end.
        rewrite C. destruct (all_no_elic c); [reflexivity|].
        destruct (get_pto_time_and_epoch c ri) as (r, p). destruct r as [[t e]|]; reflexivity. }
    destruct (match c_timer c with Some t => t <=? c_now c | None => false end).
    + destruct (on_loss_detection_timeout fx c ri) as [[c1 lost] pers]. cbn [fst] in A. cbn [andb].
      destruct (6 <? c_pto_count c1); [exact A|]. destruct (c_pending_burst c1); [|exact A].
      unfold cc_send_quota. destruct (pacer_schedule _ _ _ _ _) as (p, q). cbn [fst]. ccbn.
      destruct (c_mtu c1 <=? _); exact A.
    + cbn [andb]. destruct (c_pending_burst c); [|reflexivity].
      unfold cc_send_quota. destruct (pacer_schedule _ _ _ _ _) as (p, q). cbn [fst]. ccbn.
      destruct (c_mtu c <=? _); reflexivity.
  - destruct (which =? 0); [|destruct (which =? 1)]; reflexivity.
  - destruct (_ && _); [|reflexivity]. destruct (discard_epoch_core c ri e) as (_ & _ & B & _). exact B.
  - unfold cc_send_quota. destruct (pacer_schedule _ _ _ _ _) as (p, q). ccbn. destruct (c_mtu c <=? _); reflexivity.
  - reflexivity.
  - reflexivity.
Qed.

Theorem reach_InvA c : reach fx c -> InvA c.
Proof. induction 1; [now apply InvA_init|now apply InvA_step]. Qed.

(* ------------------------------------------------------------------ *)
(* the statements of Properties/C13.v carried by Invariant A *)

(* bytes_in_flight is exactly the sum of the sizes of the counted in-flight packets of the three
   spaces; no saturating_sub saturated and no checked subtraction / division panicked *)
Lemma p_c13_bif_exact c : reach fx c ->
  bif (c_reno c) = total_flight c /\ r_sat (c_reno c) = false /\ r_panic (c_reno c) = false.
Proof. intro H. destruct (reach_InvA c H) as ((A & B & C & D & E) & F & G & _). auto. Qed.

Lemma p_c13_cwnd_min c : reach fx c -> mds (c_reno c) = c_mtu c /\ 2 * c_mtu c <= cwnd (c_reno c).
Proof. intro H. destruct (reach_InvA c H) as ((A & B & C & D & E) & _). auto. Qed.

End Fx.
