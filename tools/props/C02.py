"""C02 — a connection survives an adversarial network without corrupting data.

History validation against a proved monitor (label: partial).  The Rust harness `impl_conn` runs REAL
dquic endpoints over an in-memory fault-injecting network under paused tokio time; a case is one line
`RUN seed profile …`.  The harness prints the recorded application-level history plus its own verdict;
the history is fed to the extracted monitor (stream `conn_monitor`, proved sound in Properties/C02.v)
and to the Python oracle below (an independent re-statement of the same predicates).  A rejected
history, or a harness/monitor/oracle disagreement, is a VIOLATION whose replay is the RUN line plus
the recorded history."""
import hashlib
import os
import subprocess
import time

import vlib
from vlib import Case

PROP_FILE = "Properties/C02.v"
STREAM = "conn_monitor"
RULE = ("cases = one whole client/server connection each: `RUN seed profile k maxsize ndgrams idle_c idle_s drop dup delay trunc flip "
        "maxextra latency budget blackout_after blackout_dir stall_ms bound_ms` (rates in permille per datagram; BOUNDED profile: faults hit only the "
        "first `budget` datagrams; UNBOUNDED: faults for ever and/or a blackout from datagram `blackout_after` on); non-trivial (judged on the "
        "implementation's own run) = the handshake completed on both sides, at least 1000 application bytes were read and at least 3 datagrams "
        "were dropped/duplicated/delayed/truncated/flipped/blackholed; distinct by hash of the RUN line")
TRUSTED_BASE = [
    "NOT modelled: the QUIC stack itself (TLS 1.3 via rustls, AEAD, header protection, loss recovery, tokio scheduling). Proved: soundness of the history "
    "monitor coq/Model/C02Monitor.v and two composition statements over an abstract packet layer under the ideal-AEAD Section hypothesis. Checked: every "
    "history recorded from the real endpoints under seeded faults is accepted by the extracted monitor",
    "harness/hx: in-memory qinterface::io::{IO,ProductIO} network + fault scheduler + history recorder + workload are trusted test code; the recorder "
    "writes AppWrite/AppShutdown before the peer can observe the data (single-threaded runtime, no await in between)",
    "virtual time: the whole stack uses tokio::time (no std::time::Instant / SystemTime outside qevent telemetry), so runs are independent of the wall clock; "
    "connection ids, TLS randoms and HashMap orders are NOT seeded, so a replay reproduces the fault schedule and (empirically) the verdict, not the exact bytes on the wire",
    "the Python oracle in tools/props/C02.py re-states the monitor's predicates independently (spec level: prefixes of concatenations, multiset inclusion, "
    "deadline per operation); monitor, oracle and the harness' own content comparison must agree on every run",
]
MODELLED = ("nothing of the implementation is modelled; anchors exercised end to end: dquic/src/{client,server}.rs, qconnection (spaces, paths, burst, tls, termination), "
            "qinterface io/factory/route, qtraversal/src/route.rs receive loop, qrecovery streams/journals, qcongestion timers")
ASSUMPTIONS = ["ideal AEAD (integrity of ciphertexts) for c02_no_forgery / c02_no_replay: Section hypothesis `forall p x, open p = Some x -> In x sent`",
               "a recorded history is what the applications really observed (recorder + workload are trusted)",
               "level is partial: the proved object is the monitor, the stack is only sampled (seeded fault schedules, one connection per case)",
               "datagram delivery is vacuous while F21 (queued datagrams are never sent) is open: DgramRecv never occurs"]

MANIFEST = {
    "text": "PARTIAL by design. Proved in Coq (Properties/C02.v): the executable history monitor is sound — if it accepts a recorded client/server history then, for every "
            "stream, direction and prefix of the history, the bytes the receiving application read are a prefix of the bytes the sending application wrote, end-of-stream "
            "is reported only after all bytes and only after the writer's shutdown (and nothing is written afterwards), every datagram read was sent by the peer before, "
            "unchanged and not more often than sent, there is no panic, no stall and no transport-error termination, every operation of an application that was told the "
            "connection ended returns within the bound, nothing data-bearing happens after `closed`, and (bounded profile) the handshake completed and everything written "
            "was delivered with its end-of-stream; plus c02_no_forgery / c02_no_replay over an abstract packet layer under the ideal-AEAD Section hypothesis. Checked on "
            "every run: REAL dquic QuicClient/QuicListeners endpoints are run over an in-memory datagram network (qinterface IO/ProductIO) that drops, delays, reorders, "
            "duplicates, truncates and bit-flips datagrams by a seeded schedule under paused tokio time; the recorded history must be accepted by the extracted monitor, by an "
            "independent Python oracle and by the harness' own content comparison. NOT proved and not modelled: TLS, rustls AEAD, loss recovery, tokio scheduling, sockets.",
    "note": "Trusted: Coq kernel, extraction, OCaml driver, the Rust harness (network, fault scheduler, recorder, workload), Python generator/oracle. The stack is sampled, not "
            "verified: one connection per case, 30-40 cases quick / 1000+ thorough. Findings of this check: F65 (idle timer restarted by every retransmission, so nobody "
            "was told about a dead network or a vanished peer) and F66 (PROTOCOL_VIOLATION raised on reserved header bits before the packet is authenticated) are repaired by "
            "two `fix:` commits; F67 (idle timeout disabled on both sides: TooManyPtos unreachable, nobody is ever told) stays open and is reported as KNOWN-FINDING; "
            "the datagram clauses are vacuous while F21 (queued datagrams are never sent) is open.",
    "technique": "Coq proof of a runtime monitor's soundness + history validation of the real stack under seeded network faults and virtual time (partial)",
}

# ---------------------------------------------------------------------------------------------
# running the implementation (cached) and the extracted monitor on the recorded histories
# ---------------------------------------------------------------------------------------------
_OBS = {}      # case key -> list of observation lines of the harness
_MON = {}      # sha1(history) -> monitor observation line "v idx code"
PAR = max(1, min(8, (os.cpu_count() or 4) // 2))


def is_run_case(c):
    return len(c.ops) == 1 and c.ops[0][0] == 0 and len(c.ops[0][1]) >= 19 and not c.meta.get("hist")


def run_cfg(c):
    a = c.ops[0][1]
    return {"seed": a[0], "profile": a[1], "k": a[2], "max": a[3], "ndg": a[4], "idle_c": a[5], "idle_s": a[6],
            "drop": a[7], "dup": a[8], "delay": a[9], "trunc": a[10], "flip": a[11], "extra": a[12], "lat": a[13],
            "budget": a[14], "bo": a[15], "bodir": a[16], "stall": a[17], "bound": a[18]}


def _run_harness(binp, cases):
    """runs the harness over the cases, PAR processes, one case after the other in each"""
    if not cases:
        return {}
    chunks = [cases[i::PAR] for i in range(min(PAR, len(cases)))]
    procs = []
    for ch in chunks:
        text = "\n".join("\n".join(c.lines()) for c in ch) + "\n"
        p = subprocess.Popen([binp], stdin=subprocess.PIPE, stdout=subprocess.PIPE, stderr=subprocess.DEVNULL, env=vlib.ENV, text=True)
        procs.append((p, text, ch))
    res = {}
    for p, text, ch in procs:
        try:
            out, _ = p.communicate(text, timeout=300 + 150 * len(ch))
        except subprocess.TimeoutExpired:
            p.kill()
            out, _ = p.communicate()
        res.update(vlib.parse_output(out))
        if p.returncode not in (0, None):
            # the process died (wall-clock hang, abort): re-run the cases it did not finish, each alone
            for c in ch:
                if c.name not in res or not (res[c.name] and (res[c.name][-1].startswith("V ") or res[c.name][-1].startswith("!"))):
                    try:
                        q = subprocess.run([binp], input="\n".join(c.lines()) + "\n", stdout=subprocess.PIPE, stderr=subprocess.DEVNULL,
                                           env=vlib.ENV, text=True, timeout=400)
                        res.update(vlib.parse_output(q.stdout))
                    except subprocess.TimeoutExpired:
                        res[c.name] = ["! hang"]
    return res


def impl_run(binp, cases, prof="debug"):
    need = [c for c in cases if is_run_case(c) and c.key() not in _OBS]
    if need:
        uniq = {}
        for c in need:
            uniq.setdefault(c.key(), c)
        batch = [Case("u%d" % i, c.ops, c.cfg) for i, c in enumerate(uniq.values())]
        out = _run_harness(binp, batch)
        for b, k in zip(batch, uniq.keys()):
            _OBS[k] = out.get(b.name, ["! missing"])
        monitor_verdicts([(k, _OBS[k], uniq[k]) for k in uniq])
    return {c.name: _OBS.get(c.key(), ["! missing"]) for c in cases}, []


def split_obs(obs):
    """-> (history lines, verdict words or None, abnormal marker or None)"""
    hist = []
    v = None
    bad = None
    for l in obs:
        if l.startswith("V "):
            v = l.split()
        elif l.startswith("!"):
            bad = l
        else:
            hist.append(l)
    return hist, v, bad


def parse_line(l):
    toks = l.split()
    args = []
    for t in toks[1:]:
        if t.startswith("x"):
            args.append(bytes.fromhex(t[1:]))
        else:
            args.append(int(t))
    return int(toks[0]), args


def hist_case(name, run_case, hist):
    cfg = run_cfg(run_case)
    return Case(name, [parse_line(l) for l in hist], cfg=[1 if cfg["profile"] == 0 else 0, cfg["bound"]], meta={"hist": True})


def hist_key(run_case, hist):
    h = hashlib.sha1()
    cfg = run_cfg(run_case)
    h.update(("%d %d\n" % (cfg["profile"], cfg["bound"])).encode())
    for l in hist:
        h.update(l.encode())
        h.update(b"\n")
    return h.hexdigest()


def monitor_verdicts(items):
    """items: (key, obs, run_case); fills _MON for the histories not judged yet (one batch through the extracted monitor)"""
    todo = []
    for k, obs, rc in items:
        hist, v, bad = split_obs(obs)
        hk = hist_key(rc, hist)
        if hk not in _MON:
            todo.append((hk, hist_case("h%d" % len(todo), rc, hist)))
    if todo:
        out, _ = vlib.run_binary([vlib.build_driver(), STREAM], [c for _, c in todo], tag="mon")
        for hk, c in todo:
            o = out.get(c.name)
            _MON[hk] = o[0] if o else "! missing-model"


def monitor_of(run_case, obs):
    hist, v, bad = split_obs(obs)
    hk = hist_key(run_case, hist)
    if hk not in _MON:
        monitor_verdicts([(None, obs, run_case)])
    return _MON[hk]


def model_input_hook(cases):
    """the extracted monitor consumes the history the implementation produced for the RUN case"""
    runs = [c for c in cases if is_run_case(c)]
    if runs:
        impl_run(vlib.build_harness("hx", "impl_conn", "debug"), runs)
    out = []
    for c in cases:
        if is_run_case(c):
            hist, v, bad = split_obs(_OBS.get(c.key(), []))
            out.append(hist_case(c.name, c, hist))
        else:
            out.append(c)
    return out


vlib.MODEL_INPUT_HOOKS[STREAM] = model_input_hook

# ---------------------------------------------------------------------------------------------
# the oracle: independent re-statement of the C02 predicates on a recorded history
# ---------------------------------------------------------------------------------------------


def judge_history(events, live, bound):
    """-> None or (event index, message); spec-level statement, not the monitor's algorithm"""
    written = {}    # (writer, sid) -> bytearray
    nread = {}      # (reader, sid) -> count
    shut = {}       # (writer, sid) -> index of shutdown
    eos = {}        # (reader, sid) -> index
    sent = {0: [], 1: []}
    closed = {}
    first_err = {}
    pend = {}       # (side, id) -> start
    done = {}       # (side, id) -> completion time
    est = set()
    stall = None
    n = len(events)
    for i, (tag, a) in enumerate(events):
        if tag in (11,):
            return i, "panic: an endpoint panicked"
        if tag == 12:
            stall = i
            continue
        if tag > 13 or not a or not isinstance(a[0], int) or a[0] not in (0, 1):
            return i, "malformed: event %d %s" % (tag, a[:3])
        s = a[0]
        if s in closed and tag in (0, 2, 3, 5, 6, 7):
            return i, "closed: side %d: data-bearing event (tag %d) after terminated() resolved at event %d" % (s, tag, closed[s])
        if tag == 0:
            sid, bs = a[1], b"".join(x for x in a[2:] if isinstance(x, bytes))
            if (s, sid) in shut:
                return i, "stream: side %d wrote to stream %d after its shutdown" % (s, sid)
            written.setdefault((s, sid), bytearray()).extend(bs)
        elif tag == 1:
            shut.setdefault((s, a[1]), i)
        elif tag == 2:
            sid, bs = a[1], b"".join(x for x in a[2:] if isinstance(x, bytes))
            w = written.get((1 - s, sid), bytearray())
            k = nread.get((s, sid), 0)
            if (s, sid) in eos:
                return i, "stream: side %d read %d bytes from stream %d after end-of-stream" % (s, len(bs), sid)
            if bytes(w[k:k + len(bs)]) != bs or k + len(bs) > len(w):
                return i, ("stream: side %d read %d bytes at offset %d of stream %d that are not what the peer wrote there (peer wrote %d bytes so far)"
                           % (s, len(bs), k, sid, len(w)))
            nread[(s, sid)] = k + len(bs)
        elif tag == 3:
            sid = a[1]
            w = written.get((1 - s, sid), bytearray())
            if (1 - s, sid) not in shut:
                return i, "stream: side %d got end-of-stream on stream %d although the peer never shut it down" % (s, sid)
            if nread.get((s, sid), 0) != len(w):
                return i, "stream: side %d got end-of-stream on stream %d after %d of %d bytes" % (s, sid, nread.get((s, sid), 0), len(w))
            eos[(s, sid)] = i
        elif tag == 5:
            sent[s].append(b"".join(x for x in a[1:] if isinstance(x, bytes)))
        elif tag == 6:
            bs = b"".join(x for x in a[1:] if isinstance(x, bytes))
            if bs not in sent[1 - s]:
                return i, "dgram: side %d received a datagram (%d bytes) the peer did not send (or more often than sent)" % (s, len(bs))
            sent[1 - s].remove(bs)
        elif tag == 7:
            est.add(s)
        elif tag == 8:
            if a[1] >= 2:
                return i, "kind: side %d: connection ended with transport error kind %d (code 0x%x) under pure network faults" % (s, a[1], a[1] - 2)
            first_err.setdefault(s, a[2])
        elif tag == 9:
            pend[(s, a[1])] = a[2]
        elif tag == 10:
            if (s, a[1]) not in pend:
                return i, "term: completion of unknown operation %d on side %d" % (a[1], s)
            done[(s, a[1])] = (a[3], i)
        elif tag == 13:
            closed.setdefault(s, i)
    # termination: every operation of a side that was told the connection ended returns within the bound
    for (s, oid), ts in sorted(pend.items()):
        if s in first_err:
            te = first_err[s]
            if (s, oid) not in done:
                return n, "term: side %d was told the connection ended at %d ms but operation %d (started %d ms) never returned" % (s, te, oid, ts)
            tc, i = done[(s, oid)]
            if tc > max(te, ts) + bound:
                return i, "term: side %d operation %d returned at %d ms, more than %d ms after the connection ended (%d ms)" % (s, oid, tc, bound, te)
    if live:
        if est != {0, 1}:
            return n, "live: bounded faults but the handshake did not complete on side(s) %s" % sorted({0, 1} - est)
        for (w, sid), data in sorted(written.items()):
            if nread.get((1 - w, sid), 0) != len(data):
                return n, "live: bounded faults but stream %d: %d of %d bytes written by side %d were delivered" % (sid, nread.get((1 - w, sid), 0), len(data), w)
        for (w, sid) in sorted(shut):
            if (1 - w, sid) not in eos:
                return n, "live: bounded faults but the end of stream %d (writer %d) was never delivered" % (sid, w)
    if stall is not None:
        t = events[stall][1][0] if events[stall][1] else -1
        told = sorted(first_err)
        return stall, "stall: no application-level progress for the watchdog period while operations are pending (at %s ms); sides told about a failure: %s" % (t, told)
    return None


def save_history(case, hist, why):
    d = os.path.join(vlib.ROOT, "replays")
    os.makedirs(d, exist_ok=True)
    cfg = run_cfg(case)
    path = os.path.join(d, "C02-history-%s-%s.txt" % (case.name.replace("/", "_"), hist_key(case, hist)[:10]))
    if not os.path.exists(path):
        with open(path, "w") as f:
            f.write("# property C02: recorded history of the run below; %s\n" % why)
            f.write("# " + case.lines()[1] + "\n")
            f.write("# feed to the extracted monitor:  .build/ocaml/driver conn_monitor < this file\n")
            f.write("CASE %s %d %d\n" % (case.name, 1 if cfg["profile"] == 0 else 0, cfg["bound"]))
            f.write("\n".join(hist) + ("\n" if hist else ""))
            f.write("END\n")
    return path


def oracle(case, obs):
    if not is_run_case(case):
        return "malformed: not a RUN case"
    cfg = run_cfg(case)
    hist, v, bad = split_obs(obs)
    if bad is not None:
        return "abnormal: harness reported `%s` after %d events (wall-clock hang or crash of the whole runtime)" % (bad, len(hist))
    if v is None:
        return "abnormal: no verdict line from the harness"
    try:
        events = [parse_line(l) for l in hist]
    except ValueError:
        return "abnormal: unparsable history line"
    j = judge_history(events, cfg["profile"] == 0, cfg["bound"])
    mon = monitor_of(case, obs).split()
    mon_ok = mon[:1] == ["1"]
    harness_ok = v[1] == "1"
    msg = None
    if j is not None:
        msg = "%s [event %d]" % (j[1], j[0])
        if mon_ok:
            msg = "verdict-mismatch: oracle rejects but the proved monitor accepts: " + msg
    elif not mon_ok:
        msg = "verdict-mismatch: the proved monitor rejects (event %s clause %s) but the oracle accepts" % (mon[1] if len(mon) > 1 else "?", mon[2] if len(mon) > 2 else "?")
    elif not harness_ok:
        msg = "verdict-mismatch: monitor and oracle accept the history but the harness' own verdict is code %s" % v[2]
    if msg is None and harness_ok != mon_ok:
        msg = "verdict-mismatch: harness ok=%s monitor ok=%s" % (harness_ok, mon_ok)
    if msg is not None:
        path = save_history(case, hist, msg)
        msg += " (harness code %s, monitor %s; history: %s)" % (v[2], " ".join(mon), os.path.relpath(path, vlib.ROOT))
    return msg


def _open_ids():
    return {e["id"] for e in vlib.load_known("C02")}


def classify(case, msg, obs):
    """maps a failing run to a finding that is still OPEN in known_findings.json; a finding marked fixed classifies
    nothing, so its recurrence is a VIOLATION.
    F65 an endpoint with data in flight is never told that the network / the peer is gone (idle timer restarted by every send)
    F66 PROTOCOL_VIOLATION `Invalid reserved bits` raised before the packet is authenticated
    F67 idle timeout disabled on both sides: TooManyPtos is unreachable, nobody is ever told"""
    open_ids = _open_ids()
    cfg = run_cfg(case)
    hist, v, bad = split_obs(obs)
    if v is None:
        return None
    if msg.startswith("kind:") and "kind 12 " in msg and (int(v[10]) + int(v[11]) > 0):
        return "F66" if "F66" in open_ids else None
    if not msg.startswith("stall:"):
        return None
    dead = cfg["profile"] == 1 and ((cfg["bo"] >= 0 and int(v[12]) > 0) or cfg["drop"] >= 1000 or cfg["flip"] >= 1000 or cfg["trunc"] >= 1000)
    if dead and cfg["idle_c"] == 0 and cfg["idle_s"] == 0:
        return "F67" if "F67" in open_ids else None
    # the other way to lose the peer for good: it closed (application close) and its CONNECTION_CLOSE was lost
    told = {}
    for l in hist:
        if l.startswith("8 "):
            w = l.split()
            told.setdefault(w[1], w[2])
    peer_gone = len(told) == 1 and list(told.values()) == ["0"]
    if dead or peer_gone:
        return "F65" if "F65" in open_ids else None
    return None


def classify_diff(case, io, mo):
    # the two observation lists are different objects by construction (history vs verdict);
    # agreement of the verdicts is judged by the oracle
    return "by-design"


def _v(case):
    obs = _OBS.get(case.key())
    if not obs:
        return None, []
    hist, v, bad = split_obs(obs)
    return v, hist


def nontrivial(case):
    v, hist = _v(case)
    if v is None or len(v) < 18:
        return False
    faults = sum(int(x) for x in v[7:13])
    est = set()
    nbytes = 0
    for l in hist:
        if l.startswith("7 "):
            est.add(l.split()[1])
        elif l.startswith("2 "):
            t = l.split()
            nbytes += sum((len(x) - 1) // 2 for x in t[3:])
    return est == {"0", "1"} and nbytes >= 1000 and faults >= 3


def hist(case):
    cfg = run_cfg(case)
    lab = ["profile:%s" % ("bounded" if cfg["profile"] == 0 else "unbounded-blackout" if cfg["bo"] >= 0 else "unbounded"),
           "streams:%s" % ("0" if cfg["k"] == 0 else "1-2" if cfg["k"] <= 2 else "3-6" if cfg["k"] <= 6 else "7+"),
           "maxsize:%s" % ("<=2k" if cfg["max"] <= 2000 else "<=20k" if cfg["max"] <= 20000 else ">20k"),
           "dgrams:%s" % ("yes" if cfg["ndg"] else "no")]
    v, h = _v(case)
    if v is None or len(v) < 18:
        lab.append("outcome:abnormal")
        return lab
    lab.append("outcome:%s" % ("ok" if v[1] == "1" else "code" + v[2]))
    for name, idx in (("dropped", 7), ("duplicated", 8), ("delayed", 9), ("truncated", 10), ("flipped", 11), ("blackholed", 12)):
        if int(v[idx]) > 0:
            lab.append("fault:" + name)
    if int(v[15]) > 0:
        lab.append("server:extra-connection")
    if int(v[16]) > 0:
        lab.append("dgram:sent")
    if int(v[17]) > 0:
        lab.append("dgram:delivered")
    elif int(v[16]) > 0:
        lab.append("dgram:none-delivered(F21)")
    kinds = set()
    for l in h:
        if l.startswith("8 "):
            kinds.add(l.split()[2])
        elif l.startswith("4 "):
            lab.append("ev:stream-error")
        elif l.startswith("12 "):
            lab.append("ev:stall")
    for k in sorted(kinds):
        lab.append("connerror-kind:" + k)
    ne = len(h)
    lab.append("events:%s" % ("<100" if ne < 100 else "<1000" if ne < 1000 else ">=1000"))
    return lab


# ---------------------------------------------------------------------------------------------
# generator
# ---------------------------------------------------------------------------------------------

def mk(name, seed, profile, k, maxsize, ndg, idle_c, idle_s, drop, dup, delay, trunc, flip, extra, lat, budget, bo, bodir, stall, bound):
    return Case(name, [(0, [seed, profile, k, maxsize, ndg, idle_c, idle_s, drop, dup, delay, trunc, flip, extra, lat, budget, bo, bodir, stall, bound])])


def gen_bounded(rng, i):
    k = rng.choice([1, 1, 2, 3, 4, 6])
    maxsize = rng.choice([300, 2000, 2000, 20000, 20000, 60000])
    heavy = rng.random() < 0.3
    r = lambda hi: rng.randint(0, hi)
    return mk("b%d" % i, rng.getrandbits(32), 0, k, maxsize, rng.choice([0, 0, 3]), 10000, 10000,
              r(400 if heavy else 150), r(200), r(300), r(150 if heavy else 50), r(150 if heavy else 50),
              rng.choice([10, 50, 200]), rng.choice([1, 5, 5, 20, 50]), rng.choice([10, 40, 100, 200, 400]), -1, 0, 30000, 3000)


def gen_persistent(rng, i):
    r = lambda hi: rng.randint(0, hi)
    return mk("u%d" % i, rng.getrandbits(32), 1, rng.choice([1, 2, 4]), rng.choice([2000, 20000]), rng.choice([0, 3]), 10000, 10000,
              r(250), r(150), r(300), r(60), r(60), rng.choice([10, 50, 200]), rng.choice([1, 5, 20]), 0, -1, 0, 60000, 3000)


def gen_blackout(rng, i):
    r = lambda hi: rng.randint(0, hi)
    idle_c, idle_s = rng.choice([1500, 2000, 3000]), rng.choice([1500, 2000, 3000])
    return mk("x%d" % i, rng.getrandbits(32), 1, rng.choice([2, 3, 4]), rng.choice([20000, 60000]), 0, idle_c, idle_s,
              r(100), r(100), r(200), r(30), r(30), 50, rng.choice([1, 5, 20]), 0,
              rng.choice([0, 3, 8, 15, 25, 40, 60, 150]), rng.choice([0, 0, 1, 2]), idle_c + idle_s + 6000, 3000)


def gen_noidle(rng, i):
    # idle timeout disabled on both sides and a dead network (F67)
    return mk("n%d" % i, rng.getrandbits(32), 1, 2, 20000, 0, 0, 0, 0, 0, 0, 0, 0, 50, 5, 0, rng.choice([0, 0, 5, 10]), 0, 15000, 3000)


def gen(rng, tier):
    if tier == "quick":
        nb, npers, nx = 22, 5, 5
    else:
        nb, npers, nx = 800, 150, 100
    cases = [mk("clean", 1, 0, 4, 20000, 3, 10000, 10000, 0, 0, 0, 0, 0, 0, 5, 0, -1, 0, 60000, 3000)]
    cases += [gen_bounded(rng, i) for i in range(nb)]
    cases += [gen_persistent(rng, i) for i in range(npers)]
    cases += [gen_blackout(rng, i) for i in range(nx)]
    cases += [gen_noidle(rng, i) for i in range(1 if tier == "quick" else 6)]
    return cases


def mutate(rng, case, j):
    a = list(case.ops[0][1])
    a[0] = rng.getrandbits(32)
    return Case("m%d" % j, [(0, a)])


STREAMS = [{
    "name": STREAM, "pkg": "hx", "bin": "impl_conn",
    "gen": gen, "oracle": oracle, "nontrivial": nontrivial, "hist": hist,
    "classify": classify, "classify_diff": classify_diff, "impl_run": impl_run,
    "profiles": ("debug",), "profiles_thorough": ("debug",),
    "rule": RULE,
}]
