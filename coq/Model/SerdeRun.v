(* C20 — stream entry point `run_qevent`: the generic ser/de of Model/Serde.v applied to the schema
   table regenerated from qevent/src (Generated/QeventSchema.v).  Definitions only.
   ops:  0 <type name> <json>   parse the JSON tree as that type, re-serialise, parse again
         1 <type name> <value>  build a value of that type from these field values (through the public
                                builders on the Rust side; `build` here), serialise it, parse it back
   obs:  0                                  the JSON is rejected
         1 <canonical json> <flag>          flag 1 = parses back to an equal value, 0 = to a different
                                            value, 2 = does not parse back
         negative                           malformed op / unknown type *)
From Coq Require Import List ZArith Bool NArith.
From GQ Require Import Model.Serde Generated.QeventSchema.
Import ListNotations.
Local Open Scope Z_scope.

Fixpoint find_type (n : str) (tbl : list (str * schema)) : option schema :=
  match tbl with
  | [] => None
  | (n', s) :: r => if str_eqb n n' then Some s else find_type n r
  end.

(* serde_json::to_value yields a map: parse back from the canonical (sorted, last-insert-wins) tree *)
Definition rt_flag (s : schema) (v : value) : Z :=
  match de s (canon (ser s v)) with
  | Some v' => if value_eqb v v' then 1 else 0
  | None => 2
  end.

Definition obs_of (s : schema) (v : value) : list Z :=
  1 :: enc_json (canon (ser s v)) ++ [rt_flag s v].

Definition run_qevent_op (op : N * list Z) : list Z :=
  let '(tag, args) := op in
  match take_str args with
  | Some (name, rest) =>
      match find_type name qevent_types with
      | None => [-1]
      | Some s =>
          match tag with
          | 0%N => match dec_json (S (List.length rest)) rest with
                   | Some (j, []) => match de s j with Some v => obs_of s v | None => [0] end
                   | _ => [-2]
                   end
          | 1%N => match dec_value (S (List.length rest)) rest with
                   | Some (v, []) => obs_of s (build s v)
                   | _ => [-2]
                   end
          | _ => [-3]
          end
      end
  | None => [-2]
  end.

Definition run_qevent (cfg : list Z) (l : list (N * list Z)) : list (list Z) := map run_qevent_op l.
