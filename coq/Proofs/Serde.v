(* C20 — lemmas about the serde schema model (Model/Serde.v) and the regenerated schema table. *)
From Coq Require Import List ZArith Bool NArith String Lia.
From GQ Require Import Model.Serde Generated.QeventSchema.
From GQ Require Export Proofs.SerdeRT.
Import ListNotations.
Local Open Scope Z_scope.

(* ------------------------------------------------------------------ the regenerated table *)
Definition diag_top (s : schema) : list problem :=
  match s with SNamed _ b => diag b | _ => diag s end.

Definition defects_of (tbl : list (str * schema)) : list (str * Z * str) :=
  flat_map (fun ns => map (fun p => (fst ns, fst p, snd p)) (diag_top (snd ns))) tbl.

(* the static defects present in the repository today (known finding F51 = kind 7).  Kind 1 (a field skipped
   when empty without a missing-value, F50) no longer occurs: repaired, `#[serde(default)]` on the 15 fields *)
Definition known_defects : list (str * Z * str) := [
  (k "quic::connectivity::ConnectionState", 7, k "closed")
]%string.

Lemma p_c20_schema_wf : forallb (fun ns => wf (snd ns)) qevent_types = true.
Proof. vm_compute. reflexivity. Qed.

Lemma p_c20_schema_defects : defects_of qevent_types = known_defects.
Proof. vm_compute. reflexivity. Qed.

(* F50 repaired: in every type of the table every skipped field (at any depth) has its skipped value as
   missing-value, so the clause `skip_ok || negb skipped` of conformsb holds for every value of every field *)
Lemma p_c20_skips_ok : forallb (fun ns => skips_ok (snd ns)) qevent_types = true.
Proof. vm_compute. reflexivity. Qed.

Lemma p_c20_skips_ok_in : forall n s, In (n, s) qevent_types -> skips_ok s = true.
Proof.
  intros n s H. pose proof p_c20_skips_ok as A. rewrite forallb_forall in A. exact (A (n, s) H).
Qed.

Lemma p_c20_skip_clause : forall sk d s v, skip_ok sk d s = true -> (skip_ok sk d s || negb (skipped sk v)) = true.
Proof. intros sk d s v H. rewrite H. reflexivity. Qed.

Lemma p_c20_schema_wf_in : forall n s, In (n, s) qevent_types -> wf s = true.
Proof.
  intros n s H. pose proof p_c20_schema_wf as A. rewrite forallb_forall in A. exact (A (n, s) H).
Qed.


(* ------------------------------------------------------------------ mandatory qlog fields *)
Fixpoint all_newtype (vs : variants) : bool :=
  match vs with
  | VNil => true
  | VCons _ untag sh r => negb untag && negb (is_unit sh) && all_newtype r
  end.

(* shape of a top-level Event: first regular field `time` (never skipped), flattened adjacently tagged
   EventData with tag `name` / content `data` whose variants all carry a payload *)
Definition event_shape (s : schema) : bool :=
  match s with
  | SNamed _ (SStruct (FCons key0 SkNever _ _ _) (FLCons (SNamed _ (SEnum (TAdj tag c) vs)) FLNil) _) =>
      str_eqb key0 (k "time") && str_eqb tag (k "name") && str_eqb c (k "data") && all_newtype vs
  | _ => false
  end.

Definition has_key (key : str) (j : json) : Prop := In key (map fst (members j)).

Lemma all_newtype_nth : forall vs i name untag sh, all_newtype vs = true ->
  nth_variant vs i = Some (name, untag, sh) -> untag = false /\ is_unit sh = false.
Proof.
  induction vs as [|n u s r IH]; intros i name untag sh H E; cbn in *; [discriminate|].
  apply andb_true_iff in H. destruct H as [H H3]. apply andb_true_iff in H. destruct H as [H1 H2].
  destruct i; [inversion E; subst; split; apply negb_true_iff; assumption | eapply IH; eauto].
Qed.

Lemma mandatory_generic : forall s v, event_shape s = true -> conformsb s v = true ->
  has_key (k "time") (ser s v) /\ has_key (k "name") (ser s v) /\ has_key (k "data") (ser s v).
Proof.
  intros s v S C. unfold event_shape in S.
  destruct s as [| | | | | | | | | | | | |n0 s]; try discriminate.
  destruct s as [| | | | | | | | | |regs flats any| | |]; try discriminate.
  destruct regs as [|key0 sk d s0 rest]; try discriminate. destruct sk; try discriminate.
  destruct flats as [|fs fr]; try discriminate. destruct fs as [| | | | | | | | | | | | |n1 fs]; try discriminate.
  destruct fs as [| | | | | | | | | | |t vs| |]; try discriminate. destruct t as [| |tag c|]; try discriminate.
  destruct fr; try discriminate.
  apply andb_true_iff in S. destruct S as [S S4]. apply andb_true_iff in S. destruct S as [S S3].
  apply andb_true_iff in S. destruct S as [S1 S2].
  apply str_eqb_eq in S1, S2, S3. subst key0 tag c.
  cbn [conformsb] in C. destruct v as [z|z|b|x|l| |v|l|lr lf ex|i p|m]; try discriminate.
  apply andb_true_iff in C. destruct C as [C _]. apply andb_true_iff in C. destruct C as [C _].
  apply andb_true_iff in C. destruct C as [C _]. apply andb_true_iff in C. destruct C as [C1 C2].
  cbn [conf_fields] in C1. destruct lr as [|v0 lr]; [discriminate|].
  cbn [conf_flats] in C2. destruct lf as [|vf lf]; [discriminate|].
  apply andb_true_iff in C2. destruct C2 as [Cf _].
  cbn [conformsb] in Cf. destruct vf as [z|z|b|x|l| |v|l|lr' lf' ex'|i p|m]; try discriminate.
  apply andb_true_iff in Cf. destruct Cf as [Cv _].
  destruct (nth_variant_conf _ _ _ Cv) as [name [untag [sh [E Cs]]]].
  destruct (all_newtype_nth _ _ _ _ _ S4 E) as [U1 U2]. subst untag.
  unfold has_key. cbn [ser members ser_fields ser_flats skipped].
  rewrite (ser_variants_nth _ _ _ _ _ _ _ E). unfold wrap. rewrite U2. cbn [members app map fst].
  rewrite !map_app. cbn [map fst].
  split; [left; reflexivity|].
  split; right; apply in_app_iff; right; cbn; auto.
Qed.

Lemma p_c20_mandatory : forall v, conformsb event_schema v = true ->
  has_key (k "time") (ser event_schema v) /\ has_key (k "name") (ser event_schema v) /\ has_key (k "data") (ser event_schema v).
Proof. intros v C. apply mandatory_generic; [vm_compute; reflexivity | exact C]. Qed.

Lemma p_c20_mandatory_legacy : forall v, conformsb legacy_event_schema v = true ->
  has_key (k "time") (ser legacy_event_schema v) /\ has_key (k "name") (ser legacy_event_schema v)
  /\ has_key (k "data") (ser legacy_event_schema v).
Proof. intros v C. apply mandatory_generic; [vm_compute; reflexivity | exact C]. Qed.

(* group_id is the 5th regular field of Event (skipped exactly when None) *)
Lemma p_c20_group_id : forall t p tf pt g si fl ex,
  let v := VStruct [t; p; tf; pt; g; si] fl ex in
  conformsb event_schema v = true ->
  (g <> VNone -> has_key (k "group_id") (ser event_schema v)).
Proof.
  intros t p tf pt g si fl ex v C G. unfold has_key, v.
  change (ser event_schema (VStruct [t; p; tf; pt; g; si] fl ex))
    with (ser (match event_schema with SNamed _ b => b | x => x end) (VStruct [t; p; tf; pt; g; si] fl ex)).
  cbn [event_schema T_Event ser ser_fields members]. rewrite !map_app. rewrite !in_app_iff.
  left. right. right. right. right. left.
  destruct g; cbn; auto; contradiction.
Qed.

(* ------------------------------------------------------------------ the defect classes, on the model *)
Definition rt_fails (s : schema) (v : value) : bool :=
  match de s (ser s v) with Some v' => negb (value_eqb v v') | None => true end.

(* F50 (repaired): PacketsAcked {} — `packet_nubers` is skipped when empty; it now has the empty vector as missing-value *)
Definition w_f50 : value := VStruct [VNone; VSeq []] [] [].
(* ... a packet_sent event whose supported_versions is empty (every ordinary packet_sent) *)
Definition w_f50_sent : value :=
  VStruct [VStruct [VBool true; VEnum 3 VUnit; VSome (VInt 0); VNone; VNone; VNone; VNone; VNone; VNone; VNone; VNone] [] [];
           VNone; VNone; VSeq []; VNone; VNone; VBool false; VNone] [] [].
(* the shapes as they were before the repair: the same schemas without the missing-value of the field *)
Definition PacketsAcked_was : schema := undefault (k "packet_nubers") T_quic_transport_PacketsAcked.
Definition PacketSent_was : schema := undefault (k "supported_versions") T_quic_transport_PacketSent.
(* F51: ConnectionState::Granular(Closed) reads back as Base(Closed) *)
Definition w_f51 : value := VEnum 1 (VEnum 5 VUnit).
(* F52 (repaired): ReferenceTime built with clock_type Monotaonic and the default epoch / any epoch other than Unknow *)
Definition w_f52 : value := VStruct [VEnum 1 VUnit; VEnum 1 (VStr (k "1970-01-01T00:00:00.000Z")); VNone] [] [].
Definition w_f52_built : value := VStruct [VEnum 1 VUnit; VEnum 0 VUnit; VNone] [] [].
(* ReferenceTime as it was before the repair: same validator, a builder that stores the epoch it is given *)
Definition ReferenceTime_was : schema := with_refine 0 T_ReferenceTime.
(* F53: an Event whose custom field is called `time` *)
Definition w_f53 : value :=
  VStruct [VFloat 4607182418800017408; VNone; VNone; VNone; VNone; VNone]
          [VEnum 37 (VStruct [VStr (k "m")] [] [])] [(k "time", JStr (k "x"))].

(* the open classes: F51, F53 *)
Lemma p_c20_refuted :
  (conformsb T_quic_connectivity_ConnectionState w_f51 = false
      /\ de T_quic_connectivity_ConnectionState (ser T_quic_connectivity_ConnectionState w_f51) = Some (VEnum 0 (VEnum 3 VUnit)))
  /\ (conformsb event_schema w_f53 = false /\ rt_fails event_schema w_f53 = true
      /\ de event_schema (canon (ser event_schema w_f53)) = None).
Proof. vm_compute. repeat split. Qed.

(* F50: the former witnesses conform and round-trip; on the shape as it was they do not (names a regression) *)
Lemma p_c20_f50_repaired :
  (conformsb T_quic_transport_PacketsAcked w_f50 = true
   /\ de T_quic_transport_PacketsAcked (ser T_quic_transport_PacketsAcked w_f50) = Some w_f50)
  /\ (conformsb T_quic_transport_PacketSent w_f50_sent = true
      /\ de T_quic_transport_PacketSent (ser T_quic_transport_PacketSent w_f50_sent) = Some w_f50_sent).
Proof. vm_compute. repeat split. Qed.

Lemma p_c20_f50_was_refuted :
  (wf PacketsAcked_was = true /\ skips_ok PacketsAcked_was = false /\ conformsb PacketsAcked_was w_f50 = false
   /\ de PacketsAcked_was (ser PacketsAcked_was w_f50) = None)
  /\ (wf PacketSent_was = true /\ skips_ok PacketSent_was = false /\ conformsb PacketSent_was w_f50_sent = false
      /\ de PacketSent_was (ser PacketSent_was w_f50_sent) = None).
Proof. vm_compute. repeat split. Qed.

(* F52: whatever field values the ReferenceTime builder is given, what it builds satisfies the validator ... *)
Lemma reftime_ok_build_norm : forall v, reftime_ok (build_norm 1 v) = true.
Proof.
  intros v. destruct v as [z|z|b|x|l| |v|l|lr lf ex|i p|m]; try reflexivity.
  destruct lr as [|c lr]; [reflexivity|].
  destruct c as [z|z|b|x|l| |v|l|lr' lf' ex'|i p|m]; try reflexivity.
  destruct i as [|[|i]]; try reflexivity.
  destruct lr as [|e lr]; [reflexivity|].
  destruct e as [z|z|b|x|l| |v|l|lr' lf' ex'|j q|m]; try reflexivity.
  destruct j; reflexivity.
Qed.

(* ... and conforms whenever the field values are of the field types (generic in the struct: replacing the second
   regular field by a conforming, non-skipped value keeps conformance) *)
Lemma conf_struct_set_second : forall k1 sk1 d1 s1 k2 sk2 d2 s2 r fl any v1 v2 v2' lr lf ex,
  conformsb (SStruct (FCons k1 sk1 d1 s1 (FCons k2 sk2 d2 s2 r)) fl any) (VStruct (v1 :: v2 :: lr) lf ex) = true ->
  conformsb s2 v2' = true -> skipped sk2 v2' = false ->
  conformsb (SStruct (FCons k1 sk1 d1 s1 (FCons k2 sk2 d2 s2 r)) fl any) (VStruct (v1 :: v2' :: lr) lf ex) = true.
Proof.
  intros k1 sk1 d1 s1 k2 sk2 d2 s2 r fl any v1 v2 v2' lr lf ex C C2 S2.
  cbn [conformsb conf_fields] in C |- *.
  apply andb_true_iff in C. destruct C as [C X5]. apply andb_true_iff in C. destruct C as [C X4].
  apply andb_true_iff in C. destruct C as [C X3]. apply andb_true_iff in C. destruct C as [C X2].
  apply andb_true_iff in C. destruct C as [C Y]. apply andb_true_iff in Y. destruct Y as [Y Y3].
  rewrite C, C2, S2, Y3, X2, X3, X4, X5. cbn [negb]. rewrite orb_true_r. reflexivity.
Qed.

Definition ReferenceTime_fields : schema :=
  match T_ReferenceTime with SNamed _ (SRefine _ s) => s | s => s end.

Lemma p_c20_reference_time_builder : forall v, conformsb ReferenceTime_fields v = true ->
  conformsb T_ReferenceTime (build T_ReferenceTime v) = true
  /\ de T_ReferenceTime (ser T_ReferenceTime (build T_ReferenceTime v)) = Some (build T_ReferenceTime v).
Proof.
  intros v C.
  assert (B : build T_ReferenceTime v = build_norm 1 v).
  { unfold ReferenceTime_fields in C. cbn [T_ReferenceTime] in C.
    destruct v as [z|z|b|x|l| |v|l|lr lf ex|i p|m]; try (cbn in C; discriminate).
    destruct lr as [|c [|e [|w [|y lr]]]]; try (cbn in C; discriminate); try (exfalso; cbn in C; repeat (rewrite ?andb_false_r in C; cbn in C); discriminate).
    assert (Hc : build T_TimeClockType c = c).
    { destruct c as [z|z|b|x|l| |v|l|lr' lf' ex'|i p|m]; try reflexivity. destruct i as [|[|[|i]]]; reflexivity. }
    assert (He : build T_TimeEpoch e = e).
    { destruct e as [z|z|b|x|l| |v|l|lr' lf' ex'|i p|m]; try reflexivity. destruct i as [|[|i]]; reflexivity. }
    assert (Hw : build (SOpt T_RFC3339DateTime) w = w).
    { destruct w as [z|z|b|x|l| |v|l|lr' lf' ex'|i p|m]; reflexivity. }
    change (build T_ReferenceTime (VStruct [c; e; w] lf ex))
      with (build_norm 1 (VStruct [build T_TimeClockType c; build T_TimeEpoch e; build (SOpt T_RFC3339DateTime) w] lf ex)).
    rewrite Hc, He, Hw. reflexivity. }
  rewrite B.
  assert (CC : conformsb T_ReferenceTime (build_norm 1 v) = true).
  { change (conformsb T_ReferenceTime (build_norm 1 v))
      with (conformsb ReferenceTime_fields (build_norm 1 v) && reftime_ok (build_norm 1 v)).
    rewrite reftime_ok_build_norm, andb_true_r.
    unfold build_norm.
    destruct v as [z|z|b|x|l| |v|l|lr lf ex|i p|m]; try exact C.
    destruct lr as [|c lr]; [exact C|].
    destruct c as [z|z|b|x|l| |v|l|lr' lf' ex'|i p|m]; try exact C.
    destruct i as [|[|i]]; try exact C.
    destruct lr as [|e lr]; [exact C|].
    destruct e as [z|z|b|x|l| |v|l|lr' lf' ex'|j q|m]; try exact C.
    destruct j; [exact C|].
    unfold ReferenceTime_fields in C |- *. cbn [T_ReferenceTime] in C |- *.
    eapply conf_struct_set_second; [exact C| vm_compute; reflexivity | reflexivity]. }
  split; [exact CC|].
  apply p_c20_roundtrip; [vm_compute; reflexivity | exact CC].
Qed.

(* the former witness: built, it is the monotonic clock with epoch Unknow and round-trips; with the builder as it
   was (number 0: stores the epoch it is given) the built value is refused by the type's own validator *)
Lemma p_c20_f52_repaired :
  conformsb ReferenceTime_fields w_f52 = true /\ build T_ReferenceTime w_f52 = w_f52_built
  /\ de T_ReferenceTime (ser T_ReferenceTime (build T_ReferenceTime w_f52)) = Some w_f52_built.
Proof. vm_compute. repeat split. Qed.

Lemma p_c20_f52_was_refuted :
  wf ReferenceTime_was = true /\ build ReferenceTime_was w_f52 = w_f52
  /\ conformsb ReferenceTime_was (build ReferenceTime_was w_f52) = false
  /\ de ReferenceTime_was (ser ReferenceTime_was (build ReferenceTime_was w_f52)) = None.
Proof. vm_compute. repeat split. Qed.

(* non-vacuity: a packet_sent Event with header, three frames, versions, custom field *)
Definition w_event : value :=
  (VStruct [(VFloat 4607182418800017408); (VSome (VStr [112; 48])); VNone; (VSome (VSeq [(VStr [81; 85; 73; 67])])); (VSome (VStr [97; 98; 99; 100])); VNone] [(VEnum 12 (VStruct [(VStruct [(VBool true); (VEnum 3 (VStruct [] [] [])); (VSome (VInt 4611686018427387903)); VNone; VNone; (VSome (VInt 65535)); (VSome (VBytes [0; 0; 0; 1])); VNone; (VSome (VInt 8)); VNone; (VSome (VBytes [1; 2; 3; 4; 5; 6; 7; 8]))] [] []); (VSome (VSeq [(VEnum 7 (VStruct [(VInt 4); (VInt 0); (VInt 1200); (VBool true); VNone] [] [])); (VEnum 2 (VStruct [(VSome (VFloat 4607182418800017408)); (VSeq [(VSeq [(VInt 1); (VInt 3)])]); VNone; VNone; VNone; (VSome (VInt 7)); VNone] [] [])); (VEnum 19 (VStruct [] [] []))])); VNone; (VSeq [(VBytes [0; 0; 0; 1])]); VNone; (VSome (VInt 7)); (VBool false); (VSome (VEnum 2 (VStruct [] [] [])))] [] []))] [([116; 111; 95; 114; 111; 117; 116; 101; 114], (JBool true))]).

Lemma p_c20_nonvacuous :
  wf event_schema = true /\ conformsb event_schema w_event = true
  /\ de event_schema (ser event_schema w_event) = Some w_event
  /\ map fst (members (canon (ser event_schema w_event))) =
     [k "data"; k "group_id"; k "name"; k "path"; k "protocol_types"; k "time"; k "to_router"].
Proof. vm_compute. repeat split. Qed.

Lemma p_c20_roundtrip_table : forall n s v, In (n, s) qevent_types -> conformsb s v = true ->
  de s (ser s v) = Some v.
Proof. intros n s v H C. apply p_c20_roundtrip; [eapply p_c20_schema_wf_in; eauto | exact C]. Qed.
