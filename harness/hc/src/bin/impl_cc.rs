//! Correspondence stream `cc` (C13): drives the real `qcongestion::ArcCC` (public `Transport`
//! API, exactly the calls qconnection/src/path makes) inside a paused tokio current_thread
//! runtime; time only moves by `ADV`.  State is read through the cfg(gmquic_verif) hook
//! `ArcCC::verif_snapshot`; `Feedback::may_loss` callbacks are recorded.
//!
//! CASE <name> <role 0=client 1=server> <mtu> <max_ack_delay_us>
//! ops (tag args):
//!   0 SENT  epoch pn ack_eliciting in_flight bytes      (ignored with flag 0 unless pn > every pn sent before in that epoch)
//!   1 ACK   epoch delay_us ecn_ce(-1 = no ECN section) hi0 lo0 hi1 lo1 …   (descending disjoint ranges with a gap >= 2... see below)
//!   2 ADV   dt_ns
//!   3 TICK
//!   4 HS    which (0 handshake key, 1 handshake ack received, 2 handshake confirmed)
//!   5 DISCARD epoch (0|1)
//!   6 QUOTA
//!   7 GRANT (release the anti-amplification limit)
//! An ACK op whose ranges are not well formed (hi<lo, not descending, adjacent without the
//! one-number gap the wire format forces) is ignored with flag 0.
//!
//! observation line (all times are ns relative to the start of the case, -1 = None):
//!   head : flag result
//!   rtt  : ld_detect srtt rttvar latest has_sample new_tokens   (floating-point side = inputs of the model)
//!   cc   : now cwnd ssthresh(-1 = usize::MAX) bif recovery_start pto_count timer pending_burst capacity tokens ce0 ce1 ce2
//!   per space e=0..2: largest_acked tolae loss_time need_send npkts then npkts × (pn time_sent eliciting counted bytes state)
//!   lost : nlost then nlost × (epoch pn)
use std::sync::atomic::AtomicU16;
use std::sync::{Arc, Mutex};
use std::time::Duration;

use hproto::{Obs, Op};
use qbase::Epoch;
use qbase::frame::{AckFrame, EcnCounts};
use qbase::net::tx::ArcSendWaker;
use qbase::varint::VarInt;
use qcongestion::{Algorithm, ArcCC, Feedback, HandshakeStatus, PathStatus, Transport};
use qevent::quic::recovery::PacketLostTrigger;
use tokio::time::Instant;

struct Rec {
    epoch: u8,
    log: Arc<Mutex<Vec<(u8, u64)>>>,
}
impl Feedback for Rec {
    fn may_loss(&self, _t: PacketLostTrigger, pns: &mut dyn Iterator<Item = u64>) {
        let mut g = self.log.lock().unwrap();
        for pn in pns {
            g.push((self.epoch, pn));
        }
    }
}

struct St {
    rt: tokio::runtime::Runtime,
    base: Instant,
    cc: ArcCC,
    hs: Arc<HandshakeStatus>,
    ps: PathStatus,
    lost: Arc<Mutex<Vec<(u8, u64)>>>,
    last_pn: [i128; 3],
    dead: bool,
    prev_ld: u128,
}

fn ep(i: u64) -> Epoch {
    match i {
        0 => Epoch::Initial,
        1 => Epoch::Handshake,
        _ => Epoch::Data,
    }
}

fn new_case(words: &[&str]) -> St {
    let arg = |i: usize, d: u64| words.get(i).and_then(|s| s.parse::<u64>().ok()).unwrap_or(d);
    let server = arg(0, 0) != 0;
    let mtu = arg(1, 1200) as u16;
    let mad = Duration::from_micros(arg(2, 25_000));
    let rt = tokio::runtime::Builder::new_current_thread()
        .enable_time()
        .start_paused(true)
        .build()
        .unwrap();
    let lost = Arc::new(Mutex::new(Vec::new()));
    let hs = Arc::new(HandshakeStatus::new(server));
    let ps = PathStatus::new(hs.clone(), Arc::new(AtomicU16::new(mtu)));
    let (cc, base) = {
        let _g = rt.enter();
        let fb = |e: u8| -> Arc<dyn Feedback> { Arc::new(Rec { epoch: e, log: lost.clone() }) };
        let cc = ArcCC::new(Algorithm::NewReno, mad, [fb(0), fb(1), fb(2)], ps.clone(), ArcSendWaker::new());
        (cc, Instant::now())
    };
    let prev_ld = cc.verif_snapshot().loss_delay.as_nanos();
    St { rt, base, cc, hs, ps, lost, last_pn: [-1; 3], dead: false, prev_ld }
}

fn rel(base: Instant, t: Option<Instant>) -> i128 {
    match t {
        None => -1,
        Some(t) => {
            if t >= base {
                (t - base).as_nanos() as i128
            } else {
                // before the start of the case: cannot be the value of a stored time
                -((base - t).as_nanos() as i128) - 2
            }
        }
    }
}

/// well-formed descending ranges -> AckFrame
fn ack_frame(delay: u64, ce: i128, r: &[i128]) -> Option<AckFrame> {
    if r.len() < 2 || r.len() % 2 != 0 {
        return None;
    }
    let v = |x: i128| VarInt::from_u64(x as u64).ok();
    let (hi0, lo0) = (r[0], r[1]);
    if lo0 < 0 || hi0 < lo0 || hi0 >= (1i128 << 62) {
        return None;
    }
    let mut ranges = Vec::new();
    let mut prev_lo = lo0;
    for ch in r[2..].chunks(2) {
        let (hi, lo) = (ch[0], ch[1]);
        if lo < 0 || hi < lo || hi + 2 > prev_lo {
            return None;
        }
        ranges.push((v(prev_lo - hi - 2)?, v(hi - lo)?));
        prev_lo = lo;
    }
    let ecn = if ce >= 0 { Some(EcnCounts::new(v(0)?, v(0)?, v(ce)?)) } else { None };
    Some(AckFrame::new(v(hi0)?, v(delay as i128)?, v(hi0 - lo0)?, ranges, ecn))
}

fn step(st: &mut St, op: &Op, _i: usize) -> Obs {
    let mut o = Obs::new();
    if st.dead {
        o.push(-2i32);
        return o;
    }
    let _g = st.rt.enter();
    st.lost.lock().unwrap().clear();
    let mut flag: i128 = 1;
    let mut result: i128 = 0;
    let mut new_tokens: i128 = 0;
    match op.tag {
        0 => {
            let (e, pn) = (op.u(0).min(2), op.args[1]);
            // qbase frame specs: every ack-eliciting frame is congestion controlled (eliciting => in flight)
            if pn <= st.last_pn[e as usize] || pn < 0 || op.args[4] < 0 || op.args[4] > 1 << 20 || (op.u(2) != 0 && op.u(3) == 0) {
                flag = 0;
            } else {
                st.last_pn[e as usize] = pn;
                st.cc.on_pkt_sent(ep(e), pn as u64, op.u(2) != 0, op.u(4) as usize, op.u(3) != 0, None);
            }
        }
        1 => match ack_frame(op.u(1), op.args[2], &op.args[3..]) {
            Some(f) => st.cc.on_ack_rcvd(ep(op.u(0).min(2)), &f),
            None => flag = 0,
        },
        2 => {
            let dt = Duration::from_nanos(op.u(0));
            st.rt.block_on(async { tokio::time::advance(dt).await });
        }
        3 => {
            let pb = st.cc.verif_snapshot().pending_burst;
            match st.cc.do_tick() {
                Ok(()) => {}
                Err(_) => {
                    result = 1;
                    st.dead = true; // Path::drive ends the path on TooManyPtos
                }
            }
            if pb && result == 0 {
                new_tokens = st.cc.verif_snapshot().pacer.4 as i128;
            }
        }
        4 => match op.u(0) {
            0 => st.hs.got_handshake_key(),
            1 => st.hs.received_handshake_ack(),
            _ => st.hs.handshake_confirmed(),
        },
        5 => {
            if op.u(0) > 1 {
                flag = 0; // discard_epoch asserts epoch != Data; the connection never discards Data
            } else {
                st.cc.discard_epoch(ep(op.u(0)));
            }
        }
        6 => {
            result = match st.cc.send_quota() {
                Ok(q) => q as i128,
                Err(_) => -1,
            };
            new_tokens = st.cc.verif_snapshot().pacer.4 as i128;
        }
        7 => st.ps.release_anti_amplification_limit(),
        _ => {
            o.push(-99i32);
            return o;
        }
    }
    let s = st.cc.verif_snapshot();
    let now = Instant::now();
    o.push(flag).push(result);
    // floating point side: inputs of the model
    let ld_post = s.loss_delay.as_nanos();
    let ld_detect = if s.has_rtt_sample { ld_post } else { st.prev_ld };
    st.prev_ld = ld_post;
    o.push(ld_detect as i128)
        .push(s.smoothed_rtt.as_nanos() as i128)
        .push(s.rttvar.as_nanos() as i128)
        .push(s.latest_rtt.as_nanos() as i128)
        .push_bool(s.has_rtt_sample)
        .push(new_tokens);
    o.push(rel(st.base, Some(now)))
        .push(s.congestion_window as i128)
        .push(if s.ssthresh == usize::MAX { -1 } else { s.ssthresh as i128 })
        .push(s.bytes_in_flight as i128)
        .push(rel(st.base, s.congestion_recovery_start_time))
        .push(s.pto_count)
        .push(rel(st.base, s.loss_detection_timer))
        .push_bool(s.pending_burst)
        .push(s.pacer.0 as i128)
        .push(s.pacer.1 as i128);
    for c in s.ecn_ce_counters {
        o.push(c);
    }
    for sp in &s.spaces {
        o.push(sp.largest_acked_packet.map(|x| x as i128).unwrap_or(-1))
            .push(rel(st.base, sp.time_of_last_ack_eliciting_packet))
            .push(rel(st.base, sp.loss_time))
            .push_usize(sp.need_send_ack_eliciting)
            .push_usize(sp.sent_packets.len());
        for p in &sp.sent_packets {
            o.push(p.0).push(rel(st.base, Some(p.1))).push_bool(p.2).push_bool(p.3).push_usize(p.4).push(p.5);
        }
    }
    let lost = st.lost.lock().unwrap();
    o.push_usize(lost.len());
    for (e, pn) in lost.iter() {
        o.push(*e).push(*pn);
    }
    o
}

fn main() {
    hproto::run(new_case, step);
}
