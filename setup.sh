#!/bin/sh
# Builds the whole framework offline from files on disk: regenerated tables, Coq development
# (full .vo build), extracted OCaml model driver, Rust harness binaries (against /repo's tree).
set -e
cd "$(dirname "$0")"
export CARGO_NET_OFFLINE=true
mkdir -p .build
python3 tools/regen_all.py
python3 - <<'PY'
import sys, subprocess
sys.path.insert(0, "tools")
import vlib, importlib, json
vlib.ensure_makefile()
rc = subprocess.call("timeout 3400 make -j16", shell=True, cwd=vlib.COQ)
if rc != 0:
    sys.exit("coq build failed")
print("driver:", vlib.build_driver())
m = json.load(open("MANIFEST.json"))
built = set()
for c in m["checks"]:
    mod = importlib.import_module("props." + c["property_id"])
    for s in mod.STREAMS:
        for prof in set(s.get("profiles", ("debug",))):
            if (s["pkg"], s["bin"], prof) not in built:
                built.add((s["pkg"], s["bin"], prof))
                print("harness:", vlib.build_harness(s["pkg"], s["bin"], prof))
PY
echo setup-ok
