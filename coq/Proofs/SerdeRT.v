(* C20 — round-trip lemmas for the generic serde model (Model/Serde.v); independent of the schema table. *)
From Coq Require Import List ZArith Bool NArith String Lia.
From GQ Require Import Model.Serde.
Import ListNotations.
Local Open Scope Z_scope.

(* ------------------------------------------------------------------ strings, lookup *)
Lemma str_eqb_refl : forall a, str_eqb a a = true.
Proof. induction a; cbn; [reflexivity|]. rewrite Z.eqb_refl, IHa. reflexivity. Qed.

Lemma str_eqb_eq : forall a b, str_eqb a b = true <-> a = b.
Proof.
  induction a; destruct b; cbn; split; intro H; try reflexivity; try discriminate.
  - apply andb_true_iff in H. destruct H as [H1 H2]. apply Z.eqb_eq in H1. apply IHa in H2. subst. reflexivity.
  - inversion H; subst. rewrite Z.eqb_refl. cbn. apply str_eqb_refl.
Qed.

Lemma str_eqb_sym : forall a b, str_eqb a b = str_eqb b a.
Proof.
  intros a b. destruct (str_eqb a b) eqn:E.
  - apply str_eqb_eq in E. subst. symmetry. apply str_eqb_refl.
  - destruct (str_eqb b a) eqn:E2; [|reflexivity]. apply str_eqb_eq in E2. subst. rewrite str_eqb_refl in E. discriminate.
Qed.

Lemma mem_str_In : forall x l, mem_str x l = true <-> In x l.
Proof.
  induction l; cbn; split; intro H; try discriminate; try contradiction.
  - apply orb_true_iff in H. destruct H as [H|H]; [left; apply str_eqb_eq in H; auto | right; apply IHl; auto].
  - apply orb_true_iff. destruct H as [H|H]; [left; subst; apply str_eqb_refl | right; apply IHl; auto].
Qed.

Lemma mem_str_app : forall x a b, mem_str x (a ++ b) = mem_str x a || mem_str x b.
Proof. induction a; cbn; intros; [reflexivity|]. rewrite IHa. apply orb_assoc. Qed.

Lemma nodupb_app : forall a b, nodupb (a ++ b) = true ->
  nodupb a = true /\ nodupb b = true /\ (forall x, In x a -> In x b -> False).
Proof.
  induction a; cbn; intros b H.
  - split; [reflexivity|]. split; [exact H|]. intros x [].
  - apply andb_true_iff in H. destruct H as [H1 H2]. rewrite mem_str_app in H1.
    apply negb_true_iff, orb_false_iff in H1. destruct H1 as [H1 H1'].
    destruct (IHa b H2) as [A [B C]]. split; [rewrite H1, A; reflexivity|]. split; [exact B|].
    intros x [Hx|Hx] Hb.
    + subst. apply mem_str_In in Hb. rewrite Hb in H1'. discriminate.
    + exact (C x Hx Hb).
Qed.

Lemma lookup_app : forall key a b,
  lookup key (a ++ b) = match lookup key a with Some j => Some j | None => lookup key b end.
Proof.
  induction a as [|[k' j] a IH]; cbn; intros; [reflexivity|]. destruct (str_eqb key k'); [reflexivity|apply IH].
Qed.

Lemma lookup_none : forall key m, ~ In key (map fst m) -> lookup key m = None.
Proof.
  induction m as [|[k' j] m IH]; cbn; intros H; [reflexivity|].
  destruct (str_eqb key k') eqn:E; [apply str_eqb_eq in E; subst; exfalso; apply H; left; reflexivity|].
  apply IH. intro; apply H; right; assumption.
Qed.

Lemma lookup_remove_other : forall key tag m, key <> tag -> lookup key (remove_key tag m) = lookup key m.
Proof.
  unfold remove_key. induction m as [|[k' j] m IH]; cbn; intros H; [reflexivity|].
  destruct (str_eqb tag k') eqn:E; cbn.
  - apply str_eqb_eq in E. subst k'. destruct (str_eqb key tag) eqn:E2; [apply str_eqb_eq in E2; contradiction|]. apply IH; assumption.
  - destruct (str_eqb key k'); [reflexivity|apply IH; assumption].
Qed.

(* ------------------------------------------------------------------ hex *)
Lemma unhexdig_hexdig : forall n, 0 <= n < 16 -> unhexdig (hexdig n) = Some n.
Proof.
  intros n H. unfold hexdig, unhexdig.
  destruct (n <? 10) eqn:E; [apply Z.ltb_lt in E | apply Z.ltb_ge in E].
  - replace ((48 <=? 48 + n) && (48 + n <=? 57)) with true by (symmetry; apply andb_true_iff; split; apply Z.leb_le; lia).
    f_equal. lia.
  - replace ((48 <=? 87 + n) && (87 + n <=? 57)) with false
      by (symmetry; apply andb_false_iff; right; apply Z.leb_gt; lia).
    replace ((97 <=? 87 + n) && (87 + n <=? 102)) with true by (symmetry; apply andb_true_iff; split; apply Z.leb_le; lia).
    f_equal. lia.
Qed.

Lemma isbyte_range : forall z, isbyte z = true -> 0 <= z <= 255.
Proof. unfold isbyte. intros z H. apply andb_true_iff in H. destruct H as [A B]. apply Z.leb_le in A, B. lia. Qed.

Ltac Zify.zify_post_hook ::= Z.div_mod_to_equations.

Lemma unhex_hex : forall l, forallb isbyte l = true -> unhex (hex_of l) = Some l.
Proof.
  induction l as [|b l IH]; intros H; [reflexivity|].
  cbn [forallb] in H. apply andb_true_iff in H. destruct H as [Hb Hl]. apply isbyte_range in Hb.
  change (hex_of (b :: l)) with (hexdig (b / 16) :: hexdig (b mod 16) :: hex_of l).
  cbn [unhex]. rewrite !unhexdig_hexdig by lia. rewrite (IH Hl). f_equal. f_equal. lia.
Qed.

Lemma strip_prefix_app : forall p x, strip_prefix p (p ++ x) = Some x.
Proof. induction p; cbn; intros; [destruct x; reflexivity|]. rewrite Z.eqb_refl. apply IHp. Qed.

Lemma parse_hex_byte : forall z, isbyte z = true -> parse_hex_u8 (hex_byte z) = Some z.
Proof.
  intros z H. apply isbyte_range in H. unfold parse_hex_u8, hex_byte. cbn [radix16].
  rewrite !unhexdig_hexdig by lia.
  replace (16 * (16 * 0 + z / 16) + z mod 16) with z by lia.
  replace (z <=? 255) with true by (symmetry; apply Z.leb_le; lia). reflexivity.
Qed.

Lemma hex_of_length : forall l, List.length (hex_of l) = (2 * List.length l)%nat.
Proof. induction l; cbn; [reflexivity|]. fold (hex_of l). rewrite IHl. lia. Qed.

Lemma mapM_map : forall {A B} (f : A -> option B) (g : B -> A) (l : list B),
  (forall x, In x l -> f (g x) = Some x) -> mapM f (map g l) = Some l.
Proof.
  induction l; cbn; intros H; [reflexivity|]. rewrite (H a) by (left; reflexivity).
  rewrite IHl by (intros; apply H; right; assumption). reflexivity.
Qed.

(* ------------------------------------------------------------------ mutual induction over schemas *)
Scheme schema_mut := Induction for schema Sort Prop
  with fields_mut := Induction for fields Sort Prop
  with flist_mut := Induction for flist Sort Prop
  with variants_mut := Induction for variants Sort Prop
  with vshape_mut := Induction for vshape Sort Prop.

Definition is_unt (t : tagging) : bool := match t with TUntagged => true | _ => false end.

(* a schema that is not flagged by emits_null never serialises a conforming value to null *)
Definition Q (s : schema) := emits_null s = false -> forall v, conformsb s v = true -> ser s v <> JNull.
Definition Qv (vs : variants) := forall t i p, en_variants (is_unt t) vs = false ->
  conf_variants vs i p = true -> ser_variants t vs i p <> JNull.
Definition Qsh (sh : vshape) := match sh with ShNew s => Q s | _ => True end.

Ltac leaf_nonnull := intros; match goal with v : value |- _ => destruct v; cbn in *; congruence end.

Lemma nonnull_all : forall s, Q s.
Proof.
  apply (schema_mut Q (fun _ => True) (fun _ => True) Qv Qsh); unfold Q, Qv, Qsh.
  - (* SInt *) intros lo hi E v C. destruct v; cbn in *; congruence.
  - intros E v C. destruct v; cbn in *; congruence.
  - intros E v C. destruct v; cbn in *; congruence.
  - intros E v C. destruct v; cbn in *; congruence.
  - intros lo hi E v C. destruct v; cbn in *; congruence.
  - intros p E v C. destruct v; cbn in *; congruence.
  - (* SOpt *) intros s IH E. cbn in E. discriminate.
  - intros s IH E v C. destruct v; cbn in *; congruence.
  - intros n s IH E v C. destruct v; cbn in *; congruence.
  - intros E v C. destruct v; cbn in *; congruence.
  - (* SStruct *) intros regs _ flats _ any E v C. destruct v; cbn in *; congruence.
  - (* SEnum *) intros t vs IH E v C. destruct v; cbn [conformsb] in C; try discriminate. cbn [ser].
    apply andb_true_iff in C. destruct C as [C _]. apply IH; [|exact C]. cbn in E. destruct t; exact E.
  - (* SRefine *) intros p s IH E v C. cbn in E, C |- *. apply andb_true_iff in C. destruct C as [C _]. apply IH; assumption.
  - (* SNamed *) intros n s IH E v C. cbn in E, C |- *. apply IH; assumption.
  - exact I.
  - intros; exact I.
  - exact I.
  - intros; exact I.
  - (* VNil *) intros t i p E C. cbn in C. discriminate.
  - (* VCons *) intros name untag sh IHsh r IHr t i p E C.
    cbn [en_variants] in E. apply orb_false_iff in E. destruct E as [E1 E2].
    destruct i; cbn [conf_variants ser_variants] in *.
    + unfold wrap.
      assert (U : (is_unt t || untag) = true -> ser_shape sh p <> JNull /\ is_unit sh = false).
      { intro A. rewrite A in E1. cbn in E1. destruct sh; try discriminate.
        - split; [|reflexivity]. cbn. apply IHsh; assumption.
        - split; [|reflexivity]. cbn in C |- *. destruct p; try discriminate; try congruence. }
      destruct untag.
      * destruct U as [U1 U2]; [apply orb_true_r|]. rewrite U2. exact U1.
      * destruct t; try (destruct (is_unit sh); congruence).
        destruct U as [U1 U2]; [reflexivity|]. rewrite U2. exact U1.
    + apply IHr; assumption.
  - exact I.
  - intros s IH. exact IH.
  - intros; exact I.
Qed.

(* ------------------------------------------------------------------ keys of serialised structs *)
Lemma keys_ser_fields : forall fs l key, In key (map fst (ser_fields fs l)) -> In key (reg_keys fs).
Proof.
  induction fs as [|k0 sk d s r IH]; intros l key H; cbn in *; [contradiction|].
  destruct l as [|v l']; [contradiction|]. rewrite map_app, in_app_iff in H. destruct H as [H|H].
  - destruct (skipped sk v); cbn in H; [contradiction|]. destruct H as [H|[]]. left; exact H.
  - right. eapply IH; exact H.
Qed.

Definition agree (keys : list str) (M own : list (str * json)) : Prop :=
  forall key, In key keys -> lookup key M = lookup key own.

Lemma conf_fields_nil_flats : forall l, conf_flats FLNil l = true -> l = [].
Proof. destruct l; cbn; intros; [reflexivity|discriminate]. Qed.

Lemma nth_variant_conf : forall vs i p, conf_variants vs i p = true ->
  exists name untag sh, nth_variant vs i = Some (name, untag, sh) /\ conf_shape sh p = true.
Proof.
  induction vs as [|name untag sh r IH]; intros i p H; cbn in *; [discriminate|].
  destruct i; [exists name, untag, sh; split; [reflexivity|exact H] | apply IH; exact H].
Qed.

Lemma ser_variants_nth : forall t vs i p name untag sh, nth_variant vs i = Some (name, untag, sh) ->
  ser_variants t vs i p = wrap t name untag (is_unit sh) (ser_shape sh p).
Proof.
  induction vs as [|n u s r IH]; intros i p name untag sh H; cbn in *; [discriminate|].
  destruct i; [inversion H; subst; reflexivity | apply IH; exact H].
Qed.

Lemma no_untag_nth : forall vs i name untag sh, no_untag vs = true ->
  nth_variant vs i = Some (name, untag, sh) -> untag = false.
Proof.
  induction vs as [|n u s r IH]; intros i name untag sh H E; cbn in *; [discriminate|].
  apply andb_true_iff in H. destruct H as [H1 H2]. destruct i.
  - inversion E; subst. apply negb_true_iff in H1. exact H1.
  - eapply IH; eauto.
Qed.

Lemma wf_variants_nth : forall t vs i name untag sh, wf_variants t vs = true ->
  nth_variant vs i = Some (name, untag, sh) -> shape_ok t untag sh = true /\ wf_shape sh = true.
Proof.
  induction vs as [|n u s r IH]; intros i name untag sh H E; cbn in *; [discriminate|].
  apply andb_true_iff in H. destruct H as [H H3]. apply andb_true_iff in H. destruct H as [H1 H2].
  destruct i; [inversion E; subst; split; assumption | eapply IH; eauto].
Qed.

(* a flattened field only contributes keys from its static key set *)
Lemma keys_flat : forall s v key, flattenable s = true -> conformsb s v = true ->
  In key (map fst (members (ser s v))) -> In key (flat_keys s).
Proof.
  induction s; intros v key F C H; try (cbn in F; discriminate).
  - (* SStruct *) unfold flattenable in F. cbn in F. destruct flats; try discriminate. destruct any; try discriminate.
    destruct v; cbn in C; try discriminate. cbn in H |- *.
    repeat (apply andb_true_iff in C; destruct C as [C ?]).
    destruct extra; [|cbn in *; discriminate].
    apply conf_fields_nil_flats in H3. subst. cbn in H. rewrite ?app_nil_r in H. unfold flat_keys. cbn.
    eapply keys_ser_fields; exact H.
  - (* SEnum *) unfold flattenable in F. cbn in F. destruct t; try discriminate.
    destruct v; cbn [conformsb] in C; try discriminate. apply andb_true_iff in C. destruct C as [C _].
    destruct (nth_variant_conf _ _ _ C) as [name [untag [sh [E Cs]]]].
    cbn [ser] in H. rewrite (ser_variants_nth _ _ _ _ _ _ _ E) in H.
    rewrite (no_untag_nth _ _ _ _ _ F E) in H. unfold wrap in H. unfold flat_keys. cbn.
    destruct (is_unit sh); cbn in H; intuition.
  - (* SRefine *) cbn in C. apply andb_true_iff in C. destruct C as [C _]. apply (IHs v key F C H).
  - (* SNamed *) apply (IHs v key F C H).
Qed.

Lemma keys_ser_flats : forall fl l key, wf_flats fl = true -> conf_flats fl l = true ->
  In key (map fst (ser_flats fl l)) -> In key (flats_keys fl).
Proof.
  induction fl as [|s r IH]; intros l key W C H; cbn in *; [contradiction|].
  destruct l as [|v l']; [discriminate|].
  apply andb_true_iff in W. destruct W as [W W3]. apply andb_true_iff in W. destruct W as [W1 W2].
  apply andb_true_iff in C. destruct C as [C1 C2].
  rewrite map_app, in_app_iff in H. apply in_app_iff. destruct H as [H|H].
  - left. eapply keys_flat; eauto.
  - right. eapply IH; eauto.
Qed.

(* ------------------------------------------------------------------ variant selection *)
Lemma de_named_nth : forall vs i name sh ps, nodupb (tagged_names vs) = true ->
  nth_variant vs i = Some (name, false, sh) ->
  de_named vs name ps = match de_shape sh ps with Some p => Some (i, p) | None => None end.
Proof.
  induction vs as [|n u s r IH]; intros i name sh ps N E; cbn in *; [discriminate|].
  destruct i.
  - inversion E; subst. cbn. rewrite str_eqb_refl. reflexivity.
  - destruct u; cbn.
    + rewrite (IH i name sh ps N E). destruct (de_shape sh ps); reflexivity.
    + cbn in N. apply andb_true_iff in N. destruct N as [N1 N2].
      destruct (str_eqb n name) eqn:Q.
      * apply str_eqb_eq in Q. subst n. exfalso. apply negb_true_iff in N1.
        assert (In name (tagged_names r)).
        { clear -E. revert i E. induction r as [|n' u' s' r' IHr]; intros i E; cbn in *; [discriminate|].
          destruct i; [inversion E; subst; left; reflexivity|]. destruct u'; [eapply IHr; eauto | right; eapply IHr; eauto]. }
        apply mem_str_In in H. congruence.
      * rewrite (IH i name sh ps N2 E). destruct (de_shape sh ps); reflexivity.
Qed.

Lemma de_named_tagged : forall vs n ps i p, de_named vs n ps = Some (i, p) ->
  exists name sh, nth_variant vs i = Some (name, false, sh).
Proof.
  induction vs as [|n0 u s r IH]; intros n ps i p H; cbn in *; [discriminate|].
  destruct (negb u && str_eqb n0 n) eqn:Q.
  - destruct (de_shape s ps); [|discriminate]. inversion H; subst.
    apply andb_true_iff in Q. destruct Q as [Q _]. apply negb_true_iff in Q. subst. eauto.
  - destruct (de_named r n ps) as [[i' p']|] eqn:D; cbn in H; [|discriminate]. inversion H; subst.
    eapply IH; eauto.
Qed.

Definition de_alt (sh : vshape) (j : json) : option value :=
  match sh with
  | ShUnit => match j with JNull => Some VUnit | _ => None end
  | _ => de_shape sh (PJson j)
  end.

Lemma de_untag_nth : forall all vs j i p, de_untag all vs j = Some (i, p) ->
  exists name untag sh, nth_variant vs i = Some (name, untag, sh) /\ de_alt sh j = Some p.
Proof.
  induction vs as [|n0 u s r IH]; intros j i p H; cbn in *; [discriminate|].
  destruct (all || u).
  - destruct (match s with ShUnit => match j with JNull => Some VUnit | _ => None end | _ => de_shape s (PJson j) end) eqn:D.
    + inversion H; subst. exists n0, u, s. split; [reflexivity|]. exact D.
    + destruct (de_untag all r j) as [[i' p']|] eqn:D2; cbn in H; [|discriminate]. inversion H; subst.
      apply IH in D2. exact D2.
  - destruct (de_untag all r j) as [[i' p']|] eqn:D2; cbn in H; [|discriminate]. inversion H; subst.
    apply IH in D2. exact D2.
Qed.

(* ------------------------------------------------------------------ the round trip *)
Definition P (s : schema) : Prop := wf s = true ->
  (forall v, conformsb s v = true -> de s (ser s v) = Some v)
  /\ (flattenable s = true -> forall v M, conformsb s v = true ->
      agree (flat_keys s) M (members (ser s v)) -> de s (JObj M) = Some v).
Definition Pf (fs : fields) : Prop := wf_fields fs = true -> forall l M, conf_fields fs l = true ->
  nodupb (reg_keys fs) = true -> agree (reg_keys fs) M (ser_fields fs l) -> de_fields fs M = Some l.
Definition Pfl (fl : flist) : Prop := wf_flats fl = true -> forall l M, conf_flats fl l = true ->
  nodupb (flats_keys fl) = true -> agree (flats_keys fl) M (ser_flats fl l) -> de_flats fl M = Some l.
Definition Psh (sh : vshape) : Prop := match sh with ShUnit => True | ShNew s => P s | ShStruct fs => Pf fs end.
Definition Pv (vs : variants) : Prop := forall i name untag sh, nth_variant vs i = Some (name, untag, sh) -> Psh sh.

Lemma disjointb_spec : forall a b, disjointb a b = true -> forall x, In x a -> In x b -> False.
Proof.
  unfold disjointb. intros a b H x Ha Hb. rewrite forallb_forall in H. specialize (H x Ha).
  apply negb_true_iff in H. apply mem_str_In in Hb. congruence.
Qed.

Lemma filter_static : forall keys a ex, (forall key, In key (map fst a) -> In key keys) ->
  disjointb (map fst ex) keys = true ->
  filter (fun kv : str * json => negb (mem_str (fst kv) keys)) (a ++ ex) = ex.
Proof.
  intros keys a ex Ha Hex. rewrite filter_app.
  assert (A : filter (fun kv : str * json => negb (mem_str (fst kv) keys)) a = []).
  { induction a as [|[k0 j] a IH]; [reflexivity|]. cbn.
    assert (mem_str k0 keys = true) by (apply mem_str_In, Ha; left; reflexivity). rewrite H. cbn.
    apply IH. intros; apply Ha; right; assumption. }
  rewrite A. cbn.
  induction ex as [|[k0 j] ex IH]; [reflexivity|]. cbn in *. apply andb_true_iff in Hex. destruct Hex as [H1 H2].
  rewrite H1. cbn. f_equal. apply IH; assumption.
Qed.

Lemma in_keys_lookup : forall key m, lookup key m = None -> ~ In key (map fst m).
Proof.
  induction m as [|[k0 j] m IH]; cbn; intros H; [tauto|].
  destruct (str_eqb key k0) eqn:E; [discriminate|]. intros [A|A].
  - subst. rewrite str_eqb_refl in E. discriminate.
  - apply IH; assumption.
Qed.

Lemma lookup_some_in : forall key m j, lookup key m = Some j -> In key (map fst m).
Proof.
  induction m as [|[k0 j0] m IH]; cbn; intros j H; [discriminate|].
  destruct (str_eqb key k0) eqn:E; [apply str_eqb_eq in E; left; auto | right; eapply IH; eauto].
Qed.

(* a struct deserialised out of any object that agrees with its own members on its static keys *)
Lemma struct_ctx : forall regs flats any lr lf ex M,
  Pf regs -> Pfl flats -> wf (SStruct regs flats any) = true ->
  conformsb (SStruct regs flats any) (VStruct lr lf ex) = true ->
  agree (reg_keys regs ++ flats_keys flats) M (ser_fields regs lr ++ ser_flats flats lf) ->
  (any = true -> filter (fun kv : str * json => negb (mem_str (fst kv) (reg_keys regs ++ flats_keys flats))) M = ex) ->
  de (SStruct regs flats any) (JObj M) = Some (VStruct lr lf ex).
Proof.
  intros regs flats any lr lf ex M HPf HPfl W C A Fx.
  cbn [wf] in W. apply andb_true_iff in W. destruct W as [W W3]. apply andb_true_iff in W. destruct W as [W1 W2].
  cbn [conformsb] in C.
  apply andb_true_iff in C. destruct C as [C C5]. apply andb_true_iff in C. destruct C as [C C4].
  apply andb_true_iff in C. destruct C as [C C3]. apply andb_true_iff in C. destruct C as [C1 C2].
  destruct (nodupb_app _ _ W3) as [N1 [N2 N3]].
  cbn [de].
  rewrite (HPf W1 lr M C1 N1).
  2:{ intros key Hk. rewrite (A key) by (apply in_app_iff; left; exact Hk). rewrite lookup_app.
      destruct (lookup key (ser_fields regs lr)) eqn:L; [reflexivity|].
      apply lookup_none. intro Hin. apply (N3 key Hk). eapply keys_ser_flats; eauto. }
  rewrite (HPfl W2 lf M C2 N2).
  2:{ intros key Hk. rewrite (A key) by (apply in_app_iff; right; exact Hk). rewrite lookup_app.
      rewrite lookup_none; [reflexivity|]. intro Hin. apply (N3 key); [|exact Hk]. eapply keys_ser_fields; eauto. }
  destruct any.
  - rewrite Fx by reflexivity. reflexivity.
  - cbn in C3. destruct ex; [reflexivity|discriminate].
Qed.

Lemma conf_shape_unit : forall p, conf_shape ShUnit p = true -> p = VUnit.
Proof. intros p H. cbn in H. destruct p; try discriminate. destruct regs, flats, extra; try discriminate. reflexivity. Qed.

(* payload of variant `sh`, given the variant's induction hypothesis *)
Lemma shape_new : forall s p, Psh (ShNew s) -> wf_shape (ShNew s) = true -> conf_shape (ShNew s) p = true ->
  de s (ser s p) = Some p.
Proof. intros s p H W C. cbn in *. apply H; assumption. Qed.

Lemma shape_struct : forall fs p M, Psh (ShStruct fs) -> wf_shape (ShStruct fs) = true ->
  conf_shape (ShStruct fs) p = true -> agree (reg_keys fs) M (members (ser_shape (ShStruct fs) p)) ->
  de_shape (ShStruct fs) (PJson (JObj M)) = Some p.
Proof.
  intros fs p M H W C A. cbn in W, C. apply andb_true_iff in W. destruct W as [W1 W2].
  destruct p; try discriminate. destruct flats; try discriminate. destruct extra; try discriminate.
  cbn in A |- *. rewrite (H W1 regs M C W2 A). reflexivity.
Qed.

Lemma agree_refl : forall keys m, agree keys m m.
Proof. intros keys m key _. reflexivity. Qed.

(* adjacently tagged, in context *)
Lemma adj_ctx : forall tag c vs i p M name sh,
  Pv vs -> wf (SEnum (TAdj tag c) vs) = true ->
  nth_variant vs i = Some (name, false, sh) -> conf_shape sh p = true ->
  agree [tag; c] M (members (ser (SEnum (TAdj tag c) vs) (VEnum i p))) ->
  de (SEnum (TAdj tag c) vs) (JObj M) = Some (VEnum i p).
Proof.
  intros tag c vs i p M name sh HPv W E Cs A.
  cbn [wf] in W. apply andb_true_iff in W. destruct W as [W1 W2].
  destruct (wf_variants_nth _ _ _ _ _ _ W1 E) as [Sok Wsh]. cbn in Sok. apply negb_true_iff in Sok.
  cbn [ser] in A. rewrite (ser_variants_nth _ _ _ _ _ _ _ E) in A. unfold wrap in A. cbn [members] in A.
  assert (At := A tag (or_introl eq_refl)). assert (Ac := A c (or_intror (or_introl eq_refl))).
  cbn [lookup] in At, Ac. rewrite str_eqb_refl in At. rewrite str_eqb_sym, Sok in Ac.
  cbn [de]. rewrite At. rewrite (de_named_nth _ _ _ _ _ W2 E).
  specialize (HPv _ _ _ _ E).
  destruct sh as [|s|fs]; cbn [is_unit] in Ac.
  - cbn [de_shape]. apply conf_shape_unit in Cs. subst. reflexivity.
  - cbn [lookup] in Ac. rewrite str_eqb_refl in Ac. rewrite Ac. cbn [de_shape ser_shape].
    rewrite (shape_new _ _ HPv Wsh Cs). reflexivity.
  - cbn [lookup] in Ac. rewrite str_eqb_refl in Ac. rewrite Ac.
    assert (Cs' := Cs). cbn in Cs'. destruct p; try discriminate. cbn [ser_shape].
    rewrite (shape_struct fs _ _ HPv Wsh Cs); [reflexivity|]. cbn. apply agree_refl.
Qed.

Definition tagged_of (t : tagging) (vs : variants) (j : json) : option (nat * value) :=
  match t with
  | TUntagged => None
  | TExt =>
      match j with
      | JStr n => de_named vs n PNone
      | JObj [(n, pj)] => de_named vs n (PJson pj)
      | _ => None
      end
  | TInt tag =>
      match j with
      | JObj m => match lookup tag m with
                  | Some (JStr n) => de_named vs n (PJson (JObj (remove_key tag m)))
                  | _ => None
                  end
      | _ => None
      end
  | TAdj tag c =>
      match j with
      | JObj m => match lookup tag m with
                  | Some (JStr n) =>
                      de_named vs n (match lookup c m with Some pj => PJson pj | None => PNone end)
                  | _ => None
                  end
      | _ => None
      end
  end.

Lemma de_enum_unfold : forall t vs j,
  de (SEnum t vs) j =
  match tagged_of t vs j with
  | Some (i, p) => Some (VEnum i p)
  | None => match de_untag (is_unt t) vs j with Some (i, p) => Some (VEnum i p) | None => None end
  end.
Proof. intros. destruct t; reflexivity. Qed.

Lemma tagged_of_tagged : forall t vs j i p, tagged_of t vs j = Some (i, p) ->
  t <> TUntagged /\ exists name sh, nth_variant vs i = Some (name, false, sh).
Proof.
  intros t vs j i p H. destruct t; cbn in H; try discriminate; (split; [discriminate|]).
  - destruct j; try discriminate; [eapply de_named_tagged; eauto|].
    destruct m as [|[n pj] [|]]; try discriminate. eapply de_named_tagged; eauto.
  - destruct j; try discriminate. destruct (lookup tag m) as [[]|]; try discriminate. eapply de_named_tagged; eauto.
  - destruct j; try discriminate. destruct (lookup tag m) as [[]|]; try discriminate. eapply de_named_tagged; eauto.
Qed.

Lemma wrap_untagged : forall t name untag unit pj, (untag = true \/ t = TUntagged) ->
  wrap t name untag unit pj = if unit then JNull else pj.
Proof. intros t name untag unit pj [H|H]; subst; unfold wrap; [reflexivity|]. destruct untag; reflexivity. Qed.

Ltac noflat := let F := fresh in intro F; unfold flattenable in F; cbn in F; discriminate.

Lemma roundtrip_all : forall s, P s.
Proof.
  apply (schema_mut P Pf Pfl Pv Psh); unfold P, Pf, Pfl, Pv.
  - (* SInt *) intros lo hi _. split; [|noflat]. intros v C. destruct v; cbn in C; try discriminate. cbn. rewrite C. reflexivity.
  - intros _. split; [|noflat]. intros v C. destruct v; cbn in C; try discriminate. reflexivity.
  - intros _. split; [|noflat]. intros v C. destruct v; cbn in C; try discriminate. reflexivity.
  - intros _. split; [|noflat]. intros v C. destruct v; cbn in C; try discriminate. reflexivity.
  - (* SHex *) intros lo hi _. split; [|noflat]. intros v C. destruct v; cbn [conformsb] in C; try discriminate.
    apply andb_true_iff in C. destruct C as [C1 C2]. cbn [ser de]. rewrite (unhex_hex _ C1), C2. reflexivity.
  - (* SHexSuffix *) intros p _. split; [|noflat]. intros v C. destruct v; cbn [conformsb] in C; try discriminate.
    cbn [ser de]. rewrite strip_prefix_app, (parse_hex_byte _ C). reflexivity.
  - (* SOpt *) intros s IH W. cbn [wf] in W. apply andb_true_iff in W. destruct W as [W1 W2]. apply negb_true_iff in W2.
    split; [|noflat]. intros v C. destruct v; cbn [conformsb] in C; try discriminate; [reflexivity|].
    pose proof (nonnull_all s W2 v C) as NN. pose proof (proj1 (IH W1) v C) as R. cbn [ser de].
    destruct (ser s v) eqn:E; [congruence| | | | | |]; rewrite R; reflexivity.
  - (* SSeq *) intros s IH W. cbn [wf] in W. split; [|noflat]. intros v C. destruct v; cbn [conformsb] in C; try discriminate.
    cbn [ser de]. rewrite mapM_map; [reflexivity|]. intros x Hx. rewrite forallb_forall in C. apply (proj1 (IH W)). apply C; exact Hx.
  - (* SArr *) intros n s IH W. cbn [wf] in W. split; [|noflat]. intros v C. destruct v; cbn [conformsb] in C; try discriminate.
    apply andb_true_iff in C. destruct C as [C1 C2]. cbn [ser de]. rewrite map_length, C1.
    rewrite mapM_map; [reflexivity|]. intros x Hx. rewrite forallb_forall in C2. apply (proj1 (IH W)). apply C2; exact Hx.
  - (* SAny *) intros _. split; [|noflat]. intros v C. destruct v; cbn in C; try discriminate. reflexivity.
  - (* SStruct *) intros regs IHf flats IHfl any W. split.
    + intros v C. destruct v as [z|z|b|x|l| |v|l|lr lf ex|i p|m]; try (cbn in C; discriminate).
      cbn [ser]. apply struct_ctx; try assumption.
      * assert (C' := C). cbn [conformsb] in C'. apply andb_true_iff in C'. destruct C' as [_ C5].
        intros key Hk. rewrite app_assoc, lookup_app.
        destruct (lookup key (ser_fields regs lr ++ ser_flats flats lf)) eqn:L; [reflexivity|].
        apply lookup_none. intro Hin. exact (disjointb_spec _ _ C5 key Hin Hk).
      * intros _. rewrite app_assoc. apply filter_static.
        -- intros key Hk. rewrite map_app, in_app_iff in Hk. apply in_app_iff. destruct Hk as [Hk|Hk].
           ++ left. eapply keys_ser_fields; eauto.
           ++ right. cbn [wf] in W. apply andb_true_iff in W. destruct W as [W _]. apply andb_true_iff in W. destruct W as [_ W2].
              cbn [conformsb] in C. repeat (apply andb_true_iff in C; destruct C as [C ?]).
              eapply keys_ser_flats; eauto.
        -- cbn [conformsb] in C. apply andb_true_iff in C. destruct C as [_ C5]. exact C5.
    + intros F v M C A. unfold flattenable in F. cbn in F. destruct flats; try discriminate. destruct any; try discriminate.
      destruct v as [z|z|b|x|l| |v|l|lr lf ex|i p|m]; try (cbn in C; discriminate).
      assert (C' := C). cbn [conformsb] in C'. repeat (apply andb_true_iff in C'; destruct C' as [C' ?]).
      destruct ex; [|cbn in *; discriminate]. apply conf_fields_nil_flats in H2. subst lf.
      apply struct_ctx; try assumption; [|discriminate].
      unfold flat_keys in A. cbn in A. rewrite !app_nil_r in *. exact A.
  - (* SEnum *) intros t vs IH W.
    assert (W' := W). cbn [wf] in W'. apply andb_true_iff in W'. destruct W' as [W1 W2].
    split.
    + intros v C. destruct v; try (cbn in C; discriminate).
      cbn [conformsb] in C. apply andb_true_iff in C. destruct C as [C1 C2].
      destruct (nth_variant_conf _ _ _ C1) as [name [untag [sh [E Cs]]]].
      destruct (wf_variants_nth _ _ _ _ _ _ W1 E) as [Sok Wsh].
      pose proof (IH _ _ _ _ E) as HP.
      destruct (is_untag_variant t vs i) eqn:U.
      * (* an untagged alternative: the selection is the side condition, the payload round-trips *)
        unfold selected in C2. destruct (de (SEnum t vs) (ser (SEnum t vs) (VEnum i v))) as [w|] eqn:D; [|discriminate].
        destruct w as [z|z|b|x|l| |w|l|lr lf ex|i0 p0|m]; try discriminate. apply Nat.eqb_eq in C2. subst i0. f_equal. f_equal.
        rewrite de_enum_unfold in D.
        assert (UK : untag = true \/ t = TUntagged).
        { unfold is_untag_variant in U. destruct t; try (rewrite E in U; left; exact U); right; reflexivity. }
        destruct (tagged_of t vs (ser (SEnum t vs) (VEnum i v))) as [[i1 p1]|] eqn:T.
        -- exfalso. inversion D; subst. apply tagged_of_tagged in T. destruct T as [T1 [n' [sh' T2]]].
           rewrite E in T2. inversion T2; subst. destruct UK; [discriminate|contradiction].
        -- destruct (de_untag (is_unt t) vs (ser (SEnum t vs) (VEnum i v))) as [[i1 p1]|] eqn:DU; [|discriminate].
           inversion D; subst. apply de_untag_nth in DU. destruct DU as [n' [u' [sh' [E' DA]]]].
           rewrite E in E'. inversion E'; subst. cbn [ser] in DA. rewrite (ser_variants_nth _ _ _ _ _ _ _ E) in DA.
           rewrite (wrap_untagged _ _ _ _ _ UK) in DA.
           destruct sh' as [|s|fs]; cbn [is_unit de_alt] in DA.
           ++ apply conf_shape_unit in Cs. inversion DA; subst. reflexivity.
           ++ cbn [de_shape ser_shape] in DA. rewrite (shape_new _ _ HP Wsh Cs) in DA. inversion DA; reflexivity.
           ++ assert (Cs' := Cs). cbn in Cs'. destruct v; try discriminate. cbn [ser_shape] in DA.
              rewrite (shape_struct fs _ _ HP Wsh Cs) in DA; [inversion DA; reflexivity|]. cbn. apply agree_refl.
      * (* a tagged variant *)
        assert (untag = false /\ t <> TUntagged) as [Uf Tn].
        { unfold is_untag_variant in U. destruct t; try (rewrite E in U; split; [exact U|discriminate]). discriminate. }
        subst untag. rewrite de_enum_unfold.
        assert (T : tagged_of t vs (ser (SEnum t vs) (VEnum i v)) = Some (i, v)); [|rewrite T; reflexivity].
        cbn [ser]. rewrite (ser_variants_nth _ _ _ _ _ _ _ E). unfold wrap.
        destruct t; [| | |contradiction].
        -- cbn in Sok. destruct sh; try discriminate. cbn [is_unit tagged_of].
           rewrite (de_named_nth _ _ _ _ _ W2 E). cbn. apply conf_shape_unit in Cs. subst. reflexivity.
        -- cbn [tagged_of lookup]. rewrite str_eqb_refl. rewrite (de_named_nth _ _ _ _ _ W2 E).
           destruct sh as [|s|fs]; cbn in Sok; try discriminate.
           ++ cbn. apply conf_shape_unit in Cs. subst. reflexivity.
           ++ apply negb_true_iff in Sok. cbn [is_unit].
              rewrite (shape_struct fs v _ HP Wsh Cs); [reflexivity|].
              intros key Hk. assert (key <> tag) by (intro; subst; apply mem_str_In in Hk; congruence).
              rewrite lookup_remove_other by assumption. cbn [lookup].
              destruct (str_eqb key tag) eqn:Q; [apply str_eqb_eq in Q; contradiction|reflexivity].
        -- cbn [tagged_of lookup]. rewrite str_eqb_refl. rewrite (de_named_nth _ _ _ _ _ W2 E).
           cbn in Sok. apply negb_true_iff in Sok. rewrite (str_eqb_sym content tag), Sok.
           destruct sh as [|s|fs]; cbn [is_unit lookup].
           ++ cbn. apply conf_shape_unit in Cs. subst. reflexivity.
           ++ rewrite str_eqb_refl. cbn [de_shape ser_shape]. rewrite (shape_new _ _ HP Wsh Cs). reflexivity.
           ++ rewrite str_eqb_refl. assert (Cs' := Cs). cbn in Cs'.
              destruct v as [z|z|b|x|l| |v|l|lr lf ex|i0 p0|m]; try discriminate. cbn [ser_shape].
              rewrite (shape_struct fs _ _ HP Wsh Cs); [reflexivity|]. cbn. apply agree_refl.
    + intros F v M C A. unfold flattenable in F. cbn in F. destruct t; try discriminate.
      destruct v; try (cbn in C; discriminate).
      cbn [conformsb] in C. apply andb_true_iff in C. destruct C as [C1 _].
      destruct (nth_variant_conf _ _ _ C1) as [name [untag [sh [E Cs]]]].
      pose proof (no_untag_nth _ _ _ _ _ F E). subst untag.
      eapply adj_ctx; eauto.
  - (* SRefine *) intros p s IH W. cbn [wf] in W. destruct (IH W) as [R1 R2]. split.
    + intros v C. cbn [conformsb] in C. apply andb_true_iff in C. destruct C as [C1 C2].
      cbn [ser de]. rewrite (R1 v C1), C2. reflexivity.
    + intros F v M C A. cbn [conformsb] in C. apply andb_true_iff in C. destruct C as [C1 C2].
      cbn [de]. rewrite (R2 F v M C1 A), C2. reflexivity.
  - (* SNamed *) intros n s IH W. cbn [wf] in W. destruct (IH W) as [R1 R2]. split.
    + intros v C. exact (R1 v C).
    + intros F v M C A. exact (R2 F v M C A).
  - (* FNil *) intros _ l M C _ _. destruct l; [reflexivity|discriminate].
  - (* FCons *) intros key sk d s IHs r IHr W l M C N A.
    cbn [wf_fields] in W. apply andb_true_iff in W. destruct W as [W1 W2].
    destruct l as [|v l']; [discriminate|]. cbn [conf_fields] in C.
    apply andb_true_iff in C. destruct C as [C C3]. apply andb_true_iff in C. destruct C as [C1 C2].
    cbn [reg_keys nodupb] in N. apply andb_true_iff in N. destruct N as [N1 N2]. apply negb_true_iff in N1.
    assert (Hnot : ~ In key (reg_keys r)) by (intro X; apply mem_str_In in X; congruence).
    cbn [de_fields].
    rewrite (IHr W2 l' M C3 N2).
    2:{ intros key' Hk. rewrite (A key') by (right; exact Hk). cbn [ser_fields]. rewrite lookup_app.
        assert (key' <> key) by (intro; subst; contradiction).
        destruct (skipped sk v); cbn [lookup]; [reflexivity|].
        destruct (str_eqb key' key) eqn:Q; [apply str_eqb_eq in Q; contradiction|reflexivity]. }
    rewrite (A key) by (left; reflexivity). cbn [ser_fields]. rewrite lookup_app.
    destruct (skipped sk v) eqn:SK.
    + cbn [lookup]. rewrite lookup_none by (intro X; apply Hnot; eapply keys_ser_fields; eauto).
      try rewrite SK in C2. cbn [negb] in C2. rewrite orb_false_r in C2.
      assert (missing d s = Some v); [|rewrite H; reflexivity].
      unfold skipped in SK. unfold skip_ok in C2. destruct sk; try discriminate.
      * destruct v; try discriminate. destruct s; try discriminate. destruct d as [[]|]; try discriminate; reflexivity.
      * destruct v; try discriminate.
        -- destruct l; try discriminate. destruct s; try discriminate; cbn in C1; try discriminate.
           destruct d as [[]|]; try discriminate. destruct l; try discriminate. reflexivity.
        -- destruct m; try discriminate. destruct s; try discriminate; cbn in C1; try discriminate.
           destruct d as [[]|]; try discriminate. destruct m; try discriminate. reflexivity.
    + cbn [lookup]. rewrite str_eqb_refl. rewrite (proj1 (IHs W1) v C1). reflexivity.
  - (* FLNil *) intros _ l M C _ _. destruct l; [reflexivity|discriminate].
  - (* FLCons *) intros s IHs r IHr W l M C N A.
    cbn [wf_flats] in W. apply andb_true_iff in W. destruct W as [W W3]. apply andb_true_iff in W. destruct W as [W1 W2].
    destruct l as [|v l']; [discriminate|]. cbn [conf_flats] in C. apply andb_true_iff in C. destruct C as [C1 C2].
    cbn [flats_keys] in N. destruct (nodupb_app _ _ N) as [N1 [N2 N3]].
    cbn [de_flats].
    rewrite (proj2 (IHs W1) W2 v M C1).
    2:{ intros key Hk. rewrite (A key) by (apply in_app_iff; left; exact Hk). cbn [ser_flats]. rewrite lookup_app.
        destruct (lookup key (members (ser s v))) eqn:L; [reflexivity|].
        apply lookup_none. intro Hin. apply (N3 key Hk). eapply keys_ser_flats; eauto. }
    rewrite (IHr W3 l' M C2 N2); [reflexivity|].
    intros key Hk. rewrite (A key) by (apply in_app_iff; right; exact Hk). cbn [ser_flats]. rewrite lookup_app.
    rewrite lookup_none; [reflexivity|]. intro Hin. apply (N3 key); [|exact Hk]. eapply keys_flat; eauto.
  - (* VNil *) intros i name untag sh E. cbn in E. discriminate.
  - (* VCons *) intros name untag sh IHsh r IHr i name' untag' sh' E. destruct i; cbn in E.
    + inversion E; subst. exact IHsh.
    + eapply IHr; eauto.
  - exact I.
  - intros s IH. exact IH.
  - intros fs IH. exact IH.
Qed.

Lemma p_c20_roundtrip : forall s v, wf s = true -> conformsb s v = true -> de s (ser s v) = Some v.
Proof. intros s v W C. exact (proj1 (roundtrip_all s W) v C). Qed.
