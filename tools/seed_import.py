#!/usr/bin/env python3
"""seed_import.py <prop> <mutdir> <K> [--checks C05,C03] : imports a sub-agent's seeded change into seeded/<prop>-<K>/"""
import json, os, re, shutil, sys
ROOT = os.path.dirname(os.path.dirname(os.path.abspath(__file__)))
prop, mut, k = sys.argv[1], sys.argv[2].rstrip("/"), sys.argv[3]
checks = [prop]
if "--checks" in sys.argv:
    checks = sys.argv[sys.argv.index("--checks") + 1].split(",")
tag = sys.argv[sys.argv.index("--tag") + 1] if "--tag" in sys.argv else k
d = os.path.join(ROOT, "seeded", "%s-%s" % (prop, tag))
os.makedirs(d, exist_ok=True)
shutil.copy(os.path.join(mut, "out", "change%s.diff" % k), os.path.join(d, "patch.diff"))
md = os.path.join(mut, "out", "change%s.md" % k)
notes = open(md).read() if os.path.exists(md) else ""
open(os.path.join(d, "notes.md"), "w").write(notes)
demo = os.path.join(mut, "out", "demo%s" % k)
dd = os.path.join(d, "demo")
if os.path.isdir(dd):
    shutil.rmtree(dd)
if os.path.isdir(demo):
    shutil.copytree(demo, dd, ignore=shutil.ignore_patterns("target", "*.lock", "Cargo.lock"))
conf = {}
log = os.path.join(mut, "out", "confirm%s.log" % k)
if os.path.exists(log):
    txt = open(log).read()
    m = re.search(r"RESULT .* baseline_demo_rc=(\d+) changed_demo_rc=(\d+) crate_tests_rc=(\d+)", txt)
    if m:
        conf = {"baseline_demo_rc": int(m.group(1)), "changed_demo_rc": int(m.group(2)), "crate_tests_rc": int(m.group(3))}
files = re.findall(r"^\+\+\+ b/(\S+)", open(os.path.join(d, "patch.diff")).read(), re.M)
meta = {"property": prop, "id": "%s-%s" % (prop, tag), "files": files, "checks": checks,
        "origin": "written by a fresh sub-agent that saw only the property text and a scratch worktree (%s)" % mut,
        "needs_to_manifest": "", "what_breaks": "",
        "confirmed_by_me": conf,
        "how_confirmed": "patch applied in the scratch worktree; the agent's demo run without the change (rc %s) and with it (rc %s); `cargo test -p <crate> --offline --lib` with the change (rc %s)" % (
            conf.get("baseline_demo_rc"), conf.get("changed_demo_rc"), conf.get("crate_tests_rc"))}
# pull the two descriptive fields out of the agent's notes when they follow the usual headings
for key, pats in (("what_breaks", [r"(?is)(?:which clause|what (?:it )?breaks|clause broken)[^\n]*\n+(.+?)(?:\n#|\n\*\*|\n\n\n|$)"]),
                  ("needs_to_manifest", [r"(?is)(?:what it needs|needs (?:in order )?to manifest|trigger)[^\n]*\n+(.+?)(?:\n#|\n\*\*|\n\n\n|$)"])):
    for pat in pats:
        m = re.search(pat, notes)
        if m:
            meta[key] = " ".join(m.group(1).split())[:600]
            break
json.dump(meta, open(os.path.join(d, "meta.json"), "w"), indent=1)
print(d, conf)
